import Proofs.CrashStart

/-!
# The wedged node (C04): chain height one above the state height

This is what a crash after `SetHeight` and before `UpdateState` leaves behind.  `start` does not repair it, and
no production step ever succeeds again: the block built (or re-used) at `height + 1` has height
`state height + 2` and fails `execValidate` ("invalid height").
-/
namespace Producer
open Wire Chain

/-- recorded chain height = recorded state height + 1 (and whatever waits at `height + 1` is labelled with that
height, as every block the node saves there is) -/
structure Wedged (n : Node) : Prop where
  ahead : n.store.height = n.lastState.lastHeight + 1
  pend : ∀ pb, n.store.getBlock (n.store.height + 1) = some pb → pb.sh.hdr.height = n.store.height + 1

theorem finish_wedged {c : Cfg} {n : Node} (hw : Wedged n) (ws : List SW) (sh : SHeader) (d : Data) (ldh : Bytes)
    (ex : ExecResp) (hh : sh.hdr.height = n.store.height + 1) :
    ∃ o, finish c n ws sh d ldh ex = (n, ws, o) ∧ o ≠ .ok := by
  unfold finish
  cases ex with
  | fail => exact ⟨_, rfl, by simp⟩
  | ok =>
    simp only
    split
    · exact ⟨_, rfl, by simp⟩
    · rename_i hv
      exfalso
      obtain ⟨_, _, _, _, _, _, hht, _, _⟩ := execValidate_none hv
      simp only [signed] at hht
      have := hw.ahead
      omega

theorem buildAndFinish_wedged {c : Cfg} {n0 : Node} (hw0 : Wedged n0) (w0 : SW) (ls : Sig) (lhh ldh : Bytes)
    (txs : List Bytes) (ts : Nat) (e : ExecResp) :
    (buildAndFinish c n0 w0 ls lhh ldh txs ts e).2.2 ≠ .ok ∧ Wedged (buildAndFinish c n0 w0 ls lhh ldh txs ts e).1 ∧
    (buildAndFinish c n0 w0 ls lhh ldh txs ts e).1.store.height = n0.store.height ∧
    (buildAndFinish c n0 w0 ls lhh ldh txs ts e).1.lastState = n0.lastState := by
  unfold buildAndFinish
  simp only
  obtain ⟨f1, _⟩ := createBlock_facts c n0.lastState (n0.store.height + 1) ls lhh txs ts
  generalize createBlock c n0.lastState (n0.store.height + 1) ls lhh txs ts = blk at f1 ⊢
  have hw1 : Wedged { n0 with store := n0.store.apply (.saveBlock (n0.store.height + 1) (Block.mk blk.1 blk.2 .none)) } := by
    refine ⟨hw0.ahead, ?_⟩
    intro pb hpb
    have : (n0.store.apply (.saveBlock (n0.store.height + 1) (Block.mk blk.1 blk.2 .none))).getBlock (n0.store.height + 1) = some pb := hpb
    rw [getBlock_saveBlock_same] at this
    simp only [Option.some.injEq] at this
    subst this
    exact f1
  obtain ⟨o, ho, hne⟩ := finish_wedged (c := c) hw1 [w0,
    .saveBlock (n0.store.height + 1) (Block.mk blk.1 blk.2 .none)] blk.1 blk.2 ldh e f1
  rw [ho]
  exact ⟨hne, hw1, rfl, rfl⟩

/-- **a wedged node stays wedged and no step succeeds**: whatever the sequencing and execution layers answer, the
outcome is not `ok`, chain height and state stay what they are -/
theorem publish_wedged {c : Cfg} {n : Node} (hw : Wedged n) (r : SeqResp) (e : ExecResp) :
    (publish c n r e).2.2 ≠ .ok ∧ Wedged (publish c n r e).1 ∧
    (publish c n r e).1.store.height = n.store.height ∧ (publish c n r e).1.lastState = n.lastState := by
  unfold publish
  split
  · exact ⟨by simp, hw, rfl, rfl⟩
  · split
    · exact ⟨by simp, hw, rfl, rfl⟩
    · split
      · rename_i pb hpb
        obtain ⟨o, ho, hne⟩ := finish_wedged (c := c) hw [] pb.sh pb.data (by assumption) e (hw.pend pb hpb)
        rw [ho]; exact ⟨hne, hw, rfl, rfl⟩
      · unfold fresh
        cases r with
        | err => exact ⟨by simp, hw, rfl, rfl⟩
        | absent => exact ⟨by simp, hw, rfl, rfl⟩
        | batch txs ts bd =>
          simp only
          have hw0 : Wedged { n with store := n.store.apply (.setMeta lastBatchDataKey (batchDataToBytes bd)), lastBatchData := bd } :=
            ⟨hw.ahead, hw.pend⟩
          split
          · exact ⟨by simp, hw0, rfl, rfl⟩
          · split
            · exact ⟨by simp, hw0, rfl, rfl⟩
            · exact buildAndFinish_wedged hw0 _ _ _ _ txs ts e

/-- for ever: along any run of steps the node stays wedged at the same height -/
theorem run_wedged {c : Cfg} {n : Node} (hw : Wedged n) (rs : List (SeqResp × ExecResp)) :
    Wedged (run c n rs) ∧ (run c n rs).store.height = n.store.height := by
  induction rs generalizing n with
  | nil => exact ⟨hw, rfl⟩
  | cons r rs ih =>
    obtain ⟨_, h2, h3, _⟩ := publish_wedged (c := c) hw r.1 r.2
    obtain ⟨a, b⟩ := ih h2
    exact ⟨a, by rw [← h3]; exact b⟩

/-- `start` does not repair an image whose chain height is one above the saved state's height: it succeeds,
writes nothing, and hands back a wedged node -/
theorem start_wedged {c : Cfg} {d : Store} {s : State} (hst : d.state = some s) (hge : c.initialHeight ≤ s.lastHeight)
    (hh : d.height = s.lastHeight + 1) (hwm : WmOK d)
    (hp : ∀ pb, d.getBlock (d.height + 1) = some pb → pb.sh.hdr.height = d.height + 1) :
    ∃ n, start c d = .ok (n, []) ∧ Wedged n ∧ n.store = d := by
  obtain ⟨⟨w1, hw1⟩, ⟨w2, hw2⟩⟩ := hwm
  have hnw : setHeightW d s.lastHeight = [] := by simp [setHeightW, hh]
  refine ⟨{ store := d, lastState := s, lastBatchData := ((d.getMeta lastBatchDataKey).bind bytesToBatchData).getD [],
            hdrWm := w1, dataWm := w2, daHeight := s.daHeight }, ?_, ⟨hh, hp⟩, rfl⟩
  unfold start
  simp only [hst]
  have hng : ¬ c.initialHeight > s.lastHeight := by omega
  simp only [hng, ↓reduceIte, hnw, applyAll_nil, hw1, hw2]
  simp

/-- **the bad cut always wedges** a node that had a state saved: for every committing step of a node in sync
with its image, the image after all writes but the last (`updateState`) restarts into a wedged node -/
theorem badcut_wedges {c : Cfg} {n : Node} (hi : Inv c n) (hs : n.store.state = some n.lastState)
    (hge : c.initialHeight ≤ n.lastState.lastHeight) (hw : WmOK n.store) (r : SeqResp) (e : ExecResp)
    (hok : (publish c n r e).2.2 = .ok) :
    badCut ((publish c n r e).2.1.length - 1) (publish c n r e).2.1 = true ∧
    ∃ m, start c (n.store.applyPrefix ((publish c n r e).2.1.length - 1) (publish c n r e).2.1) = .ok (m, []) ∧
      Wedged m := by
  obtain ⟨pre, hpre, hsh⟩ := publish_shape hi r e
  have hd := dinv_of_node hi (Or.inl ⟨hs, hge⟩) hw
  obtain ⟨_, a2, a3, a4⟩ := harmless_applyAll hd hpre
  rcases hsh with ⟨_, _, _, b4⟩ | ⟨st', _, b2, _, _, _⟩
  · exact absurd hok b4
  · rw [b2]
    have hlen : (pre ++ commitTail n.store.height st').length - 1 = pre.length + 1 := by simp [commitTail]
    rw [hlen]
    refine ⟨by simp [badCut, commitTail, List.take_append, isSetHeight], ?_⟩
    have himg : n.store.applyPrefix (pre.length + 1) (pre ++ commitTail n.store.height st') =
        (n.store.applyAll pre).apply (.setHeight (n.store.height + 1)) := by
      simp [Store.applyPrefix, List.take_append, commitTail, Store.applyAll, List.take_of_length_le]
    rw [himg]
    have hhe : ((n.store.applyAll pre).apply (.setHeight (n.store.height + 1))).height = n.store.height + 1 := by
      rw [height_setHeight, a2]; simp
    obtain ⟨m, hm, hwd, _⟩ := start_wedged (c := c) (d := (n.store.applyAll pre).apply (.setHeight (n.store.height + 1)))
      (s := n.lastState) (by rw [state_setHeight, a4, hs]) hge (by rw [hhe, hi.hs])
      (wmOK_apply (by simp [NoWm]) (wmOK_applyAll (fun w hw' => (hpre w hw').noWm) hw))
      (by
        intro pb hpb
        rw [hhe, getBlock_setHeight, a3 _ (by omega), hi.above _ (by omega)] at hpb
        cases hpb)
    exact ⟨m, hm, hwd⟩

end Producer
