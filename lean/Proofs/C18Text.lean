import Model.ConfigGenesis
/-!
# C18, genesis text layer: parser ∘ printer = what the values denote, for ALL genesis values

`TextRoundTrips g` (`Model/ConfigGenesis.lean`): whenever `encode g = .ok j`,
`parse (renderGenesis g) = some j`.  Proved here for every `g` whose time has the wall-clock fields
of a real `time.Time` (`WallClockOK`: month 1..12, day 1..31, hour < 24, minute < 60, second < 60,
nanosecond < 10⁹) — `textRoundTrips_of_wallClock`.  No hypothesis on the chain id (any bytes: what
comes back is `sanitize`, which is what `encode` says), the height, the proposer address (any
bytes, `null` included) or the zone (the year/zone-hour conditions are those of `encode`).

One small lemma per parser combinator; everything by structural induction on the rendered list,
`decide` on fixed literals / byte ranges, `omega` for the arithmetic.
-/
namespace GenesisFile
namespace Text

/-! ### combinators -/

theorem bind_some {α β : Type} {p : Parser α} {f : α → Parser β} {bs r : Bytes} {x : α}
    (h : p bs = some (x, r)) : (p.bind f) bs = f x r := by
  simp only [Parser.bind, h]

theorem expect_prefix : ∀ (l r : Bytes), expect l (l ++ r) = some r
  | [], r => rfl
  | b :: l, r => by simp only [List.cons_append, expect, if_true]; exact expect_prefix l r

theorem pExpect_prefix (l r : Bytes) : pExpect l (l ++ r) = some ((), r) := by
  simp only [pExpect, expect_prefix, Option.map_some]

/-- `pWhile` over a run of bytes satisfying `p` followed by a stopper -/
theorem pWhile_run (p : UInt8 → Bool) : ∀ (run : Bytes) (c : UInt8) (r : Bytes),
    run.all p = true → p c = false → pWhile p (run ++ c :: r) = some (run, c :: r)
  | [], c, r, _, hc => by simp [pWhile, hc]
  | b :: run, c, r, hall, hc => by
    simp only [List.all_cons, Bool.and_eq_true] at hall
    have ih := pWhile_run p run c r hall.2 hc
    unfold pWhile at ih ⊢
    simp only [List.cons_append, List.dropWhile, List.takeWhile, hall.1]
    split at ih
    · cases ih
    · next hne =>
      simp only [hne, Bool.false_eq_true, if_false, Option.some.injEq, Prod.mk.injEq] at ih ⊢
      exact ⟨by rw [ih.1], ih.2⟩

/-! ### decimal digits -/

theorem digit_toNat (d : Nat) (h : d < 10) : ((48 + d).toUInt8).toNat = 48 + d := by
  have : ∀ d, d < 10 → ((48 + d).toUInt8).toNat = 48 + d := by decide
  exact this d h

theorem isDigitB_digit (d : Nat) (h : d < 10) : isDigitB (48 + d).toUInt8 = true := by
  have : ∀ d, d < 10 → isDigitB (48 + d).toUInt8 = true := by decide
  exact this d h

theorem natOfDigits_snoc (ds : Bytes) (b : UInt8) : natOfDigits (ds ++ [b]) = natOfDigits ds * 10 + (b.toNat - 48) := by
  simp [natOfDigits, List.foldl_append]

theorem padded_length : ∀ (w n : Nat), (padded w n).length = w
  | 0, _ => rfl
  | w + 1, n => by simp [padded, padded_length w]

theorem padded_all : ∀ (w n : Nat), (padded w n).all isDigitB = true
  | 0, _ => rfl
  | w + 1, n => by
    simp only [padded, List.all_append, padded_all w, List.all_cons, List.all_nil, Bool.and_true, Bool.true_and]
    exact isDigitB_digit _ (Nat.mod_lt _ (by decide))

theorem natOfDigits_padded : ∀ (w n : Nat), natOfDigits (padded w n) = n % 10 ^ w
  | 0, n => by simp [padded, natOfDigits, Nat.mod_one]
  | w + 1, n => by
    rw [padded, natOfDigits_snoc, natOfDigits_padded w, digit_toNat _ (Nat.mod_lt _ (by decide))]
    have h1 : n % 10 ^ (w + 1) = n % 10 + 10 * (n / 10 % 10 ^ w) := by
      rw [Nat.pow_succ, Nat.mul_comm, Nat.mod_mul]
    omega

/-- `pFixed w` on `w` rendered digits -/
theorem pFixed_padded (w n : Nat) (r : Bytes) : pFixed w (padded w n ++ r) = some (n % 10 ^ w, r) := by
  have hl := padded_length w n
  have ht : (padded w n ++ r).take w = padded w n := by
    rw [List.take_append_of_le_length (by omega), List.take_of_length_le (by omega)]
  have hd : (padded w n ++ r).drop w = r := by
    have := @List.drop_left _ (padded w n) r; rwa [hl] at this
  simp only [pFixed, ht, hd, hl, padded_all, natOfDigits_padded, decide_true, Bool.and_self, if_true]

theorem pFixed_padded_lt (w n : Nat) (r : Bytes) (h : n < 10 ^ w) : pFixed w (padded w n ++ r) = some (n, r) := by
  rw [pFixed_padded, Nat.mod_eq_of_lt h]

/-- what `digitsAux` prepends: the decimal digits of `n`, no leading zero -/
theorem digitsAux_spec : ∀ (fuel n : Nat) (acc : Bytes), n < fuel →
    ∃ d : Bytes, digitsAux fuel n acc = d ++ acc ∧ d.all isDigitB = true ∧ natOfDigits d = n ∧ d ≠ [] ∧
      (n = 0 → d = [48]) ∧ (n ≠ 0 → d.head? ≠ some 48)
  | 0, _, _, h => by omega
  | fuel + 1, n, acc, h => by
    unfold digitsAux
    simp only
    by_cases h0 : n / 10 = 0
    · simp only [h0, if_true]
      refine ⟨[(48 + n % 10).toUInt8], rfl, ?_, ?_, by simp, ?_, ?_⟩
      · simp only [List.all_cons, List.all_nil, Bool.and_true]
        exact isDigitB_digit _ (Nat.mod_lt n (by decide : 0 < 10))
      · simp only [natOfDigits, List.foldl, digit_toNat _ (Nat.mod_lt n (by decide : 0 < 10))]; omega
      · intro hn; subst hn; rfl
      · intro hn
        have hlt : n < 10 := by omega
        have hm : n % 10 = n := Nat.mod_eq_of_lt hlt
        simp only [List.head?, hm, ne_eq, Option.some.injEq]
        intro hc
        have := congrArg UInt8.toNat hc
        rw [digit_toNat _ hlt] at this
        have h48 : (48 : UInt8).toNat = 48 := rfl
        omega
    · simp only [h0, if_false]
      obtain ⟨d, hd, hall, hnat, hne, _, hhead⟩ := digitsAux_spec fuel (n / 10) ((48 + n % 10).toUInt8 :: acc) (by omega)
      refine ⟨d ++ [(48 + n % 10).toUInt8], ?_, ?_, ?_, by simp, ?_, ?_⟩
      · rw [hd]; simp
      · simp only [List.all_append, hall, List.all_cons, List.all_nil, Bool.and_true, Bool.true_and]
        exact isDigitB_digit _ (Nat.mod_lt n (by decide : 0 < 10))
      · rw [natOfDigits_snoc, hnat, digit_toNat _ (Nat.mod_lt n (by decide : 0 < 10))]; omega
      · intro hn; subst hn; simp at h0
      · intro _
        cases d with
        | nil => exact absurd rfl hne
        | cons x xs => simpa using hhead h0

/-- `pNat` ∘ decimal rendering, in front of a byte that is not a digit -/
theorem pNat_digits (n : Nat) (c : UInt8) (r : Bytes) (hc : isDigitB c = false) :
    pNat (digits n ++ c :: r) = some (n, c :: r) := by
  obtain ⟨d, hd, hall, hnat, hne, hz, hhead⟩ := digitsAux_spec (n + 1) n [] (by omega)
  have hdig : digits n = d := by simp [digits, hd]
  rw [hdig]
  unfold pNat
  rw [bind_some (pWhile_run isDigitB d c r hall hc)]
  have hcond : (d.isEmpty || (decide (d.length > 1) && d.head? == some 48)) = false := by
    cases d with
    | nil => exact absurd rfl hne
    | cons x xs =>
      by_cases hn : n = 0
      · have := hz hn; cases this; rfl
      · have := hhead hn
        simp only [List.head?, ne_eq, Option.some.injEq] at this
        simp [this]
  simp only [hcond, Bool.false_eq_true, if_false, Parser.pure, hnat]


/-! ### base64 -/

theorem b64Val_b64Char (n : Nat) (h : n < 64) : b64Val (b64Char n) = some n := by
  have : ∀ n, n < 64 → b64Val (b64Char n) = some n := by decide
  exact this n h

theorem b64Char_ne_quote (n : Nat) (h : n < 64) : (b64Char n != ch '"') = true := by
  have : ∀ n, n < 64 → (b64Char n != ch '"') = true := by decide
  exact this n h

theorem b64Char_ne_eq (n : Nat) (h : n < 64) : (b64Char n == ch '=') = false := by
  have : ∀ n, n < 64 → (b64Char n == ch '=') = false := by decide
  exact this n h

theorem toUInt8_toNat (a : UInt8) : a.toNat.toUInt8 = a := UInt8.ofNat_toNat

theorem base64_no_quote : ∀ p : Bytes, (base64 p).all (fun b => b != ch '"') = true
  | [] => rfl
  | [a] => by
    have := a.toNat_lt
    simp only [base64, List.all_cons, List.all_nil, Bool.and_true, Bool.and_eq_true]
    exact ⟨b64Char_ne_quote _ (by omega), b64Char_ne_quote _ (by omega), by decide, by decide⟩
  | [a, b] => by
    have := a.toNat_lt; have := b.toNat_lt
    simp only [base64, List.all_cons, List.all_nil, Bool.and_true, Bool.and_eq_true]
    exact ⟨b64Char_ne_quote _ (by omega), b64Char_ne_quote _ (by omega), b64Char_ne_quote _ (by omega), by decide⟩
  | a :: b :: c :: rest => by
    have := a.toNat_lt; have := b.toNat_lt; have := c.toNat_lt
    simp only [base64, List.cons_append, List.nil_append, List.all_cons, Bool.and_eq_true]
    exact ⟨b64Char_ne_quote _ (by omega), b64Char_ne_quote _ (by omega), b64Char_ne_quote _ (by omega),
      b64Char_ne_quote _ (by omega), base64_no_quote rest⟩

/-- a full group of four in front of a decodable tail -/
theorem unbase64_group (x y z w : Nat) (hx : x < 64) (hy : y < 64) (hz : z < 64) (hw : w < 64)
    (t r : Bytes) (ht : unbase64 t = some r) :
    unbase64 (b64Char x :: b64Char y :: b64Char z :: b64Char w :: t) =
      some ((x * 4 + y / 16).toUInt8 :: (y % 16 * 16 + z / 4).toUInt8 :: (z % 4 * 64 + w).toUInt8 :: r) := by
  cases t with
  | nil =>
    simp only [unbase64, Option.some.injEq] at ht
    subst ht
    have hz' : (b64Char z = ch '=') = False := by
      have := b64Char_ne_eq z hz; simpa using this
    have hw' : (b64Char w = ch '=') = False := by
      have := b64Char_ne_eq w hw; simpa using this
    simp only [unbase64, b64Val_b64Char x hx, b64Val_b64Char y hy, b64Val_b64Char z hz, b64Val_b64Char w hw,
      hz', hw', decide_false, Bool.false_and, Bool.false_eq_true, if_false]
  | cons e es =>
    simp only [unbase64, b64Val_b64Char x hx, b64Val_b64Char y hy, b64Val_b64Char z hz, b64Val_b64Char w hw, ht]

/-- `unbase64` ∘ `base64` -/
theorem unbase64_base64 : ∀ p : Bytes, unbase64 (base64 p) = some p
  | [] => rfl
  | [a] => by
    have := a.toNat_lt
    have e : (a.toNat / 4 * 4 + a.toNat % 4 * 16 / 16) = a.toNat := by omega
    have e2 : a.toNat % 4 * 16 % 16 = 0 := by omega
    simp only [base64, unbase64, b64Val_b64Char (a.toNat / 4) (by omega), b64Val_b64Char (a.toNat % 4 * 16) (by omega),
      decide_true, Bool.and_self, if_true, e, e2, toUInt8_toNat]
  | [a, b] => by
    have := a.toNat_lt; have := b.toNat_lt
    have e : (a.toNat / 4 * 4 + (a.toNat % 4 * 16 + b.toNat / 16) / 16) = a.toNat := by omega
    have e1 : ((a.toNat % 4 * 16 + b.toNat / 16) % 16 * 16 + b.toNat % 16 * 4 / 4) = b.toNat := by omega
    have e2 : b.toNat % 16 * 4 % 4 = 0 := by omega
    have hz' : (b64Char (b.toNat % 16 * 4) = ch '=') = False := by
      have := b64Char_ne_eq (b.toNat % 16 * 4) (by omega); simpa using this
    simp only [base64, unbase64, b64Val_b64Char (a.toNat / 4) (by omega),
      b64Val_b64Char (a.toNat % 4 * 16 + b.toNat / 16) (by omega), b64Val_b64Char (b.toNat % 16 * 4) (by omega),
      hz', decide_false, decide_true, Bool.false_and, Bool.false_eq_true, if_false, if_true, e, e1, e2, toUInt8_toNat]
  | a :: b :: c :: rest => by
    have := a.toNat_lt; have := b.toNat_lt; have := c.toNat_lt
    have e : (a.toNat / 4 * 4 + (a.toNat % 4 * 16 + b.toNat / 16) / 16) = a.toNat := by omega
    have e1 : ((a.toNat % 4 * 16 + b.toNat / 16) % 16 * 16 + (b.toNat % 16 * 4 + c.toNat / 64) / 4) = b.toNat := by omega
    have e2 : ((b.toNat % 16 * 4 + c.toNat / 64) % 4 * 64 + c.toNat % 64) = c.toNat := by omega
    simp only [base64, List.cons_append, List.nil_append]
    rw [unbase64_group _ _ _ _ (by omega) (by omega) (by omega) (by omega) _ _ (unbase64_base64 rest), e, e1, e2]
    simp only [toUInt8_toNat]


/-! ### the JSON string escaper -/

theorem hexVal_hexDigitLower (k : Nat) (h : k < 16) : hexVal (hexDigitLower k) = some k := by
  have : ∀ k, k < 16 → hexVal (hexDigitLower k) = some k := by decide
  exact this k h

theorem str_bs_u : str "\\u" = [92, 117] := by decide

/-- `\uXXXX` read back -/
theorem unescapeOne_uEscape (cp : Nat) (h : cp < 65536) (tail : Bytes) :
    unescapeOne (117 :: hexDigitLower (cp / 4096 % 16) :: hexDigitLower (cp / 256 % 16) ::
      hexDigitLower (cp / 16 % 16) :: hexDigitLower (cp % 16) :: tail) = some (utf8OfBmp cp, tail) := by
  have e : cp / 4096 % 16 * 4096 + cp / 256 % 16 * 256 + cp / 16 % 16 * 16 + cp % 16 = cp := by omega
  have hu : (117 : UInt8) = ch 'u' := by decide
  simp only [unescapeOne, hu, if_true, hexVal_hexDigitLower _ (Nat.mod_lt _ (by decide : 0 < 16)), e]

theorem psb_uEscape (cp : Nat) (h : cp < 65536) (F : Nat) (tail acc : Bytes) :
    parseStringBody (F + 1) (uEscape cp ++ tail) acc = parseStringBody F tail ((utf8OfBmp cp).reverse ++ acc) := by
  have h1 : ((92 : UInt8) = ch '"') = False := by decide
  have h2 : ((92 : UInt8) = ch '\\') = True := by decide
  simp only [uEscape, str_bs_u, List.cons_append, List.nil_append, parseStringBody, h1, h2, if_false, if_true,
    unescapeOne_uEscape cp h]

/-- a byte the string parser takes as it is -/
def plain (b : UInt8) : Bool := b != ch '"' && b != ch '\\' && decide (0x20 ≤ b.toNat)

theorem psb_plain (b : UInt8) (hb : plain b = true) (F : Nat) (tail acc : Bytes) :
    parseStringBody (F + 1) (b :: tail) acc = parseStringBody F tail (b :: acc) := by
  simp only [plain, Bool.and_eq_true, bne_iff_ne, ne_eq, decide_eq_true_eq] at hb
  have h3 : ¬ b.toNat < 0x20 := by omega
  simp only [parseStringBody, hb.1.1, hb.1.2, h3, if_false]

theorem psb_plain_run : ∀ (sq : Bytes), sq.all plain = true → ∀ (F : Nat) (tail acc : Bytes),
    parseStringBody (F + sq.length) (sq ++ tail) acc = parseStringBody F tail (sq.reverse ++ acc)
  | [], _, F, tail, acc => rfl
  | b :: sq, h, F, tail, acc => by
    simp only [List.all_cons, Bool.and_eq_true] at h
    have : F + (b :: sq).length = (F + sq.length) + 1 := by simp only [List.length_cons]; omega
    rw [this, List.cons_append, psb_plain b h.1, psb_plain_run sq h.2]
    simp

theorem plain_of_high (b : UInt8) (h : 0x80 ≤ b.toNat) : plain b = true := by
  simp only [plain, Bool.and_eq_true, bne_iff_ne, ne_eq, decide_eq_true_eq]
  refine ⟨⟨?_, ?_⟩, by omega⟩
  · intro e; rw [e] at h; revert h; decide
  · intro e; rw [e] at h; revert h; decide

/-- the escape of one ASCII byte (the first branch of `escapeAux`) -/
def asciiPiece (b : UInt8) : Bytes :=
  if b = ch '"' then str "\\\""
  else if b = ch '\\' then str "\\\\"
  else if b.toNat = 8 then str "\\b" else if b.toNat = 12 then str "\\f"
  else if b.toNat = 10 then str "\\n" else if b.toNat = 13 then str "\\r" else if b.toNat = 9 then str "\\t"
  else if b.toNat < 0x20 || b = ch '<' || b = ch '>' || b = ch '&' then uEscape b.toNat
  else [b]

theorem utf8OfBmp_ascii (b : UInt8) (h : b.toNat < 0x80) : utf8OfBmp b.toNat = [b] := by
  simp only [utf8OfBmp, h, if_true, UInt8.ofNat_toNat]

theorem ofNat_eq (b : UInt8) (n : Nat) (h : b.toNat = n) : b = n.toUInt8 := by
  rw [← h]; exact UInt8.ofNat_toNat.symm

theorem psb_ascii (b : UInt8) (h : b.toNat < 0x80) (F : Nat) (tail acc : Bytes) :
    parseStringBody (F + 1) (asciiPiece b ++ tail) acc = parseStringBody F tail (b :: acc) := by
  unfold asciiPiece
  by_cases c1 : b = ch '"'
  · subst c1; rfl
  by_cases c2 : b = ch '\\'
  · subst c2; rfl
  by_cases c3 : b.toNat = 8
  · have := ofNat_eq b 8 c3; subst this; rfl
  by_cases c4 : b.toNat = 12
  · have := ofNat_eq b 12 c4; subst this; rfl
  by_cases c5 : b.toNat = 10
  · have := ofNat_eq b 10 c5; subst this; rfl
  by_cases c6 : b.toNat = 13
  · have := ofNat_eq b 13 c6; subst this; rfl
  by_cases c7 : b.toNat = 9
  · have := ofNat_eq b 9 c7; subst this; rfl
  simp only [c1, c2, c3, c4, c5, c6, c7, if_false]
  split
  · rw [psb_uEscape _ (by omega), utf8OfBmp_ascii b h]; rfl
  · next hc =>
    simp only [Bool.or_eq_true, decide_eq_true_eq, not_or] at hc
    apply psb_plain
    simp only [plain, Bool.and_eq_true, bne_iff_ne, ne_eq, decide_eq_true_eq]
    exact ⟨⟨c1, c2⟩, by omega⟩

theorem asciiPiece_length_pos (b : UInt8) : 1 ≤ (asciiPiece b).length := by
  unfold asciiPiece
  repeat' split
  all_goals first | decide | simp [uEscape]


def high (x : UInt8) : Bool := decide (0x80 ≤ x.toNat)

theorem utf8Width_ascii (b : UInt8) (rest : Bytes) (h : b.toNat < 0x80) : utf8Width (b :: rest) = some 1 := by
  simp only [utf8Width, h, if_true]

theorem utf8Width_high (b : UInt8) (rest : Bytes) (w : Nat) (h : utf8Width (b :: rest) = some w)
    (hb : 0x80 ≤ b.toNat) :
    ((b :: rest).take w).all high = true ∧ ((b :: rest).take w).length = w ∧ 1 ≤ w := by
  unfold utf8Width at h
  simp only [] at h
  repeat' split at h
  all_goals first | (cases h; done) | omega | skip
  all_goals cases h
  all_goals simp_all [high]
  all_goals omega


theorem plain_of_high' (sq : Bytes) (h : sq.all high = true) : sq.all plain = true := by
  rw [List.all_eq_true] at h ⊢
  intro x hx
  have := h x hx
  simp only [high, decide_eq_true_eq] at this
  exact plain_of_high x this

theorem escapeAux_ascii (fuel : Nat) (b : UInt8) (rest : Bytes) (h : b.toNat < 0x80) :
    escapeAux (fuel + 1) (b :: rest) = asciiPiece b ++ escapeAux fuel rest := by
  simp only [escapeAux, asciiPiece, h, if_true]

theorem escapeAux_high (fuel : Nat) (b : UInt8) (rest : Bytes) (h : ¬ b.toNat < 0x80) :
    escapeAux (fuel + 1) (b :: rest) =
      match utf8Width (b :: rest) with
      | none => uEscape 0xFFFD ++ escapeAux fuel rest
      | some w =>
        (if (b :: rest).take w = [0xE2, 0x80, 0xA8] then uEscape 0x2028
         else if (b :: rest).take w = [0xE2, 0x80, 0xA9] then uEscape 0x2029 else (b :: rest).take w)
          ++ escapeAux fuel ((b :: rest).drop w) := by
  simp only [escapeAux, h, if_false]
  cases utf8Width (b :: rest) <;> rfl

theorem uEscape_length (cp : Nat) : (uEscape cp).length = 6 := by
  simp [uEscape, str_bs_u]

/-- `pString` ∘ the JSON string escaper (any fuel on both sides, any accumulator): the string
that comes back is the SANITIZED one -/
theorem psb_escapeAux (rest : Bytes) : ∀ (fuel : Nat) (s : Bytes) (F : Nat) (acc : Bytes),
    (escapeAux fuel s).length < F →
    parseStringBody F (escapeAux fuel s ++ ch '"' :: rest) acc = some (acc.reverse ++ sanitizeAux fuel s, rest)
  | 0, s, F, acc, hF => by
    obtain ⟨F, rfl⟩ : ∃ k, F = k + 1 := ⟨F - 1, by omega⟩
    simp [escapeAux, sanitizeAux, parseStringBody]
  | fuel + 1, [], F, acc, hF => by
    obtain ⟨F, rfl⟩ : ∃ k, F = k + 1 := ⟨F - 1, by omega⟩
    simp [escapeAux, sanitizeAux, parseStringBody]
  | fuel + 1, b :: s, F, acc, hF => by
    by_cases hb : b.toNat < 0x80
    · rw [escapeAux_ascii fuel b s hb] at hF ⊢
      have hp := asciiPiece_length_pos b
      rw [List.length_append] at hF
      obtain ⟨F, rfl⟩ : ∃ k, F = k + 1 := ⟨F - 1, by omega⟩
      rw [List.append_assoc, psb_ascii b hb, psb_escapeAux rest fuel s F (b :: acc) (by omega)]
      simp only [sanitizeAux, utf8Width_ascii b s hb, List.take, List.drop, List.reverse_cons, List.append_assoc,
        List.cons_append, List.nil_append]
    · rw [escapeAux_high fuel b s hb] at hF ⊢
      unfold sanitizeAux
      cases hw : utf8Width (b :: s) with
      | none =>
        simp only [hw] at hF ⊢
        rw [List.length_append, uEscape_length] at hF
        obtain ⟨F, rfl⟩ : ∃ k, F = k + 1 := ⟨F - 1, by omega⟩
        rw [List.append_assoc, psb_uEscape _ (by decide), psb_escapeAux rest fuel s F _ (by omega)]
        have : utf8OfBmp 0xFFFD = replacement := by decide
        simp [this]
      | some w =>
        simp only [hw] at hF ⊢
        obtain ⟨hall, hlen, hw1⟩ := utf8Width_high b s w hw (by omega)
        rw [List.length_append] at hF
        by_cases e1 : (b :: s).take w = [0xE2, 0x80, 0xA8]
        · simp only [e1, if_true] at hF ⊢
          rw [uEscape_length] at hF
          obtain ⟨F, rfl⟩ : ∃ k, F = k + 1 := ⟨F - 1, by omega⟩
          rw [List.append_assoc, psb_uEscape _ (by decide), psb_escapeAux rest fuel _ F _ (by omega)]
          have : utf8OfBmp 0x2028 = [0xE2, 0x80, 0xA8] := by decide
          simp [this]
        by_cases e2 : (b :: s).take w = [0xE2, 0x80, 0xA9]
        · simp only [e2, if_true] at hF ⊢
          have e1' : ¬ ([0xE2, 0x80, 0xA9] : Bytes) = [0xE2, 0x80, 0xA8] := by decide
          simp only [e1', if_false] at hF ⊢
          rw [uEscape_length] at hF
          obtain ⟨F, rfl⟩ : ∃ k, F = k + 1 := ⟨F - 1, by omega⟩
          rw [List.append_assoc, psb_uEscape _ (by decide), psb_escapeAux rest fuel _ F _ (by omega)]
          have : utf8OfBmp 0x2029 = [0xE2, 0x80, 0xA9] := by decide
          simp [this]
        · simp only [e1, e2, if_false] at hF ⊢
          obtain ⟨F, rfl⟩ : ∃ k, F = k + ((b :: s).take w).length := ⟨F - ((b :: s).take w).length, by omega⟩
          rw [List.append_assoc, psb_plain_run _ (plain_of_high' _ hall), psb_escapeAux rest fuel _ F _ (by omega)]
          simp

theorem pString_escape (s rest : Bytes) : pString (escape s ++ ch '"' :: rest) = some (sanitize s, rest) := by
  unfold pString escape sanitize
  rw [psb_escapeAux rest s.length s _ [] (by simp only [List.length_append, List.length_cons]; omega)]
  rfl

theorem pExpect_one (c : UInt8) (r : Bytes) : pExpect [c] (c :: r) = some ((), r) := pExpect_prefix [c] r

/-! ### the fraction of a second -/

theorem all48_eq_replicate : ∀ (xs : Bytes), xs.all (· == 48) = true → xs = List.replicate xs.length 48
  | [], _ => rfl
  | x :: xs, h => by
    simp only [List.all_cons, Bool.and_eq_true, beq_iff_eq] at h
    rw [List.length_cons, List.replicate_succ, ← all48_eq_replicate xs h.2, h.1]

theorem takeWhile_all (p : UInt8 → Bool) : ∀ l : Bytes, (l.takeWhile p).all p = true
  | [] => rfl
  | x :: l => by
    by_cases h : p x = true
    · simp only [List.takeWhile, h, List.all_cons, Bool.true_and]; exact takeWhile_all p l
    · simp only [Bool.not_eq_true] at h; simp only [List.takeWhile, h, List.all_nil]

/-- the digits `dropTrailingZeros` removes are zeros: putting them back gives the list -/
theorem dropTrailingZeros_pad (l : Bytes) :
    dropTrailingZeros l ++ List.replicate (l.length - (dropTrailingZeros l).length) 48 = l := by
  unfold dropTrailingZeros
  have h := @List.takeWhile_append_dropWhile _ (· == (48 : UInt8)) l.reverse
  have hl : l = (l.reverse.dropWhile (· == 48)).reverse ++ (l.reverse.takeWhile (· == 48)).reverse := by
    have := congrArg List.reverse h
    rw [List.reverse_append, List.reverse_reverse] at this
    exact this.symm
  have htw : (l.reverse.takeWhile (· == 48)).all (· == 48) = true := takeWhile_all _ _
  have hrep := all48_eq_replicate _ htw
  have hlen : l.length = (l.reverse.dropWhile (· == 48)).length + (l.reverse.takeWhile (· == 48)).length := by
    have := congrArg List.length hl
    simpa using this
  have : l.length - (l.reverse.dropWhile (· == 48)).reverse.length = (l.reverse.takeWhile (· == 48)).length := by
    rw [List.length_reverse]; omega
  rw [this]
  conv => rhs; rw [hl, hrep, List.reverse_replicate]

theorem natOfDigits_replicate_zero : ∀ n, natOfDigits (List.replicate n 48) = 0
  | 0 => rfl
  | n + 1 => by
    have := natOfDigits_replicate_zero n
    rw [List.replicate_succ']
    simp only [natOfDigits, List.foldl_append, List.foldl] at this ⊢
    rw [this]; rfl

def fracOf (nsec : Nat) : Bytes := if nsec = 0 then [] else ch '.' :: dropTrailingZeros (padded 9 nsec)

/-- `pFrac` ∘ the rendering of the nanoseconds, in front of a byte that is neither a digit nor `.` -/
theorem pFrac_render (nsec : Nat) (h : nsec < 1000000000) (z : UInt8) (r : Bytes)
    (hz : isDigitB z = false) (hz' : z ≠ ch '.') :
    pFrac (fracOf nsec ++ z :: r) = some (nsec, z :: r) := by
  unfold fracOf
  by_cases h0 : nsec = 0
  · subst h0
    simp only [if_true, List.nil_append, pFrac, hz', if_false]
  · simp only [h0, if_false, List.cons_append, pFrac, if_true]
    have hpad := dropTrailingZeros_pad (padded 9 nsec)
    rw [padded_length] at hpad
    generalize hd : dropTrailingZeros (padded 9 nsec) = ds at hpad
    have hall : ds.all isDigitB = true := by
      have := padded_all 9 nsec
      rw [← hpad, List.all_append, Bool.and_eq_true] at this
      exact this.1
    have hlen : ds.length ≤ 9 := by
      have := congrArg List.length hpad
      rw [List.length_append, List.length_replicate, padded_length] at this
      omega
    have hne : ds ≠ [] := by
      intro e
      have hn := natOfDigits_padded 9 nsec
      rw [← hpad, e] at hn
      simp only [List.nil_append, List.length_nil, natOfDigits_replicate_zero] at hn
      have : nsec % 10 ^ 9 = nsec := Nat.mod_eq_of_lt (by omega)
      omega
    rw [bind_some (pWhile_run isDigitB ds z r hall hz)]
    have hc : (ds.isEmpty || decide (ds.length > 9)) = false := by
      cases ds with
      | nil => exact absurd rfl hne
      | cons x xs => simp only [List.isEmpty_cons, Bool.false_or, decide_eq_false_iff_not]; omega
    simp only [hc, Bool.false_eq_true, if_false, Parser.pure, hpad, natOfDigits_padded]
    rw [Nat.mod_eq_of_lt (by omega)]

/-! ### the zone -/

def zoneOf (offSec : Int) : Bytes :=
  if offSec = 0 then [ch 'Z'] else
    (if offMinutes offSec < 0 then ch '-' else ch '+') ::
      (padded 2 ((offMinutes offSec).natAbs / 60) ++ [ch ':'] ++ padded 2 ((offMinutes offSec).natAbs % 60))

theorem zoneOf_head (offSec : Int) : ∃ z zs, zoneOf offSec = z :: zs ∧ isDigitB z = false ∧ z ≠ ch '.' := by
  unfold zoneOf
  split
  · exact ⟨_, _, rfl, by decide, by decide⟩
  · split
    · exact ⟨_, _, rfl, by decide, by decide⟩
    · exact ⟨_, _, rfl, by decide, by decide⟩

/-- `pZone` ∘ the rendering of the zone: the offset comes back cut to whole minutes -/
theorem pZone_render (offSec : Int) (h : (offMinutes offSec).natAbs / 60 < 24) (r : Bytes) :
    pZone (zoneOf offSec ++ r) = some (offMinutes offSec * 60, r) := by
  unfold zoneOf pZone
  by_cases h0 : offSec = 0
  · subst h0
    simp only [if_true, List.cons_append, List.nil_append]
    rw [bind_some (show pByte (ch 'Z' :: r) = some (ch 'Z', r) from rfl)]
    simp only [if_true, Parser.pure]
    rfl
  · simp only [h0, if_false, List.cons_append, List.append_assoc, List.nil_append]
    generalize hzm : offMinutes offSec = zm at h ⊢
    by_cases hneg : zm < 0
    · simp only [hneg, if_true]
      rw [bind_some (show pByte (ch '-' :: _) = some (ch '-', _) from rfl)]
      have c1 : ¬ (ch '-' = ch 'Z') := by decide
      have c2 : (ch '-' = ch '+' || ch '-' = ch '-') = true := by decide
      simp only [c1, if_false]
      rw [if_pos (by decide)]
      rw [bind_some (pFixed_padded_lt 2 _ _ (by omega)), bind_some (pExpect_one (ch ':') _),
        bind_some (pFixed_padded_lt 2 _ _ (by omega))]
      have c3 : (decide (zm.natAbs / 60 ≥ 24) || decide (zm.natAbs % 60 ≥ 60)) = false := by
        simp only [Bool.or_eq_false_iff, decide_eq_false_iff_not]; omega
      simp only [c3, Bool.false_eq_true, if_false, Parser.pure, Option.some.injEq, Prod.mk.injEq, and_true]
      rw [if_pos trivial]
      omega
    · simp only [hneg, if_false]
      rw [bind_some (show pByte (ch '+' :: _) = some (ch '+', _) from rfl)]
      have c1 : ¬ (ch '+' = ch 'Z') := by decide
      have c2 : (ch '+' = ch '+' || ch '+' = ch '-') = true := by decide
      have c4 : ¬ (ch '+' = ch '-') := by decide
      simp only [c1, c4, if_false]
      rw [if_pos (by decide)]
      rw [bind_some (pFixed_padded_lt 2 _ _ (by omega)), bind_some (pExpect_one (ch ':') _),
        bind_some (pFixed_padded_lt 2 _ _ (by omega))]
      have c3 : (decide (zm.natAbs / 60 ≥ 24) || decide (zm.natAbs % 60 ≥ 60)) = false := by
        simp only [Bool.or_eq_false_iff, decide_eq_false_iff_not]; omega
      simp only [c3, Bool.false_eq_true, if_false, Parser.pure, Option.some.injEq, Prod.mk.injEq, and_true]
      omega

/-! ### the time -/

theorem renderTime_eq (t : GoTime) :
    renderTime t = padded 4 t.year.toNat ++ [ch '-'] ++ padded 2 t.month ++ [ch '-'] ++ padded 2 t.day ++ [ch 'T'] ++
      padded 2 t.hour ++ [ch ':'] ++ padded 2 t.min ++ [ch ':'] ++ padded 2 t.sec ++ fracOf t.nsec ++ zoneOf t.offSec := rfl

theorem wallClockOK_iff (t : GoTime) : WallClockOK t = true ↔
    (1 ≤ t.month ∧ t.month ≤ 12 ∧ 1 ≤ t.day ∧ t.day ≤ 31 ∧ t.hour < 24 ∧ t.min < 60 ∧ t.sec < 60 ∧ t.nsec < 1000000000) := by
  simp only [WallClockOK, Bool.and_eq_true, decide_eq_true_eq, and_assoc]

/-- `pTime` ∘ the RFC 3339 rendering (closing quote included): the wall clock comes back, the zone
offset cut to whole minutes, no location name -/
theorem pTime_render (t : GoTime) (hy0 : 0 ≤ t.year) (hy1 : t.year ≤ 9999)
    (hz : (offMinutes t.offSec).natAbs / 60 < 24) (hw : WallClockOK t = true) (r : Bytes) :
    pTime (renderTime t ++ ch '"' :: r) =
      some ({ t with offSec := offMinutes t.offSec * 60, locName := "" }, r) := by
  rw [wallClockOK_iff] at hw
  obtain ⟨hm1, hm2, hd1, hd2, hh, hmi, hs, hns⟩ := hw
  rw [renderTime_eq]
  simp only [List.append_assoc, List.cons_append, List.nil_append]
  obtain ⟨z, zs, hzo, hzd, hzp⟩ := zoneOf_head t.offSec
  have hfr : pFrac (fracOf t.nsec ++ (zoneOf t.offSec ++ ch '"' :: r)) = some (t.nsec, zoneOf t.offSec ++ ch '"' :: r) := by
    rw [hzo]; exact pFrac_render t.nsec hns z _ hzd hzp
  unfold pTime
  rw [bind_some (pFixed_padded_lt 4 _ _ (by omega)), bind_some (pExpect_one _ _),
    bind_some (pFixed_padded_lt 2 _ _ (by omega)), bind_some (pExpect_one _ _),
    bind_some (pFixed_padded_lt 2 _ _ (by omega)), bind_some (pExpect_one _ _),
    bind_some (pFixed_padded_lt 2 _ _ (by omega)), bind_some (pExpect_one _ _),
    bind_some (pFixed_padded_lt 2 _ _ (by omega)), bind_some (pExpect_one _ _),
    bind_some (pFixed_padded_lt 2 _ _ (by omega)), bind_some hfr,
    bind_some (pZone_render t.offSec hz _), bind_some (pExpect_one _ _)]
  have hc : (decide (t.month < 1) || decide (t.month > 12) || decide (t.day < 1) || decide (t.day > 31) ||
      decide (t.hour ≥ 24) || decide (t.min ≥ 60) || decide (t.sec ≥ 60)) = false := by
    simp only [Bool.or_eq_false_iff, decide_eq_false_iff_not]; omega
  simp only [hc, Bool.false_eq_true, if_false, Parser.pure, Int.toNat_of_nonneg hy0]

/-! ### the proposer address -/

theorem pProposer_null (r : Bytes) : pProposer (str "null" ++ r) = some (none, r) := by
  have h : str "null" = 110 :: str "ull" := by decide
  have hq : ¬ ((110 : UInt8) = ch '"') := by decide
  rw [h, List.cons_append, pProposer]
  simp only [hq, if_false]
  rw [← List.cons_append, ← h, bind_some (pExpect_prefix _ _)]
  rfl

theorem pProposer_some (p r : Bytes) :
    pProposer ([ch '"'] ++ base64 p ++ [ch '"'] ++ r) = some (some p, r) := by
  simp only [List.append_assoc, List.cons_append, List.nil_append, pProposer, if_true]
  have hall : (base64 p).all (fun b => decide (b ≠ ch '"')) = true := by
    have := base64_no_quote p
    rw [List.all_eq_true] at this ⊢
    intro x hx; simpa using this x hx
  rw [bind_some (pWhile_run (fun b => decide (b ≠ ch '"')) (base64 p) (ch '"') r hall (by decide)),
    bind_some (show pByte (ch '"' :: r) = some (ch '"', r) from rfl)]
  simp only [unbase64_base64, Parser.pure]

def proposerOf : Option Bytes → Bytes
  | none => str "null"
  | some p => [ch '"'] ++ base64 p ++ [ch '"']

theorem pProposer_render (p : Option Bytes) (r : Bytes) : pProposer (proposerOf p ++ r) = some (p, r) := by
  cases p with
  | none => exact pProposer_null r
  | some p => exact pProposer_some p r

/-! ### the document -/

theorem renderGenesis_eq (g : Genesis) :
    renderGenesis g =
      str "{\n  \"chain_id\": \"" ++ (escape g.chainId ++ ch '"' ::
      (str ",\n  \"genesis_da_start_height\": \"" ++ (renderTime g.time ++ ch '"' ::
      (str ",\n  \"initial_height\": " ++ (digits g.initialHeight ++ ch ',' ::
      (str "\n  \"proposer_address\": " ++ (proposerOf g.proposer ++ (str "\n}" ++ [])))))))) := by
  have h1 : str "\",\n  \"genesis_da_start_height\": \"" = ch '"' :: str ",\n  \"genesis_da_start_height\": \"" := by decide
  have h2 : str "\",\n  \"initial_height\": " = ch '"' :: str ",\n  \"initial_height\": " := by decide
  have h3 : str ",\n  \"proposer_address\": " = ch ',' :: str "\n  \"proposer_address\": " := by decide
  obtain ⟨cid, t, ih, p⟩ := g
  unfold renderGenesis
  rw [h1, h2, h3]
  cases p <;> simp only [proposerOf, List.append_assoc, List.cons_append, List.nil_append, List.append_nil]

/-- `pDocument` ∘ `renderGenesis`: the whole text is consumed and the four values come back as
`encode` gives them -/
theorem pDocument_render (g : Genesis) (hy0 : 0 ≤ g.time.year) (hy1 : g.time.year ≤ 9999)
    (hz : (offMinutes g.time.offSec).natAbs / 60 < 24) (hw : WallClockOK g.time = true) :
    pDocument (renderGenesis g) =
      some ({ chainId := sanitize g.chainId,
              time := { g.time with offSec := offMinutes g.time.offSec * 60, locName := "" },
              initialHeight := g.initialHeight, proposer := g.proposer }, []) := by
  have h3 : str ",\n  \"proposer_address\": " = ch ',' :: str "\n  \"proposer_address\": " := by decide
  rw [renderGenesis_eq, pDocument]
  rw [bind_some (pExpect_prefix _ _), bind_some (pString_escape _ _), bind_some (pExpect_prefix _ _),
    bind_some (pTime_render g.time hy0 hy1 hz hw _), bind_some (pExpect_prefix _ _),
    bind_some (pNat_digits _ _ _ (by decide)), h3, ← List.cons_append, bind_some (pExpect_prefix _ _),
    bind_some (pProposer_render _ _), bind_some (pExpect_prefix _ _)]
  rfl


/-! ### the theorem -/

/-- what `encode` accepts: year 0..9999 and a zone hour below 24, and the document is this one -/
theorem encode_ok (g : Genesis) (j : JFile) (h : encode g = .ok j) :
    0 ≤ g.time.year ∧ g.time.year ≤ 9999 ∧ (offMinutes g.time.offSec).natAbs / 60 < 24 ∧
    j = { chainId := sanitize g.chainId,
          time := { g.time with offSec := offMinutes g.time.offSec * 60, locName := "" },
          initialHeight := g.initialHeight, proposer := g.proposer } := by
  unfold encode at h
  cases ht : encodeTime g.time with
  | error e => rw [ht] at h; cases h
  | ok t =>
    rw [ht] at h
    simp only [Except.ok.injEq] at h
    unfold encodeTime at ht
    split at ht
    · cases ht
    · next hc =>
      simp only [Bool.or_eq_true, decide_eq_true_eq, not_or] at hc
      split at ht
      · cases ht
      · next hz =>
        simp only [Except.ok.injEq] at ht
        subst ht
        exact ⟨by omega, by omega, by omega, h.symm⟩

/-- `parse` ∘ `renderGenesis` for every genesis `Save` accepts whose time is a real wall clock -/
theorem parse_render (g : Genesis) (j : JFile) (h : encode g = .ok j) (hw : WallClockOK g.time = true) :
    parse (renderGenesis g) = some j := by
  obtain ⟨hy0, hy1, hz, rfl⟩ := encode_ok g j h
  unfold parse
  rw [pDocument_render g hy0 hy1 hz hw]
  rfl

/-! ### the other direction: whatever the parser reads has a real wall clock -/

theorem bind_inv {α β : Type} {p : Parser α} {f : α → Parser β} {bs : Bytes} {y : β × Bytes}
    (h : (p.bind f) bs = some y) : ∃ x r, p bs = some (x, r) ∧ f x r = some y := by
  unfold Parser.bind at h
  cases hp : p bs with
  | none => rw [hp] at h; cases h
  | some xr => obtain ⟨x, r⟩ := xr; rw [hp] at h; exact ⟨x, r, rfl, h⟩

theorem foldl_digits_bound : ∀ (ds : Bytes) (acc : Nat), ds.all isDigitB = true →
    ds.foldl (fun n b => n * 10 + (b.toNat - 48)) acc + 1 ≤ (acc + 1) * 10 ^ ds.length
  | [], acc, _ => by simp
  | d :: ds, acc, h => by
    simp only [List.all_cons, Bool.and_eq_true] at h
    have hd : d.toNat - 48 ≤ 9 := by
      have := h.1; simp only [isDigitB, Bool.and_eq_true, decide_eq_true_eq] at this; omega
    have ih := foldl_digits_bound ds (acc * 10 + (d.toNat - 48)) h.2
    simp only [List.foldl, List.length_cons]
    have h2 : (acc * 10 + (d.toNat - 48) + 1) * 10 ^ ds.length ≤ ((acc + 1) * 10) * 10 ^ ds.length :=
      Nat.mul_le_mul_right _ (by omega)
    rw [Nat.pow_succ, Nat.mul_comm (10 ^ ds.length) 10, ← Nat.mul_assoc]
    omega

theorem natOfDigits_lt (ds : Bytes) (h : ds.all isDigitB = true) : natOfDigits ds < 10 ^ ds.length := by
  have := foldl_digits_bound ds 0 h
  simp only [Nat.zero_add, Nat.one_mul] at this
  exact this

theorem pFrac_lt (bs r : Bytes) (ns : Nat) (h : pFrac bs = some (ns, r)) : ns < 1000000000 := by
  cases bs with
  | nil => cases h
  | cons b rest =>
    simp only [pFrac] at h
    split at h
    · obtain ⟨ds, r', hw, hf⟩ := bind_inv h
      split at hf
      · cases hf
      · next hc =>
        simp only [Bool.or_eq_true, decide_eq_true_eq, not_or] at hc
        simp only [Parser.pure, Option.some.injEq, Prod.mk.injEq] at hf
        have hall : ds.all isDigitB = true := by
          unfold pWhile at hw
          split at hw
          · cases hw
          · simp only [Option.some.injEq, Prod.mk.injEq] at hw
            rw [← hw.1]; exact takeWhile_all _ _
        have hall' : (ds ++ List.replicate (9 - ds.length) 48).all isDigitB = true := by
          rw [List.all_append, hall, Bool.true_and, List.all_eq_true]
          intro x hx; rw [List.mem_replicate] at hx; rw [hx.2]; rfl
        have := natOfDigits_lt _ hall'
        rw [List.length_append, List.length_replicate] at this
        have e : ds.length + (9 - ds.length) = 9 := by omega
        rw [e] at this
        omega
    · simp only [Option.some.injEq, Prod.mk.injEq] at h; omega

theorem pTime_wallClock (bs r : Bytes) (t : GoTime) (h : pTime bs = some (t, r)) : WallClockOK t = true := by
  unfold pTime at h
  obtain ⟨y, _, _, h⟩ := bind_inv h
  obtain ⟨_, _, _, h⟩ := bind_inv h
  obtain ⟨mo, _, _, h⟩ := bind_inv h
  obtain ⟨_, _, _, h⟩ := bind_inv h
  obtain ⟨d, _, _, h⟩ := bind_inv h
  obtain ⟨_, _, _, h⟩ := bind_inv h
  obtain ⟨hh, _, _, h⟩ := bind_inv h
  obtain ⟨_, _, _, h⟩ := bind_inv h
  obtain ⟨mi, _, _, h⟩ := bind_inv h
  obtain ⟨_, _, _, h⟩ := bind_inv h
  obtain ⟨s, _, _, h⟩ := bind_inv h
  obtain ⟨ns, _, hns, h⟩ := bind_inv h
  obtain ⟨off, _, _, h⟩ := bind_inv h
  obtain ⟨_, _, _, h⟩ := bind_inv h
  have hnsb := pFrac_lt _ _ _ hns
  split at h
  · cases h
  · next hc =>
    simp only [Bool.or_eq_true, decide_eq_true_eq, not_or] at hc
    simp only [Parser.pure, Option.some.injEq, Prod.mk.injEq] at h
    rw [← h.1, wallClockOK_iff]
    simp only
    omega

/-- every document the parser reads has a real wall clock -/
theorem parse_wallClock (bs : Bytes) (j : JFile) (h : parse bs = some j) : WallClockOK j.time = true := by
  unfold parse at h
  cases hd : pDocument bs with
  | none => rw [hd] at h; cases h
  | some jr =>
    obtain ⟨j', r⟩ := jr
    rw [hd] at h
    simp only at h
    split at h
    · simp only [Option.some.injEq] at h
      subst h
      unfold pDocument at hd
      obtain ⟨_, _, _, hd⟩ := bind_inv hd
      obtain ⟨_, _, _, hd⟩ := bind_inv hd
      obtain ⟨_, _, _, hd⟩ := bind_inv hd
      obtain ⟨t, _, ht, hd⟩ := bind_inv hd
      obtain ⟨_, _, _, hd⟩ := bind_inv hd
      obtain ⟨_, _, _, hd⟩ := bind_inv hd
      obtain ⟨_, _, _, hd⟩ := bind_inv hd
      obtain ⟨_, _, _, hd⟩ := bind_inv hd
      obtain ⟨_, _, _, hd⟩ := bind_inv hd
      simp only [Parser.pure, Option.some.injEq, Prod.mk.injEq] at hd
      rw [← hd.1]
      exact pTime_wallClock _ _ _ ht
    · cases h

end Text

/-- **The text layer round-trips for every genesis**: whatever the chain id (any bytes), the
height, the proposer address (any bytes or nil) and the zone offset, if the time's wall-clock fields
are those of a real `time.Time` (`WallClockOK`), then parsing the bytes `Save` writes gives exactly
the document `encode` says the values denote. -/
theorem textRoundTrips_of_wallClock (g : Genesis) (hw : WallClockOK g.time = true) : TextRoundTrips g = true := by
  unfold TextRoundTrips
  cases h : encode g with
  | error e => rfl
  | ok j => simp only [Text.parse_render g j h hw, beq_self_eq_true]

/-- **`WallClockOK` is exactly what the text layer needs**: for a genesis `Save` accepts, parser ∘
printer gives the document the values denote IF AND ONLY IF the wall-clock fields are those of a
real `time.Time` -/
theorem textRoundTrips_iff_wallClock (g : Genesis) (j : JFile) (h : encode g = .ok j) :
    TextRoundTrips g = true ↔ WallClockOK g.time = true := by
  constructor
  · intro ht
    unfold TextRoundTrips at ht
    rw [h] at ht
    have hp : parse (renderGenesis g) = some j := eq_of_beq ht
    have hw := Text.parse_wallClock _ _ hp
    obtain ⟨_, _, _, rfl⟩ := Text.encode_ok g j h
    exact hw
  · intro hw
    unfold TextRoundTrips
    rw [h]
    simp only [Text.parse_render g j h hw, beq_self_eq_true]

end GenesisFile
