import Model.Config
import Model.ConfigGenesis

/-! Helper lemmas for `Spec/C18.lean`. -/
namespace Config

/-! ## lists -/

theorem nodup_map_inj {α β : Type} (φ : α → β) :
    ∀ {l : List α}, (l.map φ).Nodup → ∀ {a b : α}, a ∈ l → b ∈ l → φ a = φ b → a = b
  | [], _, _, _, ha, _, _ => by cases ha
  | x :: l, h, a, b, ha, hb, hab => by
    rw [List.map_cons, List.nodup_cons] at h
    rcases List.mem_cons.mp ha with rfl | ha'
    · rcases List.mem_cons.mp hb with rfl | hb'
      · rfl
      · exact absurd (hab ▸ List.mem_map_of_mem (f := φ) hb') h.1
    · rcases List.mem_cons.mp hb with rfl | hb'
      · exact absurd (hab ▸ List.mem_map_of_mem (f := φ) ha') h.1
      · exact nodup_map_inj φ h.2 ha' hb' hab

/-- in a list with distinct keys, looking up the key of a member finds the member's value -/
theorem lookup_map_of_mem {α : Type} (κ ν : α → String) :
    ∀ {l : List α}, (l.map κ).Nodup → ∀ {x : α}, x ∈ l →
      (l.map fun y => (κ y, ν y)).lookup (κ x) = some (ν x)
  | [], _, _, hx => by cases hx
  | y :: l, h, x, hx => by
    rw [List.map_cons, List.nodup_cons] at h
    rw [List.map_cons, List.lookup_cons]
    rcases List.mem_cons.mp hx with rfl | hx'
    · simp
    · have hne : κ x ≠ κ y := fun e => h.1 (e ▸ List.mem_map_of_mem (f := κ) hx')
      have : (κ x == κ y) = false := by simpa using hne
      rw [this]
      exact lookup_map_of_mem κ ν h.2 hx'

/-- a key that no member carries is not found -/
theorem lookup_map_none {α : Type} (κ ν : α → String) (k : String) :
    ∀ {l : List α}, (∀ x ∈ l, κ x ≠ k) → (l.map fun y => (κ y, ν y)).lookup k = none
  | [], _ => rfl
  | y :: l, h => by
    rw [List.map_cons, List.lookup_cons]
    have : (k == κ y) = false := by simpa using (h y (List.mem_cons_self)).symm
    rw [this]
    exact lookup_map_none κ ν k fun x hx => h x (List.mem_cons_of_mem _ hx)

theorem lookup_append_none (a b : Layer) (k : String) (h : a.lookup k = none) :
    (a ++ b).lookup k = b.lookup k := by
  induction a with
  | nil => rfl
  | cons x a ih =>
    rw [List.lookup_cons] at h
    rw [List.cons_append, List.lookup_cons]
    split at h
    · cases h
    · exact ih h

theorem find_of_mem_nodup {α : Type} (κ : α → String) :
    ∀ {l : List α}, (l.map κ).Nodup → ∀ {x : α}, x ∈ l → l.find? (fun y => κ y = κ x) = some x
  | [], _, _, hx => by cases hx
  | y :: l, h, x, hx => by
    rw [List.map_cons, List.nodup_cons] at h
    rcases List.mem_cons.mp hx with rfl | hx'
    · simp
    · have hne : κ y ≠ κ x := fun e => h.1 (e ▸ List.mem_map_of_mem (f := κ) hx')
      rw [List.find?_cons]
      have : decide (κ y = κ x) = false := by simpa using hne
      rw [this]
      exact find_of_mem_nodup κ h.2 hx'

/-! ## flags -/

/-- with distinct flag names, "some registered flag called `n` binds key `k`" is a property of
the one flag `find?` returns -/
theorem any_name_key (T : Table) (hn : (T.flags.map (·.name)).Nodup) (n k : String) :
    (T.flags.any fun fl => fl.name = n ∧ fl.key = k) =
      match T.flags.find? (fun fl => fl.name = n) with
      | some fl => decide (fl.key = k)
      | none => false := by
  cases hf : T.flags.find? (fun fl => fl.name = n) with
  | none =>
    have := List.find?_eq_none.mp hf
    simp only [Bool.eq_false_iff, ne_eq, List.any_eq_true, not_exists, not_and]
    intro fl hfl h
    have h' : fl.name = n ∧ fl.key = k := by simpa using h
    exact this fl hfl (by simpa using h'.1)
  | some fl =>
    have hmem : fl ∈ T.flags := List.mem_of_find?_eq_some hf
    have hname : fl.name = n := by simpa using List.find?_some hf
    by_cases hk : fl.key = k
    · simp only [hk, decide_true, List.any_eq_true]
      exact ⟨fl, hmem, by simp [hname, hk]⟩
    · simp only [hk, decide_false, Bool.eq_false_iff, ne_eq, List.any_eq_true, not_exists, not_and]
      intro fl' hfl' h
      have h' : fl'.name = n ∧ fl'.key = k := by simpa using h
      have : fl' = fl := nodup_map_inj (·.name) hn hfl' hmem (h'.1.trans hname.symm)
      exact hk (this ▸ h'.2)

/-- the flag layer, looked up at key `k`, is the first argument whose flag binds `k` -/
theorem flagLayer_lookup (T : Table) (hn : (T.flags.map (·.name)).Nodup) (k : String) :
    ∀ args : Layer, (flagLayer T args).lookup k =
      (args.find? fun a => T.flags.any fun fl => fl.name = a.1 ∧ fl.key = k).map (·.2)
  | [] => rfl
  | a :: rest => by
    have ih := flagLayer_lookup T hn k rest
    unfold flagLayer at ih ⊢
    rw [List.filterMap_cons, List.find?_cons, any_name_key T hn a.1 k]
    cases hf : T.flags.find? (fun fl => fl.name = a.1) with
    | none => simpa using ih
    | some fl =>
      simp only [Option.map_some, List.lookup_cons]
      by_cases hk : fl.key = k
      · simp [hk]
      · have : (k == fl.key) = false := by simpa using fun e : k = fl.key => hk e.symm
        simp only [this, hk, decide_false]
        exact ih

theorem flagDefault_some {T : Table} {k v : String} (h : flagDefault T k = some v) :
    ∃ fl ∈ T.flags, fl.key = k ∧ fl.dflt = v := by
  unfold flagDefault at h
  cases hf : T.flags.find? (fun fl => fl.key = k) with
  | none => rw [hf] at h; cases h
  | some fl =>
    rw [hf] at h
    exact ⟨fl, List.mem_of_find?_eq_some hf, by simpa using List.find?_some hf, by simpa using h⟩

/-! ## dropping flags that bind no field's key changes nothing for any field -/

theorem find_dropFlags (names : List String) (n : String) :
    ∀ l : List Flag, (l.filter fun fl => fl.name ∉ names).find? (fun fl => fl.name = n) =
      if n ∈ names then none else l.find? (fun fl => fl.name = n)
  | [] => by simp
  | x :: l => by
    have ih := find_dropFlags names n l
    by_cases hx : x.name ∈ names
    · rw [List.filter_cons_of_neg (by simpa using hx), ih]
      by_cases hn : n ∈ names
      · simp [hn]
      · have : x.name ≠ n := fun e => hn (e ▸ hx)
        simp [hn, this]
    · rw [List.filter_cons_of_pos (by simpa using hx), List.find?_cons, List.find?_cons, ih]
      by_cases hxn : x.name = n
      · have : n ∉ names := hxn ▸ hx
        simp [hxn, this]
      · simp [hxn]

theorem find_filter_irrelevant {α : Type} (p q : α → Bool) :
    ∀ l : List α, (∀ x ∈ l, q x = false → p x = false) → (l.filter q).find? p = l.find? p
  | [], _ => rfl
  | x :: l, h => by
    have ih := find_filter_irrelevant p q l fun y hy => h y (List.mem_cons_of_mem _ hy)
    cases hq : q x with
    | true => rw [List.filter_cons_of_pos hq, List.find?_cons, List.find?_cons, ih]
    | false =>
      rw [List.filter_cons_of_neg (by simp [hq]), List.find?_cons, h x List.mem_cons_self hq, ih]

theorem flagLayer_dropFlags (T : Table) (names : List String) (k : String)
    (h : ∀ fl ∈ T.flags, fl.name ∈ names → fl.key ≠ k) :
    ∀ args : Layer, (flagLayer (T.dropFlags names) args).lookup k = (flagLayer T args).lookup k
  | [] => rfl
  | a :: rest => by
    have ih := flagLayer_dropFlags T names k h rest
    unfold flagLayer Table.dropFlags at ih ⊢
    simp only [List.filterMap_cons] at ih ⊢
    rw [find_dropFlags names a.1 T.flags]
    by_cases hn : a.1 ∈ names
    · simp only [hn, if_true, Option.map_none]
      cases hf : T.flags.find? (fun fl => fl.name = a.1) with
      | none => simpa using ih
      | some fl =>
        have hname : fl.name = a.1 := by simpa using List.find?_some hf
        have hk : fl.key ≠ k := h fl (List.mem_of_find?_eq_some hf) (hname ▸ hn)
        have : (k == fl.key) = false := by simpa using fun e : k = fl.key => hk e.symm
        simp only [Option.map_some, List.lookup_cons, this]
        exact ih
    · simp only [hn, if_false]
      cases hf : T.flags.find? (fun fl => fl.name = a.1) with
      | none => simpa using ih
      | some fl =>
        simp only [Option.map_some, List.lookup_cons]
        cases (k == fl.key) with
        | true => rfl
        | false => exact ih

theorem flagDefault_dropFlags (T : Table) (names : List String) (k : String)
    (h : ∀ fl ∈ T.flags, fl.name ∈ names → fl.key ≠ k) :
    flagDefault (T.dropFlags names) k = flagDefault T k := by
  unfold flagDefault Table.dropFlags
  simp only
  rw [find_filter_irrelevant]
  intro fl hfl hq
  have : fl.name ∈ names := by simpa using hq
  simpa using h fl hfl this

theorem resolve_dropFlags (T : Table) (names : List String) (D args file : Layer) (f : Field)
    (h : ∀ fl ∈ T.flags, fl.name ∈ names → fl.key ≠ f.ms) :
    resolve (T.dropFlags names) D args file f = resolve T D args file f := by
  unfold resolve
  rw [flagLayer_dropFlags T names f.ms h args, flagDefault_dropFlags T names f.ms h]

end Config

/-! ## the genesis text parser reads `a ++ suffix` as it reads `a` -/
namespace GenesisFile

/-- what the parser reads does not depend on what follows the part of the input it needed -/
def Stable {α : Type} (p : Parser α) : Prop :=
  ∀ (a : Bytes) (x : α) (r s : Bytes), p a = some (x, r) → p (a ++ s) = some (x, r ++ s)

theorem Stable.pure {α : Type} (x : α) : Stable (Parser.pure x) := by
  intro a y r s h
  simp only [Parser.pure, Option.some.injEq, Prod.mk.injEq] at h ⊢
  exact ⟨h.1, by rw [h.2]⟩

theorem Stable.fail {α : Type} : Stable (Parser.fail : Parser α) := by
  intro a y r s h; simp [Parser.fail] at h

theorem Stable.bind {α β : Type} {p : Parser α} {f : α → Parser β} (hp : Stable p) (hf : ∀ x, Stable (f x)) :
    Stable (p.bind f) := by
  intro a y r s h
  unfold Parser.bind at h ⊢
  cases hpa : p a with
  | none => rw [hpa] at h; cases h
  | some xr =>
    obtain ⟨x, r'⟩ := xr
    rw [hpa] at h
    rw [hp a x r' s hpa]
    exact hf x r' y r s h

theorem Stable.ite {α : Type} {c : Prop} [Decidable c] {p q : Parser α} (hp : Stable p) (hq : Stable q) :
    Stable (if c then p else q) := by
  split <;> assumption

theorem expect_append : ∀ (l a r s : Bytes), expect l a = some r → expect l (a ++ s) = some (r ++ s)
  | [], a, r, s, h => by simp only [expect, Option.some.injEq] at h ⊢; rw [h]
  | _ :: _, [], _, _, h => by simp [expect] at h
  | l :: ls, b :: bs, r, s, h => by
    simp only [expect, List.cons_append] at h ⊢
    split at h
    · next hlb => simp only [hlb, if_true]; exact expect_append ls bs r s h
    · cases h

theorem stable_pExpect (lit : Bytes) : Stable (pExpect lit) := by
  intro a x r s h
  unfold pExpect at h ⊢
  cases he : expect lit a with
  | none => rw [he] at h; cases h
  | some r' =>
    rw [he] at h
    simp only [Option.map_some, Option.some.injEq, Prod.mk.injEq] at h
    rw [expect_append lit a r' s he]
    simp [h.2]

theorem stable_pByte : Stable pByte := by
  intro a x r s h
  cases a with
  | nil => cases h
  | cons b bs =>
    simp only [pByte, Option.some.injEq, Prod.mk.injEq] at h
    simp [pByte, h.1, h.2]

theorem stable_pFixed (w : Nat) : Stable (pFixed w) := by
  intro a x r s h
  unfold pFixed at h ⊢
  simp only at h ⊢
  split at h
  · next hc =>
    simp only [Bool.and_eq_true, decide_eq_true_eq] at hc
    have hlen : w ≤ a.length := by
      have := hc.1; rw [List.length_take] at this; omega
    have ht : (a ++ s).take w = a.take w := List.take_append_of_le_length hlen
    have hd : (a ++ s).drop w = a.drop w ++ s := List.drop_append_of_le_length hlen
    simp only [Option.some.injEq, Prod.mk.injEq] at h
    rw [ht, hd]
    simp [hc.1, hc.2, h.1, h.2]
  · cases h

theorem takeWhile_dropWhile_append (p : UInt8 → Bool) :
    ∀ (a s : Bytes), a.dropWhile p ≠ [] →
      (a ++ s).takeWhile p = a.takeWhile p ∧ (a ++ s).dropWhile p = a.dropWhile p ++ s
  | [], _, h => by simp at h
  | b :: bs, s, h => by
    by_cases hb : p b = true
    · have h' : bs.dropWhile p ≠ [] := by simpa [List.dropWhile, hb] using h
      have ih := takeWhile_dropWhile_append p bs s h'
      simp [List.takeWhile, List.dropWhile, hb, ih.1, ih.2]
    · simp [List.takeWhile, List.dropWhile, hb]

theorem stable_pWhile (p : UInt8 → Bool) : Stable (pWhile p) := by
  intro a x r s h
  unfold pWhile at h ⊢
  split at h
  · cases h
  · next hne =>
    have hne' : a.dropWhile p ≠ [] := by simpa using hne
    have hts := takeWhile_dropWhile_append p a s hne'
    simp only [Option.some.injEq, Prod.mk.injEq] at h
    rw [hts.1, hts.2]
    have hemp : ((a.dropWhile p ++ s).isEmpty) = false := by
      cases hd : a.dropWhile p with
      | nil => exact absurd hd hne'
      | cons _ _ => rfl
    rw [hemp]
    simp only [Bool.false_eq_true, if_false]
    rw [h.1, h.2]

theorem stable_unescapeOne : Stable unescapeOne := by
  intro a x r s h
  cases a with
  | nil => cases h
  | cons e rest =>
    simp only [unescapeOne, List.cons_append] at h ⊢
    split at h
    · next he =>
      simp only [he, if_true]
      match rest, h with
      | h1 :: h2 :: h3 :: h4 :: rest', h =>
        simp only [List.cons_append] at h ⊢
        cases hv1 : hexVal h1 <;> cases hv2 : hexVal h2 <;> cases hv3 : hexVal h3 <;> cases hv4 : hexVal h4 <;>
          simp only [hv1, hv2, hv3, hv4] at h ⊢ <;> first | (cases h; done) | skip
        simp only [Option.some.injEq, Prod.mk.injEq] at h
        simp [h.1, h.2]
      | [], h => cases h
      | [_], h => cases h
      | [_, _], h => cases h
      | [_, _, _], h => cases h
    · next he =>
      simp only [he, if_false]
      repeat' split at h
      all_goals first
        | (cases h; done)
        | (simp only [Option.some.injEq, Prod.mk.injEq] at h
           simp_all)

theorem parseStringBody_append :
    ∀ (f : Nat) (a acc v r s : Bytes), parseStringBody f a acc = some (v, r) →
      ∀ f', f ≤ f' → parseStringBody f' (a ++ s) acc = some (v, r ++ s)
  | 0, _, _, _, _, _, h, _, _ => by simp [parseStringBody] at h
  | _ + 1, [], _, _, _, _, h, _, _ => by simp [parseStringBody] at h
  | f + 1, b :: rest, acc, v, r, s, h, f', hf => by
    obtain ⟨g, rfl⟩ : ∃ g, f' = g + 1 := ⟨f' - 1, by omega⟩
    have hg : f ≤ g := by omega
    simp only [parseStringBody, List.cons_append] at h ⊢
    split at h
    · next hq =>
      simp only [hq, if_true]
      simp only [Option.some.injEq, Prod.mk.injEq] at h
      simp [h.1, h.2]
    · next hq =>
      simp only [hq, if_false]
      split at h
      · next hbs =>
        simp only [hbs, if_true]
        cases hu : unescapeOne rest with
        | none => rw [hu] at h; cases h
        | some vr =>
          obtain ⟨v', rest'⟩ := vr
          rw [hu] at h
          rw [stable_unescapeOne rest v' rest' s hu]
          exact parseStringBody_append f rest' _ v r s h g hg
      · next hbs =>
        simp only [hbs, if_false]
        split at h
        · cases h
        · next hc =>
          simp only [hc, if_false]
          exact parseStringBody_append f rest _ v r s h g hg

theorem stable_pString : Stable pString := by
  intro a x r s h
  unfold pString at h ⊢
  exact parseStringBody_append _ a [] x r s h _ (by rw [List.length_append]; omega)

theorem stable_pFrac : Stable pFrac := by
  intro a x r s h
  cases a with
  | nil => cases h
  | cons b rest =>
    simp only [pFrac, List.cons_append] at h ⊢
    split at h
    · next hb =>
      simp only [hb, if_true]
      have : Stable ((pWhile isDigitB).bind fun ds =>
          if ds.isEmpty || ds.length > 9 then Parser.fail
          else Parser.pure (natOfDigits (ds ++ List.replicate (9 - ds.length) 48))) :=
        Stable.bind (stable_pWhile _) fun ds => by
          split
          · exact Stable.fail
          · exact Stable.pure _
      exact this rest x r s h
    · next hb =>
      simp only [hb, if_false]
      simp only [Option.some.injEq, Prod.mk.injEq] at h
      simp [h.1, ← h.2]

theorem stable_pZone : Stable pZone := by
  unfold pZone
  refine Stable.bind stable_pByte fun b => ?_
  split
  · exact Stable.pure _
  · split
    · refine Stable.bind (stable_pFixed 2) fun zh => Stable.bind (stable_pExpect _) fun _ =>
        Stable.bind (stable_pFixed 2) fun zmn => ?_
      split
      · exact Stable.fail
      · exact Stable.pure _
    · exact Stable.fail

theorem stable_pTime : Stable pTime := by
  unfold pTime
  refine Stable.bind (stable_pFixed 4) fun y => Stable.bind (stable_pExpect _) fun _ =>
    Stable.bind (stable_pFixed 2) fun mo => Stable.bind (stable_pExpect _) fun _ =>
    Stable.bind (stable_pFixed 2) fun d => Stable.bind (stable_pExpect _) fun _ =>
    Stable.bind (stable_pFixed 2) fun h => Stable.bind (stable_pExpect _) fun _ =>
    Stable.bind (stable_pFixed 2) fun mi => Stable.bind (stable_pExpect _) fun _ =>
    Stable.bind (stable_pFixed 2) fun s => Stable.bind stable_pFrac fun ns =>
    Stable.bind stable_pZone fun off => Stable.bind (stable_pExpect _) fun _ => ?_
  split
  · exact Stable.fail
  · exact Stable.pure _

theorem stable_pNat : Stable pNat := by
  unfold pNat
  refine Stable.bind (stable_pWhile _) fun ds => ?_
  split
  · exact Stable.fail
  · exact Stable.pure _

theorem stable_pProposer : Stable pProposer := by
  intro a x r s h
  cases a with
  | nil => cases h
  | cons b rest =>
    simp only [pProposer, List.cons_append] at h ⊢
    split at h
    · next hb =>
      simp only [hb, if_true]
      have : Stable ((pWhile (· ≠ ch '"')).bind fun body => pByte.bind fun _ =>
          match unbase64 body with
          | some v => Parser.pure (some v)
          | none => Parser.fail) :=
        Stable.bind (stable_pWhile _) fun body => Stable.bind stable_pByte fun _ => by
          split
          · exact Stable.pure _
          · exact Stable.fail
      exact this rest x r s h
    · next hb =>
      simp only [hb, if_false]
      have : Stable ((pExpect (str "null")).bind fun _ => (Parser.pure none : Parser (Option Bytes))) :=
        Stable.bind (stable_pExpect _) fun _ => Stable.pure _
      exact this (b :: rest) x r s h

theorem stable_pDocument : Stable pDocument := by
  unfold pDocument
  exact Stable.bind (stable_pExpect _) fun _ => Stable.bind stable_pString fun _ =>
    Stable.bind (stable_pExpect _) fun _ => Stable.bind stable_pTime fun _ =>
    Stable.bind (stable_pExpect _) fun _ => Stable.bind stable_pNat fun _ =>
    Stable.bind (stable_pExpect _) fun _ => Stable.bind stable_pProposer fun _ =>
    Stable.bind (stable_pExpect _) fun _ => Stable.pure _

end GenesisFile
