import Model.Config
import Model.ConfigGenesis

/-! Helper lemmas for `Spec/C18.lean`. -/
namespace Config

/-! ## lists -/

theorem nodup_map_inj {α β : Type} (φ : α → β) :
    ∀ {l : List α}, (l.map φ).Nodup → ∀ {a b : α}, a ∈ l → b ∈ l → φ a = φ b → a = b
  | [], _, _, _, ha, _, _ => by cases ha
  | x :: l, h, a, b, ha, hb, hab => by
    rw [List.map_cons, List.nodup_cons] at h
    rcases List.mem_cons.mp ha with rfl | ha'
    · rcases List.mem_cons.mp hb with rfl | hb'
      · rfl
      · exact absurd (hab ▸ List.mem_map_of_mem (f := φ) hb') h.1
    · rcases List.mem_cons.mp hb with rfl | hb'
      · exact absurd (hab ▸ List.mem_map_of_mem (f := φ) ha') h.1
      · exact nodup_map_inj φ h.2 ha' hb' hab

/-- in a list with distinct keys, looking up the key of a member finds the member's value -/
theorem lookup_map_of_mem {α : Type} (κ ν : α → String) :
    ∀ {l : List α}, (l.map κ).Nodup → ∀ {x : α}, x ∈ l →
      (l.map fun y => (κ y, ν y)).lookup (κ x) = some (ν x)
  | [], _, _, hx => by cases hx
  | y :: l, h, x, hx => by
    rw [List.map_cons, List.nodup_cons] at h
    rw [List.map_cons, List.lookup_cons]
    rcases List.mem_cons.mp hx with rfl | hx'
    · simp
    · have hne : κ x ≠ κ y := fun e => h.1 (e ▸ List.mem_map_of_mem (f := κ) hx')
      have : (κ x == κ y) = false := by simpa using hne
      rw [this]
      exact lookup_map_of_mem κ ν h.2 hx'

/-- a key that no member carries is not found -/
theorem lookup_map_none {α : Type} (κ ν : α → String) (k : String) :
    ∀ {l : List α}, (∀ x ∈ l, κ x ≠ k) → (l.map fun y => (κ y, ν y)).lookup k = none
  | [], _ => rfl
  | y :: l, h => by
    rw [List.map_cons, List.lookup_cons]
    have : (k == κ y) = false := by simpa using (h y (List.mem_cons_self)).symm
    rw [this]
    exact lookup_map_none κ ν k fun x hx => h x (List.mem_cons_of_mem _ hx)

theorem lookup_append_none (a b : Layer) (k : String) (h : a.lookup k = none) :
    (a ++ b).lookup k = b.lookup k := by
  induction a with
  | nil => rfl
  | cons x a ih =>
    rw [List.lookup_cons] at h
    rw [List.cons_append, List.lookup_cons]
    split at h
    · cases h
    · exact ih h

theorem find_of_mem_nodup {α : Type} (κ : α → String) :
    ∀ {l : List α}, (l.map κ).Nodup → ∀ {x : α}, x ∈ l → l.find? (fun y => κ y = κ x) = some x
  | [], _, _, hx => by cases hx
  | y :: l, h, x, hx => by
    rw [List.map_cons, List.nodup_cons] at h
    rcases List.mem_cons.mp hx with rfl | hx'
    · simp
    · have hne : κ y ≠ κ x := fun e => h.1 (e ▸ List.mem_map_of_mem (f := κ) hx')
      rw [List.find?_cons]
      have : decide (κ y = κ x) = false := by simpa using hne
      rw [this]
      exact find_of_mem_nodup κ h.2 hx'

/-! ## flags -/

/-- with distinct flag names, "some registered flag called `n` binds key `k`" is a property of
the one flag `find?` returns -/
theorem any_name_key (T : Table) (hn : (T.flags.map (·.name)).Nodup) (n k : String) :
    (T.flags.any fun fl => fl.name = n ∧ fl.key = k) =
      match T.flags.find? (fun fl => fl.name = n) with
      | some fl => decide (fl.key = k)
      | none => false := by
  cases hf : T.flags.find? (fun fl => fl.name = n) with
  | none =>
    have := List.find?_eq_none.mp hf
    simp only [Bool.eq_false_iff, ne_eq, List.any_eq_true, not_exists, not_and]
    intro fl hfl h
    have h' : fl.name = n ∧ fl.key = k := by simpa using h
    exact this fl hfl (by simpa using h'.1)
  | some fl =>
    have hmem : fl ∈ T.flags := List.mem_of_find?_eq_some hf
    have hname : fl.name = n := by simpa using List.find?_some hf
    by_cases hk : fl.key = k
    · simp only [hk, decide_true, List.any_eq_true]
      exact ⟨fl, hmem, by simp [hname, hk]⟩
    · simp only [hk, decide_false, Bool.eq_false_iff, ne_eq, List.any_eq_true, not_exists, not_and]
      intro fl' hfl' h
      have h' : fl'.name = n ∧ fl'.key = k := by simpa using h
      have : fl' = fl := nodup_map_inj (·.name) hn hfl' hmem (h'.1.trans hname.symm)
      exact hk (this ▸ h'.2)

/-- the flag layer, looked up at key `k`, is the first argument whose flag binds `k` -/
theorem flagLayer_lookup (T : Table) (hn : (T.flags.map (·.name)).Nodup) (k : String) :
    ∀ args : Layer, (flagLayer T args).lookup k =
      (args.find? fun a => T.flags.any fun fl => fl.name = a.1 ∧ fl.key = k).map (·.2)
  | [] => rfl
  | a :: rest => by
    have ih := flagLayer_lookup T hn k rest
    unfold flagLayer at ih ⊢
    rw [List.filterMap_cons, List.find?_cons, any_name_key T hn a.1 k]
    cases hf : T.flags.find? (fun fl => fl.name = a.1) with
    | none => simpa using ih
    | some fl =>
      simp only [Option.map_some, List.lookup_cons]
      by_cases hk : fl.key = k
      · simp [hk]
      · have : (k == fl.key) = false := by simpa using fun e : k = fl.key => hk e.symm
        simp only [this, hk, decide_false]
        exact ih

theorem flagDefault_some {T : Table} {k v : String} (h : flagDefault T k = some v) :
    ∃ fl ∈ T.flags, fl.key = k ∧ fl.dflt = v := by
  unfold flagDefault at h
  cases hf : T.flags.find? (fun fl => fl.key = k) with
  | none => rw [hf] at h; cases h
  | some fl =>
    rw [hf] at h
    exact ⟨fl, List.mem_of_find?_eq_some hf, by simpa using List.find?_some hf, by simpa using h⟩

/-! ## dropping flags that bind no field's key changes nothing for any field -/

theorem find_dropFlags (names : List String) (n : String) :
    ∀ l : List Flag, (l.filter fun fl => fl.name ∉ names).find? (fun fl => fl.name = n) =
      if n ∈ names then none else l.find? (fun fl => fl.name = n)
  | [] => by simp
  | x :: l => by
    have ih := find_dropFlags names n l
    by_cases hx : x.name ∈ names
    · rw [List.filter_cons_of_neg (by simpa using hx), ih]
      by_cases hn : n ∈ names
      · simp [hn]
      · have : x.name ≠ n := fun e => hn (e ▸ hx)
        simp [hn, this]
    · rw [List.filter_cons_of_pos (by simpa using hx), List.find?_cons, List.find?_cons, ih]
      by_cases hxn : x.name = n
      · have : n ∉ names := hxn ▸ hx
        simp [hxn, this]
      · simp [hxn]

theorem find_filter_irrelevant {α : Type} (p q : α → Bool) :
    ∀ l : List α, (∀ x ∈ l, q x = false → p x = false) → (l.filter q).find? p = l.find? p
  | [], _ => rfl
  | x :: l, h => by
    have ih := find_filter_irrelevant p q l fun y hy => h y (List.mem_cons_of_mem _ hy)
    cases hq : q x with
    | true => rw [List.filter_cons_of_pos hq, List.find?_cons, List.find?_cons, ih]
    | false =>
      rw [List.filter_cons_of_neg (by simp [hq]), List.find?_cons, h x List.mem_cons_self hq, ih]

theorem flagLayer_dropFlags (T : Table) (names : List String) (k : String)
    (h : ∀ fl ∈ T.flags, fl.name ∈ names → fl.key ≠ k) :
    ∀ args : Layer, (flagLayer (T.dropFlags names) args).lookup k = (flagLayer T args).lookup k
  | [] => rfl
  | a :: rest => by
    have ih := flagLayer_dropFlags T names k h rest
    unfold flagLayer Table.dropFlags at ih ⊢
    simp only [List.filterMap_cons] at ih ⊢
    rw [find_dropFlags names a.1 T.flags]
    by_cases hn : a.1 ∈ names
    · simp only [hn, if_true, Option.map_none]
      cases hf : T.flags.find? (fun fl => fl.name = a.1) with
      | none => simpa using ih
      | some fl =>
        have hname : fl.name = a.1 := by simpa using List.find?_some hf
        have hk : fl.key ≠ k := h fl (List.mem_of_find?_eq_some hf) (hname ▸ hn)
        have : (k == fl.key) = false := by simpa using fun e : k = fl.key => hk e.symm
        simp only [Option.map_some, List.lookup_cons, this]
        exact ih
    · simp only [hn, if_false]
      cases hf : T.flags.find? (fun fl => fl.name = a.1) with
      | none => simpa using ih
      | some fl =>
        simp only [Option.map_some, List.lookup_cons]
        cases (k == fl.key) with
        | true => rfl
        | false => exact ih

theorem flagDefault_dropFlags (T : Table) (names : List String) (k : String)
    (h : ∀ fl ∈ T.flags, fl.name ∈ names → fl.key ≠ k) :
    flagDefault (T.dropFlags names) k = flagDefault T k := by
  unfold flagDefault Table.dropFlags
  simp only
  rw [find_filter_irrelevant]
  intro fl hfl hq
  have : fl.name ∈ names := by simpa using hq
  simpa using h fl hfl this

theorem resolve_dropFlags (T : Table) (names : List String) (D args file : Layer) (f : Field)
    (h : ∀ fl ∈ T.flags, fl.name ∈ names → fl.key ≠ f.ms) :
    resolve (T.dropFlags names) D args file f = resolve T D args file f := by
  unfold resolve
  rw [flagLayer_dropFlags T names f.ms h args, flagDefault_dropFlags T names f.ms h]

end Config
