import Proofs.RetrieveScan
import Proofs.RetrieveHandoff

/-!
# Helper lemmas for C09: frame properties of `processNext` / `scan`, and the hand-off seen from `scan`
-/

namespace Retrieve
open Wire Chain

/-- what the scan never touches: the seen-caches -/
def SameFrame (a b : RNode) : Prop := a.seenH = b.seenH ∧ a.seenD = b.seenD

theorem SameFrame.refl (a : RNode) : SameFrame a a := ⟨rfl, rfl⟩
theorem SameFrame.trans {a b c : RNode} (h1 : SameFrame a b) (h2 : SameFrame b c) : SameFrame a c :=
  ⟨h1.1.trans h2.1, h1.2.trans h2.2⟩

theorem handleBlobs_frame (p : Bytes) (n : RNode) (da : Nat) (bs : List (Bytes × Oracle)) (evs : List Event) :
    SameFrame (handleBlobs p n da bs evs).1 n := by
  rw [handleBlobs_eq]; exact ⟨rfl, rfl⟩

theorem handleBlobs_hMarks_mono (p : Bytes) (n : RNode) (da : Nat) (bs : List (Bytes × Oracle)) (evs : List Event) :
    ∀ m ∈ n.hMarks, m ∈ (handleBlobs p n da bs evs).1.hMarks := by
  rw [handleBlobs_eq]; intro m hm; simp [hm]

theorem handleBlobs_dMarks_mono (p : Bytes) (n : RNode) (da : Nat) (bs : List (Bytes × Oracle)) (evs : List Event) :
    ∀ m ∈ n.dMarks, m ∈ (handleBlobs p n da bs evs).1.dMarks := by
  rw [handleBlobs_eq]; intro m hm; simp [hm]

theorem decisive_frame (p : Bytes) (n : RNode) (blobs : List (Bytes × Oracle)) (f : Fetch) (used : Nat) :
    SameFrame (decisive p n blobs f used).1 n ∧
    (∀ m ∈ n.hMarks, m ∈ (decisive p n blobs f used).1.hMarks) ∧
    (∀ m ∈ n.dMarks, m ∈ (decisive p n blobs f used).1.dMarks) := by
  cases f <;>
    simp only [decisive] <;>
    first
      | exact ⟨SameFrame.refl _, fun _ h => h, fun _ h => h⟩
      | exact ⟨handleBlobs_frame _ _ _ _ _, handleBlobs_hMarks_mono _ _ _ _ _, handleBlobs_dMarks_mono _ _ _ _ _⟩

theorem processNext_frame (p : Bytes) (n : RNode) (blobs : List (Bytes × Oracle)) :
    ∀ (fuel : Nat) (outs : List Fetch) (used : Nat),
      SameFrame (processNext p n blobs fuel outs used).1 n ∧
      (∀ m ∈ n.hMarks, m ∈ (processNext p n blobs fuel outs used).1.hMarks) ∧
      (∀ m ∈ n.dMarks, m ∈ (processNext p n blobs fuel outs used).1.dMarks) := by
  intro fuel
  induction fuel with
  | zero => intro _ _; exact ⟨SameFrame.refl _, fun _ h => h, fun _ h => h⟩
  | succ f ih =>
    intro outs used
    rw [processNext_succ]
    split
    · exact ih _ _
    · exact decisive_frame _ _ _ _ _

/-- a passed height whose attempts never answered "not found" went through `handleBlobs` -/
theorem processNext_passed_eq (p : Bytes) (n : RNode) (blobs : List (Bytes × Oracle)) (fuel : Nat)
    (outs : List Fetch) (used : Nat)
    (hv : (processNext p n blobs fuel outs used).2.2.1 = true) (hnf : Fetch.notFound ∉ outs) :
    (processNext p n blobs fuel outs used).1 = (handleBlobs p n n.daHeight blobs []).1 ∧
    (processNext p n blobs fuel outs used).2.1 = (handleBlobs p n n.daHeight blobs []).2 := by
  rcases retry_or_decisive blobs.length outs fuel with h | ⟨i, hi, h1, h2⟩
  · rw [processNext_all_retry p n blobs fuel outs used h] at hv; simp at hv
  · rw [processNext_decisive p n blobs fuel outs used i hi h1 h2] at hv ⊢
    have hne : outcomeAt outs i ≠ .notFound := by
      intro he
      unfold outcomeAt at he
      rw [List.getD_eq_getElem?_getD] at he
      cases hx : outs[i]? with
      | none => rw [hx] at he; simp at he
      | some x =>
        rw [hx] at he
        simp only [Option.getD_some] at he
        subst he
        exact hnf (List.mem_of_getElem? hx)
    cases hf : outcomeAt outs i <;> simp_all [decisive]

/-- whether a height is passed, and after how many attempts, depends on the blobs only through their number -/
theorem processNext_verdict_length (p p' : Bytes) (n n' : RNode) (blobs blobs' : List (Bytes × Oracle))
    (hl : blobs.length = blobs'.length) :
    ∀ (fuel : Nat) (outs : List Fetch) (used : Nat),
      (processNext p n blobs fuel outs used).2.2 = (processNext p' n' blobs' fuel outs used).2.2 := by
  intro fuel
  induction fuel with
  | zero => intro _ _; rfl
  | succ f ih =>
    intro outs used
    rw [processNext_succ, processNext_succ, hl]
    split
    · exact ih _ _
    · cases outcomeAt outs 0 <;> rfl

/-! ### `DAView` bookkeeping -/

theorem setScript_blobsAt (v : DAView) (h h' : Nat) (l : List Fetch) :
    (v.setScript h l).blobsAt h' = v.blobsAt h' := rfl

theorem setScript_scriptAt (v : DAView) (h h' : Nat) (l : List Fetch) :
    (v.setScript h l).scriptAt h' = if h' = h then l else v.scriptAt h' := by
  unfold DAView.setScript DAView.scriptAt
  simp only [List.find?_cons]
  by_cases he : h' = h
  · simp [he]
  · have : (decide (h = h')) = false := by simp; omega
    simp only [this, he, ↓reduceIte, List.find?_filter]
    congr 3
    funext a
    by_cases ha : a.1 = h' <;> simp [ha] ; omega

theorem notFound_effective (v : DAView) (h : Nat) (hn : Fetch.notFound ∉ v.scriptAt h) :
    Fetch.notFound ∉ v.effective h := by
  unfold DAView.effective
  have h1 : Fetch.notFound ∉ (v.scriptAt h).map fun o => if o = .ok && h ≥ v.top then Fetch.future else o := by
    intro hm
    rcases List.mem_map.mp hm with ⟨o, ho, he⟩
    split at he
    · simp at he
    · subst he; exact hn ho
  simp only
  split
  · intro hm
    rcases List.mem_append.mp hm with hm | hm
    · exact h1 hm
    · simp [List.mem_replicate] at hm
  · exact h1

/-! ### `scan` -/

/-- the first height a scan examines is its cursor -/
theorem scan_head (p : Bytes) (fuel : Nat) (n : RNode) (v : DAView) :
    ((scan p (fuel + 1) n v [] []).2.2.2.head?).map (·.1) = some n.daHeight := by
  rw [scan]
  simp only
  split
  · rw [(scan_trace_acc p fuel _ _ _ _).1]; simp
  · simp

theorem scan_frame (p : Bytes) :
    ∀ (fuel : Nat) (n : RNode) (v : DAView) (evs : List Event) (tr : List (Nat × Nat × Bool)),
      SameFrame (scan p fuel n v evs tr).1 n ∧
      (∀ m ∈ n.hMarks, m ∈ (scan p fuel n v evs tr).1.hMarks) ∧
      (∀ m ∈ n.dMarks, m ∈ (scan p fuel n v evs tr).1.dMarks) := by
  intro fuel
  induction fuel with
  | zero => intro n v evs tr; exact ⟨SameFrame.refl _, fun _ h => h, fun _ h => h⟩
  | succ f ih =>
    intro n v evs tr
    rw [scan]
    have hf := processNext_frame p n (v.blobsAt n.daHeight) dAFetcherRetries (v.effective n.daHeight) 0
    generalize processNext p n (v.blobsAt n.daHeight) dAFetcherRetries (v.effective n.daHeight) 0 = r at hf
    simp only
    split
    · obtain ⟨a, b, c⟩ := ih { r.1 with daHeight := n.daHeight + 1 }
        (v.setScript n.daHeight ((v.scriptAt n.daHeight).drop r.2.2.2)) (evs ++ r.2.1)
        (tr ++ [(n.daHeight, r.2.2.2, r.2.2.1)])
      exact ⟨SameFrame.trans a hf.1, fun m hm => b m (hf.2.1 m hm), fun m hm => c m (hf.2.2 m hm)⟩
    · exact hf

/-- **the hand-off seen from the scan loop**: for every height the scan passed, provided the DA layer never
answered "not found" for it, every event and every mark `handleBlobs` owes for that height's blobs is in the
scan's output -/
theorem scan_handoff (p : Bytes) :
    ∀ (fuel : Nat) (n : RNode) (v : DAView) (h k : Nat) (sH sD : List Bytes), n.seenH = sH → n.seenD = sD →
      (h, k, true) ∈ (scan p fuel n v [] []).2.2.2 → Fetch.notFound ∉ v.scriptAt h →
      (∀ ev ∈ (v.blobsAt h).filterMap (eventOf p sH sD h), ev ∈ (scan p fuel n v [] []).2.2.1) ∧
      (∀ m ∈ (v.blobsAt h).filterMap (hMarkOf p h), m ∈ (scan p fuel n v [] []).1.hMarks) ∧
      (∀ m ∈ (v.blobsAt h).filterMap (dMarkOf p h), m ∈ (scan p fuel n v [] []).1.dMarks) := by
  intro fuel
  induction fuel with
  | zero => intro n v h k sH sD _ _ hm; simp [scan] at hm
  | succ f ih =>
    intro n v h k sH sD hsH hsD hm hnf
    subst hsH hsD
    rw [scan] at hm ⊢
    have hpe := processNext_passed_eq p n (v.blobsAt n.daHeight) dAFetcherRetries (v.effective n.daHeight) 0
    have hfr := processNext_frame p n (v.blobsAt n.daHeight) dAFetcherRetries (v.effective n.daHeight) 0
    generalize processNext p n (v.blobsAt n.daHeight) dAFetcherRetries (v.effective n.daHeight) 0 = r
      at hm hpe hfr ⊢
    simp only at hm ⊢
    split
    · rename_i hv
      rw [if_pos hv] at hm
      obtain ⟨a1, a2, a3, _⟩ := scan_trace_acc p f { r.1 with daHeight := n.daHeight + 1 }
        (v.setScript n.daHeight ((v.scriptAt n.daHeight).drop r.2.2.2)) ([] ++ r.2.1)
        ([] ++ [(n.daHeight, r.2.2.2, r.2.2.1)])
      rw [a1] at hm
      rw [a2, a3]
      have hsf := scan_frame p f { r.1 with daHeight := n.daHeight + 1 }
        (v.setScript n.daHeight ((v.scriptAt n.daHeight).drop r.2.2.2)) [] []
      rcases List.mem_append.mp hm with hm | hm
      · -- the height just processed
        have hh : h = n.daHeight := by simp at hm; exact hm.1
        subst hh
        obtain ⟨e1, e2⟩ := hpe hv (notFound_effective v _ hnf)
        rw [handleBlobs_eq] at e1 e2
        refine ⟨?_, ?_, ?_⟩
        · intro ev hev
          refine List.mem_append.mpr (Or.inl ?_)
          rw [List.nil_append, e2]; simpa using hev
        · intro m hmm
          apply hsf.2.1
          simp only [e1]
          simp only [List.mem_append, List.mem_reverse]
          exact Or.inl hmm
        · intro m hmm
          apply hsf.2.2
          simp only [e1]
          simp only [List.mem_append, List.mem_reverse]
          exact Or.inl hmm
      · -- a later height
        have hnf' : Fetch.notFound ∉
            (v.setScript n.daHeight ((v.scriptAt n.daHeight).drop r.2.2.2)).scriptAt h := by
          rw [setScript_scriptAt]
          split
          · rename_i he
            subst he
            exact fun hx => hnf (List.mem_of_mem_drop hx)
          · exact hnf
        obtain ⟨b1, b2, b3⟩ := ih { r.1 with daHeight := n.daHeight + 1 }
          (v.setScript n.daHeight ((v.scriptAt n.daHeight).drop r.2.2.2)) h k n.seenH n.seenD
          hfr.1.1 hfr.1.2 hm hnf'
        rw [setScript_blobsAt] at b1 b2 b3
        exact ⟨fun ev hev => List.mem_append.mpr (Or.inr (b1 ev hev)), b2, b3⟩
    · rename_i hv
      rw [if_neg hv] at hm
      simp at hm
      exact absurd hm.2.2.symm (by simpa using hv)

/-- what a round at one height can emit: nothing if the height is not passed (and then the node is unchanged);
otherwise nothing (confirmed empty) or exactly the hand-off of that height's blobs -/
theorem processNext_events_sound (p : Bytes) (n : RNode) (blobs : List (Bytes × Oracle)) (fuel : Nat)
    (outs : List Fetch) (used : Nat) :
    ((processNext p n blobs fuel outs used).2.2.1 = false →
      (processNext p n blobs fuel outs used).2.1 = [] ∧ (processNext p n blobs fuel outs used).1 = n) ∧
    ((processNext p n blobs fuel outs used).2.1 = [] ∨
      (processNext p n blobs fuel outs used).2.1 = (handleBlobs p n n.daHeight blobs []).2) := by
  rcases retry_or_decisive blobs.length outs fuel with h | ⟨i, hi, h1, h2⟩
  · rw [processNext_all_retry p n blobs fuel outs used h]; simp
  · rw [processNext_decisive p n blobs fuel outs used i hi h1 h2]
    cases outcomeAt outs i <;> simp [decisive]

/-- **nothing else is handed to sync**: every event a scan emits is the event some blob at a passed height owes,
carrying that height -/
theorem scan_events_sound (p : Bytes) :
    ∀ (fuel : Nat) (n : RNode) (v : DAView) (sH sD : List Bytes), n.seenH = sH → n.seenD = sD →
      ∀ ev ∈ (scan p fuel n v [] []).2.2.1, ∃ h k, (h, k, true) ∈ (scan p fuel n v [] []).2.2.2 ∧
        ev ∈ (v.blobsAt h).filterMap (eventOf p sH sD h) := by
  intro fuel
  induction fuel with
  | zero => intro n v sH sD _ _ ev hev; simp [scan] at hev
  | succ f ih =>
    intro n v sH sD hsH hsD ev hev
    subst hsH hsD
    rw [scan] at hev ⊢
    have hso := processNext_events_sound p n (v.blobsAt n.daHeight) dAFetcherRetries (v.effective n.daHeight) 0
    have hfr := processNext_frame p n (v.blobsAt n.daHeight) dAFetcherRetries (v.effective n.daHeight) 0
    generalize processNext p n (v.blobsAt n.daHeight) dAFetcherRetries (v.effective n.daHeight) 0 = r
      at hev hso hfr ⊢
    simp only at hev ⊢
    split
    · rename_i hv
      rw [if_pos hv] at hev
      obtain ⟨a1, a2, _, _⟩ := scan_trace_acc p f { r.1 with daHeight := n.daHeight + 1 }
        (v.setScript n.daHeight ((v.scriptAt n.daHeight).drop r.2.2.2)) ([] ++ r.2.1)
        ([] ++ [(n.daHeight, r.2.2.2, r.2.2.1)])
      rw [a2] at hev
      rw [a1]
      rcases List.mem_append.mp hev with hev | hev
      · rw [List.nil_append] at hev
        rcases hso.2 with he | he
        · rw [he] at hev; simp at hev
        · rw [he, handleBlobs_eq] at hev
          refine ⟨n.daHeight, r.2.2.2, ?_, by simpa using hev⟩
          rw [hv]; simp
      · obtain ⟨h, k, hm, hin⟩ := ih { r.1 with daHeight := n.daHeight + 1 }
          (v.setScript n.daHeight ((v.scriptAt n.daHeight).drop r.2.2.2)) n.seenH n.seenD
          hfr.1.1 hfr.1.2 ev hev
        rw [setScript_blobsAt] at hin
        exact ⟨h, k, List.mem_append.mpr (Or.inr hm), hin⟩
    · rename_i hv
      rw [if_neg hv] at hev
      rw [(hso.1 (by simpa using hv)).1] at hev
      simp at hev

/-- a scan whose first height cannot be passed stops there: one trace entry, nothing emitted, node unchanged -/
theorem scan_stops (p : Bytes) (fuel : Nat) (n : RNode) (v : DAView)
    (hv : (processNext p n (v.blobsAt n.daHeight) dAFetcherRetries (v.effective n.daHeight) 0).2.2.1 = false) :
    (scan p (fuel + 1) n v [] []).1 = n ∧ (scan p (fuel + 1) n v [] []).2.2.1 = [] ∧
    (scan p (fuel + 1) n v [] []).2.2.2 =
      [(n.daHeight, (processNext p n (v.blobsAt n.daHeight) dAFetcherRetries (v.effective n.daHeight) 0).2.2.2, false)] := by
  have hso := (processNext_events_sound p n (v.blobsAt n.daHeight) dAFetcherRetries (v.effective n.daHeight) 0).1 hv
  rw [scan]
  simp only [hv, Bool.false_eq_true, ↓reduceIte, List.nil_append]
  exact ⟨hso.2, hso.1, trivial⟩

end Retrieve
