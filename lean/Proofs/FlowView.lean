import Proofs.CrashRun
import Model.Flow

/-!
# C11 helpers (1): the transactions of the chain, and what one production step writes about them

* `chainTxs`, `pendingTxs`: the transactions of the committed blocks in height order / of the block stored at
  `height + 1`;
* the *durable* view of a store image (`durH`, `durChain`, `durPend`): what a restart on this image will see;
* `publish_tx`: the writes of `Producer.publish` with a successful execution, with the transactions and the
  time of every block they save.
-/
namespace Flow
open Wire Chain Producer

/-- transactions of the block stored at `h` (none stored: none) -/
def blockTxs (s : Store) (h : Nat) : List Bytes :=
  match s.getBlock h with
  | some b => b.data.txs
  | none => []

/-- transactions of the blocks at heights `1 … h`, in height order -/
def chainUpTo (s : Store) : Nat → List Bytes
  | 0 => []
  | h + 1 => chainUpTo s h ++ blockTxs s (h + 1)

/-- the transactions of the committed chain, in order -/
def chainTxs (s : Store) : List Bytes := chainUpTo s s.height

/-- the transactions of the block waiting at `height + 1` (early-saved, not yet committed) -/
def pendingTxs (s : Store) : List Bytes := blockTxs s (s.height + 1)

theorem blockTxs_congr {s s' : Store} {h : Nat} (e : s'.getBlock h = s.getBlock h) : blockTxs s' h = blockTxs s h := by
  unfold blockTxs; rw [e]

theorem chainUpTo_congr {s s' : Store} {h : Nat} (e : ∀ k, k ≤ h → s'.getBlock k = s.getBlock k) :
    chainUpTo s' h = chainUpTo s h := by
  induction h with
  | zero => rfl
  | succ h ih =>
    simp only [chainUpTo]
    rw [ih (fun k hk => e k (by omega)), blockTxs_congr (e (h + 1) (Nat.le_refl _))]

theorem mem_chainUpTo {s : Store} {h : Nat} {t : Bytes} :
    t ∈ chainUpTo s h ↔ ∃ k, 1 ≤ k ∧ k ≤ h ∧ t ∈ blockTxs s k := by
  induction h with
  | zero =>
    constructor
    · intro h; cases h
    · rintro ⟨k, h1, h2, _⟩; omega
  | succ h ih =>
    simp only [chainUpTo, List.mem_append, ih]
    constructor
    · rintro (⟨k, h1, h2, h3⟩ | h3)
      · exact ⟨k, h1, by omega, h3⟩
      · exact ⟨h + 1, by omega, Nat.le_refl _, h3⟩
    · rintro ⟨k, h1, h2, h3⟩
      by_cases hk : k = h + 1
      · subst hk; exact Or.inr h3
      · exact Or.inl ⟨k, h1, by omega, h3⟩

/-! ## the durable view: what a restart on the image `d` will see -/

/-- the chain height after a restart on `d`: the height of the saved state (the recorded height may still be one
below it), the height below the genesis when no state was saved yet -/
def durH (c : Producer.Cfg) (d : Store) : Nat :=
  match d.state with
  | none => c.initialHeight - 1
  | some s => s.lastHeight

def durChain (c : Producer.Cfg) (d : Store) : List Bytes := chainUpTo d (durH c d)
def durPend (c : Producer.Cfg) (d : Store) : List Bytes := blockTxs d (durH c d + 1)

/-- a write that changes neither the saved state nor a block: the view stays -/
theorem dur_same {c : Producer.Cfg} {d d' : Store} (hs : d'.state = d.state) (hb : ∀ k, d'.getBlock k = d.getBlock k) :
    durH c d' = durH c d ∧ durChain c d' = durChain c d ∧ durPend c d' = durPend c d := by
  have h1 : durH c d' = durH c d := by unfold durH; rw [hs]
  refine ⟨h1, ?_, ?_⟩
  · unfold durChain; rw [h1]; exact chainUpTo_congr (fun k _ => hb k)
  · unfold durPend; rw [h1]; exact blockTxs_congr (hb _)

/-- a block saved at the durable height + 1 becomes the waiting block -/
theorem dur_save {c : Producer.Cfg} (d : Store) (b : Block) :
    durH c (d.apply (.saveBlock (durH c d + 1) b)) = durH c d ∧
    durChain c (d.apply (.saveBlock (durH c d + 1) b)) = durChain c d ∧
    durPend c (d.apply (.saveBlock (durH c d + 1) b)) = b.data.txs := by
  have h1 : durH c (d.apply (.saveBlock (durH c d + 1) b)) = durH c d := rfl
  refine ⟨h1, ?_, ?_⟩
  · unfold durChain; rw [h1]
    exact chainUpTo_congr (fun k hk => getBlock_saveBlock_other _ _ _ _ (by omega))
  · unfold durPend blockTxs; rw [h1, getBlock_saveBlock_same]

/-- the state of the next height becomes durable: the waiting block is committed -/
theorem dur_update {c : Producer.Cfg} (d : Store) (st : State) (h : st.lastHeight = durH c d + 1) :
    durH c (d.apply (.updateState st)) = durH c d + 1 ∧
    durChain c (d.apply (.updateState st)) = durChain c d ++ durPend c d ∧
    durPend c (d.apply (.updateState st)) = blockTxs d (durH c d + 2) := by
  have h1 : durH c (d.apply (.updateState st)) = durH c d + 1 := by
    show st.lastHeight = _; exact h
  refine ⟨h1, ?_, ?_⟩
  · unfold durChain; rw [h1]
    have e : chainUpTo (d.apply (.updateState st)) (durH c d + 1) = chainUpTo d (durH c d + 1) :=
      chainUpTo_congr (fun k _ => rfl)
    rw [e]; rfl
  · unfold durPend; rw [h1]; rfl

/-! ## the writes of one production step, with the transactions of the blocks they save -/

/-- the three writes that commit the block `fb` at `h + 1` -/
def commit3 (h : Nat) (fb : Block) (st : State) : List SW :=
  [.saveBlock (h + 1) fb, .updateState st, .setHeight (h + 1)]

theorem finish_tx (c : Producer.Cfg) (n : Producer.Node) (ws : List SW) (sh : SHeader) (d : Data) (ldh : Bytes)
    (ex : ExecResp) (hh : sh.hdr.height = n.store.height + 1) :
    ((finish c n ws sh d ldh ex).1 = n ∧ (finish c n ws sh d ldh ex).2.1 = ws) ∨
    (ex = .ok ∧ ∃ fb st, fb.data.txs = d.txs ∧ fb.sh.hdr.time = sh.hdr.time ∧ st.lastHeight = n.store.height + 1 ∧
      (finish c n ws sh d ldh ex).2.1 = ws ++ commit3 n.store.height fb st ∧
      (finish c n ws sh d ldh ex).1.store = n.store.applyAll (commit3 n.store.height fb st)) := by
  unfold finish
  cases ex with
  | fail => exact Or.inl ⟨rfl, rfl⟩
  | ok =>
    simp only
    split
    · exact Or.inl ⟨rfl, rfl⟩
    · refine Or.inr ⟨trivial, Block.mk (signed c sh) (withMeta d sh.hdr ldh) (signed c sh).sig,
        { nextState n.lastState sh.hdr (execRoot n.lastState.appHash d.txs) with daHeight := n.daHeight },
        rfl, rfl, ?_, ?_, ?_⟩
      · simp [nextState, hh]
      · simp [signed, hh, setHeightW, commit3]
      · simp [signed, hh, setHeightW, commit3, Store.applyAll]

/-- shape of the store writes of a step that found a block waiting at `height + 1` -/
def PendShape (n : Producer.Node) (T : List Bytes) (τ : Nat) (ex : ExecResp) (r : Producer.Node × List SW × Outcome) : Prop :=
  (r.1 = n ∧ r.2.1 = []) ∨
  (ex = .ok ∧ ∃ fb st, fb.data.txs = T ∧ fb.sh.hdr.time = τ ∧ st.lastHeight = n.store.height + 1 ∧
    r.2.1 = commit3 n.store.height fb st ∧ r.1.store = n.store.applyAll r.2.1)

/-- shape of the store writes of a step that built a fresh block from the batch `T` stamped `τ` -/
def FreshShape (n : Producer.Node) (T : List Bytes) (τ : Nat) (ex : ExecResp) (r : Producer.Node × List SW × Outcome) : Prop :=
  ∃ v eb, eb.data.txs = T ∧ eb.sh.hdr.time = τ ∧
    ((r.2.1 = [.setMeta lastBatchDataKey v, .saveBlock (n.store.height + 1) eb]) ∨
     (ex = .ok ∧ ∃ fb st, fb.data.txs = T ∧ fb.sh.hdr.time = τ ∧ st.lastHeight = n.store.height + 1 ∧
       r.2.1 = [.setMeta lastBatchDataKey v, .saveBlock (n.store.height + 1) eb] ++ commit3 n.store.height fb st)) ∧
    r.1.store = n.store.applyAll r.2.1

/-- **the writes of a production step** (`ex` = the execution layer's answer; a failing execution leaves only the
first alternative of each shape: nothing written / cursor and early save written): with a block waiting at `height + 1` the step
commits that block (its transactions, its time) or writes nothing; otherwise, asked with a batch that is not stamped
before the last block, it writes the batch cursor, then saves the fresh block with exactly the batch's transactions
early, then (if the block validates) commits it. -/
theorem publish_tx {c : Producer.Cfg} {n : Producer.Node} (hi : Inv c n) (hsg : c.signerAddr = c.proposerAddr)
    (T : List Bytes) (τ : Nat) (hτ : n.lastState.lastTime ≤ τ) (ex : ExecResp) :
    (∀ pb, n.store.getBlock (n.store.height + 1) = some pb →
      ∀ resp, PendShape n pb.data.txs pb.sh.hdr.time ex (publish c n resp ex)) ∧
    (n.store.getBlock (n.store.height + 1) = none → pendingRefuses c n = false → (prevInfo c n.store).isSome →
      FreshShape n T τ ex (publish c n (.batch T τ []) ex)) := by
  constructor
  · intro pb hpb resp
    unfold publish
    split
    · exact Or.inl ⟨rfl, rfl⟩
    · split
      · exact Or.inl ⟨rfl, rfl⟩
      · simp only [hpb]
        rcases finish_tx c n [] pb.sh pb.data _ ex (hi.pend pb hpb).height with ⟨a1, a2⟩ | ⟨hex, fb, st, b1, b2, b3, b4, b5⟩
        · exact Or.inl ⟨a1, a2⟩
        · refine Or.inr ⟨hex, fb, st, b1, b2, b3, by simpa using b4, ?_⟩
          rw [b5, b4]; rfl
  · intro hnone hnr hprev
    unfold publish
    simp only [hnr, Bool.false_eq_true, ↓reduceIte]
    cases hp : prevInfo c n.store with
    | none => rw [hp] at hprev; cases hprev
    | some x =>
      obtain ⟨ls, lhh, ldh, lht⟩ := x
      simp only [hnone]
      -- the batch is not stamped before the last block
      have hreg : regressed lht τ = false := by
        unfold prevInfo at hp
        by_cases hfirst : n.store.height + 1 ≤ c.initialHeight
        · rw [if_pos hfirst] at hp
          simp only [Option.some.injEq, Prod.mk.injEq] at hp
          obtain ⟨_, _, _, h4⟩ := hp
          subst h4; rfl
        · rw [if_neg hfirst] at hp
          obtain ⟨b, hb, ht, _⟩ := hi.tip (by omega)
          rw [hb] at hp
          simp only [Option.some.injEq, Prod.mk.injEq] at hp
          obtain ⟨_, _, _, h4⟩ := hp
          subst h4
          simp only [regressed, decide_eq_false_iff_not]
          omega
      unfold fresh
      simp only [hreg, Bool.false_eq_true, ↓reduceIte, hsg, ne_eq, not_true_eq_false]
      unfold buildAndFinish
      simp only [height_setMeta]
      obtain ⟨f1, _, _, f4, _, _, _, f8, _⟩ := createBlock_facts c n.lastState (n.store.height + 1) ls lhh T τ
      generalize createBlock c n.lastState (n.store.height + 1) ls lhh T τ = blk at f1 f4 f8
      have hh0 : (n.store.apply (.setMeta lastBatchDataKey (batchDataToBytes []))).height = n.store.height := rfl
      rcases finish_tx c
        { n with store := (n.store.apply (.setMeta lastBatchDataKey (batchDataToBytes []))).apply
                   (.saveBlock (n.store.height + 1) (Block.mk blk.1 blk.2 .none)), lastBatchData := [] }
        [.setMeta lastBatchDataKey (batchDataToBytes []), .saveBlock (n.store.height + 1) (Block.mk blk.1 blk.2 .none)]
        blk.1 blk.2 ldh ex f1 with ⟨a1, a2⟩ | ⟨hex, fb, st, b1, b2, b3, b4, b5⟩
      · refine ⟨batchDataToBytes [], Block.mk blk.1 blk.2 .none, f8, f4, Or.inl a2, ?_⟩
        rw [a1, a2]; rfl
      · refine ⟨batchDataToBytes [], Block.mk blk.1 blk.2 .none, f8, f4,
          Or.inr ⟨hex, fb, st, by rw [b1, f8], by rw [b2, f4], b3, b4⟩, ?_⟩
        rw [b5, b4]
        simp only [Producer.applyAll_append]
        rfl

end Flow
