import Drv.C13

def main : IO UInt32 := do
  Drv.loop (← IO.getStdin) (← IO.getStdout) () Drv.C13.step
  return 0
