import Drv.FullNode

def main : IO UInt32 := do
  Drv.loop (← IO.getStdin) (← IO.getStdout) ({} : Drv.FN.St) Drv.FN.step
  return 0
