import Drv.Retrieve

def main : IO UInt32 := do
  Drv.loop (← IO.getStdin) (← IO.getStdout) ({} : Drv.Ret.St) Drv.Ret.step
  return 0
