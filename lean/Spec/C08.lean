import Proofs.SubmitCrash

/-!
# C08 — the pending-submission limit throttles but never deadlocks block production

Model: `Producer.pendingRefuses` (`block/manager.go:601-604`; the counters are `height − watermark`,
`block/pending_base.go:74-81`), `Producer.publish`, the submission loops of `Model/Submit.lean`; executable and compared
with the real code on every run (stream C08).
-/
namespace Spec.C08
open Wire Chain Producer Submit

/-! ## safety -/

/-- production is refused only when one of the two counters has reached the configured limit -/
theorem refusal_needs_limit (c : Cfg) (n : Node) (h : pendingRefuses c n = true) :
    c.maxPending ≠ 0 ∧ (n.store.height - n.hdrWm ≥ c.maxPending ∨ n.store.height - n.dataWm ≥ c.maxPending) := by
  simp [pendingRefuses] at h
  exact ⟨h.1, h.2⟩

/-- without a limit nothing is ever refused -/
theorem no_limit_no_refusal (c : Cfg) (n : Node) (h : c.maxPending = 0) : pendingRefuses c n = false := by
  simp [pendingRefuses, h]

/-- a refused step changes nothing -/
theorem refused_step_is_noop (c : Cfg) (n : Node) (r : SeqResp) (e : ExecResp) (h : pendingRefuses c n = true) :
    publish c n r e = (n, [], .refused) := by
  unfold publish; rw [if_pos h]

/-- **What the counters count**, for every initial height ≥ 1, along every history (production, submission ticks with any
DA answers, inclusion passes, clean restarts, crashes between two actions and after any number of the durable writes of
the last action) from a fresh start: both watermarks lie in `[initialHeight − 1, chain height]`; every committed height
`initialHeight ≤ h ≤ hdrWm` is a stored block whose header blob the DA double holds; every height of `(hdrWm, height]` is a
committed block; every committed height `initialHeight ≤ h ≤ dataWm` is an empty block or a block whose signed data the DA
double holds; both counters are at most the number of committed blocks; a refusal means a counter reached the limit.
So `height − hdrWm` is the number of committed blocks **above the header watermark** and `height − dataWm` the number
above the data watermark.  That a height above a watermark was *not acknowledged* is the loop-level theorem
`Spec.C06.C06_acknowledged_at_most_watermark` (every acknowledged item is at or below the watermark); it is not restated
here height by height because the acknowledged set is kept by hash (`hMarks`) and only in memory.  The data counter
counts empty blocks too: `C08_refuses_only_while_waiting_fails`.
(Until /repo 6924f89 the counters of a chain with initial height `I > 1` started at `I − 1`: finding
`C08/refuses/initial-height-counted-as-pending`, fixed.) -/
theorem C08_refusal_counts_blocks_above_watermarks (c : Cfg) (h1 : 1 ≤ c.initialHeight) (acts : List ActR) :
    let a := (runR c (freshC c) acts).a
    (c.initialHeight - 1 ≤ a.n.hdrWm ∧ a.n.hdrWm ≤ a.n.store.height) ∧
    (c.initialHeight - 1 ≤ a.n.dataWm ∧ a.n.dataWm ≤ a.n.store.height) ∧
    (∀ h, c.initialHeight ≤ h → h ≤ a.n.hdrWm → ∃ b dh, a.n.store.getBlock h = some b ∧ b.sh.hdr.height = h ∧
      (dh, false, h) ∈ a.daBlobs) ∧
    (∀ h, a.n.hdrWm < h → h ≤ a.n.store.height →
      c.initialHeight ≤ h ∧ ∃ b, a.n.store.getBlock h = some b ∧ b.sh.hdr.height = h) ∧
    (∀ h, c.initialHeight ≤ h → h ≤ a.n.dataWm → ∃ b, a.n.store.getBlock h = some b ∧
      (b.data.txs = [] ∨ ∃ dh, (dh, true, h) ∈ a.daBlobs)) ∧
    (a.n.store.height - a.n.hdrWm ≤ a.n.store.height - (c.initialHeight - 1) ∧
     a.n.store.height - a.n.dataWm ≤ a.n.store.height - (c.initialHeight - 1)) ∧
    (pendingRefuses c a.n = true → c.maxPending ≠ 0 ∧
      (a.n.store.height - a.n.hdrWm ≥ c.maxPending ∨ a.n.store.height - a.n.dataWm ≥ c.maxPending)) := by
  intro a
  have r : R c a := ((CI_fresh c h1).run acts).r
  have l1 := r.low
  have l2 := r.dlow
  have hok := hdrOK_of_inv r.pinv r.low
  exact ⟨⟨by omega, r.le⟩, ⟨by omega, r.dle⟩, r.acc, fun h k1 k2 => ⟨by omega, hok h k1 k2⟩, r.dacc, ⟨by omega, by omega⟩,
    refusal_needs_limit c _⟩

/-- in particular **a freshly started node is never refused for blocks that do not exist**: with any limit ≥ 1 and any
initial height ≥ 1 both counters are 0 at start-up (they were `initialHeight − 1` before the repair) -/
theorem C08_fresh_node_not_refused (c : Cfg) (h1 : 1 ≤ c.initialHeight) :
    (freshNode c).store.height - (freshNode c).hdrWm = 0 ∧ (freshNode c).store.height - (freshNode c).dataWm = 0 ∧
    pendingRefuses c (freshNode c) = false := by
  have w := W_fresh c h1
  obtain ⟨hh, _⟩ := freshDisk_facts c
  have hh' : (freshNode c).store.height = c.initialHeight - 1 := hh
  have q1 : c.initialHeight ≤ (freshNode c).hdrWm + 1 := w.low
  have q2 : c.initialHeight ≤ (freshNode c).dataWm + 1 := w.dlow
  have e1 : (freshNode c).store.height - (freshNode c).hdrWm = 0 := by omega
  have e2 : (freshNode c).store.height - (freshNode c).dataWm = 0 := by omega
  refine ⟨e1, e2, ?_⟩
  unfold pendingRefuses
  by_cases hm : c.maxPending = 0
  · simp [hm]
  · rw [e1, e2]
    have : ¬ (0 ≥ c.maxPending) := by omega
    simp [this]

/-! ## "only while that many blocks are genuinely waiting": the empty blocks above the data watermark -/

/-- the committed blocks above the data watermark that carry transactions: the blocks whose signed data the DA layer has
not yet acknowledged to the node (assumption of this property, `props/C08.json`: "genuinely still waiting" is read as "not
yet acknowledged" — after a lost acknowledgement or a crash that dropped the record the node cannot know better) -/
def nonEmptyAbove (a : ANode) : Nat :=
  ((List.range (a.n.store.height - a.n.dataWm)).filter fun i =>
    match a.n.store.getBlock (a.n.dataWm + 1 + i) with
    | some b => !b.data.txs.isEmpty
    | none => false).length

/-- full statement, by the letter: production is refused only while at least `maxPending` committed blocks are waiting —
headers not yet acknowledged, or non-empty data not yet acknowledged -/
def C08_refuses_only_while_waiting_full : Prop :=
  ∀ (c : Cfg) (acts : List ActR), 1 ≤ c.initialHeight →
    pendingRefuses c (runR c (freshC c) acts).a.n = true →
    (runR c (freshC c) acts).a.n.store.height - (runR c (freshC c) acts).a.n.hdrWm ≥ c.maxPending ∨
    nonEmptyAbove (runR c (freshC c) acts).a ≥ c.maxPending

def wCfg : Cfg := { chainId := "w", initialHeight := 1, genesisTime := 100, proposerAddr := [1], key := 1,
                    signerAddr := [1], maxPending := 3 }
/-- three empty blocks, every header acknowledged, no data tick yet -/
def wActs : List ActR :=
  [.act (.produce (.batch [] 150 []) .ok), .act (.produce (.batch [] 200 []) .ok), .act (.produce (.batch [] 300 []) .ok),
   .act (.subH [])]

/-- **The full statement is false of the current code** (recorded finding
`C08/refuses/empty-blocks-counted-until-the-data-loop-passes-them`, kernel-checked): limit 3, three empty blocks, all
headers acknowledged — nothing is waiting for the DA layer, yet production is refused, because the data counter
`height − dataWm` counts the empty blocks until the data loop has passed over them (the next data tick: after /repo 5533199
this is transient, `C08_counters_clear`; before it was permanent). -/
theorem C08_refuses_only_while_waiting_fails : ¬ C08_refuses_only_while_waiting_full := by
  intro h
  have hw : pendingRefuses wCfg (runR wCfg (freshC wCfg) wActs).a.n = true ∧
      (runR wCfg (freshC wCfg) wActs).a.n.store.height - (runR wCfg (freshC wCfg) wActs).a.n.hdrWm = 0 ∧
      nonEmptyAbove (runR wCfg (freshC wCfg) wActs).a = 0 := by decide +kernel
  have := h wCfg wActs (by decide) hw.1
  rw [hw.2.1, hw.2.2] at this
  have h3 : wCfg.maxPending = 3 := rfl
  omega

/-- **Partial statement** (everything except the refuted case): whenever no empty block lies above the data watermark, a
refusal means that `maxPending` headers or `maxPending` non-empty data blocks are not yet acknowledged -/
theorem C08_refuses_only_while_waiting_partial (c : Cfg) (a : ANode)
    (hne : ∀ h, a.n.dataWm < h → h ≤ a.n.store.height → ∃ b, a.n.store.getBlock h = some b ∧ b.data.txs ≠ [])
    (hr : pendingRefuses c a.n = true) :
    a.n.store.height - a.n.hdrWm ≥ c.maxPending ∨ nonEmptyAbove a ≥ c.maxPending := by
  have hall : nonEmptyAbove a = a.n.store.height - a.n.dataWm := by
    unfold nonEmptyAbove
    rw [List.filter_eq_self.mpr, List.length_range]
    intro i hi
    rw [List.mem_range] at hi
    obtain ⟨b, hb, hn⟩ := hne (a.n.dataWm + 1 + i) (by omega) (by omega)
    rw [hb]
    cases ht : b.data.txs with
    | nil => exact absurd ht hn
    | cons _ _ => simp [ht]
  rw [hall]
  exact (refusal_needs_limit c a.n hr).2

/-! ## liveness, header half -/

/-- **After one header iteration against a DA layer that accepts (after fewer than 30 non-cancellation failures), no
header is pending**: `height − hdrWm = 0`, so the header counter never keeps production refused. -/
theorem C08_header_counter_clears (a : ANode) (fails tail : List DAAns)
    (htail : tail.headD (.ok none) = .ok none) (hnc : DAAns.canceled ∉ fails) (hf : fails.length < maxSubmitAttempts)
    (hok : ∀ h, a.n.hdrWm < h → h ≤ a.n.store.height → ∃ b, a.n.store.getBlock h = some b ∧ b.sh.hdr.height = h)
    (hle : a.n.hdrWm ≤ a.n.store.height) :
    (headersIter a (fails ++ tail)).1.n.store.height - (headersIter a (fails ++ tail)).1.n.hdrWm = 0 := by
  have := (headersIter_reaches a fails tail htail hnc hf hok hle).1
  omega

/-! ## liveness, data half -/

theorem C08_no_refusal_when_both_clear (c : Cfg) (n : Node) (h1 : n.hdrWm = n.store.height)
    (h2 : n.dataWm = n.store.height) : pendingRefuses c n = false := by
  unfold pendingRefuses
  by_cases hm : c.maxPending = 0
  · simp [hm]
  · have : ¬ (n.store.height - n.hdrWm ≥ c.maxPending) := by omega
    have : ¬ (n.store.height - n.dataWm ≥ c.maxPending) := by omega
    simp [*]

/-- **Both counters return to 0 within three ticks**, for every initial height ≥ 1, every limit, every mix of empty
and non-empty blocks (all-empty included).  Let `a` be any node reached from a fresh start by any interleaving of
production, submission ticks (any DA answers), inclusion passes and restarts.  After one header tick and one data tick
against a DA layer that accepts after fewer than 30 non-cancellation failures, and one more data tick (whatever the DA
layer answers — it is not asked: only empty blocks are left above the data watermark), `hdrWm = dataWm = chain height`:
both pending counters are 0 and production is not refused, whatever `maxPending` is.  The second data tick is the one that
passes the empty blocks that follow the last non-empty block (the watermark must not move over them before the data in
front of them is accepted: `C06_data_sound`). -/
theorem C08_counters_clear (c : Cfg) (h1 : 1 ≤ c.initialHeight) (acts : List ActR)
    (fh th fd td s2 : List DAAns)
    (hth : th.headD (.ok none) = .ok none) (hnh : DAAns.canceled ∉ fh) (hfh : fh.length < maxSubmitAttempts)
    (htd : td.headD (.ok none) = .ok none) (hnd : DAAns.canceled ∉ fd) (hfd : fd.length < maxSubmitAttempts) :
    let a := (runR c (freshC c) acts).a
    let a3 := runOps a [.subH (fh ++ th), .subD (fd ++ td), .subD s2]
    a3.n.store.height = a.n.store.height ∧
    a3.n.store.height - a3.n.hdrWm = 0 ∧ a3.n.store.height - a3.n.dataWm = 0 ∧
    pendingRefuses c a3.n = false := by
  intro a a3
  have r : R c a := ((CI_fresh c h1).run acts).r
  have r1 : R c (headersIter a (fh ++ th)).1 := r.step (.subH (fh ++ th))
  have hh := (headersIter_reaches a fh th hth hnh hfh (hdrOK_of_inv r.pinv r.low) r.le).1
  obtain ⟨_, i1, _⟩ := headersIter_iter a (fh ++ th)
  obtain ⟨_, i2, _⟩ := dataIter_iter (headersIter a (fh ++ th)).1 (fd ++ td)
  obtain ⟨_, i3, _⟩ := dataIter_iter (dataIter (headersIter a (fh ++ th)).1 (fd ++ td)).1 s2
  have hd := data_two_ticks (headersIter a (fh ++ th)).1 fd td s2 htd hnd hfd (r1.toD.dataOK r1.dlow) r1.dle
  have e3 : a3 = (dataIter (dataIter (headersIter a (fh ++ th)).1 (fd ++ td)).1 s2).1 := rfl
  have hht : a3.n.store.height = a.n.store.height := by
    rw [e3, i3.frame.height, i2.frame.height, i1.frame.height]
  have hhw : a3.n.hdrWm = a3.n.store.height := by
    have q3 : a3.n.hdrWm = (dataIter (headersIter a (fh ++ th)).1 (fd ++ td)).1.n.hdrWm := by rw [e3]; exact i3.frame.otherWm
    have q2 : (dataIter (headersIter a (fh ++ th)).1 (fd ++ td)).1.n.hdrWm = (headersIter a (fh ++ th)).1.n.hdrWm :=
      i2.frame.otherWm
    rw [q3, q2, hh, hht, i1.frame.height]
  have hdw : a3.n.dataWm = a3.n.store.height := by rw [e3]; exact hd
  exact ⟨hht, by omega, by omega, C08_no_refusal_when_both_clear c a3.n hhw hdw⟩

/-- the statement of the earlier rounds, with the tick count made explicit: with a DA layer that accepts, after one header
iteration and two data iterations production is not refused — for every chain, in particular an idle one that produces
only empty blocks, every limit, every initial height ≥ 1 -/
def C08_data_full : Prop :=
  ∀ (c : Cfg) (rs : List (SeqResp × ExecResp)), 1 ≤ c.initialHeight →
    pendingRefuses c (runOps { freshA c with n := run c (freshNode c) rs } [.subH [], .subD [], .subD []]).n = false

theorem runA_produce (c : Cfg) (a : ANode) (rs : List (SeqResp × ExecResp)) :
    runA c a (rs.map fun r => .produce r.1 r.2) = { a with n := run c a.n rs } := by
  induction rs generalizing a with
  | nil => rfl
  | cons r rs ih => exact ih _

/-- **it holds now** (until /repo 5533199 an idle chain deadlocked at the limit: finding
`C08/refuses/empty-blocks-counted-as-pending-data`, fixed; it was refuted by the witness below) -/
theorem C08_data : C08_data_full := by
  intro c rs hpos
  have h := (C08_counters_clear c hpos ((rs.map fun r => Act.produce r.1 r.2).map .act) [] [] [] [] [] rfl (by simp)
    (by decide) rfl (by simp) (by decide)).2.2.2
  rw [runR_act, runA_produce] at h
  exact h

def zCfg : Cfg := { chainId := "w", initialHeight := 1, genesisTime := 100, proposerAddr := [1], key := 1,
                    signerAddr := [1], maxPending := 3 }
/-- an idle chain: three empty blocks -/
def zRun : List (SeqResp × ExecResp) := [(.batch [] 150 [], .ok), (.batch [] 200 [], .ok), (.batch [] 300 [], .ok)]
def zStuck : ANode := { freshA zCfg with n := run zCfg (freshNode zCfg) zRun }
def zNode : ANode := runOps zStuck [.subH [], .subD []]

/-- **The idle chain that deadlocked for ever (former `C08_idle_chain_deadlocks`) resumes**, evaluated by the kernel:
limit 3, three empty blocks, production refused; the header tick brings `hdrWm` to 3 and the data tick — which submits
nothing — brings `dataWm` to 3 (persisted); production is no longer refused and the next block is committed. -/
theorem C08_old_witness_no_longer_deadlocks :
    pendingRefuses zCfg zStuck.n = true ∧
    zNode.n.store.height = 3 ∧ zNode.n.hdrWm = 3 ∧ zNode.n.dataWm = 3 ∧
    zNode.n.store.getMeta Submit.dataWmKey = some (le64 3) ∧
    (dataIter (headersIter zStuck []).1 []).2.2.1.length = 0 ∧
    pendingRefuses zCfg zNode.n = false ∧
    (runA zCfg zNode [.produce (.batch [] 400 []) .ok]).n.store.height = 4 := by
  decide +kernel

/-- trailing empty blocks after a block with transactions (limit 4, blocks: genesis, one transaction, empty, empty): the
first accepting data tick submits the data of block 2 and stops there, the second passes blocks 3 and 4 -/
def tRun : List (SeqResp × ExecResp) :=
  [(.batch [] 150 [], .ok), (.batch [[7]] 200 [], .ok), (.batch [] 300 [], .ok), (.batch [] 400 [], .ok)]
def tCfg : Cfg := { zCfg with maxPending := 4 }
def tNode : ANode := { freshA tCfg with n := run tCfg (freshNode tCfg) tRun }

example : pendingRefuses tCfg tNode.n = true ∧
    (runOps tNode [.subH [], .subD []]).n.dataWm = 2 ∧
    (runOps tNode [.subH [], .subD []]).daBlobs.map (fun e => (e.2.1, e.2.2)) = [(true, 2), (false, 4), (false, 3), (false, 2), (false, 1)] ∧
    (runOps tNode [.subH [], .subD [], .subD [.error]]).n.dataWm = 4 ∧
    (runOps tNode [.subH [], .subD [], .subD [.error]]).daBlobs.length = 5 := by
  decide +kernel

/-- **the watermark does not move over empty blocks while data in front of them is unaccepted** (what the seeded change
C06-A did): with the data of block 2 refused by the DA layer the data watermark stays at 0 through any number of ticks -/
example : (runOps tNode [.subH [], .subD [.canceled], .subD [.error, .canceled], .subD [.ok (some 0), .canceled]]).n.dataWm = 0 := by
  decide +kernel

/-- the general reason: **when all blocks above the data watermark are empty, a data iteration submits nothing and ends
with `dataWm = chain height`** -/
theorem C08_empty_blocks_leave_the_count (a : ANode) (script : List DAAns)
    (hok : ∀ h, a.n.dataWm < h → h ≤ a.n.store.height → ∃ b, a.n.store.getBlock h = some b ∧ dataHeight b = h)
    (hle : a.n.dataWm ≤ a.n.store.height)
    (h : ∀ k, a.n.dataWm < k → k ≤ a.n.store.height → ∃ b, a.n.store.getBlock k = some b ∧ b.data.txs = []) :
    (dataIter a script).1.n.store.height - (dataIter a script).1.n.dataWm = 0 ∧ (dataIter a script).2.2.1 = [] := by
  obtain ⟨h1, h2⟩ := dataIter_idle_reaches h hok hle script
  exact ⟨by omega, h2⟩

/-- **one accepting data tick is enough when the last block is non-empty** (the former partial statement) -/
theorem C08_data_partial (a : ANode) (fails tail : List DAAns)
    (htail : tail.headD (.ok none) = .ok none) (hnc : DAAns.canceled ∉ fails) (hf : fails.length < maxSubmitAttempts)
    (hok : ∀ h, a.n.dataWm < h → h ≤ a.n.store.height → ∃ b, a.n.store.getBlock h = some b ∧ dataHeight b = h)
    (hlt : a.n.dataWm < a.n.store.height)
    (hlast : ∀ b, a.n.store.getBlock a.n.store.height = some b → b.data.txs ≠ []) :
    (dataIter a (fails ++ tail)).1.n.dataWm = (dataIter a (fails ++ tail)).1.n.store.height :=
  dataIter_reaches a fails tail htail hnc hf hok hlt hlast

/-! ## non-vacuity -/

/-- a chain whose last block is non-empty (limit 3, heights 1–3): the hypotheses of the partial theorem hold, both
iterations clear the counters and production is not refused -/
def vRun : List (SeqResp × ExecResp) := [(.batch [] 150 [], .ok), (.batch [] 200 [], .ok), (.batch [[7]] 300 [], .ok)]
def vNode : ANode := { freshA zCfg with n := run zCfg (freshNode zCfg) vRun }

example : pendingRefuses zCfg vNode.n = true ∧
    (runOps vNode [.subH [], .subD []]).n.dataWm = 3 ∧ (runOps vNode [.subH [], .subD []]).n.hdrWm = 3 ∧
    pendingRefuses zCfg (runOps vNode [.subH [], .subD []]).n = false := by
  decide +kernel

example : ∀ h ∈ [1, 2, 3], (vNode.n.store.getBlock h).map (fun b => decide (dataHeight b = h)) = some true := by
  decide +kernel

end Spec.C08
