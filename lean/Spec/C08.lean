import Proofs.SubmitReach

/-!
# C08 — the pending-submission limit throttles but never deadlocks block production

Model: `Producer.pendingRefuses` (`block/manager.go:601-604`; the counters are `height − watermark`,
`block/pending_base.go:74-81`), `Producer.publish`, the submission loops of `Model/Submit.lean`; executable and compared
with the real code on every run (stream C08).
-/
namespace Spec.C08
open Wire Chain Producer Submit

/-! ## safety -/

/-- production is refused only when one of the two counters has reached the configured limit -/
theorem refusal_needs_limit (c : Cfg) (n : Node) (h : pendingRefuses c n = true) :
    c.maxPending ≠ 0 ∧ (n.store.height - n.hdrWm ≥ c.maxPending ∨ n.store.height - n.dataWm ≥ c.maxPending) := by
  simp [pendingRefuses] at h
  exact ⟨h.1, h.2⟩

/-- without a limit nothing is ever refused -/
theorem no_limit_no_refusal (c : Cfg) (n : Node) (h : c.maxPending = 0) : pendingRefuses c n = false := by
  simp [pendingRefuses, h]

/-- a refused step changes nothing -/
theorem refused_step_is_noop (c : Cfg) (n : Node) (r : SeqResp) (e : ExecResp) (h : pendingRefuses c n = true) :
    publish c n r e = (n, [], .refused) := by
  unfold publish; rw [if_pos h]

/-- **What the counters count** (with the soundness of the watermark, C06), **for every initial height ≥ 1**.  Along
every interleaving of production, header submission, data submission (any DA answers), inclusion passes and restarts
(clean, or a crash between two actions) from a fresh start: both watermarks lie in `[initialHeight − 1, chain height]`
(`NewManager` starts them at `initialHeight − 1`: heights below the initial height do not exist and are not counted);
every committed height `initialHeight ≤ h ≤ hdrWm` is a stored block whose header blob the DA double holds; and every
height of `(hdrWm, height]` is a committed block.  Hence `height − hdrWm` is exactly the number of committed headers the
DA layer has not yet acknowledged, it is at most the number `height − (initialHeight − 1)` of committed blocks — and
when production is refused, that number, or the corresponding data counter, has reached the limit.
(Until /repo 6924f89 the counters of a chain with initial height `I > 1` started at `I − 1` "pending" blocks that do not
exist — finding `C08/refuses/initial-height-counted-as-pending`, fixed — and this theorem needed `initialHeight = 1`.) -/
theorem C08_refusal_counts_unacknowledged (c : Cfg) (h1 : 1 ≤ c.initialHeight) (acts : List ActR) :
    let a := runR c (freshA c) acts
    (c.initialHeight - 1 ≤ a.n.hdrWm ∧ a.n.hdrWm ≤ a.n.store.height) ∧
    (c.initialHeight - 1 ≤ a.n.dataWm ∧ a.n.dataWm ≤ a.n.store.height) ∧
    (∀ h, c.initialHeight ≤ h → h ≤ a.n.hdrWm → ∃ b dh, a.n.store.getBlock h = some b ∧ b.sh.hdr.height = h ∧
      (dh, false, h) ∈ a.daBlobs) ∧
    (∀ h, a.n.hdrWm < h → h ≤ a.n.store.height →
      c.initialHeight ≤ h ∧ ∃ b, a.n.store.getBlock h = some b ∧ b.sh.hdr.height = h) ∧
    (a.n.store.height - a.n.hdrWm ≤ a.n.store.height - (c.initialHeight - 1) ∧
     a.n.store.height - a.n.dataWm ≤ a.n.store.height - (c.initialHeight - 1)) ∧
    (pendingRefuses c a.n = true → c.maxPending ≠ 0 ∧
      (a.n.store.height - a.n.hdrWm ≥ c.maxPending ∨ a.n.store.height - a.n.dataWm ≥ c.maxPending)) := by
  intro a
  have r : R c a := (R_fresh c h1).run acts
  have l1 := r.low
  have l2 := r.dlow
  have hok := hdrOK_of_inv r.pinv r.low
  exact ⟨⟨by omega, r.le⟩, ⟨by omega, r.dle⟩, r.acc, fun h k1 k2 => ⟨by omega, hok h k1 k2⟩, ⟨by omega, by omega⟩,
    refusal_needs_limit c _⟩

/-- in particular **a freshly started node is never refused for blocks that do not exist**: with any limit ≥ 1 and any
initial height ≥ 1 both counters are 0 at start-up (they were `initialHeight − 1` before the repair) -/
theorem C08_fresh_node_not_refused (c : Cfg) (h1 : 1 ≤ c.initialHeight) :
    (freshNode c).store.height - (freshNode c).hdrWm = 0 ∧ (freshNode c).store.height - (freshNode c).dataWm = 0 ∧
    pendingRefuses c (freshNode c) = false := by
  have w := W_fresh c h1
  obtain ⟨hh, _⟩ := freshDisk_facts c
  have hh' : (freshNode c).store.height = c.initialHeight - 1 := hh
  have q1 : c.initialHeight ≤ (freshNode c).hdrWm + 1 := w.low
  have q2 : c.initialHeight ≤ (freshNode c).dataWm + 1 := w.dlow
  have e1 : (freshNode c).store.height - (freshNode c).hdrWm = 0 := by omega
  have e2 : (freshNode c).store.height - (freshNode c).dataWm = 0 := by omega
  refine ⟨e1, e2, ?_⟩
  unfold pendingRefuses
  by_cases hm : c.maxPending = 0
  · simp [hm]
  · rw [e1, e2]
    have : ¬ (0 ≥ c.maxPending) := by omega
    simp [this]

/-! ## liveness, header half -/

/-- **After one header iteration against a DA layer that accepts (after fewer than 30 non-cancellation failures), no
header is pending**: `height − hdrWm = 0`, so the header counter never keeps production refused. -/
theorem C08_header_counter_clears (a : ANode) (fails tail : List DAAns)
    (htail : tail.headD (.ok none) = .ok none) (hnc : DAAns.canceled ∉ fails) (hf : fails.length < maxSubmitAttempts)
    (hok : ∀ h, a.n.hdrWm < h → h ≤ a.n.store.height → ∃ b, a.n.store.getBlock h = some b ∧ b.sh.hdr.height = h)
    (hle : a.n.hdrWm ≤ a.n.store.height) :
    (headersIter a (fails ++ tail)).1.n.store.height - (headersIter a (fails ++ tail)).1.n.hdrWm = 0 := by
  have := (headersIter_reaches a fails tail htail hnc hf hok hle).1
  omega

/-! ## liveness, data half -/

/-- full statement: with a DA layer that accepts, after one header iteration and one data iteration production is not
refused — for every chain, in particular an idle one that produces only empty blocks -/
def C08_data_full : Prop :=
  ∀ (c : Cfg) (rs : List (SeqResp × ExecResp)), 1 ≤ c.initialHeight →
    pendingRefuses c (runOps { freshA c with n := run c (freshNode c) rs } [.subH [], .subD []]).n = false

def zCfg : Cfg := { chainId := "w", initialHeight := 1, genesisTime := 100, proposerAddr := [1], key := 1,
                    signerAddr := [1], maxPending := 3 }
/-- an idle chain: three empty blocks -/
def zRun : List (SeqResp × ExecResp) := [(.batch [] 150 [], .ok), (.batch [] 200 [], .ok), (.batch [] 300 [], .ok)]
def zNode : ANode := runOps { freshA zCfg with n := run zCfg (freshNode zCfg) zRun } [.subH [], .subD []]

/-- the witness, evaluated by the kernel: limit 3, three empty blocks; the header iteration brings `hdrWm` to 3, the
data iteration is skipped and leaves `dataWm = 0`; production is refused -/
theorem zNode_facts : zNode.n.store.height = 3 ∧ zNode.n.hdrWm = 3 ∧ zNode.n.dataWm = 0 ∧
    pendingRefuses zCfg zNode.n = true ∧
    ∀ h ∈ [1, 2, 3], (zNode.n.store.getBlock h).map (·.data.txs) = some [] := by
  decide +kernel

/-- **The idle chain is dead**: production is refused, no header is pending, all blocks above the data watermark are
empty -/
theorem zNode_dead : Dead zCfg zNode := by
  obtain ⟨h1, h2, h3, h4, h5⟩ := zNode_facts
  refine ⟨h4, by omega, ?_⟩
  intro h ha hb
  have hm : h ∈ [1, 2, 3] := by simp; omega
  have := h5 h hm
  cases hg : zNode.n.store.getBlock h with
  | none => rw [hg] at this; simp at this
  | some b => rw [hg] at this; exact ⟨b, rfl, by simpa using this⟩

/-- **An idle chain deadlocks at the limit, for ever** (recorded finding `C08/…/empty-blocks-pending-data`): after
three empty blocks with limit 3, whatever the sequencer offers, whatever the DA layer answers and however production,
header submission, data submission and inclusion are interleaved, production stays refused and the chain height stays 3. -/
theorem C08_idle_chain_deadlocks (acts : List Act) :
    pendingRefuses zCfg (runA zCfg zNode acts).n = true ∧ (runA zCfg zNode acts).n.store.height = 3 := by
  obtain ⟨d, h⟩ := zNode_dead.forever acts
  exact ⟨d.refuses, h.trans zNode_facts.1⟩

/-- **The full statement is false of the current code.** -/
theorem C08_data_full_fails : ¬ C08_data_full := by
  intro h
  have h1 : pendingRefuses zCfg zNode.n = false := h zCfg zRun (by decide)
  rw [zNode_facts.2.2.2.1] at h1
  cases h1

/-- the general reason: **when all blocks above the data watermark are empty, a data iteration is skipped and changes
nothing** — empty blocks are counted as pending data and never leave the count -/
theorem C08_empty_blocks_never_leave_the_count (a : ANode) (script : List DAAns)
    (h : ∀ k, a.n.dataWm < k → k ≤ a.n.store.height → ∃ b, a.n.store.getBlock k = some b ∧ b.data.txs = []) :
    (dataIter a script).1 = a ∧ (dataIter a script).2.1 = [] ∧ (dataIter a script).2.2.1 = [] :=
  dataIter_idle h script

/-- and such a node at the limit with no header pending refuses production for ever -/
theorem C08_dead_for_ever {c : Cfg} {a : ANode} (d : Dead c a) (acts : List Act) :
    pendingRefuses c (runA c a acts).n = true ∧ (runA c a acts).n.store.height = a.n.store.height :=
  ⟨(d.forever acts).1.refuses, (d.forever acts).2⟩

/-- **Partial statement** (everything except the refuted case): if the last block is non-empty — and the blocks of the
pending range carry their height in the data metadata, as the producer writes it — then after one data iteration
against an accepting DA layer `dataWm = height`; together with the header half neither counter keeps production refused. -/
theorem C08_data_partial (a : ANode) (fails tail : List DAAns)
    (htail : tail.headD (.ok none) = .ok none) (hnc : DAAns.canceled ∉ fails) (hf : fails.length < maxSubmitAttempts)
    (hok : ∀ h, a.n.dataWm < h → h ≤ a.n.store.height → ∃ b, a.n.store.getBlock h = some b ∧
      (b.data.txs ≠ [] → dataHeight b = h))
    (hlt : a.n.dataWm < a.n.store.height)
    (hlast : ∀ b, a.n.store.getBlock a.n.store.height = some b → b.data.txs ≠ []) :
    (dataIter a (fails ++ tail)).1.n.dataWm = (dataIter a (fails ++ tail)).1.n.store.height :=
  dataIter_reaches a fails tail htail hnc hf hok hlt hlast

theorem C08_no_refusal_when_both_clear (c : Cfg) (n : Node) (h1 : n.hdrWm = n.store.height)
    (h2 : n.dataWm = n.store.height) : pendingRefuses c n = false := by
  unfold pendingRefuses
  by_cases hm : c.maxPending = 0
  · simp [hm]
  · have : ¬ (n.store.height - n.hdrWm ≥ c.maxPending) := by omega
    have : ¬ (n.store.height - n.dataWm ≥ c.maxPending) := by omega
    simp [*]

/-! ## non-vacuity -/

/-- a chain whose last block is non-empty (limit 3, heights 1–3): the hypotheses of the partial theorem hold, both
iterations clear the counters and production is not refused -/
def vRun : List (SeqResp × ExecResp) := [(.batch [] 150 [], .ok), (.batch [] 200 [], .ok), (.batch [[7]] 300 [], .ok)]
def vNode : ANode := { freshA zCfg with n := run zCfg (freshNode zCfg) vRun }

example : pendingRefuses zCfg vNode.n = true ∧
    (runOps vNode [.subH [], .subD []]).n.dataWm = 3 ∧ (runOps vNode [.subH [], .subD []]).n.hdrWm = 3 ∧
    pendingRefuses zCfg (runOps vNode [.subH [], .subD []]).n = false := by
  decide +kernel

example : ∀ h ∈ [1, 2, 3], (vNode.n.store.getBlock h).map (fun b => decide (b.data.txs ≠ [] → dataHeight b = h)) = some true := by
  decide +kernel

/-- the deadlocked node really is at the limit with everything the DA layer could accept accepted -/
example : zNode.daBlobs.map (fun e => (e.2.1, e.2.2)) = [(false, 3), (false, 2), (false, 1)] := by
  decide +kernel

end Spec.C08
