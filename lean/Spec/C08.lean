import Model.Submit

/-! # C08 — the pending-submission limit throttles but never deadlocks block production
(first theorems) -/
namespace Spec.C08
open Wire Chain Producer Submit

/-- production is refused only when one of the two counters has reached the configured limit -/
theorem refusal_needs_limit (c : Cfg) (n : Node) (h : pendingRefuses c n = true) :
    c.maxPending ≠ 0 ∧ (n.store.height - n.hdrWm ≥ c.maxPending ∨ n.store.height - n.dataWm ≥ c.maxPending) := by
  simp [pendingRefuses] at h
  exact ⟨h.1, h.2⟩

/-- without a limit nothing is ever refused -/
theorem no_limit_no_refusal (c : Cfg) (n : Node) (h : c.maxPending = 0) : pendingRefuses c n = false := by
  simp [pendingRefuses, h]

end Spec.C08
