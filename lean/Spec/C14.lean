import Proofs.C14
import Proofs.C14Clean
import Gen.C14

/-!
# C14 — the block store behaves like a height-indexed map, atomically and durably

Model: `Model/KV.lean`, `Model/Store.lean` (every method of `pkg/store.DefaultStore` as reads of the
durable `KV` and the atomic write-sets it issues, with the real datastore key strings).  Abstract
store: `Store.Abs` (height, blocks by height, hash → height index, state, metadata).  All theorems
quantify over every operation history (`List Store.Op`), every height `< 2^64`, every hash, every
value and every metadata key that `path.Clean` leaves alone (which includes every key the node uses).
-/
namespace Spec.C14
open Store

/-! ## the key layout of the model is the key layout of the code (facts regenerated from /repo) -/

theorem gen_heightKey : Gen.C14.heightKey = heightKey := by decide
theorem gen_stateKey : Gen.C14.stateKey = stateKey := by decide
theorem gen_headerKeys : Gen.C14.headerKeys.all (fun p => decide (headerKey p.1 = p.2)) = true := by decide
theorem gen_dataKeys : Gen.C14.dataKeys.all (fun p => decide (dataKey p.1 = p.2)) = true := by decide
theorem gen_signatureKeys : Gen.C14.signatureKeys.all (fun p => decide (signatureKey p.1 = p.2)) = true := by decide
theorem gen_indexKeys : Gen.C14.indexKeys.all (fun p => decide (indexKey p.1 = p.2)) = true := by decide +kernel
/-- includes the look-alike keys and the keys `path.Clean` rewrites -/
theorem gen_metaKeys : Gen.C14.metaKeys.all (fun p => decide (metaKey p.1 = p.2)) = true := by decide +kernel
theorem gen_heightValues : Gen.C14.heightValues.all (fun p => decide (encodeHeight p.1 = p.2)) = true := by decide
/-- the metadata keys the node uses (exported constants of `pkg/store`/`block`, heights 3 and 4) are the
model's, and `path.Clean` leaves them alone -/
theorem gen_nodeMetaKeys : Gen.C14.nodeMetaKeys =
    [daIncludedHeightKey, lastBatchDataKey, lastSubmittedHeaderHeightKey, lastSubmittedDataHeightKey,
     rhbHeaderKey 3, rhbDataKey 3, rhbHeaderKey 4, rhbDataKey 4] := by decide
theorem gen_nodeMetaKeys_ok : Gen.C14.nodeMetaKeys.all metaKeyOK = true := by decide
/-- one `SaveBlockData` is one atomic write of four puts; lowering the height writes nothing -/
theorem gen_save_one_batch :
    Gen.C14.saveAtomicWrites.all (· == 1) = true ∧ Gen.C14.savePuts.all (· == 4) = true ∧
    Gen.C14.lowerHeightWrites = 0 := by decide

/-! ## records of different kinds never overwrite one another -/

/-- **key injectivity and pairwise disjointness** of the seven key families, for all heights, all
hashes and all metadata keys `path.Clean` leaves alone -/
theorem keys_injective_and_disjoint {a b : Key} (ha : a.OK) (hb : b.OK) (h : a.str = b.str) : a = b :=
  Key.str_inj ha hb h

example : (Key.header 10).str ≠ (Key.data 10).str := fun h => by
  have := keys_injective_and_disjoint (a := .header 10) (b := .data 10) trivial trivial h
  cases this
example : (Key.metadata "h/1").OK := by show metaKeyOK "h/1" = true; decide

/-- the restriction on metadata keys is necessary: `path.Clean` maps this key onto a header key
(no key the node uses is of this kind: `gen_nodeMetaKeys_ok`) -/
theorem unclean_metadata_key_collides : metaKey "../h/5" = headerKey 5 := by decide

/-- `metaKey` is `GenerateKey(["m", k])` (Go's `path.Clean`) for EVERY key -/
theorem metaKey_is_path_clean (k : String) : metaKey k = generateKey ["m", k] := metaKey_eq_generateKey k

/-- every metadata key the node uses, for every height, is one `path.Clean` leaves alone — so all
theorems of this file apply to them -/
theorem node_metadata_keys_clean :
    metaKeyOK daIncludedHeightKey = true ∧ metaKeyOK lastBatchDataKey = true ∧
    metaKeyOK lastSubmittedHeaderHeightKey = true ∧ metaKeyOK lastSubmittedDataHeightKey = true ∧
    ∀ h : Nat, metaKeyOK (rhbHeaderKey h) = true ∧ metaKeyOK (rhbDataKey h) = true :=
  ⟨by decide, by decide, by decide, by decide, fun h => ⟨rhbHeaderKey_ok h, rhbDataKey_ok h⟩⟩

/-- each operation changes only its own records -/
theorem save_touches_only_its_records {kv : KV} (hi : Inv kv) {h : Nat} (hh : h < 2 ^ 64) (x : Bytes) (b : Block) :
    let a := abs kv
    let a' := abs (step kv (.save h x b))
    a'.height = a.height ∧ a'.state = a.state ∧ a'.metadata = a.metadata ∧
    (∀ h', h' ≠ h → a'.blocks h' = a.blocks h') ∧ (∀ x', x' ≠ x → a'.index x' = a.index x') := by
  intro a a'
  have : a' = a.step (.save h x b) := abs_step hi (op := .save h x b) hh
  rw [this]
  refine ⟨rfl, rfl, rfl, ?_, ?_⟩ <;> intro y hy <;> simp [Abs.step, hy]

theorem setHeight_touches_only_height {kv : KV} (hi : Inv kv) {h : Nat} (hh : h < 2 ^ 64) :
    let a := abs kv
    let a' := abs (step kv (.setHeight h))
    a'.blocks = a.blocks ∧ a'.index = a.index ∧ a'.state = a.state ∧ a'.metadata = a.metadata := by
  intro a a'
  have : a' = a.step (.setHeight h) := abs_step hi (op := .setHeight h) hh
  rw [this]; exact ⟨rfl, rfl, rfl, rfl⟩

theorem updateState_touches_only_state {kv : KV} (hi : Inv kv) (blob : Bytes) :
    let a := abs kv
    let a' := abs (step kv (.updateState blob))
    a'.height = a.height ∧ a'.blocks = a.blocks ∧ a'.index = a.index ∧ a'.metadata = a.metadata := by
  intro a a'
  have : a' = a.step (.updateState blob) := abs_step hi (op := .updateState blob) trivial
  rw [this]; exact ⟨rfl, rfl, rfl, rfl⟩

theorem setMetadata_touches_only_its_key {kv : KV} (hi : Inv kv) {k : String} (hk : metaKeyOK k = true) (v : Bytes) :
    let a := abs kv
    let a' := abs (step kv (.setMetadata k v))
    a'.height = a.height ∧ a'.blocks = a.blocks ∧ a'.index = a.index ∧ a'.state = a.state ∧
    (∀ k', k' ≠ k → a'.metadata k' = a.metadata k') := by
  intro a a'
  have : a' = a.step (.setMetadata k v) := abs_step hi (op := .setMetadata k v) hk
  rw [this]
  refine ⟨rfl, rfl, rfl, rfl, ?_⟩
  intro y hy; simp [Abs.step, hy]

/-! ## refinement: for every history the store is the height-indexed map -/

/-- every operation commutes with the abstraction map and keeps the invariant -/
theorem step_refines {kv : KV} (hi : Inv kv) {op : Op} (hop : op.OK) :
    Inv (step kv op) ∧ abs (step kv op) = (abs kv).step op :=
  ⟨inv_step hi hop, abs_step hi hop⟩

/-- **refinement**, for every operation sequence from the empty store -/
theorem refinement (ops : List Op) (hops : ∀ op ∈ ops, op.OK) :
    Inv (run KV.empty ops) ∧ abs (run KV.empty ops) = Abs.init.run ops := by
  have := refinement_from inv_empty ops hops
  rwa [abs_empty] at this

/-- **every read returns what the abstract map returns**, after every operation sequence -/
theorem reads_refine (ops : List Op) (hops : ∀ op ∈ ops, op.OK) :
    let kv := run KV.empty ops
    let a := Abs.init.run ops
    height kv = .ok a.height ∧
    (∀ h, getBlockBlobs kv h = a.getBlock h) ∧
    (∀ h, getSignature kv h = a.getSignature h) ∧
    (∀ x, getHeightByHash kv x = a.getHeightByHash x) ∧
    (∀ x, getBlockBlobsByHash kv x = a.getBlockByHash x) ∧
    (∀ x, getSignatureByHash kv x = a.getSignatureByHash x) ∧
    getStateBlob kv = a.getState ∧
    (∀ k, metaKeyOK k = true → getMetadata kv k = a.getMetadata k) ∧
    (∀ keyOk h, getBlockData keyOk kv h = a.getBlockData keyOk h) ∧
    (∀ keyOk x, getBlockByHash keyOk kv x = a.getBlockDataByHash keyOk x) := by
  intro kv a
  obtain ⟨hi, ha⟩ := refinement ops hops
  have ha' : abs kv = a := ha
  refine ⟨?_, ?_, ?_, ?_, ?_, ?_, ?_, ?_, ?_, ?_⟩
  · rw [← ha']; exact read_height hi
  · intro h; rw [← ha']; exact read_block hi h
  · intro h; rw [← ha']; exact read_signature hi h
  · intro x; rw [← ha']; exact read_heightByHash hi x
  · intro x; rw [← ha']; exact read_blockByHash hi x
  · intro x; rw [← ha']; exact read_signatureByHash hi x
  · rw [← ha']; exact read_state kv
  · intro k hk; rw [← ha']; exact read_metadata kv hk
  · intro keyOk h; rw [← ha']; exact read_blockData hi keyOk h
  · intro keyOk x; rw [← ha']; exact read_blockDataByHash hi keyOk x

/-- the abstract map returns exactly what the latest write stored -/
theorem abs_reads_latest (a : Abs) (h : Nat) (x : Bytes) (b : Block) (s : Bytes) (k : String) (v : Bytes) :
    (a.step (.save h x b)).getBlock h = .ok (b.header, b.data) ∧
    (a.step (.save h x b)).getSignature h = .ok b.signature ∧
    (a.step (.save h x b)).getBlockByHash x = .ok (b.header, b.data) ∧
    (a.step (.save h x b)).getSignatureByHash x = .ok b.signature ∧
    (a.step (.updateState s)).getState = .ok s ∧
    (a.step (.setMetadata k v)).getMetadata k = .ok v := by
  simp [Abs.step, Abs.getBlock, Abs.getSignature, Abs.getBlockByHash, Abs.getSignatureByHash, Abs.getState,
    Abs.getMetadata]

/-- **a saved block is retrievable by height and by header hash together with its signature**
(typed form; the round trip of the wire codec for the saved values is C12's theorem and is a
hypothesis here) -/
theorem saved_block_retrievable {kv : KV} (hi : Inv kv) (keyOk : Bytes → Bool)
    (sh : Wire.SignedHeader) (d : Wire.Data) (sig : Bytes) (hh : sh.header.height < 2 ^ 64)
    (hrt1 : Wire.SignedHeader.decode keyOk sh.encode = some sh) (hrt2 : Wire.Data.decode d.encode = some d) :
    let kv' := applyAll kv (saveBlockData sh d sig)
    getBlockData keyOk kv' sh.header.height = .ok (sh, d) ∧
    getBlockByHash keyOk kv' sh.header.hash = .ok (sh, d) ∧
    getSignature kv' sh.header.height = .ok sig ∧
    getSignatureByHash kv' sh.header.hash = .ok sig := by
  intro kv'
  have e : kv' = step kv (.save sh.header.height sh.header.hash ⟨sh.encode, d.encode, sig⟩) := rfl
  have hi' : Inv kv' := e ▸ inv_step hi (op := .save _ _ _) hh
  have ha : abs kv' = (abs kv).step (.save sh.header.height sh.header.hash ⟨sh.encode, d.encode, sig⟩) :=
    e ▸ abs_step hi (op := .save _ _ _) hh
  rw [read_blockData hi', read_blockDataByHash hi', read_signature hi', read_signatureByHash hi', ha]
  simp [Abs.step, Abs.getBlockData, Abs.getBlockDataByHash, Abs.getSignature, Abs.getSignatureByHash,
    decodeBlock, hrt1, hrt2]

/-! ## the recorded height only grows -/

theorem height_only_grows (ops more : List Op) (h1 : ∀ op ∈ ops, op.OK) (h2 : ∀ op ∈ more, op.OK) :
    (abs (run KV.empty ops)).height ≤ (abs (run KV.empty (ops ++ more))).height := by
  have hi := (refinement ops h1).1
  have : run KV.empty (ops ++ more) = run (run KV.empty ops) more := by simp [run, List.foldl_append]
  rw [this]
  exact height_mono_run hi more h2

/-- and `SetHeight` records exactly the maximum -/
theorem setHeight_is_max (a : Abs) (h : Nat) : (a.step (.setHeight h)).height = max a.height h := by
  simp only [Abs.step]; split <;> omega

/-! ## a block save is all-or-nothing under a crash; a crash leaves a prefix of the history -/

/-- a block save is ONE atomic write-set … -/
theorem save_is_one_write_set (kv : KV) (h : Nat) (x : Bytes) (b : Block) :
    writes kv (.save h x b) = [saveBlobsWS h x b] := rfl

/-- … hence under every crash prefix the store is the old one or the one with the whole block -/
theorem save_all_or_nothing (n : Nat) (kv : KV) (h : Nat) (x : Bytes) (b : Block) :
    applyPrefix n (writes kv (.save h x b)) kv = kv ∨
    applyPrefix n (writes kv (.save h x b)) kv = step kv (.save h x b) :=
  crash_in_op n kv _

/-- typed form, on the exact write-sets the driver issues -/
theorem saveBlockData_all_or_nothing (n : Nat) (kv : KV) (sh : Wire.SignedHeader) (d : Wire.Data) (sig : Bytes) :
    applyPrefix n (saveBlockData sh d sig) kv = kv ∨
    applyPrefix n (saveBlockData sh d sig) kv = applyAll kv (saveBlockData sh d sig) :=
  applyPrefix_single n _ kv

/-- a crash at any write boundary of any history leaves the store that a prefix of the history
produced (so every invariant and every read theorem above holds after a crash) -/
theorem crash_leaves_a_prefix (ops : List Op) (n : Nat) :
    ∃ m, m ≤ ops.length ∧ applyPrefix n (log KV.empty ops) KV.empty = run KV.empty (ops.take m) :=
  crash_is_prefix ops KV.empty n

/-- everything survives closing and reopening: the store object holds no state -/
theorem reopen_id (kv : KV) : reopen kv = kv := rfl

/-! ## reading by hash -/

/-- the stronger reading: whatever is read under hash `x` was last saved under hash `x` -/
def byHash_full : Prop :=
  ∀ (ops : List Op), (∀ op ∈ ops, op.OK) → ∀ x hb db,
    getBlockBlobsByHash (run KV.empty ops) x = .ok (hb, db) →
    ∃ h b, lastSaved ops h = some (x, b) ∧ hb = b.header ∧ db = b.data

def witnessOps : List Op := [.save 1 [0xAA] ⟨[1], [2], [3]⟩, .save 1 [0xBB] ⟨[4], [5], [6]⟩]

/-- overwriting a height with a header of another hash leaves the old hash in the index: the read by
the old hash returns the new block (the modelling decision of DESIGN.md C14) -/
theorem old_hash_reads_new_block :
    getBlockBlobsByHash (run KV.empty witnessOps) [0xAA] = .ok ([4], [5]) := by decide

theorem byHash_full_fails : ¬ byHash_full := by
  intro hf
  have hok : ∀ op ∈ witnessOps, op.OK := by
    intro op hop
    simp only [witnessOps, List.mem_cons, List.mem_nil_iff, or_false] at hop
    rcases hop with rfl | rfl <;> (show (1 : Nat) < 2 ^ 64; decide)
  obtain ⟨h, b, hs, hb, _⟩ := hf witnessOps hok [0xAA] [4] [5] old_hash_reads_new_block
  by_cases h1 : h = 1 <;> simp [lastSaved, witnessOps, savedStep, h1] at hs

/-- … and it holds whenever no height is saved again under a header of another hash (which C01/C04
establish for the node's own use of the store) -/
theorem byHash_partial (ops : List Op) (hops : ∀ op ∈ ops, op.OK) (hn : NoResave (fun _ => none) ops)
    (x hb db : Bytes) (hr : getBlockBlobsByHash (run KV.empty ops) x = .ok (hb, db)) :
    ∃ h b, lastSaved ops h = some (x, b) ∧ hb = b.header ∧ db = b.data := by
  rw [(reads_refine ops hops).2.2.2.2.1 x] at hr
  simp only [Abs.getBlockByHash] at hr
  cases hx : (Abs.init.run ops).index x with
  | none => simp [hx] at hr
  | some h =>
    obtain ⟨b, hg, hb'⟩ := index_sound_run ops Abs.init (fun _ => none) (by simp [Abs.init]) hn x h hx
    refine ⟨h, b, hg, ?_⟩
    simp [hx, Abs.getBlock, hb'] at hr
    exact ⟨hr.1.symm, hr.2.symm⟩

example : NoResave (fun _ => none) [.save 1 [0xAA] ⟨[1], [2], [3]⟩, .save 2 [0xBB] ⟨[4], [5], [6]⟩,
    .save 1 [0xAA] ⟨[1], [2], [7]⟩] := by
  simp [NoResave, savedStep]

/-! ## non-vacuity: a concrete history through the model -/

def demoOps : List Op :=
  [.save 5 [0xAB] ⟨[1], [2], [3]⟩, .setHeight 5, .setHeight 3, .updateState [9], .setMetadata "d" [7],
   .setMetadata "rhb/5/h" [8]]

theorem demoOps_ok : ∀ op ∈ demoOps, op.OK := by
  intro op hop
  simp only [demoOps, List.mem_cons, List.mem_nil_iff, or_false] at hop
  rcases hop with rfl | rfl | rfl | rfl | rfl | rfl <;> simp only [Op.OK] <;> decide
example : height (run KV.empty demoOps) = .ok 5 := by decide
example : getBlockBlobs (run KV.empty demoOps) 5 = .ok ([1], [2]) := by decide
example : getBlockBlobsByHash (run KV.empty demoOps) [0xAB] = .ok ([1], [2]) := by decide
example : getSignature (run KV.empty demoOps) 5 = .ok [3] := by decide
example : getBlockBlobs (run KV.empty demoOps) 6 = .error .notFound := by decide
example : getMetadata (run KV.empty demoOps) "rhb/5/h" = .ok [8] := by decide
example : (log KV.empty demoOps).length = 5 := by decide
example : (run KV.empty demoOps).keys =
    ["/m/rhb/5/h", "/m/d", "/s", "/t", "/i/AB", "/c/5", "/d/5", "/h/5"] := by decide

end Spec.C14
