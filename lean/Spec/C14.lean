import Proofs.C14
import Proofs.C14Clean
import Proofs.C14Chain
import Proofs.C14Fault
import Gen.C14

/-!
# C14 — the block store behaves like a height-indexed map, atomically and durably

Model: `Model/KV.lean`, `Model/Store.lean` (every method of `pkg/store.DefaultStore` as reads of the
durable `KV` and the atomic write-sets it issues, with the real datastore key strings).  Abstract
store: `Store.Abs` (height, blocks by height, hash → height of the block last saved under that hash
while it still is the block of that height, state, metadata).  All theorems quantify over every
operation history (`List Store.Op`), every height `< 2^64`, every hash, every value and every metadata
key that `path.Clean` leaves alone (which includes every key the node uses); a block is saved under the
hash of the header that is stored (`Op.OK`: the wire round trip of C12 for `SaveBlockData`).

History: until /repo 34bccfd `SaveBlockData` left the hash index entry of a replaced header behind, so the
clause "reads return what the latest write for that hash stored" was FALSE (finding
`C14/read/by-hash-returns-other-block-after-height-overwrite`, repaired; witness
`old_store_reads_other_block_by_old_hash`).  `Abs.step` now says what the property says and
`byHash_full` holds for every history.

The last section connects this store to `Chain.Store`, the abstract store the models of C01–C08 use
(`Proofs/C14Chain.lean`).

What is NOT a theorem here: atomicity of a datastore batch and durability across reopen.  The model
issues one write-set per save and `reopen` is the identity BY DEFINITION; the code side is the fact
`gen_save_one_batch` (measured on the harness's logging datastore) and an assumption about badger
(props/C14.json).
-/
namespace Spec.C14
open Store

/-! ## the key layout of the model is the key layout of the code (facts regenerated from /repo) -/

theorem gen_heightKey : Gen.C14.heightKey = heightKey := by decide
theorem gen_stateKey : Gen.C14.stateKey = stateKey := by decide
theorem gen_headerKeys : Gen.C14.headerKeys.all (fun p => decide (headerKey p.1 = p.2)) = true := by decide
theorem gen_dataKeys : Gen.C14.dataKeys.all (fun p => decide (dataKey p.1 = p.2)) = true := by decide
theorem gen_signatureKeys : Gen.C14.signatureKeys.all (fun p => decide (signatureKey p.1 = p.2)) = true := by decide
theorem gen_indexKeys : Gen.C14.indexKeys.all (fun p => decide (indexKey p.1 = p.2)) = true := by decide +kernel
/-- includes the look-alike keys and the keys `path.Clean` rewrites -/
theorem gen_metaKeys : Gen.C14.metaKeys.all (fun p => decide (metaKey p.1 = p.2)) = true := by decide +kernel
theorem gen_heightValues : Gen.C14.heightValues.all (fun p => decide (encodeHeight p.1 = p.2)) = true := by decide

/-! ### the regenerated lists are not empty and contain the keys known today

The `.all` obligations above hold of an empty list: an extractor that finds nothing would pass them.  These
obligations pin what the lists must at least contain: the four block-record prefixes (`/h/`, `/d/`, `/c/`, `/i/`) at the
first height, at a multi-digit height and at 2^64-1; the little-endian height values; the metadata image of every key the node
uses today (DA-included height `d`, last batch data `l`, the two submission watermarks, the `rhb/%d/d|h` formats at several heights)
and of the look-alike and `path.Clean`-rewritten keys; and the write-count samples.  (The height key `/t` and the state key `/s` are
equalities already: `gen_heightKey`, `gen_stateKey`; `nodeMetaConst` / `nodeMetaFormats` / `nodeMetaExternal` are equalities too.) -/

theorem gen_blockKeys_known :
    17 ≤ Gen.C14.headerKeys.length ∧ 17 ≤ Gen.C14.dataKeys.length ∧ 17 ≤ Gen.C14.signatureKeys.length ∧
    (∀ h ∈ [1, 10, 256, 18446744073709551615],
       (h, "/h/" ++ Nat.repr h) ∈ Gen.C14.headerKeys ∧ (h, "/d/" ++ Nat.repr h) ∈ Gen.C14.dataKeys ∧
       (h, "/c/" ++ Nat.repr h) ∈ Gen.C14.signatureKeys) := by decide

/-- the by-hash index: at least as many samples as block samples, every one a 32-byte hash under `/i/` followed by 64
characters, no two samples the same hash -/
theorem gen_indexKeys_known :
    17 ≤ Gen.C14.indexKeys.length ∧
    Gen.C14.indexKeys.all (fun p => p.1.length == 32 && p.2.startsWith "/i/" && p.2.length == 67) = true ∧
    (Gen.C14.indexKeys.map (·.1)).Nodup ∧
    Gen.C14.resaveDeleted.1.length = 32 ∧ Gen.C14.resaveDeleted.2.startsWith "/i/" = true := by decide +kernel

theorem gen_heightValues_known :
    (1, ([1, 0, 0, 0, 0, 0, 0, 0] : Bytes)) ∈ Gen.C14.heightValues ∧
    (256, ([0, 1, 0, 0, 0, 0, 0, 0] : Bytes)) ∈ Gen.C14.heightValues ∧
    (18446744073709551615, ([255, 255, 255, 255, 255, 255, 255, 255] : Bytes)) ∈ Gen.C14.heightValues := by decide

/-- the metadata keys the node uses today, their per-height formats at heights 0, 7 and 2^64-1, the look-alike keys and
the keys `path.Clean` rewrites are all among the regenerated samples, with the image the model gives them -/
theorem gen_metaKeys_known :
    (∀ k ∈ [daIncludedHeightKey, lastBatchDataKey, lastSubmittedDataHeightKey, lastSubmittedHeaderHeightKey,
            rhbDataKey 0, rhbHeaderKey 0, rhbDataKey 7, rhbHeaderKey 7,
            rhbDataKey 18446744073709551615, rhbHeaderKey 18446744073709551615,
            "h/1", "d/1", "c/1", "t", "s", "i", "m"],
       (k, "/m/" ++ k) ∈ Gen.C14.metaKeys) ∧
    ("../h/1", "/h/1") ∈ Gen.C14.metaKeys ∧ ("../t", "/t") ∈ Gen.C14.metaKeys ∧ ("../s", "/s") ∈ Gen.C14.metaKeys ∧
    ("", "/m") ∈ Gen.C14.metaKeys ∧ ("a/../b", "/m/b") ∈ Gen.C14.metaKeys := by decide +kernel

/-- the write-count samples exist: one per block sample -/
theorem gen_save_samples_known :
    17 ≤ Gen.C14.saveAtomicWrites.length ∧ Gen.C14.savePuts.length = Gen.C14.saveAtomicWrites.length := by decide
/-! ### the metadata keys the node uses, re-read from the SOURCE on every run

`harness/streams/c14/metakeys.go` parses /repo (go/parser; a build overlay is honoured) and resolves the key
expression of every `SetMetadata`/`GetMetadata` call in a package that imports `pkg/store`: constants,
`fmt.Sprintf` formats, struct fields, parameters.  A new key, a changed constant or a changed `rhb` format
changes these lists and the theorems below stop compiling.  (The scan is syntactic: the RPC *client* call in
`pkg/rpc/example` is included — a superset is on the safe side.) -/

/-- the constant keys are the model's (and the example's) -/
theorem gen_nodeMetaConst : Gen.C14.nodeMetaConst =
    [daIncludedHeightKey, "example_key", lastBatchDataKey, lastSubmittedDataHeightKey,
     lastSubmittedHeaderHeightKey] := by decide

/-- a per-height key: prefix, decimal height, suffix (`fmt.Sprintf("%s/%d/h", …)`) -/
def fmtKey (p : String × String) (h : Nat) : String := p.1 ++ Nat.repr h ++ p.2

/-- the per-height keys are the model's `rhbDataKey`, `rhbHeaderKey` -/
theorem gen_nodeMetaFormats : Gen.C14.nodeMetaFormats = [("rhb/", "/d"), ("rhb/", "/h")] := by decide
theorem fmtKey_rhb (h : Nat) : fmtKey ("rhb/", "/d") h = rhbDataKey h ∧ fmtKey ("rhb/", "/h") h = rhbHeaderKey h :=
  ⟨rfl, rfl⟩

/-- exactly one call site passes a key that is not built from constants: the RPC server's `GetMetadata`
hands the key of the request to the store (outside the property's quantifier "the metadata keys the node
uses"; read-only; see `unclean_metadata_key_collides` and props/C14.json) -/
theorem gen_nodeMetaExternal : Gen.C14.nodeMetaExternal = ["pkg/rpc/server/server.go:GetMetadata"] := by decide

/-- **cleanliness on the regenerated lists**: every constant key and every per-height key, for EVERY
height, is a key `path.Clean` leaves alone — so all theorems of this file apply to them -/
theorem gen_node_keys_clean :
    (∀ k ∈ Gen.C14.nodeMetaConst, metaKeyOK k = true) ∧
    (∀ p ∈ Gen.C14.nodeMetaFormats, ∀ h : Nat, metaKeyOK (fmtKey p h) = true) := by
  refine ⟨by decide, ?_⟩
  rw [gen_nodeMetaFormats]
  intro p hp h
  simp only [List.mem_cons, List.mem_nil_iff, or_false] at hp
  rcases hp with rfl | rfl
  · rw [(fmtKey_rhb h).1]; exact rhbDataKey_ok h
  · rw [(fmtKey_rhb h).2]; exact rhbHeaderKey_ok h

/-- the instances used by the stream (constants, heights 3 and 4) are those lists instantiated -/
theorem gen_nodeMetaKeys : Gen.C14.nodeMetaKeys =
    Gen.C14.nodeMetaConst ++ [3, 4].flatMap (fun h => Gen.C14.nodeMetaFormats.map (fmtKey · h)) := by decide
theorem gen_nodeMetaKeys_ok : Gen.C14.nodeMetaKeys.all metaKeyOK = true := by decide
/-- every constant key and every per-height format found in the source has a sample in `metaKeys` -/
theorem gen_metaKeys_cover_source :
    (∀ k ∈ Gen.C14.nodeMetaConst, (k, "/m/" ++ k) ∈ Gen.C14.metaKeys) ∧
    (∀ p ∈ Gen.C14.nodeMetaFormats, (fmtKey p 7, "/m/" ++ fmtKey p 7) ∈ Gen.C14.metaKeys) ∧
    Gen.C14.nodeMetaConst ≠ [] ∧ Gen.C14.nodeMetaFormats ≠ [] ∧ 9 ≤ Gen.C14.nodeMetaKeys.length := by decide +kernel

/-- one `SaveBlockData` is one atomic write of four puts; lowering the height writes nothing; saving a
height again under the same header is again four puts, under another header four puts and ONE delete —
of the index key of the replaced header's hash — in the same single atomic write (measured on the harness's
logging datastore, whose `Batch` records what the store put into it) -/
theorem gen_save_one_batch :
    Gen.C14.saveAtomicWrites.all (· == 1) = true ∧ Gen.C14.savePuts.all (· == 4) = true ∧
    Gen.C14.lowerHeightWrites = 0 ∧ Gen.C14.resaveSame = (1, 4, 0) ∧ Gen.C14.resaveOther = (1, 4, 1) ∧
    indexKey Gen.C14.resaveDeleted.1 = Gen.C14.resaveDeleted.2 := by decide +kernel

/-! ## records of different kinds never overwrite one another -/

/-- **key injectivity and pairwise disjointness** of the seven key families, for all heights, all
hashes and all metadata keys `path.Clean` leaves alone -/
theorem keys_injective_and_disjoint {a b : Key} (ha : a.OK) (hb : b.OK) (h : a.str = b.str) : a = b :=
  Key.str_inj ha hb h

example : (Key.header 10).str ≠ (Key.data 10).str := fun h => by
  have := keys_injective_and_disjoint (a := .header 10) (b := .data 10) trivial trivial h
  cases this
example : (Key.metadata "h/1").OK := by show metaKeyOK "h/1" = true; decide

/-- the restriction on metadata keys is necessary: `path.Clean` maps this key onto a header key
(no key the node uses is of this kind: `gen_nodeMetaKeys_ok`) -/
theorem unclean_metadata_key_collides : metaKey "../h/5" = headerKey 5 := by decide

/-- `metaKey` is `GenerateKey(["m", k])` (Go's `path.Clean`) for EVERY key -/
theorem metaKey_is_path_clean (k : String) : metaKey k = generateKey ["m", k] := metaKey_eq_generateKey k

/-- every metadata key the node uses, for every height, is one `path.Clean` leaves alone — so all
theorems of this file apply to them -/
theorem node_metadata_keys_clean :
    metaKeyOK daIncludedHeightKey = true ∧ metaKeyOK lastBatchDataKey = true ∧
    metaKeyOK lastSubmittedHeaderHeightKey = true ∧ metaKeyOK lastSubmittedDataHeightKey = true ∧
    ∀ h : Nat, metaKeyOK (rhbHeaderKey h) = true ∧ metaKeyOK (rhbDataKey h) = true :=
  ⟨by decide, by decide, by decide, by decide, fun h => ⟨rhbHeaderKey_ok h, rhbDataKey_ok h⟩⟩

/-- each operation changes only its own records (a block save: the block of its height, the index entry
of its hash, and the index entries of OTHER hashes that led to its height — those are removed) -/
theorem save_touches_only_its_records {H : Bytes → Option Bytes} {kv : KV} (hi : Inv H kv) {h : Nat}
    (hh : h < 2 ^ 64) (x : Bytes) (b : Block) (hx : H b.header = some x) :
    let a := abs kv
    let a' := abs (step H kv (.save h x b))
    a'.height = a.height ∧ a'.state = a.state ∧ a'.metadata = a.metadata ∧
    (∀ h', h' ≠ h → a'.blocks h' = a.blocks h') ∧
    (∀ x', x' ≠ x → a.index x' ≠ some h → a'.index x' = a.index x') ∧
    (∀ x', x' ≠ x → a.index x' = some h → a'.index x' = none) := by
  intro a a'
  have : a' = a.step (.save h x b) := abs_step hi (op := .save h x b) ⟨hh, hx⟩
  rw [this]
  refine ⟨rfl, rfl, rfl, ?_, ?_, ?_⟩
  · intro y hy; simp [Abs.step, hy]
  · intro y hy hn; simp [Abs.step, hy, hn]
  · intro y hy hn; simp [Abs.step, hy, hn]

theorem setHeight_touches_only_height {H : Bytes → Option Bytes} {kv : KV} (hi : Inv H kv) {h : Nat}
    (hh : h < 2 ^ 64) :
    let a := abs kv
    let a' := abs (step H kv (.setHeight h))
    a'.blocks = a.blocks ∧ a'.index = a.index ∧ a'.state = a.state ∧ a'.metadata = a.metadata := by
  intro a a'
  have : a' = a.step (.setHeight h) := abs_step hi (op := .setHeight h) hh
  rw [this]; exact ⟨rfl, rfl, rfl, rfl⟩

theorem updateState_touches_only_state {H : Bytes → Option Bytes} {kv : KV} (hi : Inv H kv) (blob : Bytes) :
    let a := abs kv
    let a' := abs (step H kv (.updateState blob))
    a'.height = a.height ∧ a'.blocks = a.blocks ∧ a'.index = a.index ∧ a'.metadata = a.metadata := by
  intro a a'
  have : a' = a.step (.updateState blob) := abs_step hi (op := .updateState blob) trivial
  rw [this]; exact ⟨rfl, rfl, rfl, rfl⟩

theorem setMetadata_touches_only_its_key {H : Bytes → Option Bytes} {kv : KV} (hi : Inv H kv) {k : String}
    (hk : metaKeyOK k = true) (v : Bytes) :
    let a := abs kv
    let a' := abs (step H kv (.setMetadata k v))
    a'.height = a.height ∧ a'.blocks = a.blocks ∧ a'.index = a.index ∧ a'.state = a.state ∧
    (∀ k', k' ≠ k → a'.metadata k' = a.metadata k') := by
  intro a a'
  have : a' = a.step (.setMetadata k v) := abs_step hi (op := .setMetadata k v) hk
  rw [this]
  refine ⟨rfl, rfl, rfl, rfl, ?_⟩
  intro y hy; simp [Abs.step, hy]

/-! ## refinement: for every history the store is the height-indexed map

`H` is the hash of a stored header record (`storedHeaderHash keyOk` in the typed operations);
`Op.OK H` asks of a save only that the height is a `uint64` and that the block is saved under the hash
of the header that is stored — for `SaveBlockData(header, …)` that is the wire round trip of C12
(`typed_save_ok`). -/

/-- every operation commutes with the abstraction map and keeps the invariant -/
theorem step_refines {H : Bytes → Option Bytes} {kv : KV} (hi : Inv H kv) {op : Op} (hop : op.OK H) :
    Inv H (step H kv op) ∧ abs (step H kv op) = (abs kv).step op :=
  ⟨inv_step hi hop, abs_step hi hop⟩

/-- **refinement**, for every operation sequence from the empty store -/
theorem refinement (H : Bytes → Option Bytes) (ops : List Op) (hops : ∀ op ∈ ops, op.OK H) :
    Inv H (run H KV.empty ops) ∧ abs (run H KV.empty ops) = Abs.init.run ops := by
  have := refinement_from (inv_empty H) ops hops
  rwa [abs_empty] at this

/-- **every read returns what the abstract map returns**, after every operation sequence -/
theorem reads_refine (H : Bytes → Option Bytes) (ops : List Op) (hops : ∀ op ∈ ops, op.OK H) :
    let kv := run H KV.empty ops
    let a := Abs.init.run ops
    height kv = .ok a.height ∧
    (∀ h, getBlockBlobs kv h = a.getBlock h) ∧
    (∀ h, getSignature kv h = a.getSignature h) ∧
    (∀ x, getHeightByHash kv x = a.getHeightByHash x) ∧
    (∀ x, getBlockBlobsByHash kv x = a.getBlockByHash x) ∧
    (∀ x, getSignatureByHash kv x = a.getSignatureByHash x) ∧
    getStateBlob kv = a.getState ∧
    (∀ k, metaKeyOK k = true → getMetadata kv k = a.getMetadata k) ∧
    (∀ keyOk h, getBlockData keyOk kv h = a.getBlockData keyOk h) ∧
    (∀ keyOk x, getBlockByHash keyOk kv x = a.getBlockDataByHash keyOk x) := by
  intro kv a
  obtain ⟨hi, ha⟩ := refinement H ops hops
  have ha' : abs kv = a := ha
  refine ⟨?_, ?_, ?_, ?_, ?_, ?_, ?_, ?_, ?_, ?_⟩
  · rw [← ha']; exact read_height hi
  · intro h; rw [← ha']; exact read_block hi h
  · intro h; rw [← ha']; exact read_signature hi h
  · intro x; rw [← ha']; exact read_heightByHash hi x
  · intro x; rw [← ha']; exact read_blockByHash hi x
  · intro x; rw [← ha']; exact read_signatureByHash hi x
  · rw [← ha']; exact read_state kv
  · intro k hk; rw [← ha']; exact read_metadata kv hk
  · intro keyOk h; rw [← ha']; exact read_blockData hi keyOk h
  · intro keyOk x; rw [← ha']; exact read_blockDataByHash hi keyOk x

/-- the abstract map returns exactly what the latest write stored; a hash whose height is saved again
under another hash leads nowhere -/
theorem abs_reads_latest (a : Abs) (h : Nat) (x : Bytes) (b : Block) (s : Bytes) (k : String) (v : Bytes) :
    (a.step (.save h x b)).getBlock h = .ok (b.header, b.data) ∧
    (a.step (.save h x b)).getSignature h = .ok b.signature ∧
    (a.step (.save h x b)).getBlockByHash x = .ok (b.header, b.data) ∧
    (a.step (.save h x b)).getSignatureByHash x = .ok b.signature ∧
    (∀ y, y ≠ x → a.index y = some h → (a.step (.save h x b)).getBlockByHash y = .error .notFound) ∧
    (a.step (.updateState s)).getState = .ok s ∧
    (a.step (.setMetadata k v)).getMetadata k = .ok v := by
  refine ⟨?_, ?_, ?_, ?_, ?_, ?_, ?_⟩ <;>
    try simp [Abs.step, Abs.getBlock, Abs.getSignature, Abs.getBlockByHash, Abs.getSignatureByHash, Abs.getState,
      Abs.getMetadata]
  intro y hy hi
  simp [hy, hi]

/-- the typed `SaveBlockData(sh, d, sig)` is an `Op.OK` save whenever the header survives the wire round
trip with its hash (C12 `signed_header_payload_preserved`: every well-formed header whose key parses) -/
theorem typed_save_ok (keyOk : Bytes → Bool) (sh : Wire.SignedHeader) (d : Wire.Data) (sig : Bytes)
    (hh : sh.header.height < 2 ^ 64)
    (hrt : ∃ sh', Wire.SignedHeader.decode keyOk sh.encode = some sh' ∧ sh'.header.hash = sh.header.hash) :
    (Op.save sh.header.height sh.header.hash ⟨sh.encode, d.encode, sig⟩).OK (storedHeaderHash keyOk) := by
  obtain ⟨sh', h1, h2⟩ := hrt
  exact ⟨hh, by simp [storedHeaderHash, h1, h2]⟩

/-- **a saved block is retrievable by height and by header hash together with its signature**
(typed form; the round trip of the wire codec for the saved values is C12's theorem and is a
hypothesis here) -/
theorem saved_block_retrievable {keyOk : Bytes → Bool} {kv : KV} (hi : Inv (storedHeaderHash keyOk) kv)
    (sh : Wire.SignedHeader) (d : Wire.Data) (sig : Bytes) (hh : sh.header.height < 2 ^ 64)
    (hrt1 : Wire.SignedHeader.decode keyOk sh.encode = some sh) (hrt2 : Wire.Data.decode d.encode = some d) :
    let kv' := applyAll kv (saveBlockData keyOk kv sh d sig)
    getBlockData keyOk kv' sh.header.height = .ok (sh, d) ∧
    getBlockByHash keyOk kv' sh.header.hash = .ok (sh, d) ∧
    getSignature kv' sh.header.height = .ok sig ∧
    getSignatureByHash kv' sh.header.hash = .ok sig := by
  intro kv'
  have hok := typed_save_ok keyOk sh d sig hh ⟨sh, hrt1, rfl⟩
  have e : kv' = step (storedHeaderHash keyOk) kv (.save sh.header.height sh.header.hash ⟨sh.encode, d.encode, sig⟩) := rfl
  have hi' : Inv (storedHeaderHash keyOk) kv' := e ▸ inv_step hi hok
  have ha : abs kv' = (abs kv).step (.save sh.header.height sh.header.hash ⟨sh.encode, d.encode, sig⟩) :=
    e ▸ abs_step hi hok
  rw [read_blockData hi', read_blockDataByHash hi', read_signature hi', read_signatureByHash hi', ha]
  simp [Abs.step, Abs.getBlockData, Abs.getBlockDataByHash, Abs.getSignature, Abs.getSignatureByHash,
    decodeBlock, hrt1, hrt2]

/-! ## the recorded height only grows -/

theorem height_only_grows (H : Bytes → Option Bytes) (ops more : List Op) (h1 : ∀ op ∈ ops, op.OK H)
    (h2 : ∀ op ∈ more, op.OK H) :
    (abs (run H KV.empty ops)).height ≤ (abs (run H KV.empty (ops ++ more))).height := by
  have hi := (refinement H ops h1).1
  have : run H KV.empty (ops ++ more) = run H (run H KV.empty ops) more := by simp [run, List.foldl_append]
  rw [this]
  exact height_mono_run hi more h2

/-- and `SetHeight` records exactly the maximum -/
theorem setHeight_is_max (a : Abs) (h : Nat) : (a.step (.setHeight h)).height = max a.height h := by
  simp only [Abs.step]; split <;> omega

/-! ## a block save is all-or-nothing under a crash; a crash leaves a prefix of the history

What is PROVED here is about the model: the model issues one write-set per block save (that is how
`Store.saveBlobsWS` is written — the first theorem is definitional), and a crash keeps a prefix of the
write-sets.  That the CODE issues one `Batch` with exactly these writes is the regenerated fact
`gen_save_one_batch` + the correspondence run; that one `Batch.Commit` of the datastore is atomic is an
ASSUMPTION about badger (see props/C14.json). -/

/-- a block save is ONE write-set of the model (definitional), of four puts and at most one delete … -/
theorem save_is_one_write_set (H : Bytes → Option Bytes) (kv : KV) (h : Nat) (x : Bytes) (b : Block) :
    writes H kv (.save h x b) = [saveBlobsWS H kv h x b] ∧
    (saveBlobsWS H kv h x b = savePutsWS h x b ∨
     ∃ oh, oh ≠ x ∧ saveBlobsWS H kv h x b = .del (indexKey oh) :: savePutsWS h x b) := by
  refine ⟨rfl, ?_⟩
  unfold saveBlobsWS staleIndexWS
  cases hs : staleHash H kv h x with
  | none => left; rfl
  | some oh =>
    right
    refine ⟨oh, ?_, rfl⟩
    unfold staleHash at hs
    cases hg : kv.get (headerKey h) with
    | none => simp [hg] at hs
    | some ob =>
      cases hh : H ob with
      | none => simp [hg, hh] at hs
      | some oh' =>
        simp only [hg, hh] at hs
        split at hs
        · next hc => cases hs; exact hc.1
        · cases hs

/-- saving the same header again (the block manager's early save and final save of one height: the
header hash does not cover the signature) issues exactly the four puts, as before the repair -/
theorem resave_same_hash_four_puts {H : Bytes → Option Bytes} {kv : KV} {h : Nat} {x : Bytes} {ob : Bytes}
    (hg : kv.get (headerKey h) = some ob) (hh : H ob = some x) (b : Block) :
    saveBlobsWS H kv h x b = savePutsWS h x b := by
  simp [saveBlobsWS, staleIndexWS, staleHash, hg, hh]

/-- … hence under every crash prefix the store is the old one or the one with the whole block -/
theorem save_all_or_nothing (H : Bytes → Option Bytes) (n : Nat) (kv : KV) (h : Nat) (x : Bytes) (b : Block) :
    applyPrefix n (writes H kv (.save h x b)) kv = kv ∨
    applyPrefix n (writes H kv (.save h x b)) kv = step H kv (.save h x b) :=
  crash_in_op H n kv _

/-- typed form, on the exact write-sets the driver issues -/
theorem saveBlockData_all_or_nothing (keyOk : Bytes → Bool) (n : Nat) (kv : KV) (sh : Wire.SignedHeader)
    (d : Wire.Data) (sig : Bytes) :
    applyPrefix n (saveBlockData keyOk kv sh d sig) kv = kv ∨
    applyPrefix n (saveBlockData keyOk kv sh d sig) kv = applyAll kv (saveBlockData keyOk kv sh d sig) :=
  applyPrefix_single n _ kv

/-- a crash at any write boundary of any history leaves the store that a prefix of the history
produced (so every invariant and every read theorem above holds after a crash) -/
theorem crash_leaves_a_prefix (H : Bytes → Option Bytes) (ops : List Op) (n : Nat) :
    ∃ m, m ≤ ops.length ∧ applyPrefix n (log H KV.empty ops) KV.empty = run H KV.empty (ops.take m) :=
  crash_is_prefix H ops KV.empty n

/-- closing and reopening: the store object holds no state, so in the MODEL reopening is the identity
(definitional).  That the datastore returns after `Close`/`New` what was committed is an assumption about
badger, exercised (not proved) by the thorough tier's close/reopen scenarios. -/
theorem reopen_id (kv : KV) : reopen kv = kv := rfl

/-! ## reading by hash: exactly the block last written under that hash — for every history -/

/-- what the property says, in terms of the history alone: the block of the LAST save under hash `x`,
and nothing once the height of that save was saved again under another hash -/
def byHashSpec (ops : List Op) (x : Bytes) : Option Block :=
  match lastUnder ops x with
  | none => none
  | some h =>
    match lastSaved ops h with
    | some (y, b) => if y = x then some b else none
    | none => none

theorem abs_byHash (ops : List Op) (x : Bytes) :
    ((Abs.init.run ops).index x).bind (Abs.init.run ops).blocks = byHashSpec ops x := by
  have hg := ghost_run ops
  rw [hg.index x]
  simp only [byHashOf, byHashSpec]
  cases hu : lastUnder ops x with
  | none => rfl
  | some h =>
    simp only [Option.bind_some]
    cases hs : lastSaved ops h with
    | none => simp
    | some p =>
      obtain ⟨y, b⟩ := p
      by_cases e : y = x
      · simp [e, hg.blocks h, hs]
      · simp [e]

/-- **reads by hash, full strength** (the clause that was false before /repo 34bccfd): after EVERY
operation sequence — heights overwritten under other headers included — `GetBlockByHash(x)` and
`GetSignatureByHash(x)` return exactly the block last written under `x`, and not-found once that height
holds another block -/
theorem byHash_full (H : Bytes → Option Bytes) (ops : List Op) (hops : ∀ op ∈ ops, op.OK H) (x : Bytes) :
    getBlockBlobsByHash (run H KV.empty ops) x =
      (match byHashSpec ops x with
       | some b => .ok (b.header, b.data)
       | none => .error .notFound) ∧
    getSignatureByHash (run H KV.empty ops) x =
      (match byHashSpec ops x with
       | some b => .ok b.signature
       | none => .error .notFound) := by
  have hr := reads_refine H ops hops
  rw [hr.2.2.2.2.1 x, hr.2.2.2.2.2.1 x, ← abs_byHash ops x]
  simp only [Abs.getBlockByHash, Abs.getSignatureByHash, Abs.getBlock, Abs.getSignature]
  cases (Abs.init.run ops).index x with
  | none => exact ⟨rfl, rfl⟩
  | some h =>
    simp only [Option.bind_some]
    cases (Abs.init.run ops).blocks h <;> exact ⟨rfl, rfl⟩

/-- in particular: whatever is read under hash `x` was saved under hash `x` and is the current block of
its height (the statement that needed `NoResave` before the repair) -/
theorem byHash_sound (H : Bytes → Option Bytes) (ops : List Op) (hops : ∀ op ∈ ops, op.OK H)
    (x hb db : Bytes) (hr : getBlockBlobsByHash (run H KV.empty ops) x = .ok (hb, db)) :
    ∃ h b, lastSaved ops h = some (x, b) ∧ hb = b.header ∧ db = b.data := by
  rw [(byHash_full H ops hops x).1] at hr
  unfold byHashSpec at hr
  cases hu : lastUnder ops x with
  | none => simp [hu] at hr
  | some h =>
    cases hs : lastSaved ops h with
    | none => simp [hu, hs] at hr
    | some p =>
      obtain ⟨y, b⟩ := p
      by_cases e : y = x
      · subst e
        simp [hu, hs] at hr
        exact ⟨h, b, hs, hr.1.symm, hr.2.symm⟩
      · simp [hu, hs, e] at hr

/-! ### the repaired defect, kernel-checked on real header hashes

Height 1 is saved with header A, then with header B (another time stamp, hence another hash). -/

def wOk : Bytes → Bool := fun _ => true
def shA : Wire.SignedHeader := { header := { height := 1, time := 1 } }
def shB : Wire.SignedHeader := { header := { height := 1, time := 2 } }

/-- the two saves through the model of the current code -/
def twoSaves : KV :=
  let kv1 := applyAll KV.empty (saveBlockData wOk KV.empty shA {} [7])
  applyAll kv1 (saveBlockData wOk kv1 shB {} [8])

/-- the two saves as `SaveBlockData` wrote them before /repo 34bccfd (four puts, no delete) -/
def twoSavesOld : KV :=
  applyAll KV.empty [saveBlobsWSOld 1 shA.header.hash ⟨shA.encode, ({} : Wire.Data).encode, [7]⟩,
    saveBlobsWSOld 1 shB.header.hash ⟨shB.encode, ({} : Wire.Data).encode, [8]⟩]

/-- **old witness** (the finding `C14/read/by-hash-returns-other-block-after-height-overwrite`): before
the repair the read by A's hash returned B's block and B's signature -/
theorem old_store_reads_other_block_by_old_hash :
    getBlockByHash wOk twoSavesOld shA.header.hash = .ok (shB, {}) ∧
    getSignatureByHash twoSavesOld shA.header.hash = .ok [8] := by decide +kernel

/-- the same history now: A's hash leads nowhere, B is found under B's hash -/
theorem repaired_store_reads_by_hash :
    getBlockByHash wOk twoSaves shA.header.hash = .error .notFound ∧
    getSignatureByHash twoSaves shA.header.hash = .error .notFound ∧
    getBlockByHash wOk twoSaves shB.header.hash = .ok (shB, {}) ∧
    getSignatureByHash twoSaves shB.header.hash = .ok [8] := by decide +kernel

/-- and the abstract map of the old code (`Abs.stepOld`) differs from the property's map on that history -/
theorem old_abs_keeps_stale_hash :
    ((Abs.init.stepOld (.save 1 [0xAA] ⟨[1], [2], [3]⟩)).stepOld (.save 1 [0xBB] ⟨[4], [5], [6]⟩)).index [0xAA] = some 1 ∧
    ((Abs.init.step (.save 1 [0xAA] ⟨[1], [2], [3]⟩)).step (.save 1 [0xBB] ⟨[4], [5], [6]⟩)).index [0xAA] = none := by
  decide

/-! ## `pkg/store` refines `Chain.Store`, the abstract store of C01–C08 (Proofs/C14Chain.lean)

`Sim r kv s`: the key-value image `kv` (real key layout) holds exactly what the abstract store `s`
holds — height, every block (`/h/<h>`, `/d/<h>`, `/c/<h>` ↦ one `Chain.Block` incl. `savedSig`), state,
every metadata key `path.Clean` leaves alone — where `r : Rep` says how the symbolic signatures and key ids
of `Chain` are written as bytes.  Each atomic write `SW` of `Chain.Store` is the real method
(`SaveBlockData`, `SetHeight`, `UpdateState`, `SetMetadata`), which issues at most ONE write-set. -/

open Store.Sim in
/-- **one atomic write ↦ one real method call**: at most one write-set, and the relation is kept -/
theorem chain_store_write {r : Rep} {kv : KV} {s : Chain.Store} (hs : Sim r kv s) {w : Chain.SW} (hw : SWOK r w) :
    (impl r kv w).length ≤ 1 ∧ Sim r (applyAll kv (impl r kv w)) (s.apply w) :=
  ⟨impl_length r kv w, sim_step hs hw⟩

open Store.Sim in
/-- a `SetHeight` writes nothing exactly when the abstract `setHeightW` issues no write; every other write
is exactly one write-set -/
theorem chain_store_write_count {r : Rep} {kv : KV} {s : Chain.Store} (hs : Sim r kv s) :
    (∀ h, (impl r kv (.setHeight h)).length = (Chain.setHeightW s h).length) ∧
    (∀ w, (∀ h, w ≠ .setHeight h) → (impl r kv w).length = 1) :=
  ⟨impl_setHeight_length hs, fun w hw => impl_length_one r kv w hw⟩

open Store.Sim in
/-- **every log of atomic writes from the empty database** (the logs of `Producer.run`, `Sync.runOps`, the
submitter, the includer): the image is the abstract store -/
theorem chain_store_log (r : Rep) (ws : List Chain.SW) (hw : ∀ w ∈ ws, SWOK r w) :
    Sim r (applyAll KV.empty (implLog r KV.empty ws)) (({} : Chain.Store).applyAll ws) :=
  sim_applyAll ws (sim_empty r) hw

open Store.Sim in
/-- **crashes commute**: a crash at any write-set boundary of the real log is a crash at an `SW` boundary
of the abstract log (`Chain.Store.applyPrefix`: the crash model of C04, C05, C11, FNODE) -/
theorem chain_store_crash (r : Rep) (ws : List Chain.SW) (hw : ∀ w ∈ ws, SWOK r w) (n : Nat) :
    ∃ m, m ≤ ws.length ∧
      Sim r (applyPrefix n (implLog r KV.empty ws) KV.empty) (({} : Chain.Store).applyPrefix m ws) :=
  sim_prefix ws (sim_empty r) hw n

open Store.Sim in
/-- **reads commute**: `Height`, `GetBlockData`, `GetSignature`, `GetState`, `GetMetadata` on the image
return what `height`, `getBlock` (header, data, `savedSig`), `state`, `getMeta` return on the abstract store
(typed block/state reads: the decoding of the bytes they were saved as — C12's round trip gives the value
back, `Store.Sim.read_block_typed`, `read_state_typed`) -/
theorem chain_store_reads {r : Rep} {kv : KV} {s : Chain.Store} (hs : Sim r kv s) :
    height kv = .ok s.height ∧
    (∀ h, getBlockData r.keyOk kv h =
      match s.getBlock h with
      | some b => decodeBlock r.keyOk (r.header b.sh).encode b.data.encode
      | none => .error .notFound) ∧
    (∀ h, getSignature kv h =
      match s.getBlock h with
      | some b => .ok (r.sigBytes b.savedSig)
      | none => .error .notFound) ∧
    (getState kv =
      match s.state with
      | some st =>
        (match State.decode (stateOf st).encode with
         | some x => .ok x
         | none => .error .corrupt)
      | none => .error .notFound) ∧
    (∀ k, metaKeyOK k = true → getMetadata kv k =
      match s.getMeta k with
      | some v => .ok v
      | none => .error .notFound) :=
  ⟨Store.Sim.read_height hs, Store.Sim.read_block hs, Store.Sim.read_signature hs, Store.Sim.read_state hs,
    fun _ hk => Store.Sim.read_meta hs hk⟩

open Store.Sim in
/-- the relation is the graph of an abstraction FUNCTION (up to what can be read from `Chain.Store`) when
the encoding loses nothing -/
theorem chain_store_abstraction_unique {r : Rep} {kv : KV} {s s' : Chain.Store} (h : Sim r kv s) (h' : Sim r kv s')
    (injB : ∀ a b : Chain.Block, r.block a = r.block b → a = b)
    (injS : ∀ a b : Chain.State, (stateOf a).encode = (stateOf b).encode → a = b) :
    s.height = s'.height ∧ (∀ k, s.getBlock k = s'.getBlock k) ∧ s.state = s'.state ∧
    (∀ k, metaKeyOK k = true → s.getMeta k = s'.getMeta k) :=
  sim_functional h h' injB injS

open Store.Sim in
/-- the writes of the producer, the syncer, the submitter's watermarks and the DA includer have the shape
the correspondence needs (blocks saved at their header's height, clean metadata keys) -/
theorem block_manager_writes_have_store_shape :
    (∀ c n resp ex, ∀ w ∈ (Producer.publish c n resp ex).2.1, Shape w) ∧
    (∀ c disk da n ws, Producer.start c disk da = .ok (n, ws) → ∀ w ∈ ws, Shape w) ∧
    (∀ n sh d ex, ∀ w ∈ (Sync.applyBlock n sh d ex).2.1, Shape w) ∧
    (∀ c disk caches n ws, Sync.start c disk caches = some (n, ws) → ∀ w ∈ ws, Shape w) ∧
    (∀ a isData h, ∀ w ∈ (Submit.raiseWm a isData h).2, Shape w) ∧
    (∀ a, ∀ w ∈ (Submit.includerIter a).2, Shape w) :=
  ⟨shape_publish, fun c disk da _ _ h => shape_producer_start c disk da h, shape_sync_applyBlock,
    fun c disk caches _ _ h => shape_sync_start c disk caches h, shape_raiseWm,
    fun a => shape_includerPass _ a [] (by simp)⟩

/-! ### non-vacuity of the simulation: a concrete representation and log -/

def demoRep : Store.Sim.Rep where
  sigBytes := fun
    | .none => []
    | .garbage b => b
    | .by k p => sha256 (k.toUInt8 :: p)
  keyBytes := fun k => [8, 1, 18, 1, k.toUInt8]
  keyOk := fun _ => true

def demoBlock : Chain.Block :=
  { sh := { hdr := { height := 3, time := 5, chainId := "c" }, sig := .by 1 [9], signer := { addr := [1], key := some 1 } },
    data := { txs := [[1, 2]] }, savedSig := .by 1 [9] }

def demoLog : List Chain.SW :=
  [.saveBlock 3 demoBlock, .updateState { chainId := "c", lastHeight := 3, lastTime := 5000000007 },
   .setHeight 3, .setMeta "d" (Chain.le64 3), .setHeight 2]

theorem demoLog_ok : ∀ w ∈ demoLog, Store.Sim.SWOK demoRep w := by
  intro w hw
  simp only [demoLog, List.mem_cons, List.mem_nil_iff, or_false] at hw
  rcases hw with rfl | rfl | rfl | rfl | rfl
  · exact ⟨rfl, by decide, by decide +kernel⟩
  · trivial
  · show (3 : Nat) < 2 ^ 64; decide
  · show metaKeyOK "d" = true; decide
  · show (2 : Nat) < 2 ^ 64; decide

def demoImage : KV := applyAll KV.empty (Store.Sim.implLog demoRep KV.empty demoLog)

example : Sim demoRep demoImage (({} : Chain.Store).applyAll demoLog) := chain_store_log demoRep demoLog demoLog_ok
/- four write-sets for five atomic writes: the last `setHeight` does not raise the height -/
example : (Store.Sim.implLog demoRep KV.empty demoLog).length = 4 := by decide +kernel
example : height demoImage = .ok 3 ∧ getSignature demoImage 3 = .ok (demoRep.sigBytes (.by 1 [9])) ∧
    getBlockData demoRep.keyOk demoImage 3 = .ok (demoRep.header demoBlock.sh, demoBlock.data) ∧
    getState demoImage = .ok (Store.Sim.stateOf { chainId := "c", lastHeight := 3, lastTime := 5000000007 }) ∧
    getMetadata demoImage "d" = .ok (Chain.le64 3) := by decide +kernel

/-! ## non-vacuity: a concrete history through the model -/

/-- a hash function for blob-level examples: the header record `[n]` has hash `[0xA0 + n]` -/
def demoH : Bytes → Option Bytes
  | [n] => some [0xA0 + n]
  | _ => none

def demoOps : List Op :=
  [.save 5 [0xA1] ⟨[1], [2], [3]⟩, .setHeight 5, .setHeight 3, .updateState [9], .setMetadata "d" [7],
   .setMetadata "rhb/5/h" [8], .save 5 [0xA4] ⟨[4], [5], [6]⟩, .save 6 [0xA1] ⟨[1], [2], [3]⟩,
   .save 6 [0xA1] ⟨[1], [2], [9]⟩]

theorem demoOps_ok : ∀ op ∈ demoOps, op.OK demoH := by
  intro op hop
  simp only [demoOps, List.mem_cons, List.mem_nil_iff, or_false] at hop
  rcases hop with rfl | rfl | rfl | rfl | rfl | rfl | rfl | rfl | rfl <;> simp only [Op.OK] <;> decide
example : height (run demoH KV.empty demoOps) = .ok 5 := by decide
example : getBlockBlobs (run demoH KV.empty demoOps) 5 = .ok ([4], [5]) := by decide
example : getBlockBlobsByHash (run demoH KV.empty demoOps) [0xA4] = .ok ([4], [5]) := by decide
/- `[0xA1]` was last saved at height 6 (same hash twice: the second save's signature) -/
example : getBlockBlobsByHash (run demoH KV.empty demoOps) [0xA1] = .ok ([1], [2]) := by decide
example : getSignatureByHash (run demoH KV.empty demoOps) [0xA1] = .ok [9] := by decide
example : byHashSpec demoOps [0xA1] = some ⟨[1], [2], [9]⟩ := by decide
example : byHashSpec (demoOps.take 7) [0xA1] = none := by decide
example : getBlockBlobsByHash (run demoH KV.empty (demoOps.take 7)) [0xA1] = .error .notFound := by decide
example : getSignature (run demoH KV.empty demoOps) 5 = .ok [6] := by decide
example : getBlockBlobs (run demoH KV.empty demoOps) 7 = .error .notFound := by decide
example : getMetadata (run demoH KV.empty demoOps) "rhb/5/h" = .ok [8] := by decide
example : (log demoH KV.empty demoOps).length = 8 := by decide
/- the seventh operation's write-set carries the delete; the ninth (same hash again) does not -/
example : (log demoH KV.empty demoOps)[5]? =
    some [.del "/i/A1", .put "/h/5" [4], .put "/d/5" [5], .put "/c/5" [6], .put "/i/A4" (encodeHeight 5)] := by decide
example : ((log demoH KV.empty demoOps)[7]?).map List.length = some 4 := by decide

/-! ## transient read faults of the datastore (`Proofs/C14Fault.lean`)

`Faults`: which `Get`s of ONE call return a transient error; `Call`: every method of `DefaultStore`;
`Call.runF`: the error the call answers and the atomic writes it issued — built from the `…F` methods the driver
executes (`Drv/C14.lean`, op `fault get=<n> skip=<k>`).  A failing call is outside the property's quantifier; what
the property demands is that it leaves nothing behind.  Since /repo 3ba0234 this holds of EVERY method
(`SaveBlockData` used to swallow the error and commit without the delete of the replaced header's index entry:
`old_store_read_fault_keeps_stale_hash`). -/

/-- **a call whose read is faulted answers an error and writes nothing**: every store state, every method that
reads, every fault pattern that hits the first read; hence the store — height, blocks, hash index, state,
metadata — is unchanged -/
theorem C14_read_fault_writes_nothing (keyOk : Bytes → Bool) (H : Bytes → Option Bytes) (f : Faults) (kv : KV)
    (c : Call) (hr : c.reads = true) (hf : f 0 = true) :
    c.runF keyOk H f kv = (some .io, []) ∧
    applyAll kv (c.runF keyOk H f kv).2 = kv ∧
    abs (applyAll kv (c.runF keyOk H f kv).2) = abs kv := by
  have e := first_read_fault keyOk H f kv c hr hf
  rw [e]; exact ⟨rfl, rfl, rfl⟩

/-- … and wherever the fault hits (a later read of the call): a call that answers an error — any error — issued no
write at all -/
theorem C14_failed_call_writes_nothing (keyOk : Bytes → Bool) (H : Bytes → Option Bytes) (f : Faults) (kv : KV)
    (c : Call) (e : Err) (he : (c.runF keyOk H f kv).1 = some e) :
    (c.runF keyOk H f kv).2 = [] ∧ abs (applyAll kv (c.runF keyOk H f kv).2) = abs kv := by
  have h := failed_call_writes_nothing keyOk H f kv c e he
  rw [h]; exact ⟨rfl, rfl⟩

/-- a call that does NOT fail under a fault pattern issued exactly the writes of the fault-free call -/
theorem C14_unfailed_call_writes_as_without_faults (H : Bytes → Option Bytes) (f : Faults) (kv : KV) (op : Op)
    (h : faulted H f kv op = false) : writesF H kv f op = writes H kv op := by
  rw [writesF_eq]; simp [h]

/-- the seeded class, by name: `SetHeight(h)` whose look-up of the recorded height fails returns the error and
writes nothing — for every `h`, also one BELOW the recorded height -/
theorem C14_setHeight_read_fault (f : Faults) (kv : KV) (h : Nat) (hf : f 0 = true) :
    setHeightF f kv h = .error .io ∧ setHeightWF f kv h = [] := by
  simp [setHeightWF, setHeightF, heightF, hf]

/-- without faults the methods the driver executes are the methods of the theorems above -/
theorem C14_no_faults (keyOk : Bytes → Bool) (H : Bytes → Option Bytes) (kv : KV) :
    (∀ op, writesF H kv noFaults op = writes H kv op) ∧
    heightF noFaults kv = height kv ∧
    (∀ h, setHeightF noFaults kv h = setHeight kv h) ∧
    (∀ sh d sig, saveBlockDataF keyOk noFaults kv sh d sig = .ok (saveBlockData keyOk kv sh d sig)) ∧
    (∀ h, getHeaderF keyOk noFaults 0 kv h = getHeader keyOk kv h) ∧
    (∀ h, getBlockDataF keyOk noFaults 0 kv h = getBlockData keyOk kv h) ∧
    (∀ x, getBlockByHashF keyOk noFaults kv x = getBlockByHash keyOk kv x) ∧
    (∀ h, getSignatureF noFaults 0 kv h = getSignature kv h) ∧
    (∀ x, getSignatureByHashF noFaults kv x = getSignatureByHash kv x) ∧
    getStateF noFaults kv = getState kv ∧
    (∀ k, getMetadataF noFaults kv k = getMetadata kv k) :=
  ⟨writesF_noFaults H kv, heightF_noFaults kv, setHeightF_noFaults kv, saveBlockDataF_noFaults keyOk kv,
   getHeaderF_noFaults keyOk 0 kv, getBlockDataF_noFaults keyOk 0 kv, getBlockByHashF_noFaults keyOk kv,
   getSignatureF_noFaults 0 kv, getSignatureByHashF_noFaults kv, getStateF_noFaults kv, getMetadataF_noFaults kv⟩

/-- **every history in which any subset of calls meets read faults is the fault-free history of the calls that
did not fail**: the same key-value image, hence the invariant and the refinement to the abstract map — and with
them `reads_refine`, `byHash_full`, … — hold of it -/
theorem C14_read_fault_history (H : Bytes → Option Bytes) (cs : List (Faults × Op)) (hcs : ∀ c ∈ cs, c.2.OK H) :
    runF H KV.empty cs = run H KV.empty (effective H KV.empty cs) ∧
    (∀ op ∈ effective H KV.empty cs, op.OK H) ∧
    Inv H (runF H KV.empty cs) ∧
    abs (runF H KV.empty cs) = Abs.init.run (effective H KV.empty cs) := by
  have e := runF_eq_run H KV.empty cs
  have ok := effective_ok KV.empty cs hcs
  have r := refinement H _ ok
  rw [e]; exact ⟨rfl, ok, r.1, r.2⟩

/-- **the recorded height only grows** along every history, whichever calls meet read faults -/
theorem C14_height_only_grows_under_read_faults (H : Bytes → Option Bytes) (cs more : List (Faults × Op))
    (h1 : ∀ c ∈ cs, c.2.OK H) (h2 : ∀ c ∈ more, c.2.OK H) :
    (abs (runF H KV.empty cs)).height ≤ (abs (runF H KV.empty (cs ++ more))).height := by
  have hi := (C14_read_fault_history H cs h1).2.2.1
  rw [runF_append, runF_eq_run H (runF H KV.empty cs) more]
  exact height_mono_run hi _ (effective_ok _ more h2)

/-- … and what a `SetHeight` does to it: nothing when its read is faulted, the maximum otherwise -/
theorem C14_setHeight_under_read_faults (H : Bytes → Option Bytes) (cs : List (Faults × Op))
    (hcs : ∀ c ∈ cs, c.2.OK H) (f : Faults) (h : Nat) (hh : h < 2 ^ 64) :
    (abs (stepF H (runF H KV.empty cs) (f, .setHeight h))).height =
      if f 0 = true then (abs (runF H KV.empty cs)).height else max (abs (runF H KV.empty cs)).height h := by
  have hi := (C14_read_fault_history H cs hcs).2.2.1
  rw [stepF_eq]
  by_cases hf : f 0 = true
  · simp [faulted, hf]
  · have := abs_step hi (op := .setHeight h) hh
    simp only [faulted, hf, if_false, Bool.false_eq_true]
    rw [this, setHeight_is_max]

/-! ### non-vacuity: the demo history with read faults at a `SetHeight` below the recorded height, at a save
over another header (first and second read) and at nothing -/

def demoCalls : List (Faults × Op) :=
  [(noFaults, .save 5 [0xA1] ⟨[1], [2], [3]⟩), (noFaults, .setHeight 5), (Faults.window 0 1, .setHeight 3),
   (Faults.window 0 1, .setHeight 9), (Faults.window 0 1, .save 5 [0xA4] ⟨[4], [5], [6]⟩),
   (Faults.window 1 1, .save 5 [0xA4] ⟨[4], [5], [6]⟩), (Faults.window 1 1, .save 6 [0xA1] ⟨[1], [2], [3]⟩),
   (Faults.window 1 1, .setHeight 7), (Faults.window 0 3, .setMetadata "d" [7])]

theorem demoCalls_ok : ∀ c ∈ demoCalls, c.2.OK demoH := by
  intro c hc
  simp only [demoCalls, List.mem_cons, List.mem_nil_iff, or_false] at hc
  rcases hc with rfl | rfl | rfl | rfl | rfl | rfl | rfl | rfl | rfl <;> simp only [Op.OK] <;> decide

/- five of the nine calls did not fail: the first two, the save of height 6 (nothing stored there: one read only),
the `SetHeight(7)` whose only read is not the faulted one, and the metadata write (no reads) -/
example : (effective demoH KV.empty demoCalls).length = 5 := by decide
example : height (runF demoH KV.empty demoCalls) = .ok 7 := by decide
example : height (runF demoH KV.empty (demoCalls.take 4)) = .ok 5 := by decide
example : getBlockBlobsByHash (runF demoH KV.empty (demoCalls.take 6)) [0xA1] = .ok ([1], [2]) := by decide
example : (Call.write (.setHeight 3)).runF wOk demoH (Faults.window 0 1) (runF demoH KV.empty (demoCalls.take 2)) =
    (some .io, []) := by decide
example : (Call.write (.save 5 [0xA4] ⟨[4], [5], [6]⟩)).runF wOk demoH (Faults.window 1 1)
    (runF demoH KV.empty (demoCalls.take 2)) = (some .io, []) := by decide
example : ((Call.write (.save 5 [0xA4] ⟨[4], [5], [6]⟩)).runF wOk demoH (Faults.window 2 1)
    (runF demoH KV.empty (demoCalls.take 2))).1 = none := by decide
example : (Call.signatureByHash [0xA1]).runF wOk demoH (Faults.window 1 1) (runF demoH KV.empty (demoCalls.take 2)) =
    (some .io, []) := by decide

/-! ### the repaired defect `C14/read/by-hash-returns-other-block-after-height-overwrite/after-read-fault`

Height 1 is saved with header A, then with header B while the look-up of the header being replaced (first read) or
of its index entry (second read) meets a read fault. -/

def afterSaveA : KV := applyAll KV.empty (saveBlockData wOk KV.empty shA {} [7])

/-- the second save through the write-set `SaveBlockData` issued BEFORE /repo 3ba0234 under that fault -/
def faultedSaveOld (f : Faults) : KV :=
  applyAll afterSaveA
    [saveBlobsWSFOld (storedHeaderHash wOk) f afterSaveA 1 shB.header.hash ⟨shB.encode, ({} : Wire.Data).encode, [8]⟩]

/-- **old witness**: the call "succeeded", the stale index entry stayed, and the read by A's hash returned B's block
and B's signature — for a fault at the first and at the second read -/
theorem old_store_read_fault_keeps_stale_hash :
    getBlockByHash wOk (faultedSaveOld (Faults.window 0 1)) shA.header.hash = .ok (shB, {}) ∧
    getSignatureByHash (faultedSaveOld (Faults.window 0 1)) shA.header.hash = .ok [8] ∧
    getBlockByHash wOk (faultedSaveOld (Faults.window 1 1)) shA.header.hash = .ok (shB, {}) ∧
    getSignatureByHash (faultedSaveOld (Faults.window 1 1)) shA.header.hash = .ok [8] := by decide +kernel

/-- for EVERY state: with the first read faulted the old code wrote exactly the pre-34bccfd write-set -/
theorem old_store_read_fault_is_pre_fix_save (H : Bytes → Option Bytes) (f : Faults) (kv : KV) (h : Nat) (x : Bytes)
    (b : Block) (hf : f 0 = true) : saveBlobsWSFOld H f kv h x b = saveBlobsWSOld h x b :=
  saveBlobsWSFOld_first_read_fault H f kv h x b hf

/-- the same calls now: an error, nothing written; with no read faulted, the save of `twoSaves` -/
theorem repaired_store_read_fault_fails :
    saveBlockDataF wOk (Faults.window 0 1) afterSaveA shB {} [8] = .error .io ∧
    saveBlockDataF wOk (Faults.window 1 1) afterSaveA shB {} [8] = .error .io ∧
    saveBlockDataF wOk (Faults.window 2 1) afterSaveA shB {} [8] = .ok (saveBlockData wOk afterSaveA shB {} [8]) := by
  decide +kernel

end Spec.C14
