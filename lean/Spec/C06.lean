import Model.Submit

/-! # C06 — every committed block reaches the DA layer in order; the watermark is sound
(first theorems; the loop invariant of `submitLoop` is under construction) -/
namespace Spec.C06
open Wire Chain Producer Submit

/-- the bookkeeping after an accepted submission never lowers a watermark -/
theorem raiseWm_monotone (a : ANode) (isData : Bool) (h : Nat) :
    a.n.hdrWm ≤ (raiseWm a isData h).1.n.hdrWm ∧ a.n.dataWm ≤ (raiseWm a isData h).1.n.dataWm := by
  unfold raiseWm
  cases isData <;> simp <;> split <;> simp_all <;> omega

/-- and it persists exactly what it holds in memory -/
theorem raiseWm_persists (a : ANode) (h : Nat) (hgt : h > a.n.hdrWm) :
    (raiseWm a false h).1.n.hdrWm = h ∧
    (raiseWm a false h).1.n.store.getMeta Submit.hdrWmKey = some (le64 h) := by
  unfold raiseWm
  simp [hgt, Store.apply, Store.getMeta]

end Spec.C06
