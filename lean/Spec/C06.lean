import Proofs.SubmitDuring
import Proofs.SubmitFault
import Proofs.SubmitFaultHist

/-!
# C06 — every committed block reaches the DA layer in order; the watermark is sound

Model: `Submit.submitLoop` (`block/submitter.go` `submitToDA` with the bookkeeping of `postSubmit`),
`Submit.raiseWm` (`pendingBase.setLastSubmittedHeight`), `Submit.headersIter` / `Submit.dataIter` (one tick of the two
submission loops), `Submit.restart`; executable and compared with the real code on every run (stream C06).
The DA layer is the ghost double `daH` / `daBlobs : List (DA height × isData × block height)`.

Main theorem: `C06` (§4) — for **every initial height ≥ 1**, every node reachable from a fresh start by any interleaving
of production steps, header / data submission ticks (any DA answers), inclusion passes and restarts has both watermarks
in `[initialHeight − 1, chain height]`, its pending ranges are stored, everything at or below the header watermark is on
the DA layer, and a header tick against a DA layer that eventually accepts ends with `hdrWm = chain height`.
(Until /repo 6924f89 the watermarks started at 0 and a chain with initial height > 1 never submitted anything; the
former `C06_full_fails` is now `C06_old_witness_now_submits`.)

All theorems quantify over **every** list of DA answers (`script`: accepted, partially accepted, accepted with the
acknowledgement lost, not included, in mempool, too big, error, cancelled), every item list, every node.
`wm d` is the watermark of the kind being submitted (`d = false`: headers, `d = true`: data), `marks d` its
DA-inclusion marks.
-/
namespace Spec.C06
open Wire Chain Producer Submit

/-- the bookkeeping after an accepted submission never lowers a watermark -/
theorem raiseWm_monotone (a : ANode) (isData : Bool) (h : Nat) :
    a.n.hdrWm ≤ (raiseWm a isData h).1.n.hdrWm ∧ a.n.dataWm ≤ (raiseWm a isData h).1.n.dataWm := by
  unfold raiseWm
  cases isData <;> simp <;> split <;> simp_all <;> omega

/-- and it persists exactly what it holds in memory -/
theorem raiseWm_persists (a : ANode) (h : Nat) (hgt : h > a.n.hdrWm) :
    (raiseWm a false h).1.n.hdrWm = h ∧
    (raiseWm a false h).1.n.store.getMeta Submit.hdrWmKey = some (le64 h) := by
  unfold raiseWm
  simp [hgt, Store.apply, Store.getMeta]

/-! ## 1. the retry loop: monotone watermark, frame, writes, calls, soundness -/

/-- **The watermark of the kind being submitted never decreases; the other kind's watermark, the other kind's marks,
the DA-included height and the store's blocks / height / state are untouched: the only durable writes are
`setMeta <watermark key>` with a value above the old watermark and at most the new one, and the store is the old
store with exactly these writes applied.** -/
theorem C06_monotone_and_frame (d : Bool) (fuel : Nat) (a : ANode) (items : List Item) (script : List DAAns) :
    let r := submitLoop d fuel a items script [] []
    wm d a ≤ wm d r.1 ∧ wm (!d) r.1 = wm (!d) a ∧ marks (!d) r.1 = marks (!d) a ∧ r.1.daInc = a.daInc ∧
    r.1.n.store.blocks = a.n.store.blocks ∧ r.1.n.store.height = a.n.store.height ∧
    r.1.n.store.state = a.n.store.state ∧ r.1.n.lastState = a.n.lastState ∧
    r.1.n.store = a.n.store.applyAll r.2.1 ∧
    (∀ w ∈ r.2.1, ∃ v, w = SW.setMeta (wmKey d) (le64 v) ∧ wm d a < v ∧ v ≤ wm d r.1) := by
  obtain ⟨rem, pre, hi, _⟩ := submitLoop_loopInv d fuel a items script []
  exact ⟨hi.wmMono, hi.frame.otherWm, hi.frame.otherMarks, hi.frame.daInc, hi.frame.blocks, hi.frame.height,
    hi.frame.state, hi.frame.lastState, hi.store, hi.writes⟩

/-- **Every `Submit` call carries the kind being submitted and exactly the current remainder — a suffix of the
original item list (so consecutive heights stay consecutive) — and there are at most `fuel` calls
(`maxSubmitAttempts` = 30 in the two submission loops).** -/
theorem C06_calls (d : Bool) (fuel : Nat) (a : ANode) (items : List Item) (script : List DAAns) :
    let r := submitLoop d fuel a items script [] []
    r.2.2.1.length ≤ fuel ∧
    ∀ c ∈ r.2.2.1, c.isData = d ∧ (∃ k, k < items.length ∧ c.heights = (items.drop k).map (·.height)) ∧
      c.accepted ≤ c.heights.length := by
  refine ⟨by simpa using submitLoop_calls_length d fuel a items script [] [], ?_⟩
  obtain ⟨new, hn, hall⟩ := submitLoop_calls d fuel a items script [] []
  rw [hn, List.nil_append]; exact hall

/-- **Soundness of the watermark.**  With the items in increasing height order (what both submission loops pass),
every item whose height the watermark moved past was stored by the DA double, at a DA height `dh` of this loop, in an
accepting call, and the item's key is marked with exactly that DA height. -/
theorem C06_watermark_sound (d : Bool) (fuel : Nat) (a : ANode) (items : List Item) (script : List DAAns)
    (hsorted : items.Pairwise (fun x y => x.height < y.height)) :
    let r := submitLoop d fuel a items script [] []
    ∀ it ∈ items, wm d a < it.height → it.height ≤ wm d r.1 →
      ∃ dh, a.daH ≤ dh ∧ dh < r.1.daH ∧ (dh, d, it.height) ∈ r.1.daBlobs ∧ (it.key, dh) ∈ marks d r.1 :=
  submitLoop_sound d fuel a items script [] hsorted

/-- **Nothing is marked that the DA double did not store**: the marks added by the loop are each the key of an item,
with a DA height of this loop at which the DA double holds that item's blob; the DA double only grows, by blobs of the
submitted kind and of submitted items; and the new watermark is the old one or the height of an acknowledged item. -/
theorem C06_marks_sound (d : Bool) (fuel : Nat) (a : ANode) (items : List Item) (script : List DAAns) :
    let r := submitLoop d fuel a items script [] []
    (∃ nm, marks d r.1 = nm ++ marks d a ∧
      ∀ e ∈ nm, ∃ it ∈ items, e.1 = it.key ∧ a.daH ≤ e.2 ∧ e.2 < r.1.daH ∧ (e.2, d, it.height) ∈ r.1.daBlobs) ∧
    (∃ new, r.1.daBlobs = new ++ a.daBlobs ∧
      ∀ e ∈ new, a.daH ≤ e.1 ∧ e.1 < r.1.daH ∧ e.2.1 = d ∧ ∃ it ∈ items, it.height = e.2.2) ∧
    (wm d r.1 = wm d a ∨ ∃ l ∈ items, wm d r.1 = l.height) := by
  obtain ⟨rem, pre, hi, _⟩ := submitLoop_loopInv d fuel a items script []
  have hsub : ∀ it ∈ pre, it ∈ items := fun it h => by rw [hi.split]; exact List.mem_append_left _ h
  obtain ⟨nm, h1, h2⟩ := hi.marksNew
  refine ⟨⟨nm, h1, fun e he => ?_⟩, hi.blobs, ?_⟩
  · obtain ⟨it, hit, r⟩ := h2 e he
    exact ⟨it, hsub it hit, r⟩
  · rcases hi.wmFrom with e | ⟨l, hl, e⟩
    · exact Or.inl e
    · exact Or.inr ⟨l, hsub l hl, e⟩

/-- **Acknowledged ⇒ at or below the watermark.**  With the items in increasing height order, the loop splits them into
an acknowledged prefix `pre` and a remainder: every mark the loop added is the key of an item of `pre`, every item of `pre`
is on the DA double and marked, and **its height is at most the new watermark** — so an item above the watermark was not
acknowledged (the pending counters `height − watermark` of C08 count exactly the not-yet-acknowledged heights). -/
theorem C06_acknowledged_at_most_watermark (d : Bool) (fuel : Nat) (a : ANode) (items : List Item) (script : List DAAns)
    (hsorted : items.Pairwise (fun x y => x.height < y.height)) :
    let r := submitLoop d fuel a items script [] []
    ∃ pre rem, items = pre ++ rem ∧
      (∀ it ∈ pre, it.height ≤ wm d r.1 ∧ ∃ dh, (dh, d, it.height) ∈ r.1.daBlobs ∧ (it.key, dh) ∈ marks d r.1) ∧
      (∃ nm, marks d r.1 = nm ++ marks d a ∧ ∀ e ∈ nm, ∃ it ∈ pre, e.1 = it.key) ∧
      (r.2.2.2 = true → rem = []) := by
  obtain ⟨rem, pre, hi, hall⟩ := submitLoop_loopInv d fuel a items script []
  have hps : pre.Pairwise (fun x y => x.height < y.height) := by
    have := hsorted; rw [hi.split] at this; exact (List.pairwise_append.mp this).1
  refine ⟨pre, rem, hi.split, fun it hit => ?_, ?_, fun ht => by rw [hall] at ht; exact List.isEmpty_iff.mp ht⟩
  · obtain ⟨dh, _, _, q3, q4⟩ := hi.sound it hit
    exact ⟨Nat.le_trans (le_lastH_of_sorted hps hit) hi.wmLast, dh, q3, q4⟩
  · obtain ⟨nm, h1, h2⟩ := hi.marksNew
    exact ⟨nm, h1, fun e he => by obtain ⟨it, hit, q, _⟩ := h2 e he; exact ⟨it, hit, q⟩⟩

/-! ## 2. retry until accepted -/

/-- **Retry until accepted.**  After any prefix `fails` of answers shorter than the attempt bound — errors, time-outs,
partial acceptance, lost acknowledgements; anything but a cancellation — an answer "all accepted" (also: the end of the
script, an accepting DA layer) completes the submission: the loop reports `all = true` and the watermark is at least
the last item's height — equal to it when the items are sorted and start above the old watermark. -/
theorem C06_retry_until_accepted (d : Bool) (a : ANode) (items : List Item) (fails tail : List DAAns)
    (htail : tail.headD (.ok none) = .ok none) (hnc : DAAns.canceled ∉ fails) (fuel : Nat) (hf : fails.length < fuel) :
    let r := submitLoop d fuel a items (fails ++ tail) [] []
    r.2.2.2 = true ∧ lastH items ≤ wm d r.1 ∧
    (items ≠ [] → items.Pairwise (fun x y => x.height < y.height) → (∀ it ∈ items, wm d a < it.height) →
      wm d r.1 = lastH items) := by
  have hall := submitLoop_retry d fails tail htail hnc fuel hf a items [] []
  obtain ⟨h1, h2⟩ := submitLoop_wm_all d fuel a items (fails ++ tail) []
  refine ⟨hall, h1 hall, fun hne hs hgt => ?_⟩
  have hge := h1 hall
  obtain ⟨l, hl, hle⟩ := lastH_mem hne
  rcases h2 with e | ⟨x, hx, e⟩
  · have := hgt l hl; omega
  · -- `x.height ≤` the last height, by sortedness
    have hxl : x.height ≤ lastH items := by
      unfold lastH
      cases hg : items.getLast? with
      | none => exact absurd (List.getLast?_eq_none_iff.mp hg) hne
      | some z =>
        have hz : items = items.dropLast ++ [z] := by
          have := List.dropLast_concat_getLast hne
          have hzz : items.getLast hne = z := by
            have h' := List.getLast?_eq_some_getLast hne
            rw [hg] at h'; simpa using h'.symm
          rw [hzz] at this; exact this.symm
        rw [hz] at hx hs
        rcases List.mem_append.mp hx with hx | hx
        · have := (List.pairwise_append.mp hs).2.2 x hx z (by simp)
          simp; omega
        · simp at hx; subst hx; simp
    omega

/-- **The header loop on a committed chain**: on a node whose store holds, for every height `h` in
`(hdrWm, height]`, a block with `b.sh.hdr.height = h` (what `Producer.Inv.chain` gives for `hdrWm ≥ initialHeight − 1`),
one iteration against a DA layer that accepts after fewer than 30 failures ends with `hdrWm = store.height` and outcome
`done`; in particular with the empty script (a DA layer that accepts at once). -/
theorem C06_headers_reach_chain_height (a : ANode) (fails tail : List DAAns)
    (htail : tail.headD (.ok none) = .ok none) (hnc : DAAns.canceled ∉ fails) (hf : fails.length < maxSubmitAttempts)
    (hok : ∀ h, a.n.hdrWm < h → h ≤ a.n.store.height → ∃ b, a.n.store.getBlock h = some b ∧ b.sh.hdr.height = h)
    (hle : a.n.hdrWm ≤ a.n.store.height) :
    (headersIter a (fails ++ tail)).1.n.hdrWm = (headersIter a (fails ++ tail)).1.n.store.height ∧
    (a.n.hdrWm < a.n.store.height → (headersIter a (fails ++ tail)).2.2.2 = .done) :=
  headersIter_reaches a fails tail htail hnc hf hok hle

theorem C06_headers_reach_accepting_da (a : ANode)
    (hok : ∀ h, a.n.hdrWm < h → h ≤ a.n.store.height → ∃ b, a.n.store.getBlock h = some b ∧ b.sh.hdr.height = h)
    (hlt : a.n.hdrWm < a.n.store.height) :
    (headersIter a []).1.n.hdrWm = (headersIter a []).1.n.store.height ∧ (headersIter a []).2.2.2 = .done := by
  have := headersIter_reaches a [] [] rfl (by simp) (by decide) hok (by omega)
  exact ⟨this.1, this.2 hlt⟩

/-- **Soundness at the level of one header iteration**: every height the watermark moved past is a stored block whose
header blob the DA double stored during this iteration, and whose hash is marked with that DA height. -/
theorem C06_headers_sound (a : ANode) (script : List DAAns)
    (hok : ∀ h, a.n.hdrWm < h → h ≤ a.n.store.height → ∃ b, a.n.store.getBlock h = some b ∧ b.sh.hdr.height = h) :
    ∀ h, a.n.hdrWm < h → h ≤ (headersIter a script).1.n.hdrWm →
      ∃ b dh, a.n.store.getBlock h = some b ∧ b.sh.hdr.height = h ∧ a.daH ≤ dh ∧ dh < (headersIter a script).1.daH ∧
        (dh, false, h) ∈ (headersIter a script).1.daBlobs ∧ (b.sh.hdr.hash, dh) ∈ (headersIter a script).1.hMarks :=
  headersIter_sound a script hok

/-- **Soundness of the data watermark at the level of one data iteration** (every DA answer list): every height the
data watermark moved past is a stored block that **is empty** (no data blob exists for it: `createSignedDataToSubmit`
skips it, `IsDAIncluded` counts the empty data hash as included) **or whose signed data the DA double stored during this
iteration**, its data commitment being marked with that DA height.  In particular the watermark never moves past a
non-empty block the DA layer did not accept — also not over empty blocks that follow such a block. -/
theorem C06_data_sound (a : ANode) (script : List DAAns)
    (hok : ∀ h, a.n.dataWm < h → h ≤ a.n.store.height → ∃ b, a.n.store.getBlock h = some b ∧ dataHeight b = h)
    (hle : a.n.dataWm ≤ a.n.store.height) :
    ∀ h, a.n.dataWm < h → h ≤ (dataIter a script).1.n.dataWm →
      ∃ b, a.n.store.getBlock h = some b ∧ dataHeight b = h ∧
        (b.data.txs = [] ∨ ∃ dh, a.daH ≤ dh ∧ dh < (dataIter a script).1.daH ∧
          (dh, true, h) ∈ (dataIter a script).1.daBlobs ∧ (b.data.daCommitment, dh) ∈ (dataIter a script).1.dMarks) :=
  dataIter_sound a script hok hle

/-- **the watermark moves over empty blocks only when every pending block is empty**: a data iteration that issues no
`Submit` call changes the node only if all blocks of `(dataWm, height]` are empty, and then the new watermark is the
chain height (/repo 5533199; before, such an iteration changed nothing and the empty blocks stayed pending for ever) -/
theorem C06_data_advance_over_empty_blocks (a : ANode) (script : List DAAns)
    (hok : ∀ h, a.n.dataWm < h → h ≤ a.n.store.height → ∃ b, a.n.store.getBlock h = some b ∧ dataHeight b = h)
    (hle : a.n.dataWm ≤ a.n.store.height)
    (hempty : ∀ h, a.n.dataWm < h → h ≤ a.n.store.height → ∃ b, a.n.store.getBlock h = some b ∧ b.data.txs = []) :
    (dataIter a script).1.n.dataWm = (dataIter a script).1.n.store.height ∧ (dataIter a script).2.2.1 = [] :=
  dataIter_idle_reaches hempty hok hle script

/-! ## 3. watermark ≤ chain height; persistence; restart -/

/-- the header watermark never passes the chain height, for every DA answer list -/
theorem C06_watermark_le_height (a : ANode) (script : List DAAns)
    (hok : ∀ h, a.n.hdrWm < h → h ≤ a.n.store.height → ∃ b, a.n.store.getBlock h = some b ∧ b.sh.hdr.height = h)
    (hle : a.n.hdrWm ≤ a.n.store.height) :
    (headersIter a script).1.n.hdrWm ≤ (headersIter a script).1.n.store.height :=
  headersIter_wm_le a script hok hle

/-- the same for the data watermark (the blocks of the pending range carry their height in the data metadata, as the
producer writes it — for every reachable node this is part of `C06`) -/
theorem C06_data_watermark_le_height (a : ANode) (script : List DAAns)
    (hok : ∀ h, a.n.dataWm < h → h ≤ a.n.store.height → ∃ b, a.n.store.getBlock h = some b ∧ dataHeight b = h)
    (hle : a.n.dataWm ≤ a.n.store.height) :
    (dataIter a script).1.n.dataWm ≤ (dataIter a script).1.n.store.height :=
  dataIter_wm_le a script hok hle

/-- **memory = metadata**: if the persisted watermarks equal the ones in memory before a submission loop (of either
kind), they do afterwards -/
theorem C06_persisted (d : Bool) (fuel : Nat) (a : ANode) (items : List Item) (script : List DAAns)
    (h1 : Persisted false a) (h2 : Persisted true a) :
    Persisted false (submitLoop d fuel a items script [] []).1 ∧ Persisted true (submitLoop d fuel a items script [] []).1 := by
  obtain ⟨rem, pre, hi, _⟩ := submitLoop_loopInv d fuel a items script []
  cases d with
  | false => exact ⟨hi.toIter.persisted h1, hi.toIter.persisted_other h2⟩
  | true => exact ⟨hi.toIter.persisted_other h1, hi.toIter.persisted h2⟩

/-- **Restart reloads the persisted watermarks, raised to `initialHeight − 1`** (`NewManager`), hence (with the theorem
above) the watermarks in memory never decrease across a restart, and for a node whose watermarks are at least
`initialHeight − 1` — every reachable node, `C06` — they are exactly those before it: nothing acknowledged is skipped or
forgotten. -/
theorem C06_restart_keeps_watermarks {c : Cfg} {a a' : ANode} {clean : Bool}
    (h : restart c a a.n.store clean = some a')
    (hp1 : Persisted false a) (hp2 : Persisted true a) (hb1 : a.n.hdrWm < 2 ^ 64) (hb2 : a.n.dataWm < 2 ^ 64) :
    a.n.hdrWm ≤ a'.n.hdrWm ∧ a.n.dataWm ≤ a'.n.dataWm ∧
    (c.initialHeight ≤ a.n.hdrWm + 1 → a'.n.hdrWm = a.n.hdrWm) ∧
    (c.initialHeight ≤ a.n.dataWm + 1 → a'.n.dataWm = a.n.dataWm) := by
  obtain ⟨e1, e2, _⟩ := restart_wm h hp1 hp2 hb1 hb2
  rw [e1, e2]
  exact ⟨(wmRaise_ge c _).1, (wmRaise_ge c _).1, wmRaise_eq, wmRaise_eq⟩

/-! ## 4. every reachable node, every initial height ≥ 1 -/

/-- **C06, main theorem.**  Let the initial height be any `≥ 1` and let `a` be reached from the node `NewManager`
builds on an empty disk (`Producer.start c {} = freshNode c`, `Producer.start_empty`) by **any** list of actions
`ActR`: production steps (any sequencer / execution answers), header submission ticks and data submission ticks (any DA
answer lists), inclusion passes, restarts on the node's durable image (clean, or a crash between two actions), and
**crashes after any number `k` of the durable writes of the last action** (`ActR.crash k`: the node restarts on
`base.applyPrefix k ws`, the DA double keeps what was submitted).  Then

1. both last-submitted heights lie in `[initialHeight − 1, chain height]`;
2. the pending range of either kind contains only committed heights — `pendingBlocks` never asks for a height below
   the initial height and never fails (`getPending` finds every block), and the headers of `(hdrWm, height]` carry their
   own height;
3. every committed height `initialHeight ≤ h ≤ hdrWm` is a stored block whose header blob the DA double holds
   (the watermark never moved past a height the DA layer did not accept);
4. every committed height `initialHeight ≤ h ≤ dataWm` is a stored block that is **empty or whose signed data the DA
   double holds**, and every committed block carries its own height in its data metadata;
5. **a header tick against a DA layer that accepts after fewer than 30 non-cancellation failures ends with
   `hdrWm = chain height`**, with outcome `done` whenever something was pending; **a data tick against such a DA layer
   leaves only empty blocks above the data watermark, and the next data tick (any answers: the DA layer is not asked)
   ends with `dataWm = chain height`** — for every mix of empty and non-empty blocks. -/
theorem C06 (c : Cfg) (hpos : 1 ≤ c.initialHeight) (acts : List ActR) :
    let a := (runR c (freshC c) acts).a
    (c.initialHeight - 1 ≤ a.n.hdrWm ∧ a.n.hdrWm ≤ a.n.store.height) ∧
    (c.initialHeight - 1 ≤ a.n.dataWm ∧ a.n.dataWm ≤ a.n.store.height) ∧
    (∀ h, a.n.hdrWm < h → h ≤ a.n.store.height →
      c.initialHeight ≤ h ∧ ∃ b, a.n.store.getBlock h = some b ∧ b.sh.hdr.height = h) ∧
    (∃ bs, pendingBlocks a.n.store a.n.hdrWm = some bs) ∧ (∃ bs, pendingBlocks a.n.store a.n.dataWm = some bs) ∧
    (∀ h, c.initialHeight ≤ h → h ≤ a.n.hdrWm → ∃ b dh, a.n.store.getBlock h = some b ∧ b.sh.hdr.height = h ∧
      (dh, false, h) ∈ a.daBlobs) ∧
    (∀ h, c.initialHeight ≤ h → h ≤ a.n.dataWm → ∃ b, a.n.store.getBlock h = some b ∧
      (b.data.txs = [] ∨ ∃ dh, (dh, true, h) ∈ a.daBlobs)) ∧
    (∀ h, c.initialHeight ≤ h → h ≤ a.n.store.height → ∃ b, a.n.store.getBlock h = some b ∧ dataHeight b = h) ∧
    ∀ (fails tail : List DAAns), tail.headD (.ok none) = .ok none → DAAns.canceled ∉ fails →
      fails.length < maxSubmitAttempts →
      ((headersIter a (fails ++ tail)).1.n.hdrWm = (headersIter a (fails ++ tail)).1.n.store.height ∧
       (a.n.hdrWm < a.n.store.height → (headersIter a (fails ++ tail)).2.2.2 = .done)) ∧
      (∀ h, (dataIter a (fails ++ tail)).1.n.dataWm < h → h ≤ (dataIter a (fails ++ tail)).1.n.store.height →
        ∃ b, (dataIter a (fails ++ tail)).1.n.store.getBlock h = some b ∧ b.data.txs = []) ∧
      ∀ s2, (dataIter (dataIter a (fails ++ tail)).1 s2).1.n.dataWm =
        (dataIter (dataIter a (fails ++ tail)).1 s2).1.n.store.height := by
  intro a
  have r : R c a := ((CI_fresh c hpos).run acts).r
  have hok := hdrOK_of_inv r.pinv r.low
  have l1 := r.low
  have l2 := r.dlow
  have hdok := r.toD.dataOK r.dlow
  refine ⟨⟨by omega, r.le⟩, ⟨by omega, r.dle⟩, fun h h1 h2 => ⟨by omega, hok h h1 h2⟩, ?_, ?_, r.acc, r.dacc, r.mh,
    fun fails tail htail hnc hf => ⟨headersIter_reaches a fails tail htail hnc hf hok r.le,
      dataIter_accepting a fails tail htail hnc hf hdok r.dle,
      fun s2 => data_two_ticks a fails tail s2 htail hnc hf hdok r.dle⟩⟩
  · exact pendingBlocks_exists (fun k k1 k2 => by obtain ⟨b, hb, _⟩ := hok k k1 k2; exact ⟨b, hb⟩)
  · exact pendingBlocks_exists (fun k k1 k2 => by
      obtain ⟨b, hb, _⟩ := r.pinv.chain k (by omega) k2; exact ⟨b, hb⟩)

/-! ## 4b. a block committed while a submission body runs (the submission loops and the aggregation loop are different
goroutines) -/

/-- **A data tick on the list it read, a block committed meanwhile** (`Submit.dataIterDuring`, executed by the driver for the
stream op `subd … during=produce:<txs>`; on the real node the harness commits the block at the body's first signer call or
first `Submit` call): **the data watermark stops at the last block the body examined** — it is the watermark of the tick on
the node as it was, at most the chain height *before* the block; the new block is above it and stays pending.  (Seeded change
C13-G computed the new watermark from a second read of the chain height and jumped over the new block.) -/
theorem C06_data_tick_during_production (c : Cfg) (a : ANode) (script : List DAAns) (r : SeqResp) (e : ExecResp)
    (hok : ∀ h, a.n.dataWm < h → h ≤ a.n.store.height → ∃ b, a.n.store.getBlock h = some b ∧ dataHeight b = h)
    (hle : a.n.dataWm ≤ a.n.store.height) :
    (dataIterDuring c a script r e).1.n.dataWm = (dataIter a script).1.n.dataWm ∧
    (dataIterDuring c a script r e).1.n.dataWm ≤ a.n.store.height ∧
    (dataIterDuring c a script r e).1.daBlobs = (dataIter a script).1.daBlobs ∧
    (dataIterDuring c a script r e).1.dMarks = (dataIter a script).1.dMarks := by
  have h := dataIter_wm_le a script hok hle
  obtain ⟨_, hi, _⟩ := dataIter_iter a script
  rw [hi.frame.height] at h
  exact ⟨rfl, h, rfl, rfl⟩

/-- **`dataIter_then_produce_commutes`.**  For the current code, a block committed while a data tick runs gives the same node
as the tick followed by the production step — same production outcome and writes, same memory, same blocks, chain height,
saved state, and the same metadata under every key — whenever the pending-limit test answers the same before and after
the tick (always without a limit; with a limit the driver executes the merged semantics, in which the production step
sees the counters as they were).  Likewise for a header tick. -/
theorem dataIter_then_produce_commutes (c : Cfg) (a : ANode) (script : List DAAns) (r : SeqResp) (e : ExecResp)
    (hr : pendingRefuses c (dataIter a script).1.n = pendingRefuses c a.n) :
    let m := (dataIterDuring c a script r e).1
    let q := stepA c (stepA c a (.subD script)) (.produce r e)
    (dataIterDuring c a script r e).2.2.2.2 = (publish c (dataIter a script).1.n r e).2.2 ∧
    m.hMarks = q.hMarks ∧ m.dMarks = q.dMarks ∧ m.daInc = q.daInc ∧ m.finals = q.finals ∧ m.daH = q.daH ∧
    m.daBlobs = q.daBlobs ∧ m.daBytes = q.daBytes ∧
    m.n.lastState = q.n.lastState ∧ m.n.lastBatchData = q.n.lastBatchData ∧ m.n.hdrWm = q.n.hdrWm ∧
    m.n.dataWm = q.n.dataWm ∧ m.n.daHeight = q.n.daHeight ∧ m.n.store.blocks = q.n.store.blocks ∧
    m.n.store.height = q.n.store.height ∧ m.n.store.state = q.n.store.state ∧
    ∀ key, m.n.store.getMeta key = q.n.store.getMeta key := by
  obtain ⟨_, hi, _⟩ := dataIter_iter a script
  obtain ⟨h0, h1, h2, h3, h4, h5, h6, h7, h8, h9⟩ := during_commutes hi r e hr
  refine ⟨?_, rfl, rfl, rfl, rfl, rfl, rfl, rfl, h1, h2, h3, h4, h5, h6, h7, h8, h9⟩
  show (publish c a.n r e).2.2 = _
  rw [h0]

theorem headersIter_then_produce_commutes (c : Cfg) (a : ANode) (script : List DAAns) (r : SeqResp) (e : ExecResp)
    (hr : pendingRefuses c (headersIter a script).1.n = pendingRefuses c a.n) :
    let m := (headersIterDuring c a script r e).1
    let q := stepA c (stepA c a (.subH script)) (.produce r e)
    m.hMarks = q.hMarks ∧ m.dMarks = q.dMarks ∧ m.daBlobs = q.daBlobs ∧
    m.n.lastState = q.n.lastState ∧ m.n.hdrWm = q.n.hdrWm ∧ m.n.dataWm = q.n.dataWm ∧
    m.n.store.blocks = q.n.store.blocks ∧ m.n.store.height = q.n.store.height ∧ m.n.store.state = q.n.store.state ∧
    ∀ key, m.n.store.getMeta key = q.n.store.getMeta key := by
  obtain ⟨_, hi, _⟩ := headersIter_iter a script
  obtain ⟨_, h1, _, h3, h4, _, h6, h7, h8, h9⟩ := during_commutes hi r e hr
  exact ⟨rfl, rfl, rfl, h1, h3, h4, h6, h7, h8, h9⟩

/-- without a pending limit the hypothesis holds -/
theorem no_limit_refusal_unchanged (c : Cfg) (n n' : Node) (h : c.maxPending = 0) :
    pendingRefuses c n' = pendingRefuses c n := by
  simp [pendingRefuses, h]

/-! ## 5. the submitted blobs -/

theorem keyBytes_ne_nil (k : KeyId) : keyBytes k ≠ [] := by simp [keyBytes]

/-- the header blob decodes (wire model of `SignedHeader.UnmarshalBinary`, C12) to the stored signed header -/
theorem hdrBlob_decodes (b : Block) (hw : (wireHeader b).WF) (hk : b.sh.signer.key ≠ none) :
    SignedHeader.decode (fun _ => true) (hdrBlob b) = some (wireHeader b) := by
  have h := SignedHeader.decode_encode (fun _ => true) hw (fun _ => rfl)
  have hc : (wireHeader b).canon' = wireHeader b := by
    cases hkey : b.sh.signer.key with
    | none => exact absurd hkey hk
    | some k =>
      simp [SignedHeader.canon', Signer.canon, wireHeader, wireSigner, hkey, keyBytes_ne_nil]
  rw [hc] at h; exact h

/-- the data blob decodes (wire model of `SignedData.UnmarshalBinary`) to the stored data with its signature and signer -/
theorem dataBlob_decodes (b : Block) (hw : (wireData b).WF) (hk : b.sh.signer.key ≠ none) :
    SignedData.decode (fun _ => true) (dataBlob b) = some (wireData b) := by
  have h := SignedData.decode_encode (fun _ => true) hw (fun _ => rfl)
  have hc : (wireData b).canon' = wireData b := by
    cases hkey : b.sh.signer.key with
    | none => exact absurd hkey hk
    | some k =>
      simp [SignedData.canon', Signer.canon, wireData, wireSigner, hkey, keyBytes_ne_nil]
  rw [hc] at h; exact h

/-- **Every blob the node ever handed to the DA layer is the committed item, signed by the proposer** — every history
(restarts and crashes at write granularity included), every initial height ≥ 1.  The byte view `daBytes` of the DA double
is aligned with the summary `daBlobs` used everywhere else (same DA heights, kinds and block heights, in the same order),
and every entry `(dh, kind, h, bytes)` belongs to a committed block `b` (stored at `initialHeight ≤ k ≤ height`):

* header entries: `h = b.sh.hdr.height` (`= k`), `bytes = SignedHeader.encode {header := the stored header, signature := the
  stored signature, signer := the stored signer}`, the stored signature **is the signature by the proposer key over the
  header payload** and the signer is the genesis proposer with that key; whenever the sizes fit the wire format
  (`WF`: lengths and integers below 2^64, as in the Go types) the blob **decodes to exactly that signed header**;
* data entries: the block has transactions, `h` is the height in its data metadata (`= k`), `bytes = SignedData.encode
  {data := the stored data, signature := signature by the proposer key over `Data.encode`, signer := genesis proposer with
  that key}`, and it decodes to exactly that.

Signatures and keys are symbolic (`sigBytes (Sig.by key payload)`, `keyBytes key`): that the real blob carries a valid
Ed25519 signature by the real key over the real bytes stays with the Go monitors (`C06/blob/*`); that `encode` is the Go
`MarshalBinary` for every typed value is C12. -/
theorem C06_blobs_are_the_committed_items (c : Cfg) (hpos : 1 ≤ c.initialHeight) (acts : List ActR) :
    let a := (runR c (freshC c) acts).a
    a.daBlobs = a.daBytes.map bproj ∧
    ∀ e ∈ a.daBytes, ∃ k b, c.initialHeight ≤ k ∧ k ≤ a.n.store.height ∧ a.n.store.getBlock k = some b ∧
      b.sh.hdr.height = k ∧ dataHeight b = k ∧
      b.sh.sig = Sig.by c.key (payload b.sh.hdr) ∧ b.sh.signer = mySigner c ∧
      ((e.2.1 = false ∧ e.2.2.1 = k ∧ e.2.2.2 = (wireHeader b).encode ∧
          (wireHeader b).signature = sigBytes (Sig.by c.key (payload b.sh.hdr)) ∧
          (wireHeader b).signer = { address := c.proposerAddr, pubKey := keyBytes c.key } ∧
          ((wireHeader b).WF → SignedHeader.decode (fun _ => true) e.2.2.2 = some (wireHeader b))) ∨
       (e.2.1 = true ∧ e.2.2.1 = k ∧ b.data.txs ≠ [] ∧ e.2.2.2 = (wireData b).encode ∧
          (wireData b).signature = sigBytes (Sig.by c.key b.data.encode) ∧
          (wireData b).signer = { address := c.proposerAddr, pubKey := keyBytes c.key } ∧
          ((wireData b).WF → SignedData.decode (fun _ => true) e.2.2.2 = some (wireData b)))) := by
  intro a
  have r : R c a := ((CI_fresh c hpos).run acts).r
  refine ⟨r.bytes.aligned, fun e he => ?_⟩
  obtain ⟨k, b, k0, k1, hb, hcase⟩ := r.bytes.entries e he
  obtain ⟨b', hb', hl⟩ := r.pinv.chain k k0 k1
  rw [hb] at hb'
  have : b = b' := by simpa using hb'
  subst this
  obtain ⟨b'', hb'', hdh⟩ := r.mh k k0 k1
  rw [hb] at hb''
  have : b = b'' := by simpa using hb''
  subst this
  have hkey : b.sh.signer.key = some c.key := by rw [hl.signer]; rfl
  have hkne : b.sh.signer.key ≠ none := by rw [hkey]; simp
  have hsg : wireSigner b.sh.signer = { address := c.proposerAddr, pubKey := keyBytes c.key } := by
    rw [hl.signer]; rfl
  refine ⟨k, b, k0, k1, hb, hl.height, hdh, hl.sig, hl.signer, ?_⟩
  rcases hcase with ⟨q1, q2, q3⟩ | ⟨q1, q2, q3, q4⟩
  · left
    refine ⟨q1, by rw [q2]; exact hl.height, q3, ?_, hsg, fun hw => by rw [q3]; exact hdrBlob_decodes b hw hkne⟩
    show sigBytes b.sh.sig = _
    rw [hl.sig]
  · right
    refine ⟨q1, by rw [q2]; exact hdh, q3, q4, ?_, hsg, fun hw => by rw [q4]; exact dataBlob_decodes b hw hkne⟩
    show sigBytes (match b.sh.signer.key with
      | some k => Sig.by k b.data.encode
      | none => Sig.none) = _
    rw [hkey]

/-- **a restart of a reachable node never fails** (`NewManager` finds parsable watermarks, a state not below the
genesis, …), whether after a clean stop or a crash between two actions; it never raises a watermark above
`max(old, initialHeight − 1)` and keeps the DA layer and the chain height -/
theorem C06_restart_succeeds (c : Cfg) (hpos : 1 ≤ c.initialHeight) (acts : List ActR) (clean : Bool) :
    let a := (runR c (freshC c) acts).a
    ∃ a', restart c a a.n.store clean = some a' ∧ a'.n.hdrWm ≤ a.n.hdrWm ∧ a'.n.dataWm ≤ a.n.dataWm ∧
      a'.n.store.height = a.n.store.height ∧ a'.daBlobs = a.daBlobs := by
  intro a
  have r : R c a := ((CI_fresh c hpos).run acts).r
  obtain ⟨a', h, _, f⟩ := r.restart clean
  have h1 := f.hdrWm
  have h2 := f.dataWm
  rw [wmRaise_eq r.low] at h1
  rw [wmRaise_eq r.dlow] at h2
  exact ⟨a', h, h1, h2, f.height, f.daBlobs⟩

/-- **a crash after any number `k` of the durable writes of the last action** (inside a production step: batch cursor,
early save, final save, `updateState`, `setHeight`; inside a submission tick: between two watermark writes; inside an
inclusion pass: between `rhb/<h>/h`, `rhb/<h>/d` and `d`; after a restart: on the image it started from): the restart on
that image never fails, and the node it yields is the next state of the history — so everything `C06` states holds of it:
the reloaded watermarks are in `[initialHeight − 1, height]`, nothing at or below them is missing from the DA double
(which keeps what was submitted before the crash), the pending ranges are stored. -/
theorem C06_crash_at_any_write (c : Cfg) (hpos : 1 ≤ c.initialHeight) (acts : List ActR) (k : Nat) :
    let σ := runR c (freshC c) acts
    ∃ ac, restart c σ.a (σ.base.applyPrefix k σ.ws) false = some ac ∧ (runR c (freshC c) (acts ++ [.crash k])).a = ac ∧
      ac.daBlobs = σ.a.daBlobs ∧ ac.hMarks = [] ∧ ac.dMarks = [] := by
  intro σ
  obtain ⟨ac, h, _, f⟩ := ((CI_fresh c hpos).run acts).cuts k
  refine ⟨ac, h, ?_, f.daBlobs, f.hMarks, f.dMarks⟩
  show (List.foldl (stepR c) (freshC c) (acts ++ [.crash k])).a = ac
  rw [List.foldl_append]
  show (stepR c σ (.crash k)).a = ac
  show (match Submit.restart c σ.a (σ.base.applyPrefix k σ.ws) false with
    | some a' => (⟨a', σ.base.applyPrefix k σ.ws, []⟩ : CSt)
    | none => σ).a = ac
  rw [h]

/-- a NARROW corollary kept from the earlier rounds (header watermark only, production-only runs, accepting DA layer) — the
property's main statement is theorem `C06` above: after any production run from a
fresh start, one header iteration against an accepting DA layer brings the header watermark to the chain height — for
every initial height ≥ 1 -/
def C06_headers_reach_height_on_accepting_da : Prop :=
  ∀ (c : Cfg) (rs : List (SeqResp × ExecResp)), 1 ≤ c.initialHeight →
    (headersIter { freshA c with n := run c (freshNode c) rs } []).1.n.hdrWm = (run c (freshNode c) rs).store.height

theorem runA_produce (c : Cfg) (a : ANode) (rs : List (SeqResp × ExecResp)) :
    runA c a (rs.map fun r => .produce r.1 r.2) = { a with n := run c a.n rs } := by
  induction rs generalizing a with
  | nil => rfl
  | cons r rs ih => exact ih _

/-- **it holds now** (it was refuted by the witness below until /repo 6924f89) -/
theorem C06_headers_reach_height_on_accepting_da_holds : C06_headers_reach_height_on_accepting_da := by
  intro c rs hpos
  have h := ((C06 c hpos ((rs.map fun r => Act.produce r.1 r.2).map .act)).2.2.2.2.2.2.2.2 [] [] rfl (by simp) (by decide)).1
  rw [runR_act, runA_produce] at h
  have hi := (headersIter_inv { freshA c with n := run c (freshNode c) rs } []).choose_spec.choose_spec.choose_spec.1.frame.height
  exact h.1.trans hi

def w3Cfg : Cfg := { chainId := "w", initialHeight := 3, genesisTime := 100, proposerAddr := [1], key := 1, signerAddr := [1] }
def w3Run : List (SeqResp × ExecResp) := [(.batch [[1]] 200 [], .ok), (.batch [[2]] 300 [], .ok)]

/-- **The witness that refuted the full statement (initial height 3, two blocks; former `C06_full_fails`, finding
`C06/never-submitted/initial-height-above-1`, now fixed) submits its headers**, evaluated by the kernel: the node starts
with both watermarks at 2 = `initialHeight − 1`, persisted; after the two blocks (heights 3, 4) one header tick issues
one `Submit` call carrying the headers of 3 and 4, the DA double stores them, the watermark is 4 in memory and on disk,
outcome `done`; and the data tick (block 3 is the empty genesis block, block 4 carries a transaction) brings the data
watermark to 4 as well. -/
theorem C06_old_witness_now_submits :
    (freshNode w3Cfg).hdrWm = 2 ∧ (freshNode w3Cfg).dataWm = 2 ∧
    (freshNode w3Cfg).store.getMeta Submit.hdrWmKey = some (le64 2) ∧
    (run w3Cfg (freshNode w3Cfg) w3Run).store.height = 4 ∧
    (let r := headersIter { freshA w3Cfg with n := run w3Cfg (freshNode w3Cfg) w3Run } []
     r.1.n.hdrWm = 4 ∧ r.2.2.2 = .done ∧ r.2.2.1.map (·.heights) = [[3, 4]] ∧
     r.1.daBlobs.map (fun e => (e.2.1, e.2.2)) = [(false, 4), (false, 3)] ∧
     r.1.n.store.getMeta Submit.hdrWmKey = some (le64 4)) ∧
    (let r := dataIter { freshA w3Cfg with n := run w3Cfg (freshNode w3Cfg) w3Run } []
     r.1.n.dataWm = 4 ∧ r.2.2.2 = .done ∧ r.2.2.1.map (·.heights) = [[4]]) := by
  decide +kernel

/-- **Corollary for an arbitrary node** (the former partial statement; its hypothesis `initialHeight ≤ hdrWm + 1` now
holds of every reachable node, `C06`): for every node that satisfies the producer's invariant and whose header watermark
is at least `initialHeight − 1`, an iteration against a DA layer that accepts after fewer than 30 non-cancellation
failures brings the watermark to the chain height. -/
theorem C06_partial {c : Cfg} {a : ANode} (hi : Inv c a.n) (hw : c.initialHeight ≤ a.n.hdrWm + 1)
    (hle : a.n.hdrWm ≤ a.n.store.height) (fails tail : List DAAns)
    (htail : tail.headD (.ok none) = .ok none) (hnc : DAAns.canceled ∉ fails) (hf : fails.length < maxSubmitAttempts) :
    (headersIter a (fails ++ tail)).1.n.hdrWm = (headersIter a (fails ++ tail)).1.n.store.height :=
  (headersIter_reaches a fails tail htail hnc hf (hdrOK_of_inv hi hw) hle).1

/-! ## non-vacuity -/

def xCfg : Cfg := { chainId := "w", initialHeight := 1, genesisTime := 100, proposerAddr := [1], key := 1, signerAddr := [1] }
/-- three blocks: the genesis block (empty), a block with a transaction, an empty block -/
def xRun : List (SeqResp × ExecResp) :=
  [(.batch [] 150 [], .ok), (.batch [[1]] 200 [], .ok), (.batch [] 300 [], .ok)]
def xNode : ANode := { freshA xCfg with n := run xCfg (freshNode xCfg) xRun }

/-- the hypotheses of `C06_partial` / `C06_headers_*` hold of a reachable node with three committed blocks -/
example : Inv xCfg (run xCfg (freshNode xCfg) xRun) ∧ xCfg.initialHeight ≤ xNode.n.hdrWm + 1 ∧ xNode.n.store.height = 3 :=
  ⟨run_inv (freshNode_inv xCfg (by decide)) _, by decide +kernel, by decide +kernel⟩

/-- a DA outage (error, time-out, acknowledgement lost, one header accepted) followed by acceptance: four calls, the
watermark reaches 3, the DA double holds the headers of 1, 2, 3 (1 twice: the lost acknowledgement) -/
example : let r := headersIter xNode [.error, .notIncluded, .lost (some 1), .ok (some 1)]
    r.1.n.hdrWm = 3 ∧ r.2.2.2 = .done ∧ r.2.2.1.length = 5 ∧
    r.1.daBlobs.map (fun e => (e.1, e.2.2)) = [(3, 3), (3, 2), (2, 1), (1, 1)] := by
  decide +kernel

/-- a cancelled submission stops at once and is not counted as complete -/
example : (headersIter xNode [.canceled]).2.2.2 = .incomplete ∧ (headersIter xNode [.canceled]).1.n.hdrWm = 0 := by
  decide +kernel

/-- initial height 3, an interleaving with a DA outage, a clean restart and a crash restart: the watermarks start at 2,
follow the chain through the restarts and end at the chain height 5 -/
def w3Acts : List ActR :=
  [.restart true, .act (.produce (.batch [[1]] 200 []) .ok), .act (.subH [.error, .lost none, .ok (some 1)]),
   .restart true, .act (.produce (.batch [[7]] 300 []) .ok), .act (.subD []), .restart false,
   .act (.produce (.batch [[2]] 400 []) .ok), .act (.subH []), .act (.subD []), .act .incl]

example : ((runR w3Cfg (freshC w3Cfg) (w3Acts.take 3)).a).n.hdrWm = 3 ∧
    ((runR w3Cfg (freshC w3Cfg) (w3Acts.take 4)).a).n.hdrWm = 3 ∧
    ((runR w3Cfg (freshC w3Cfg) (w3Acts.take 7)).a).n.dataWm = 4 ∧
    ((runR w3Cfg (freshC w3Cfg) w3Acts).a).n.store.height = 5 ∧
    ((runR w3Cfg (freshC w3Cfg) w3Acts).a).n.hdrWm = 5 ∧
    ((runR w3Cfg (freshC w3Cfg) w3Acts).a).n.dataWm = 5 ∧
    ((runR w3Cfg (freshC w3Cfg) w3Acts).a).daBlobs.map (fun e => (e.2.1, e.2.2)) =
      [(true, 5), (false, 5), (false, 4), (true, 4), (false, 3), (false, 3)] := by
  decide +kernel

/-- a crash at every write boundary of a production step (five durable writes: batch cursor, early save, final save,
`updateState`, `setHeight`) after block 1 was committed and submitted: the restarted node is at height 1 for a cut before
`updateState` (block 2 is stored but not committed from the third write on) and at height 2 from `updateState` on (the
restart completes the commit); both watermarks stay 1 -/
example : (List.range 7).map (fun k =>
      let s := stepR xCfg (stepR xCfg (runR xCfg (freshC xCfg)
        [.act (.produce (.batch [] 150 []) .ok), .act (.subH []), .act (.subD [])])
        (.act (.produce (.batch [[5]] 200 []) .ok))) (.crash k)
      (s.a.n.store.height, s.a.n.hdrWm, s.a.n.dataWm)) =
      [(1, 1, 1), (1, 1, 1), (1, 1, 1), (1, 1, 1), (2, 1, 1), (2, 1, 1), (2, 1, 1)] := by
  decide +kernel

/-- the blobs of a header tick and a data tick on the three-block chain (four blobs: headers 1, 2, 3 and the data of
block 2), decoded by the wire model: each decodes, carries the height of its entry, the proposer's key and the proposer's
signature over the header payload / the data bytes -/
example : let a := (dataIter (headersIter xNode []).1 []).1
    a.daBytes.length = 4 ∧ a.daBlobs = a.daBytes.map bproj ∧
    a.daBytes.all (fun e =>
      if e.2.1 then
        match SignedData.decode (fun _ => true) e.2.2.2 with
        | some sd => (sd.data.metadata.map (·.height)) == some e.2.2.1 && sd.signer.pubKey == keyBytes 1 &&
            sd.signature == sigBytes (Sig.by 1 sd.data.encode)
        | none => false
      else
        match SignedHeader.decode (fun _ => true) e.2.2.2 with
        | some sh => sh.header.height == e.2.2.1 && sh.signer.pubKey == keyBytes 1 &&
            sh.signature == sigBytes (Sig.by 1 sh.header.encode)
        | none => false) = true := by
  decide +kernel

/-- the case the seeded change needs, evaluated by the kernel: two empty blocks pending, a block with a transaction
committed while the data tick runs: the watermark stops at 2, block 3 stays pending and is submitted by the next tick -/
def twoEmpty : ANode :=
  { freshA xCfg with n := run xCfg (freshNode xCfg) [(.batch [] 150 [], .ok), (.batch [] 200 [], .ok)] }

example : let m := (dataIterDuring xCfg twoEmpty [] (.batch [[9]] 300 []) .ok).1
    m.n.store.height = 3 ∧ m.n.dataWm = 2 ∧ (dataIter m []).1.n.dataWm = 3 ∧
    (dataIter m []).2.2.1.map (·.heights) = [[3]] := by
  decide +kernel

/-! ## 7. the write that persists the watermark fails (`store.SetMetadata` error in `setLastSubmittedHeight`)

The driver executes `headersIterF` / `dataIterF` (`fail=n` of the stream ops: the next `n` watermark writes fail); with no
fault they are the functions of §1–§6. -/

/-- without faults the fault-aware ticks are the ticks all theorems above are about -/
theorem C06_no_fault_same_ticks (a : ANode) (script : List DAAns) :
    headersIterF 0 a script = (headersIter a script, 0) ∧ dataIterF 0 a script = (dataIter a script, 0) :=
  ⟨headersIterF_zero a script, dataIterF_zero a script⟩

/-- **A failed persist keeps the in-memory watermark** (the bookkeeping step after an acknowledged acceptance, either kind,
any node, any acknowledged height): the in-memory watermarks are exactly what they are without the fault — so never
below their old values and, when `h` is above the old one, equal to `h`: the acknowledged items are not pending —; the
store is untouched and nothing is written, so the persisted copy keeps its old value, which is at most the value in
memory whenever it was before (`PLe`); marks, DA double and DA-included height as without the fault. -/
theorem C06_failed_persist_keeps_memory_watermark (a : ANode) (d : Bool) (h : Nat) :
    let r := (raiseWmF true a d h).1
    wm d r = wm d (raiseWm a d h).1 ∧ wm (!d) r = wm (!d) a ∧ wm d a ≤ wm d r ∧ (wm d a < h → wm d r = h) ∧
    r.n.store = a.n.store ∧ (raiseWmF true a d h).2 = [] ∧
    (PLe d a → PLe d r) ∧ (PLe (!d) a → PLe (!d) r) ∧
    marks d r = marks d a ∧ r.daBlobs = a.daBlobs ∧ r.daInc = a.daInc := by
  intro r
  obtain ⟨h1, h2, h3, h4, h5, h6, h7, h8⟩ := raiseWmF_fail a d h
  have hm := raiseWm_monotone a d h
  have hst : r.n.store = a.n.store := h3
  have e1 : wm d r = wm d (raiseWm a d h).1 := by cases d <;> simp only [wm, r] <;> simp [h1, h2]
  have e2 : wm (!d) r = wm (!d) a := by
    cases d <;> simp only [wm, r, Bool.not_false, Bool.not_true] <;> simp [h1, h2, raiseWm] <;> split <;> rfl
  have e3 : wm d a ≤ wm d r := by rw [e1]; cases d <;> simp only [wm] <;> simp [hm.1, hm.2]
  refine ⟨e1, e2, e3, ?_, hst, h4, ?_, ?_, ?_, h7, h8⟩
  · intro hlt; rw [e1]; cases d <;> simp only [wm] at hlt ⊢ <;> simp at hlt <;> simp [raiseWm, hlt]
  · rintro ⟨w, hw, hle⟩; exact ⟨w, by rw [hst]; exact hw, Nat.le_trans hle e3⟩
  · rintro ⟨w, hw, hle⟩; exact ⟨w, by rw [hst]; exact hw, by rw [e2]; exact hle⟩
  · cases d <;> simp only [marks, r] <;> simp [h5, h6]

/-- **witness: the behaviour of seeded change C06-I violates "never decreases"** — on a failed persist the in-memory
value is put back (`Submit.rollbackTrace`: the values it takes during the call): with watermark 0 and an acknowledged
height 3 the trace is 0, 3, 0, not monotone; the node it leaves has the acknowledged height above its watermark, the
unchanged code's node does not -/
theorem rollback_on_failed_persist_decreases :
    ¬ (rollbackTrace {} false 3).Pairwise (· ≤ ·) ∧
    (raiseWmRollback true {} false 3).1.n.hdrWm < 3 ∧ (raiseWmF true {} false 3).1.n.hdrWm = 3 := by
  decide

/-- **A whole submission with failed persists is the fault-free submission, up to the image.**  For every number `nf` of
armed faults (the next `nf` `SetMetadata` calls of `setLastSubmittedHeight` fail), every node and every list of DA answers:
the retry loop `submitLoopF` (any kind, any fuel, any item list), the header tick `headersIterF` and the data tick
`dataIterF` — the functions the driver executes — return **the node of the fault-free `submitLoop` / `headersIter` /
`dataIter` with only the store replaced** (`ANode.withStore`: in-memory watermarks, marks, DA double, DA-included height,
`SetFinal` log, last state are the same), the same `Submit` calls and the same outcome; the writes issued are a
**sublist `l` of the fault-free writes** (the failed persists are missing), the store is the old store with exactly `l`
applied (the fault-free store is the old store with all writes applied), and one fault is consumed per missing write. -/
theorem C06_failed_persist_tick (nf : Nat) (a : ANode) (script : List DAAns) :
    (∀ (d : Bool) (fuel : Nat) (items : List Item),
      let r := submitLoop d fuel a items script [] []
      let rF := submitLoopF d fuel nf a items script [] []
      ∃ l, l.Sublist r.2.1 ∧ rF.1 = (r.1.withStore (a.n.store.applyAll l), l, r.2.2.1, r.2.2.2) ∧
        rF.2 ≤ nf ∧ r.2.1.length = l.length + (nf - rF.2)) ∧
    (let r := headersIter a script
     let rF := headersIterF nf a script
     r.1.n.store = a.n.store.applyAll r.2.1 ∧
     ∃ l, l.Sublist r.2.1 ∧ rF.1 = (r.1.withStore (a.n.store.applyAll l), l, r.2.2.1, r.2.2.2) ∧
       rF.2 ≤ nf ∧ r.2.1.length = l.length + (nf - rF.2) ∧
       rF.1.1.n.hdrWm = r.1.n.hdrWm ∧ rF.1.1.n.dataWm = r.1.n.dataWm ∧ rF.1.1.hMarks = r.1.hMarks ∧
       rF.1.1.dMarks = r.1.dMarks ∧ rF.1.1.daBlobs = r.1.daBlobs ∧ rF.1.1.daInc = r.1.daInc) ∧
    (let r := dataIter a script
     let rF := dataIterF nf a script
     r.1.n.store = a.n.store.applyAll r.2.1 ∧
     ∃ l, l.Sublist r.2.1 ∧ rF.1 = (r.1.withStore (a.n.store.applyAll l), l, r.2.2.1, r.2.2.2) ∧
       rF.2 ≤ nf ∧ r.2.1.length = l.length + (nf - rF.2) ∧
       rF.1.1.n.hdrWm = r.1.n.hdrWm ∧ rF.1.1.n.dataWm = r.1.n.dataWm ∧ rF.1.1.hMarks = r.1.hMarks ∧
       rF.1.1.dMarks = r.1.dMarks ∧ rF.1.1.daBlobs = r.1.daBlobs ∧ rF.1.1.daInc = r.1.daInc) := by
  refine ⟨fun d fuel items => ?_, ?_, ?_⟩
  · obtain ⟨l, lf, h1, h2, h3, h4, h5⟩ := submitLoopF_sim d fuel nf a a.n.store items script [] [] []
    rw [List.nil_append] at h2
    rw [withStore_self] at h3 h4 h5
    exact ⟨l, by rw [h2]; exact h1, by rw [h5]; simp, h3, by rw [h2]; exact h4⟩
  · obtain ⟨_, hi, _⟩ := headersIter_iter a script
    have hs := headersIterF_sim nf a script
    obtain ⟨m1, m2, m3, m4, m5, _, _, m8, _⟩ := hs.mem
    obtain ⟨l, h1, h2, h3, h4⟩ := hs
    exact ⟨hi.store, l, h1, h4, h2, h3, m1, m2, m3, m4, m5, m8⟩
  · obtain ⟨_, hi, _⟩ := dataIter_iter a script
    have hs := dataIterF_sim nf a script
    obtain ⟨m1, m2, m3, m4, m5, _, _, m8, _⟩ := hs.mem
    obtain ⟨l, h1, h2, h3, h4⟩ := hs
    exact ⟨hi.store, l, h1, h4, h2, h3, m1, m2, m3, m4, m5, m8⟩

/-- **C06 with failed persists, all histories.**  Let the initial height be any `≥ 1` and let the node be reached from
the fresh node by **any** list of actions `ActF`: everything `C06` allows (production steps, header / data ticks with any DA
answers, inclusion passes, clean restarts, crash restarts, crashes after any number `k` of the durable writes of the last
action) **and ticks during which any number `nf` of watermark persists fail** (`ActF.subHF nf script`, `ActF.subDF nf
script`: the node `headersIterF` / `dataIterF` leave; a crash after such a tick cuts the writes that were issued).  Then

1. both watermarks in memory lie in `[initialHeight − 1, chain height]`;
2. soundness: every height `initialHeight ≤ h ≤ hdrWm` is a stored block whose header blob the DA double holds, every
   height `initialHeight ≤ h ≤ dataWm` is a stored block that is empty or whose data blob the DA double holds;
3. the persisted copies are parsable and **at most the values in memory** (`PLe`; after a failed persist strictly less);
4. **a restart** (clean or crash) **succeeds and resumes from the persisted values** `hw`, `dw` (raised to
   `initialHeight − 1`), which are at most the values in memory; chain height and DA double are kept; the restarted node
   is the next state of the history — so 1–3 hold of it: nothing at or below the reloaded watermark is missing from DA, and
   what lies between the reloaded and the lost in-memory value is pending again (submitted twice, never skipped);
5. a crash after any number `k` of the writes issued by the last action (also a faulty tick) restarts successfully into
   the next state of the history;
6. **between restarts the watermarks in memory never decrease**: not by a production step, a fault-free tick or an
   inclusion pass, and a tick with failed persists leaves exactly the in-memory watermarks of the fault-free tick. -/
theorem C06_with_failed_persists (c : Cfg) (hpos : 1 ≤ c.initialHeight) (acts : List ActF) :
    let σ := runRF c (freshC c) acts
    let a := σ.a
    (c.initialHeight - 1 ≤ a.n.hdrWm ∧ a.n.hdrWm ≤ a.n.store.height) ∧
    (c.initialHeight - 1 ≤ a.n.dataWm ∧ a.n.dataWm ≤ a.n.store.height) ∧
    (∀ h, c.initialHeight ≤ h → h ≤ a.n.hdrWm → ∃ b dh, a.n.store.getBlock h = some b ∧ b.sh.hdr.height = h ∧
      (dh, false, h) ∈ a.daBlobs) ∧
    (∀ h, c.initialHeight ≤ h → h ≤ a.n.dataWm → ∃ b, a.n.store.getBlock h = some b ∧
      (b.data.txs = [] ∨ ∃ dh, (dh, true, h) ∈ a.daBlobs)) ∧
    (PLe false a ∧ PLe true a) ∧
    (∀ clean, ∃ a' hw dw, restart c a a.n.store clean = some a' ∧
      wmOf a.n.store (wmKey false) = some hw ∧ wmOf a.n.store (wmKey true) = some dw ∧
      hw ≤ a.n.hdrWm ∧ dw ≤ a.n.dataWm ∧ a'.n.hdrWm = wmRaise c hw ∧ a'.n.dataWm = wmRaise c dw ∧
      a'.n.hdrWm ≤ a.n.hdrWm ∧ a'.n.dataWm ≤ a.n.dataWm ∧
      a'.n.store.height = a.n.store.height ∧ a'.daBlobs = a.daBlobs ∧
      (runRF c (freshC c) (acts ++ [.base (.restart clean)])).a = a') ∧
    (∀ k, ∃ ac, restart c a (σ.base.applyPrefix k σ.ws) false = some ac ∧
      (runRF c (freshC c) (acts ++ [.base (.crash k)])).a = ac ∧ ac.daBlobs = a.daBlobs) ∧
    (∀ x : Act, a.n.hdrWm ≤ (stepRF c σ (.base (.act x))).a.n.hdrWm ∧
      a.n.dataWm ≤ (stepRF c σ (.base (.act x))).a.n.dataWm) ∧
    (∀ nf s, (stepRF c σ (.subHF nf s)).a.n.hdrWm = (headersIter a s).1.n.hdrWm ∧
      a.n.hdrWm ≤ (stepRF c σ (.subHF nf s)).a.n.hdrWm ∧ (stepRF c σ (.subHF nf s)).a.n.dataWm = a.n.dataWm) ∧
    (∀ nf s, (stepRF c σ (.subDF nf s)).a.n.dataWm = (dataIter a s).1.n.dataWm ∧
      a.n.dataWm ≤ (stepRF c σ (.subDF nf s)).a.n.dataWm ∧ (stepRF c σ (.subDF nf s)).a.n.hdrWm = a.n.hdrWm) := by
  intro σ a
  have ci : CI c σ := (CI_fresh c hpos).runRF acts
  have r : R c a := ci.r
  have l1 := r.low
  have l2 := r.dlow
  refine ⟨⟨by omega, r.le⟩, ⟨by omega, r.dle⟩, r.acc, r.dacc, ⟨r.ph, r.pd⟩, fun clean => ?_, fun k => ?_, fun x => ?_,
    fun nf s => ?_, fun nf s => ?_⟩
  · obtain ⟨a', h, _, f⟩ := r.restart clean
    obtain ⟨hw, dw, e1, e2, e3, e4⟩ := restart_resumes h
    obtain ⟨w1, p1, q1⟩ := r.ph
    obtain ⟨w2, p2, q2⟩ := r.pd
    have z1 : hw = w1 := by rw [p1] at e1; exact (Option.some.inj e1).symm
    have z2 : dw = w2 := by rw [p2] at e2; exact (Option.some.inj e2).symm
    have h1 := f.hdrWm
    have h2 := f.dataWm
    rw [wmRaise_eq r.low] at h1
    rw [wmRaise_eq r.dlow] at h2
    refine ⟨a', hw, dw, h, e1, e2, by rw [z1]; exact q1, by rw [z2]; exact q2, e3, e4, h1, h2, f.height, f.daBlobs, ?_⟩
    show (List.foldl (stepRF c) (freshC c) (acts ++ [.base (.restart clean)])).a = a'
    rw [List.foldl_append]
    show (match Submit.restart c σ.a σ.a.n.store clean with
      | some a' => (⟨a', σ.a.n.store, []⟩ : CSt)
      | none => σ).a = a'
    rw [h]
  · obtain ⟨ac, h, _, f⟩ := ci.cuts k
    refine ⟨ac, h, ?_, f.daBlobs⟩
    show (List.foldl (stepRF c) (freshC c) (acts ++ [.base (.crash k)])).a = ac
    rw [List.foldl_append]
    show (match Submit.restart c σ.a (σ.base.applyPrefix k σ.ws) false with
      | some a' => (⟨a', σ.base.applyPrefix k σ.ws, []⟩ : CSt)
      | none => σ).a = ac
    rw [h]
  · show a.n.hdrWm ≤ (stepAW c a x).1.n.hdrWm ∧ a.n.dataWm ≤ (stepAW c a x).1.n.dataWm
    rw [stepAW_fst]; exact stepA_wm_mono c a x
  · obtain ⟨m1, m2, _⟩ := (headersIterF_sim nf a s).mem
    obtain ⟨_, hi, _⟩ := headersIter_iter a s
    refine ⟨m1, ?_, ?_⟩
    · show a.n.hdrWm ≤ (headersIterF nf a s).1.1.n.hdrWm
      rw [m1]; exact hi.wmMono
    · show (headersIterF nf a s).1.1.n.dataWm = a.n.dataWm
      rw [m2]; exact hi.frame.otherWm
  · obtain ⟨m1, m2, _⟩ := (dataIterF_sim nf a s).mem
    obtain ⟨_, hi, _⟩ := dataIter_iter a s
    refine ⟨m2, ?_, ?_⟩
    · show a.n.dataWm ≤ (dataIterF nf a s).1.1.n.dataWm
      rw [m2]; exact hi.wmMono
    · show (dataIterF nf a s).1.1.n.hdrWm = a.n.hdrWm
      rw [m1]; exact hi.frame.otherWm

/-- without faulty ticks these are the histories of `C06` -/
theorem C06_with_failed_persists_extends (c : Cfg) (acts : List ActR) :
    runRF c (freshC c) (acts.map .base) = runR c (freshC c) acts := runRF_base c _ acts

/-- two blocks (the first empty); a header tick with one armed fault whose first chunk (height 1) is acknowledged — the
persist fails — and which is then cancelled: 1 in memory, 0 on disk, no write issued (the fault-free tick issues one); a
data tick whose only persist fails: 2 in memory, 0 on disk; **a crash restart resumes from 0 and 0**; the next ticks
resubmit header 1 and the data of block 2 (both twice on the DA double: nothing skipped) and bring both watermarks to 2,
now persisted.  With the answers `ok 1, ok` instead, the second persist (height 2) succeeds and heals the lag. -/
def fpActs : List ActF :=
  [.base (.act (.produce (.batch [[5]] 150 []) .ok)), .base (.act (.produce (.batch [[6]] 200 []) .ok)),
   .subHF 1 [.ok (some 1), .canceled], .subDF 3 [], .base (.restart false), .base (.act (.subH [])), .subDF 0 []]

example :
    let s2 := runRF xCfg (freshC xCfg) (fpActs.take 2)
    let s3 := runRF xCfg (freshC xCfg) (fpActs.take 3)
    let s4 := runRF xCfg (freshC xCfg) (fpActs.take 4)
    let s5 := runRF xCfg (freshC xCfg) (fpActs.take 5)
    let s7 := runRF xCfg (freshC xCfg) fpActs
    let h := headersIterF 1 s2.a [.ok (some 1), .ok none]
    (s3.a.n.hdrWm, wmOf s3.a.n.store (wmKey false), s3.ws.length) = (1, some 0, 0) ∧
    (headersIter s2.a [.ok (some 1), .canceled]).2.1.length = 1 ∧
    (headersIter s2.a [.ok (some 1), .ok none]).2.1.length = 2 ∧
    (s4.a.n.hdrWm, s4.a.n.dataWm) = (1, 2) ∧
    (wmOf s4.a.n.store (wmKey false), wmOf s4.a.n.store (wmKey true)) = (some 0, some 0) ∧
    (s5.a.n.hdrWm, s5.a.n.dataWm) = (0, 0) ∧
    (s7.a.n.hdrWm, s7.a.n.dataWm) = (2, 2) ∧
    (wmOf s7.a.n.store (wmKey false), wmOf s7.a.n.store (wmKey true)) = (some 2, some 2) ∧
    s7.a.daBlobs.map (fun e => (e.2.1, e.2.2)) = [(true, 2), (false, 2), (false, 1), (true, 2), (false, 1)] ∧
    (h.1.1.n.hdrWm, wmOf h.1.1.n.store (wmKey false), h.1.2.1.length, h.2) = (2, some 2, 1, 0) := by
  decide +kernel

/-- a crash inside a tick with a failed persist (fault-free writes: 1, 2; issued: 2): cut before the write that was issued
the node restarts from 0, after it from 2 -/
example :
    let s2 := runRF xCfg (freshC xCfg) (fpActs.take 2)
    let t := stepRF xCfg s2 (.subHF 1 [.ok (some 1), .ok none])
    (t.a.n.hdrWm, t.ws.length) = (2, 1) ∧
    (stepRF xCfg t (.base (.crash 0))).a.n.hdrWm = 0 ∧ (stepRF xCfg t (.base (.crash 1))).a.n.hdrWm = 2 := by
  decide +kernel

end Spec.C06
