import Proofs.SubmitRestart

/-!
# C06 — every committed block reaches the DA layer in order; the watermark is sound

Model: `Submit.submitLoop` (`block/submitter.go` `submitToDA` with the bookkeeping of `postSubmit`),
`Submit.raiseWm` (`pendingBase.setLastSubmittedHeight`), `Submit.headersIter` / `Submit.dataIter` (one tick of the two
submission loops), `Submit.restart`; executable and compared with the real code on every run (stream C06).
The DA layer is the ghost double `daH` / `daBlobs : List (DA height × isData × block height)`.

All theorems quantify over **every** list of DA answers (`script`: accepted, partially accepted, accepted with the
acknowledgement lost, not included, in mempool, too big, error, cancelled), every item list, every node.
`wm d` is the watermark of the kind being submitted (`d = false`: headers, `d = true`: data), `marks d` its
DA-inclusion marks.
-/
namespace Spec.C06
open Wire Chain Producer Submit

/-- the bookkeeping after an accepted submission never lowers a watermark -/
theorem raiseWm_monotone (a : ANode) (isData : Bool) (h : Nat) :
    a.n.hdrWm ≤ (raiseWm a isData h).1.n.hdrWm ∧ a.n.dataWm ≤ (raiseWm a isData h).1.n.dataWm := by
  unfold raiseWm
  cases isData <;> simp <;> split <;> simp_all <;> omega

/-- and it persists exactly what it holds in memory -/
theorem raiseWm_persists (a : ANode) (h : Nat) (hgt : h > a.n.hdrWm) :
    (raiseWm a false h).1.n.hdrWm = h ∧
    (raiseWm a false h).1.n.store.getMeta Submit.hdrWmKey = some (le64 h) := by
  unfold raiseWm
  simp [hgt, Store.apply, Store.getMeta]

/-! ## 1. the retry loop: monotone watermark, frame, writes, calls, soundness -/

/-- **The watermark of the kind being submitted never decreases; the other kind's watermark, the other kind's marks,
the DA-included height and the store's blocks / height / state are untouched: the only durable writes are
`setMeta <watermark key>` with a value above the old watermark and at most the new one, and the store is the old
store with exactly these writes applied.** -/
theorem C06_monotone_and_frame (d : Bool) (fuel : Nat) (a : ANode) (items : List Item) (script : List DAAns) :
    let r := submitLoop d fuel a items script [] []
    wm d a ≤ wm d r.1 ∧ wm (!d) r.1 = wm (!d) a ∧ marks (!d) r.1 = marks (!d) a ∧ r.1.daInc = a.daInc ∧
    r.1.n.store.blocks = a.n.store.blocks ∧ r.1.n.store.height = a.n.store.height ∧
    r.1.n.store.state = a.n.store.state ∧ r.1.n.lastState = a.n.lastState ∧
    r.1.n.store = a.n.store.applyAll r.2.1 ∧
    (∀ w ∈ r.2.1, ∃ v, w = SW.setMeta (wmKey d) (le64 v) ∧ wm d a < v ∧ v ≤ wm d r.1) := by
  obtain ⟨rem, pre, hi, _⟩ := submitLoop_loopInv d fuel a items script []
  exact ⟨hi.wmMono, hi.frame.otherWm, hi.frame.otherMarks, hi.frame.daInc, hi.frame.blocks, hi.frame.height,
    hi.frame.state, hi.frame.lastState, hi.store, hi.writes⟩

/-- **Every `Submit` call carries the kind being submitted and exactly the current remainder — a suffix of the
original item list (so consecutive heights stay consecutive) — and there are at most `fuel` calls
(`maxSubmitAttempts` = 30 in the two submission loops).** -/
theorem C06_calls (d : Bool) (fuel : Nat) (a : ANode) (items : List Item) (script : List DAAns) :
    let r := submitLoop d fuel a items script [] []
    r.2.2.1.length ≤ fuel ∧
    ∀ c ∈ r.2.2.1, c.isData = d ∧ (∃ k, k < items.length ∧ c.heights = (items.drop k).map (·.height)) ∧
      c.accepted ≤ c.heights.length := by
  refine ⟨by simpa using submitLoop_calls_length d fuel a items script [] [], ?_⟩
  obtain ⟨new, hn, hall⟩ := submitLoop_calls d fuel a items script [] []
  rw [hn, List.nil_append]; exact hall

/-- **Soundness of the watermark.**  With the items in increasing height order (what both submission loops pass),
every item whose height the watermark moved past was stored by the DA double, at a DA height `dh` of this loop, in an
accepting call, and the item's key is marked with exactly that DA height. -/
theorem C06_watermark_sound (d : Bool) (fuel : Nat) (a : ANode) (items : List Item) (script : List DAAns)
    (hsorted : items.Pairwise (fun x y => x.height < y.height)) :
    let r := submitLoop d fuel a items script [] []
    ∀ it ∈ items, wm d a < it.height → it.height ≤ wm d r.1 →
      ∃ dh, a.daH ≤ dh ∧ dh < r.1.daH ∧ (dh, d, it.height) ∈ r.1.daBlobs ∧ (it.key, dh) ∈ marks d r.1 :=
  submitLoop_sound d fuel a items script [] hsorted

/-- **Nothing is marked that the DA double did not store**: the marks added by the loop are each the key of an item,
with a DA height of this loop at which the DA double holds that item's blob; the DA double only grows, by blobs of the
submitted kind and of submitted items; and the new watermark is the old one or the height of an acknowledged item. -/
theorem C06_marks_sound (d : Bool) (fuel : Nat) (a : ANode) (items : List Item) (script : List DAAns) :
    let r := submitLoop d fuel a items script [] []
    (∃ nm, marks d r.1 = nm ++ marks d a ∧
      ∀ e ∈ nm, ∃ it ∈ items, e.1 = it.key ∧ a.daH ≤ e.2 ∧ e.2 < r.1.daH ∧ (e.2, d, it.height) ∈ r.1.daBlobs) ∧
    (∃ new, r.1.daBlobs = new ++ a.daBlobs ∧
      ∀ e ∈ new, a.daH ≤ e.1 ∧ e.1 < r.1.daH ∧ e.2.1 = d ∧ ∃ it ∈ items, it.height = e.2.2) ∧
    (wm d r.1 = wm d a ∨ ∃ l ∈ items, wm d r.1 = l.height) := by
  obtain ⟨rem, pre, hi, _⟩ := submitLoop_loopInv d fuel a items script []
  have hsub : ∀ it ∈ pre, it ∈ items := fun it h => by rw [hi.split]; exact List.mem_append_left _ h
  obtain ⟨nm, h1, h2⟩ := hi.marksNew
  refine ⟨⟨nm, h1, fun e he => ?_⟩, hi.blobs, ?_⟩
  · obtain ⟨it, hit, r⟩ := h2 e he
    exact ⟨it, hsub it hit, r⟩
  · rcases hi.wmFrom with e | ⟨l, hl, e⟩
    · exact Or.inl e
    · exact Or.inr ⟨l, hsub l hl, e⟩

/-! ## 2. retry until accepted -/

/-- **Retry until accepted.**  After any prefix `fails` of answers shorter than the attempt bound — errors, time-outs,
partial acceptance, lost acknowledgements; anything but a cancellation — an answer "all accepted" (also: the end of the
script, an accepting DA layer) completes the submission: the loop reports `all = true` and the watermark is at least
the last item's height — equal to it when the items are sorted and start above the old watermark. -/
theorem C06_retry_until_accepted (d : Bool) (a : ANode) (items : List Item) (fails tail : List DAAns)
    (htail : tail.headD (.ok none) = .ok none) (hnc : DAAns.canceled ∉ fails) (fuel : Nat) (hf : fails.length < fuel) :
    let r := submitLoop d fuel a items (fails ++ tail) [] []
    r.2.2.2 = true ∧ lastH items ≤ wm d r.1 ∧
    (items ≠ [] → items.Pairwise (fun x y => x.height < y.height) → (∀ it ∈ items, wm d a < it.height) →
      wm d r.1 = lastH items) := by
  have hall := submitLoop_retry d fails tail htail hnc fuel hf a items [] []
  obtain ⟨h1, h2⟩ := submitLoop_wm_all d fuel a items (fails ++ tail) []
  refine ⟨hall, h1 hall, fun hne hs hgt => ?_⟩
  have hge := h1 hall
  obtain ⟨l, hl, hle⟩ := lastH_mem hne
  rcases h2 with e | ⟨x, hx, e⟩
  · have := hgt l hl; omega
  · -- `x.height ≤` the last height, by sortedness
    have hxl : x.height ≤ lastH items := by
      unfold lastH
      cases hg : items.getLast? with
      | none => exact absurd (List.getLast?_eq_none_iff.mp hg) hne
      | some z =>
        have hz : items = items.dropLast ++ [z] := by
          have := List.dropLast_concat_getLast hne
          have hzz : items.getLast hne = z := by
            have h' := List.getLast?_eq_some_getLast hne
            rw [hg] at h'; simpa using h'.symm
          rw [hzz] at this; exact this.symm
        rw [hz] at hx hs
        rcases List.mem_append.mp hx with hx | hx
        · have := (List.pairwise_append.mp hs).2.2 x hx z (by simp)
          simp; omega
        · simp at hx; subst hx; simp
    omega

/-- **The header loop on a committed chain**: on a node whose store holds, for every height `h` in
`(hdrWm, height]`, a block with `b.sh.hdr.height = h` (what `Producer.Inv.chain` gives for `hdrWm ≥ initialHeight − 1`),
one iteration against a DA layer that accepts after fewer than 30 failures ends with `hdrWm = store.height` and outcome
`done`; in particular with the empty script (a DA layer that accepts at once). -/
theorem C06_headers_reach_chain_height (a : ANode) (fails tail : List DAAns)
    (htail : tail.headD (.ok none) = .ok none) (hnc : DAAns.canceled ∉ fails) (hf : fails.length < maxSubmitAttempts)
    (hok : ∀ h, a.n.hdrWm < h → h ≤ a.n.store.height → ∃ b, a.n.store.getBlock h = some b ∧ b.sh.hdr.height = h)
    (hle : a.n.hdrWm ≤ a.n.store.height) :
    (headersIter a (fails ++ tail)).1.n.hdrWm = (headersIter a (fails ++ tail)).1.n.store.height ∧
    (a.n.hdrWm < a.n.store.height → (headersIter a (fails ++ tail)).2.2.2 = .done) :=
  headersIter_reaches a fails tail htail hnc hf hok hle

theorem C06_headers_reach_accepting_da (a : ANode)
    (hok : ∀ h, a.n.hdrWm < h → h ≤ a.n.store.height → ∃ b, a.n.store.getBlock h = some b ∧ b.sh.hdr.height = h)
    (hlt : a.n.hdrWm < a.n.store.height) :
    (headersIter a []).1.n.hdrWm = (headersIter a []).1.n.store.height ∧ (headersIter a []).2.2.2 = .done := by
  have := headersIter_reaches a [] [] rfl (by simp) (by decide) hok (by omega)
  exact ⟨this.1, this.2 hlt⟩

/-- **Soundness at the level of one header iteration**: every height the watermark moved past is a stored block whose
header blob the DA double stored during this iteration, and whose hash is marked with that DA height. -/
theorem C06_headers_sound (a : ANode) (script : List DAAns)
    (hok : ∀ h, a.n.hdrWm < h → h ≤ a.n.store.height → ∃ b, a.n.store.getBlock h = some b ∧ b.sh.hdr.height = h) :
    ∀ h, a.n.hdrWm < h → h ≤ (headersIter a script).1.n.hdrWm →
      ∃ b dh, a.n.store.getBlock h = some b ∧ b.sh.hdr.height = h ∧ a.daH ≤ dh ∧ dh < (headersIter a script).1.daH ∧
        (dh, false, h) ∈ (headersIter a script).1.daBlobs ∧ (b.sh.hdr.hash, dh) ∈ (headersIter a script).1.hMarks :=
  headersIter_sound a script hok

/-! ## 3. watermark ≤ chain height; persistence; restart -/

/-- the header watermark never passes the chain height, for every DA answer list -/
theorem C06_watermark_le_height (a : ANode) (script : List DAAns)
    (hok : ∀ h, a.n.hdrWm < h → h ≤ a.n.store.height → ∃ b, a.n.store.getBlock h = some b ∧ b.sh.hdr.height = h)
    (hle : a.n.hdrWm ≤ a.n.store.height) :
    (headersIter a script).1.n.hdrWm ≤ (headersIter a script).1.n.store.height :=
  headersIter_wm_le a script hok hle

/-- the same for the data watermark (the non-empty blocks of the pending range carry their height in the data
metadata, as the producer writes it) -/
theorem C06_data_watermark_le_height (a : ANode) (script : List DAAns)
    (hok : ∀ h, a.n.dataWm < h → h ≤ a.n.store.height → ∃ b, a.n.store.getBlock h = some b ∧
      (b.data.txs ≠ [] → dataHeight b = h))
    (hle : a.n.dataWm ≤ a.n.store.height) :
    (dataIter a script).1.n.dataWm ≤ (dataIter a script).1.n.store.height :=
  dataIter_wm_le a script hok hle

/-- **memory = metadata**: if the persisted watermarks equal the ones in memory before a submission loop (of either
kind), they do afterwards -/
theorem C06_persisted (d : Bool) (fuel : Nat) (a : ANode) (items : List Item) (script : List DAAns)
    (h1 : Persisted false a) (h2 : Persisted true a) :
    Persisted false (submitLoop d fuel a items script [] []).1 ∧ Persisted true (submitLoop d fuel a items script [] []).1 := by
  obtain ⟨rem, pre, hi, _⟩ := submitLoop_loopInv d fuel a items script []
  cases d with
  | false => exact ⟨hi.persisted h1, hi.persisted_other h2⟩
  | true => exact ⟨hi.persisted_other h1, hi.persisted h2⟩

/-- **Restart reloads exactly the persisted watermarks**, hence (with the theorem above) the watermarks in memory after
a restart equal those before it: they never decrease across a restart and nothing acknowledged is skipped or forgotten. -/
theorem C06_restart_keeps_watermarks {c : Cfg} {a a' : ANode} {clean : Bool}
    (h : restart c a a.n.store clean = some a')
    (hp1 : Persisted false a) (hp2 : Persisted true a) (hb1 : a.n.hdrWm < 2 ^ 64) (hb2 : a.n.dataWm < 2 ^ 64) :
    a'.n.hdrWm = a.n.hdrWm ∧ a'.n.dataWm = a.n.dataWm := by
  obtain ⟨e1, e2, _⟩ := restart_wm h hp1 hp2 hb1 hb2
  exact ⟨e1, e2⟩

/-! ## 4. initial heights above 1 -/

/-- full statement, every initial height ≥ 1: after any production run from a fresh start, one header iteration against
an accepting DA layer brings the header watermark to the chain height -/
def C06_full : Prop :=
  ∀ (c : Cfg) (rs : List (SeqResp × ExecResp)), 1 ≤ c.initialHeight →
    (headersIter { n := run c (freshNode c) rs } []).1.n.hdrWm = (run c (freshNode c) rs).store.height

/-- **With an initial height above 1 nothing is ever submitted**: the pending range starts at height 1
(`pendingBase` starts at watermark 0), which is never stored, so for every production run, every DA answer list and for
ever, both iterations fail to fetch, issue no `Submit` call and leave the node unchanged. -/
theorem C06_initial_height_above_one_never_submits (c : Cfg) (hih : 2 ≤ c.initialHeight)
    (rs : List (SeqResp × ExecResp)) (a : ANode) (ha : a.n = run c (freshNode c) rs) (script : List DAAns) :
    headersIter a script = (a, [], [], .fetchErr) ∧ dataIter a script = (a, [], [], .fetchErr) := by
  obtain ⟨h1, h2⟩ := run_block_one_missing c hih rs
  obtain ⟨w1, w2⟩ := run_wm c (freshNode c) rs
  rw [← ha] at h1 h2 w1 w2
  have w1' : a.n.hdrWm = 0 := w1
  have w2' : a.n.dataWm = 0 := w2
  exact ⟨headersIter_stuck a script 1 (by omega) h1 h2, dataIter_stuck a script 1 (by omega) h1 h2⟩

def w3Cfg : Cfg := { chainId := "w", initialHeight := 3, genesisTime := 100, proposerAddr := [1], key := 1, signerAddr := [1] }
def w3Run : List (SeqResp × ExecResp) := [(.batch [[1]] 200 [], .ok), (.batch [[2]] 300 [], .ok)]

/-- **The full statement is false of the current code** (initial height 3; recorded finding
`C06/…/initial-height`, replayed on the real node by stream C06). -/
theorem C06_full_fails : ¬ C06_full := by
  intro h
  have h1 := h w3Cfg w3Run (by decide)
  have h2 := run_block_one_missing w3Cfg (by decide) w3Run
  have h3 := (run_wm w3Cfg (freshNode w3Cfg) w3Run).1
  have h0 : (freshNode w3Cfg).hdrWm = 0 := rfl
  rw [h0] at h3
  generalize run w3Cfg (freshNode w3Cfg) w3Run = X at h1 h2 h3
  rw [headersIter_stuck { n := X } [] 1 (by show X.hdrWm < 1; omega) h2.1 h2.2] at h1
  have : X.hdrWm = X.store.height := h1
  omega

/-- the same, evaluated by the kernel on the witness: two blocks committed (heights 3, 4), nothing submitted -/
example : (run w3Cfg (freshNode w3Cfg) w3Run).store.height = 4 ∧
    (headersIter { n := run w3Cfg (freshNode w3Cfg) w3Run } []).2.2.2 = .fetchErr ∧
    (headersIter { n := run w3Cfg (freshNode w3Cfg) w3Run } []).2.2.1.length = 0 := by
  decide +kernel

/-- **Partial statement** (everything except the refuted case): for every node that satisfies the producer's invariant
and whose header watermark is at least `initialHeight − 1` — every node of a chain with initial height 1 — an iteration
against a DA layer that accepts after fewer than 30 non-cancellation failures brings the watermark to the chain height. -/
theorem C06_partial {c : Cfg} {a : ANode} (hi : Inv c a.n) (hw : c.initialHeight ≤ a.n.hdrWm + 1)
    (hle : a.n.hdrWm ≤ a.n.store.height) (fails tail : List DAAns)
    (htail : tail.headD (.ok none) = .ok none) (hnc : DAAns.canceled ∉ fails) (hf : fails.length < maxSubmitAttempts) :
    (headersIter a (fails ++ tail)).1.n.hdrWm = (headersIter a (fails ++ tail)).1.n.store.height :=
  (headersIter_reaches a fails tail htail hnc hf (hdrOK_of_inv hi hw) hle).1

/-! ## non-vacuity -/

def xCfg : Cfg := { chainId := "w", initialHeight := 1, genesisTime := 100, proposerAddr := [1], key := 1, signerAddr := [1] }
/-- three blocks: the genesis block (empty), a block with a transaction, an empty block -/
def xRun : List (SeqResp × ExecResp) :=
  [(.batch [] 150 [], .ok), (.batch [[1]] 200 [], .ok), (.batch [] 300 [], .ok)]
def xNode : ANode := { n := run xCfg (freshNode xCfg) xRun }

/-- the hypotheses of `C06_partial` / `C06_headers_*` hold of a reachable node with three committed blocks -/
example : Inv xCfg (run xCfg (freshNode xCfg) xRun) ∧ xCfg.initialHeight ≤ xNode.n.hdrWm + 1 ∧ xNode.n.store.height = 3 :=
  ⟨run_inv (freshNode_inv xCfg (by decide)) _, by decide +kernel, by decide +kernel⟩

/-- a DA outage (error, time-out, acknowledgement lost, one header accepted) followed by acceptance: four calls, the
watermark reaches 3, the DA double holds the headers of 1, 2, 3 (1 twice: the lost acknowledgement) -/
example : let r := headersIter xNode [.error, .notIncluded, .lost (some 1), .ok (some 1)]
    r.1.n.hdrWm = 3 ∧ r.2.2.2 = .done ∧ r.2.2.1.length = 5 ∧
    r.1.daBlobs.map (fun e => (e.1, e.2.2)) = [(3, 3), (3, 2), (2, 1), (1, 1)] := by
  decide +kernel

/-- a cancelled submission stops at once and is not counted as complete -/
example : (headersIter xNode [.canceled]).2.2.2 = .incomplete ∧ (headersIter xNode [.canceled]).1.n.hdrWm = 0 := by
  decide +kernel

end Spec.C06
