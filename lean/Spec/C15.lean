import Model.KVExec
import Proofs.C15
import Gen.C15

/-!
# C15 — Reference execution layer: the state root depends only on the executed transactions

Vocabulary (all from `Model.KVExec`, the definitions the driver `drv_C15` executes):
`run ops` is the executor state after a history of `init / exec txs / final h / inject tx / getTxs /
reopen` calls on a fresh executor, `root` is `computeStateRoot`, `executeTxs`, `initChain`, `setFinal`
are the methods themselves.

`writes ops` (defined in `Proofs.C15`) lists the key/value writes that reach the hashed key space:
for `exec txs` the staged writes of the block if `stage txs` succeeds (else none), for every other call
– `SetFinal` included – none.

History: until /repo commit 511b618 `SetFinal` wrote `/finalizedHeight` into the hashed key space and
§1 was false (`[final 1, exec x=1]` vs `[exec x=1]`); the key is now reserved like the genesis keys.
-/
namespace Spec.C15
open KVExec

/-! ## vocabulary of the statement -/

/-- the transactions a history executed, in order: the blocks whose `ExecuteTxs` call succeeded
(a rejected block is not executed; it changes nothing, see `C15_malformed_block_changes_nothing`) -/
def executedTxs : List Op → List Bytes
  | [] => []
  | .exec txs :: r => (match stage txs with | .ok _ => txs | .error _ => []) ++ executedTxs r
  | _ :: r => executedTxs r

/-- the root a fresh executor returns after executing exactly these transactions -/
def rootOf (txs : List Bytes) : Bytes := root (executeTxs {} txs).1.store

/-- the error a transaction is rejected with, if any -/
def parseErr (tx : Bytes) : Option Err :=
  match parseTx tx with
  | .error e => some e
  | .ok _ => none

/-- operations that are not executions: erasing them must not change the root -/
def isPassive : Op → Bool
  | .init | .final _ | .inject _ | .getTxs | .reopen => true
  | _ => false

/-! ## 1. the root depends only on the executed transactions (full, every history) -/

/-- The root after any interleaving of init / execute / finalize / inject / getTxs / reopen is the root
of the key/value writes of the executed blocks – nothing else (not finalize, not the mempool, not
restarts, not InitChain) enters it. -/
theorem C15_root_is_function_of_writes (ops : List Op) :
    root (run ops).store = rootRaw (applyWrites (writes ops) []) := by
  unfold root run
  rw [foldl_user ops sorted_nil]
  rfl

theorem executedTxs_stage (ops : List Op) : stage (executedTxs ops) = .ok (writes ops) := by
  induction ops with
  | nil => rfl
  | cons op r ih =>
    cases op with
    | exec txs =>
      simp only [executedTxs, writes, List.flatMap_cons, writesOf]
      cases h : stage txs with
      | ok ws => exact stage_append h ih
      | error e => simpa [writes] using ih
    | final h => simpa [executedTxs, writes, writesOf] using ih
    | init => simpa [executedTxs, writes, writesOf] using ih
    | inject tx => simpa [executedTxs, writes, writesOf] using ih
    | getTxs => simpa [executedTxs, writes, writesOf] using ih
    | reopen => simpa [executedTxs, writes, writesOf] using ih

/-- **The property as stated, every history** (any interleaving of execute, finalize, mempool
injection, GetTxs, initialisation and reopen): the root is the root a fresh executor computes from the
executed transactions alone. -/
theorem C15_root_depends_only_on_executed_txs (ops : List Op) :
    root (run ops).store = rootOf (executedTxs ops) := by
  rw [C15_root_is_function_of_writes]
  have h := executedTxs_stage ops
  unfold rootOf executeTxs
  simp only [h, root]
  rw [user_applyWrites (stage_not_reserved h) sorted_nil]
  rfl

/-- … in its two-instance form: two independently driven instances (different finalize / init /
mempool / reopen timing) that executed the same transactions return the same root. -/
theorem C15_two_instances_agree (ops₁ ops₂ : List Op) (h : executedTxs ops₁ = executedTxs ops₂) :
    root (run ops₁).store = root (run ops₂).store := by
  rw [C15_root_depends_only_on_executed_txs ops₁, C15_root_depends_only_on_executed_txs ops₂, h]

/-- `"x=1"` -/
def txX1 : Bytes := [120, 61, 49]

/-- non-vacuity: a history with init, finalize (before, between and after executions), mempool
traffic, a rejected block and a reopen; both sides are the concrete root `/a:2;/b:1;` -/
def exOps : List Op :=
  [.final 4, .init, .inject [1], .exec [[97, 61, 49], [98, 61, 49]], .final 1, .reopen, .exec [[97, 61, 50], [107]],
    .getTxs, .final 2, .exec [[32, 97, 32, 61, 50]], .init, .final 9]

example : root (run exOps).store = [47, 97, 58, 50, 59, 47, 98, 58, 49, 59] ∧
    rootOf (executedTxs exOps) = [47, 97, 58, 50, 59, 47, 98, 58, 49, 59] := by decide

/-- non-vacuity of the two-instance form on the input that used to separate the instances (finalize
before execution on one of them): same root `/x:1;`, although the finalize did write its key -/
example : executedTxs [.final 1, .exec [txX1]] = executedTxs [.exec [txX1]] ∧
    root (run [.final 1, .exec [txX1]]).store = [47, 120, 58, 49, 59] ∧
    root (run [.exec [txX1]]).store = [47, 120, 58, 49, 59] ∧
    (run [.final 1, .exec [txX1]]).store ≠ (run [.exec [txX1]]).store := by decide

/-- `SetFinal` is not a no-op: it records the height (decimal) under `/finalizedHeight`, which
`GetStoreValue` returns – outside the root. -/
theorem C15_setFinal_records_height_outside_root (s : St) (h : Nat) (hh : h ≠ 0) :
    (setFinal s h).2 = none ∧ get? finalKey (setFinal s h).1.store = some (dec h) ∧
      root (setFinal s h).1.store = root s.store := by
  have e : setFinal s h = ({ s with store := put finalKey (dec h) s.store }, none) := by
    unfold setFinal; rw [if_neg hh]
  rw [e]
  exact ⟨rfl, get?_put_same _ _ _, by unfold root; rw [user_put_reserved _ _ finalKey_reserved]⟩

/-- Transactions cannot touch a reserved entry (genesis flag, genesis root, finalized height):
whatever block is executed, accepted or rejected, the entry is what it was. -/
theorem C15_txs_cannot_write_reserved (s : St) (txs : List Bytes) (k : Key) (hk : isReserved k = true) :
    get? k (executeTxs s txs).1.store = get? k s.store := by
  unfold executeTxs
  split
  · rfl
  · next ws h => exact get?_applyWrites_reserved _ hk (stage_not_reserved h)

example : getStoreValue (run [.exec [txX1], .final 1203]) [102, 105, 110, 97, 108] = none ∧
    getStoreValue (run [.exec [txX1], .final 1203]) finalKey = some [49, 50, 48, 51] ∧
    parseErr ([32] ++ finalKey ++ [47, 46, 47, 61, 55]) = some .reserved ∧
    (executeTxs (run [.final 7]) [txX1, finalKey.tail ++ [61, 57]]).2 = .err .reserved ∧
    getStoreValue (executeTxs (run [.final 7]) [txX1, finalKey.tail ++ [61, 57]]).1 finalKey = some [55] := by decide

/-! ## 2. SetFinal, mempool, GetTxs, reopen and InitChain never change the root (full) -/

/-- step form -/
theorem C15_passive_step_keeps_root (s : St) (op : Op) (hp : isPassive op = true) (hs : Sorted s.store) :
    root (step s op).store = root s.store := by
  unfold root
  rw [step_user op hs]
  cases op <;> simp_all [isPassive, writesOf, applyWrites]

/-- history form: erasing every init / finalize / inject / getTxs / reopen call from any history leaves
the root unchanged -/
theorem C15_root_ignores_passive_ops (ops : List Op) :
    root (run (ops.filter fun op => !isPassive op)).store = root (run ops).store := by
  rw [C15_root_is_function_of_writes, C15_root_is_function_of_writes]
  congr 2
  induction ops with
  | nil => rfl
  | cons op r ih =>
    cases op <;> simp_all [writes, isPassive, writesOf]

/-- the mempool is invisible to the store: injecting and draining only moves transactions -/
theorem C15_mempool_ops_keep_store (s : St) (tx : Bytes) :
    (injectTx s tx).store = s.store ∧ (getTxs s).1.store = s.store ∧ (reopen s).store = s.store := by
  refine ⟨?_, rfl, rfl⟩
  unfold injectTx; split <;> rfl

example : isPassive (.inject [1]) = true ∧ isPassive (.final 5) = true ∧ (injectTx {} [1]).mempool = [[1]] ∧
    (getTxs (injectTx {} [1])).2 = [[1]] ∧ root (run [.final 5, .exec [txX1], .inject [1], .init, .final 6, .reopen]).store
      = root (run [.exec [txX1]]).store ∧
    [Op.final 5, .exec [txX1], .inject [1], .init, .final 6, .reopen].filter (fun op => !isPassive op) = [.exec [txX1]] := by decide

/-! ## 3. a block with a malformed transaction changes nothing (full) -/

theorem C15_malformed_block_changes_nothing (s : St) (txs : List Bytes)
    (h : ∃ tx ∈ txs, ∃ e, parseTx tx = .error e) :
    (executeTxs s txs).1 = s ∧ ∃ e, (executeTxs s txs).2 = .err e := by
  obtain ⟨tx, hm, e, he⟩ := h
  unfold executeTxs
  split
  · next e' _ => exact ⟨rfl, e', rfl⟩
  · next ws hws =>
    obtain ⟨w, hw⟩ := stage_ok_all hws tx hm
    rw [he] at hw; cases hw

/-- non-vacuity: two well-formed transactions that would change the state, then one without `=`;
also the three kinds of malformed transaction -/
example : parseErr [107] = some .malformed ∧ parseErr [32, 61, 49] = some .emptyKey ∧
    parseErr ([103,101,110,101,115,105,115,47,47,105,110,105,116,105,97,108,105,122,101,100] ++ [61, 49]) = some .reserved ∧
    (executeTxs (run [.exec [txX1]]) [[120, 61, 50], [121, 61, 51], [107]]).1 = run [.exec [txX1]] ∧
    (executeTxs (run [.exec [txX1]]) [[120, 61, 50], [121, 61, 51]]).1 ≠ run [.exec [txX1]] := by decide

/-! ## 4. re-executing a block is harmless: `execute b ∘ execute b = execute b` (full) -/

/-- Executing the block that was just executed again returns the same root and leaves the same state –
for every state and every block (well-formed or not). -/
theorem C15_reexecute_idempotent (s : St) (b : List Bytes) :
    executeTxs (executeTxs s b).1 b = executeTxs s b := by
  unfold executeTxs
  split
  · next e h => simp
  · next ws h => simp [applyWrites_idem]

/-- What the code does *not* guarantee (and the property does not ask): re-executing an *older* block
after a newer one overwrites the newer values. -/
theorem C15_reexecute_old_block_not_harmless :
    ∃ b₁ b₂ : List Bytes, (run [.exec b₁, .exec b₂, .exec b₁]).store ≠ (run [.exec b₁, .exec b₂]).store :=
  ⟨[txX1], [[120, 61, 50]], by decide⟩

example : (executeTxs (executeTxs {} [txX1, [120, 61, 50], [121, 61, 49]]).1 [txX1, [120, 61, 50], [121, 61, 49]]).1.store
    = [([47, 120], [50]), ([47, 121], [49])] := by decide

/-! ## 5. `InitChain` is idempotent (full) -/

/-- a second `InitChain` returns what the first returned and changes nothing -/
theorem C15_initchain_idempotent (s : St) :
    initChain (initChain s).1 = ((initChain s).1, (initChain s).2) := by
  cases h : get? genInitKey s.store with
  | some v =>
    cases h' : get? genRootKey s.store with
    | some r => simp [initChain, h, h']
    | none => simp [initChain, h, h']
  | none =>
    have e1 : get? genInitKey (put genInitKey trueBytes (put genRootKey (root s.store) s.store)) = some trueBytes :=
      get?_put_same _ _ _
    have e2 : get? genRootKey (put genInitKey trueBytes (put genRootKey (root s.store) s.store)) = some (root s.store) := by
      rw [get?_put_other _ _ (by decide), get?_put_same]
    simp [initChain, h, e1, e2]

/-- once initialised, every later `InitChain` – after any further history of calls – returns the
genesis root of the first one and changes nothing -/
theorem C15_initchain_stable (s : St) (g : Bytes) (hg : (initChain s).2 = .ok g) (ops : List Op) :
    initChain (ops.foldl step (initChain s).1) = (ops.foldl step (initChain s).1, .ok g) := by
  -- invariant: both genesis entries are present with the genesis root `g`
  have inv0 : (∃ v, get? genInitKey (initChain s).1.store = some v) ∧ get? genRootKey (initChain s).1.store = some g := by
    unfold initChain at hg ⊢
    split
    · next v h =>
      split
      · next r h' => simp only [h, h'] at hg ⊢; cases hg; exact ⟨⟨v, rfl⟩, rfl⟩
      · next h' => simp only [h, h'] at hg; cases hg
    · next h =>
      simp only [h] at hg ⊢; cases hg
      exact ⟨⟨_, get?_put_same _ _ _⟩, by rw [get?_put_other _ _ (by decide), get?_put_same]⟩
  generalize (initChain s).1 = t at inv0 ⊢
  induction ops generalizing t with
  | nil =>
    obtain ⟨⟨v, h1⟩, h2⟩ := inv0
    simp [initChain, h1, h2]
  | cons op r ih =>
    apply ih
    obtain ⟨⟨v, h1⟩, h2⟩ := inv0
    have keep : ∀ (ws : List (Key × Bytes)) (st : Store), (∀ w ∈ ws, isReserved w.1 = false) →
        get? genInitKey (applyWrites ws st) = get? genInitKey st ∧ get? genRootKey (applyWrites ws st) = get? genRootKey st :=
      fun ws st hw => ⟨get?_applyWrites_reserved st (by decide) hw, get?_applyWrites_reserved st (by decide) hw⟩
    cases op with
    | init => simp [step, initChain, h1, h2]
    | exec txs =>
      simp only [step, executeTxs]
      split
      · exact ⟨⟨v, h1⟩, h2⟩
      · next ws h =>
        have := keep ws t.store (stage_not_reserved h)
        exact ⟨⟨v, by rw [this.1, h1]⟩, by rw [this.2, h2]⟩
    | final h =>
      simp only [step, setFinal]
      split
      · exact ⟨⟨v, h1⟩, h2⟩
      · exact ⟨⟨v, by rw [get?_put_other _ _ (by decide), h1]⟩, by rw [get?_put_other _ _ (by decide), h2]⟩
    | inject tx => simp only [step, injectTx]; split <;> exact ⟨⟨v, h1⟩, h2⟩
    | getTxs => exact ⟨⟨v, h1⟩, h2⟩
    | reopen => exact ⟨⟨v, h1⟩, h2⟩

/-- non-vacuity: the genesis root is the root at the time of the first call (`/x:1;`), later calls
return it although the current root has moved on -/
example :
    (initChain (run [.exec [txX1]])).2 = .ok [47, 120, 58, 49, 59] ∧
    (initChain (run [.exec [txX1], .init, .exec [[121, 61, 50]], .final 3, .reopen])).2 = .ok [47, 120, 58, 49, 59] ∧
    root (run [.exec [txX1], .init, .exec [[121, 61, 50]], .final 3, .reopen]).store ≠ [47, 120, 58, 49, 59] := by decide

/-! ## 6. golden facts: the model's answers on a fixed call sequence equal what the compiled executor
answers now (`Gen.C15`, regenerated from /repo on every run by `harness/streams/c15/facts.go`, which
holds the same inputs as strings) -/

/-- `" a/./b/../a\t=  7  "`, `"b=2"`, `"\u3000finalizedHeight/x/ = x=y"`, `"/=r"`, `"b=3"` -/
def gBlock1 : List Bytes := [[32, 97, 47, 46, 47, 98, 47, 46, 46, 47, 97, 9, 61, 32, 32, 55, 32, 32], [98, 61, 50], [227, 128, 128, 102, 105, 110, 97, 108, 105, 122, 101, 100, 72, 101, 105, 103, 104, 116, 47, 120, 47, 32, 61, 32, 120, 61, 121], [47, 61, 114], [98, 61, 51]]
/-- `"c=1"`, `"genesis/../genesis//stateroot=1"` (rejected: reserved key) -/
def gBlock2 : List Bytes := [[99, 61, 49], [103, 101, 110, 101, 115, 105, 115, 47, 46, 46, 47, 103, 101, 110, 101, 115, 105, 115, 47, 47, 115, 116, 97, 116, 101, 114, 111, 111, 116, 61, 49]]
/-- `"novalue"`, `" \t=v"`, `"genesis/./initialized = 1"`, `"\u2003./finalizedHeight/ = 9"` -/
def gBad : List Bytes := [[110, 111, 118, 97, 108, 117, 101], [32, 9, 61, 118], [103, 101, 110, 101, 115, 105, 115, 47, 46, 47, 105, 110, 105, 116, 105, 97, 108, 105, 122, 101, 100, 32, 61, 32, 49], [226, 128, 131, 46, 47, 102, 105, 110, 97, 108, 105, 122, 101, 100, 72, 101, 105, 103, 104, 116, 47, 32, 61, 32, 57]]
/-- `"//a/./a/"` -/
def gGetKey : Bytes := [47, 47, 97, 47, 46, 47, 97, 47]
/-- `"finalizedHeight/"` -/
def gFinalGetKey : Bytes := [102, 105, 110, 97, 108, 105, 122, 101, 100, 72, 101, 105, 103, 104, 116, 47]

def errCode : Res → Nat
  | .ok _ => 0
  | .err .malformed => 1
  | .err .emptyKey => 2
  | .err .reserved => 3
  | .err _ => 9

theorem golden_root_block1 : (executeTxs {} gBlock1).2 = .ok Gen.C15.rootAfterBlock1 := by decide
theorem golden_genesis_root : (initChain (run [.exec gBlock1])).2 = .ok Gen.C15.genesisRoot := by decide
theorem golden_rejected_block :
    errCode (executeTxs (run [.exec gBlock1, .init]) gBlock2).2 = Gen.C15.block2Error ∧
    root (run [.exec gBlock1, .init, .exec gBlock2]).store = Gen.C15.rootAfterRejectedBlock2 := by decide
theorem golden_root_after_final :
    root (run [.exec gBlock1, .init, .exec gBlock2, .final 1203]).store = Gen.C15.rootAfterFinal1203 := by decide
theorem golden_final_stored :
    getStoreValue (run [.exec gBlock1, .init, .exec gBlock2, .final 1203]) gFinalGetKey = some Gen.C15.finalizedValue ∧
    Gen.C15.rootAfterFinal1203 = Gen.C15.rootAfterRejectedBlock2 := by decide
theorem golden_final_zero : (if (setFinal {} 0).2.isSome then 1 else 0) = Gen.C15.finalZeroRejected := by decide
theorem golden_genesis_root_again :
    (initChain (run [.exec gBlock1, .init, .exec gBlock2, .final 1203, .final 0])).2 = .ok Gen.C15.genesisRootAgain := by decide
theorem golden_bad_txs :
    gBad.map (fun tx => errCode (executeTxs {} [tx]).2) = [Gen.C15.badTxError1, Gen.C15.badTxError2, Gen.C15.badTxError3, Gen.C15.badTxError4] := by decide
theorem golden_get : getStoreValue (run [.exec gBlock1]) gGetKey = some Gen.C15.valueOfAA := by decide
theorem golden_constants :
    mempoolCap = Gen.C15.mempoolCapacity ∧ gasConst = Gen.C15.gasExecute ∧ gasConst = Gen.C15.gasInit := by decide

end Spec.C15
