import Proofs.CrashRun
import Proofs.CrashWedge
import Spec.C01

/-!
# C04 — the sequencer node recovers from a crash at any point of block production

Model: `Producer.publish` returns the node after the step **and the atomic durable writes it issued, in order**
(`setMeta "l"` batch cursor, `saveBlock h` early/unsigned, `saveBlock h` final, `setHeight h`, `updateState`);
a crash after the first `k` of them is `Store.applyPrefix k`; a restart is `Producer.start` (`NewManager`) on
that image.  The model is compared with the real manager on the image after every atomic write (stream C04).

Vocabulary (`Proofs/Crash*.lean`): `DInv c d` — the **disk invariant** on durable images; `Synced c n` — the
node's saved state is its in-memory state; `WmOK d` — the two submission watermarks parse; `badCut k ws` — the cut
after `k` writes falls right after a `setHeight` that is not the last write (after `SetHeight`, before
`UpdateState`); `Op`/`runOps` — histories of steps and crashes; `Adv c d d'` — image `d'` has the blocks of `d` up to
`d`'s height and a height between `d.height` and `d.height + 1`.

The full property is **false of the current code** (`C04_recovers_fails`, `wedged_forever`, `badcut_always_wedges`,
`C04_cache_fails`); everything else is proved (`C04_recovers_partial`).
-/
namespace Spec.C04
open Wire Chain Producer
open Spec.C01 (ValidChain WellFormed validChain_of_inv wCfg)

/-! ## 1. the disk invariant -/

/-- (a) the empty disk satisfies the disk invariant -/
theorem C04_disk_inv_empty (c : Cfg) (hpos : 1 ≤ c.initialHeight) : DInv c {} := dinv_empty c hpos

/-- (b) **restart never fails and never replaces a committed block**: on every image satisfying the disk invariant
`NewManager` succeeds, the node it builds satisfies the production invariant (recorded height = state height, a valid
chain up to it, state = result of the tip), is in sync with its image, its store is the image plus the writes it
reports, and every block at or below the image's chain height is what it was. -/
theorem C04_restart_succeeds {c : Cfg} {d : Store} (hd : DInv c d) :
    ∃ n ws, start c d = .ok (n, ws) ∧ Inv c n ∧ Synced c n ∧ WmOK n.store ∧ ValidChain c n.store ∧
      n.store = d.applyAll ws ∧ d.height ≤ n.store.height ∧
      (∀ h, h ≤ d.height → n.store.getBlock h = d.getBlock h) ∧
      (d.state ≠ none → ws = [] ∧ n.store = d) := by
  obtain ⟨n, ws, hst, a1, a2, a3, a4, _, a6, a7⟩ := start_of_dinv hd
  have hadv := a6 ws.length
  rw [applyPrefix_all _ _ _ (Nat.le_refl _), ← a4] at hadv
  refine ⟨n, ws, hst, a1, a2, a3, validChain_of_inv a1, a4, hadv.1, hadv.2.2, fun hne => ?_⟩
  have := a7 hne
  subst this
  exact ⟨rfl, a4⟩

/-- (c) **every crash point of every production step except the bad cut leaves an image satisfying the disk
invariant** — for every answer of the sequencing and execution layers (error, no batch, empty / non-empty batch,
regressed time, execution failure), every prior chain, every prefix length (0 = before the first write, `≥ length`
= after the last). -/
theorem C04_crash_point_safe {c : Cfg} {n : Node} (hi : Inv c n) (hs : Synced c n) (hw : WmOK n.store)
    (r : SeqResp) (e : ExecResp) (k : Nat) (hk : badCut k (publish c n r e).2.1 = false) :
    DInv c (n.store.applyPrefix k (publish c n r e).2.1) :=
  (publish_prefix hi hs hw r e k).2 hk

/-- … and **every** crash point (the bad cut included) leaves every committed block alone and raises the recorded
chain height by at most one. -/
theorem C04_crash_point_keeps_blocks {c : Cfg} {n : Node} (hi : Inv c n) (hs : Synced c n) (hw : WmOK n.store)
    (r : SeqResp) (e : ExecResp) (k : Nat) :
    Adv c n.store (n.store.applyPrefix k (publish c n r e).2.1) :=
  (publish_prefix hi hs hw r e k).1

/-- the step itself keeps the node in sync with its durable image, which is the old image plus exactly the
reported writes -/
theorem C04_step_keeps_synced {c : Cfg} {n : Node} (hi : Inv c n) (hs : Synced c n) (hw : WmOK n.store)
    (r : SeqResp) (e : ExecResp) :
    Inv c (publish c n r e).1 ∧ Synced c (publish c n r e).1 ∧ WmOK (publish c n r e).1.store ∧
    (publish c n r e).1.store = n.store.applyAll (publish c n r e).2.1 :=
  ⟨publish_inv hi r e, publish_synced hi hs hw r e⟩

/-- (d) **crash during recovery**: every prefix image of the writes of `start` itself satisfies the disk invariant
again (and keeps the committed blocks), so a crash while restarting is followed by a successful restart, to any
nesting depth. -/
theorem C04_crash_during_recovery {c : Cfg} {d : Store} (hd : DInv c d) :
    ∃ n ws, start c d = .ok (n, ws) ∧ ∀ k, DInv c (d.applyPrefix k ws) ∧ Adv c d (d.applyPrefix k ws) := by
  obtain ⟨n, ws, hst, _, _, _, _, a5, a6, _⟩ := start_of_dinv hd
  exact ⟨n, ws, hst, fun k => ⟨a5 k, a6 k⟩⟩

/-! ## 2. histories of steps and crashes -/

/-- what the property demands after one more operation (`σ` before, `σ'` after; `base` = durable image before the
operation, `node` = the running node after it) -/
structure Recovered (c : Cfg) (σ σ' : RunSt) : Prop where
  /-- recorded chain height, recorded state and stored blocks agree (`Inv.hs`, `Inv.tip`, `Inv.chain`) -/
  inv : Inv c σ'.node
  /-- the node's chain is valid (C01's predicate) -/
  valid : ValidChain c σ'.node.store
  /-- the durable state is the node's state -/
  synced : Synced c σ'.node
  /-- the node's store is the durable image plus the writes of the operation -/
  image : σ'.node.store = σ'.base.applyAll σ'.ws
  /-- durable image before the previous operation → before this one: no height skipped, no committed block replaced
  (for a crash: `σ'.base` is the image the node restarted from) -/
  durable : Adv c σ.base σ'.base
  /-- what the operation itself (a step, or the restart) did to its image: the same -/
  memory : Adv c σ'.base σ'.node.store

/-- **C04, everything but the bad cut.**  For every history of production steps (any answers) and crashes (any
prefix of the writes of the last operation — step or restart —, so crashes during recovery at any depth) in which no
crash is the bad cut, and every next operation: no restart fails (the node is alive), and after the operation the
node satisfies the production invariant (height = state height = blocks; valid chain), is in sync with its image,
no height was skipped or repeated and no committed block replaced, neither on disk nor by the restarted node. -/
theorem C04_recovers_partial (c : Cfg) (hpos : 1 ≤ c.initialHeight) (ops : List Op) (op : Op)
    (hsafe : NoBadCut c (initSt c) (ops ++ [op])) :
    ∃ σ σ', runOps c (initSt c) ops = .ok σ ∧ opStep c σ op = .ok σ' ∧ Recovered c σ σ' ∧
      Ext (initSt c).base σ.base := by
  obtain ⟨h1, h2⟩ := noBadCut_append hsafe
  obtain ⟨σ, hr, hg, he⟩ := runOps_good (good_init c hpos) ops h1
  obtain ⟨σ', hop, hg', ha⟩ := opStep_good hg op (noBadCut_cons (h2 σ hr)).1
  exact ⟨σ, σ', hr, hop, ⟨hg'.inv, validChain_of_inv hg'.inv, hg'.synced, hg'.store, ha, good_store_adv hg'⟩, he⟩

/-- over a whole history: the durable image only grows — the height never decreases and every block at or below the
height of an earlier image is still there, unchanged, in every later image -/
theorem C04_committed_never_replaced (c : Cfg) (hpos : 1 ≤ c.initialHeight) (ops1 ops2 : List Op)
    (hsafe : NoBadCut c (initSt c) (ops1 ++ ops2)) :
    ∃ σ1 σ2, runOps c (initSt c) ops1 = .ok σ1 ∧ runOps c (initSt c) (ops1 ++ ops2) = .ok σ2 ∧
      Ext σ1.base σ2.base ∧ Ext σ1.base σ2.node.store := by
  obtain ⟨h1, h2⟩ := noBadCut_append hsafe
  obtain ⟨σ1, hr1, hg1, _⟩ := runOps_good (good_init c hpos) ops1 h1
  obtain ⟨σ2, hr2, hg2, he⟩ := runOps_good hg1 ops2 (h2 σ1 hr1)
  exact ⟨σ1, σ2, hr1, by rw [runOps_append _ hr1]; exact hr2, he, he.trans (good_store_adv hg2).ext⟩

/-- after a history without a bad cut, production resumes as in C01: unless a block is waiting at `height + 1`
(C01's finding), one well-formed answer commits the next block -/
theorem C04_production_resumes (c : Cfg) (hpos : 1 ≤ c.initialHeight) (ops : List Op)
    (hsafe : NoBadCut c (initSt c) ops)
    (hmax : c.maxPending = 0) (hsg : c.signerAddr = c.proposerAddr) (hne : c.proposerAddr ≠ []) :
    ∃ σ, runOps c (initSt c) ops = .ok σ ∧
      (σ.node.store.getBlock (σ.node.store.height + 1) = none →
        ∀ txs ts bd, σ.node.lastState.lastTime ≤ ts →
          (publish c σ.node (.batch txs ts bd) .ok).2.2 = .ok ∧
          (publish c σ.node (.batch txs ts bd) .ok).1.store.height = σ.node.store.height + 1) := by
  obtain ⟨σ, hr, hg, _⟩ := runOps_good (good_init c hpos) ops hsafe
  exact ⟨σ, hr, fun hnone txs ts bd hts => fresh_commits hg.inv hnone hmax hsg hne txs ts bd hts⟩

/-! ## 3. the full statement and its refutation -/

/-- **The full property**: the same for *every* history (no exclusion), and the node is never left unable to produce:
two well-formed answers raise the height. -/
def C04_recovers_full : Prop :=
  ∀ (c : Cfg) (ops : List Op) (op : Op) (r1 r2 : SeqResp × ExecResp),
    1 ≤ c.initialHeight → c.signerAddr = c.proposerAddr → c.proposerAddr ≠ [] → c.maxPending = 0 →
    ∃ σ σ', runOps c (initSt c) ops = .ok σ ∧ opStep c σ op = .ok σ' ∧ Recovered c σ σ' ∧
      (WellFormed σ'.node r1 → WellFormed σ'.node r2 →
        σ'.node.store.height < (run c σ'.node [r1, r2]).store.height)

/-- witness: two blocks, then a third step … -/
def wSteps : List (SeqResp × ExecResp) :=
  [(.batch [[1]] 200 [], .ok), (.batch [[2]] 300 [], .ok), (.batch [[3]] 400 [], .ok)]
def wOps : List Op := wSteps.map fun r => .step r.1 r.2
/-- … that crashes after its 4th write (`setMeta`, early save, final save, `setHeight` | `updateState`) -/
def wCrash : Op := .crash 4
def wProbe : SeqResp × ExecResp := (.batch [[4]] 500 [], .ok)

/-- what the refutation needs to know about the witness history, evaluated once by the kernel: number of writes of
the third step, whether cut 4 is the bad cut, and of the restarted node: chain height, state height, state time,
nothing stored above -/
def wSummary : Option (Nat × Bool × Nat × Nat × Nat × Bool) :=
  match runOps wCfg (initSt wCfg) wOps with
  | .error _ => none
  | .ok σ =>
    match opStep wCfg σ wCrash with
    | .error _ => none
    | .ok σ' => some (σ.ws.length, badCut 4 σ.ws, σ'.node.store.height, σ'.node.lastState.lastHeight,
                      σ'.node.lastState.lastTime, (σ'.node.store.getBlock (σ'.node.store.height + 1)).isNone)

theorem wSummary_eq : wSummary = some (5, true, 3, 2, 300, true) := by decide +kernel

theorem witness_facts {σ σ' : RunSt} (hr : runOps wCfg (initSt wCfg) wOps = .ok σ) (hop : opStep wCfg σ wCrash = .ok σ') :
    σ.ws.length = 5 ∧ badCut 4 σ.ws = true ∧ σ'.node.store.height = 3 ∧ σ'.node.lastState.lastHeight = 2 ∧
    σ'.node.lastState.lastTime = 300 ∧ Wedged σ'.node := by
  have h := wSummary_eq
  unfold wSummary at h
  rw [hr] at h
  simp only [hop, Option.some.injEq, Prod.mk.injEq] at h
  obtain ⟨h1, h2, h3, h4, h5, h6⟩ := h
  refine ⟨h1, h2, h3, h4, h5, by rw [h3, h4], fun pb hpb => ?_⟩
  rw [hpb] at h6; cases h6

/-- **the witness**: the third step issues five writes, cut 4 is the bad cut; the restart succeeds, but the node it
returns has chain height 3, state height 2, and is wedged -/
theorem witness_wedged : ∃ σ σ', runOps wCfg (initSt wCfg) wOps = .ok σ ∧ opStep wCfg σ wCrash = .ok σ' ∧
    σ.ws.length = 5 ∧ badCut 4 σ.ws = true ∧ σ'.node.store.height = 3 ∧ σ'.node.lastState.lastHeight = 2 ∧
    Wedged σ'.node := by
  have h := wSummary_eq
  unfold wSummary at h
  split at h
  · cases h
  · rename_i σ hr
    split at h
    · cases h
    · rename_i σ' hop
      obtain ⟨a1, a2, a3, a4, _, a6⟩ := witness_facts hr hop
      exact ⟨σ, σ', hr, hop, a1, a2, a3, a4, a6⟩

/-- **The full property is false of the current code** (kernel-checked): after a crash between `SetHeight` and
`UpdateState` the restarted node has chain height 3 and state height 2, and two well-formed answers do not raise the
height.  Replayed on the real node by stream C04
(`C04/agree/chain-height-ahead-of-state/crash-between-height-and-state`, `C04/wedged/chain-height-ahead-of-state`). -/
theorem C04_recovers_fails : ¬ C04_recovers_full := by
  intro h
  obtain ⟨σ, σ', hr, hop, _, hlive⟩ := h wCfg wOps wCrash wProbe wProbe (by decide) rfl (by decide) rfl
  obtain ⟨_, _, _, _, ht, hw⟩ := witness_facts hr hop
  have hwf : WellFormed σ'.node wProbe := by
    show σ'.node.lastState.lastTime ≤ 500
    omega
  have := hlive hwf hwf
  rw [(run_wedged hw _).2] at this
  exact Nat.lt_irrefl _ this

/-- **Permanently**: a node whose recorded chain height is one above its state height never commits a block again —
for every sequence of answers the outcome of every step is an error, and height and state stay what they are. -/
theorem wedged_forever {c : Cfg} {n : Node} (hw : Wedged n) (rs : List (SeqResp × ExecResp))
    (r : SeqResp) (e : ExecResp) :
    (publish c (run c n rs) r e).2.2 ≠ .ok ∧ (run c n rs).store.height = n.store.height ∧ Wedged (run c n rs) := by
  obtain ⟨a, b⟩ := run_wedged (c := c) hw rs
  exact ⟨(publish_wedged a r e).1, b, a⟩

/-- **the bad cut always wedges** (not only in the witness): for every node in sync with a saved state and every
committing step, the image without the last write (`updateState`) is a bad cut, `start` succeeds on it, writes
nothing, and returns a wedged node. -/
theorem badcut_always_wedges {c : Cfg} {n : Node} (hi : Inv c n) (hs : n.store.state = some n.lastState)
    (hge : c.initialHeight ≤ n.lastState.lastHeight) (hw : WmOK n.store) (r : SeqResp) (e : ExecResp)
    (hok : (publish c n r e).2.2 = .ok) :
    badCut ((publish c n r e).2.1.length - 1) (publish c n r e).2.1 = true ∧
    ∃ m, start c (n.store.applyPrefix ((publish c n r e).2.1.length - 1) (publish c n r e).2.1) = .ok (m, []) ∧
      Wedged m :=
  badcut_wedges hi hs hge hw r e hok

/-! ## 4. cache files -/

/-- a cache file as `loadMapGob` sees it: decodes, does not exist (treated as empty), or was cut short by a crash
while `SaveToDisk` was rewriting it in place -/
inductive CacheFile | ok | absent | truncated
  deriving DecidableEq, Repr

inductive StartErr' | store (e : StartErr) | loadCache
  deriving DecidableEq, Repr

/-- `NewManager` with its cache files (`block/manager.go:413-416`: any `LoadCache` error is fatal) -/
def startWithCaches (c : Cfg) (d : Store) (files : List CacheFile) : Except StartErr' (Node × List SW) :=
  match start c d with
  | .error e => .error (.store e)
  | .ok r => if files.any (· == .truncated) then .error .loadCache else .ok r

/-- full claim: restart succeeds for every combination of cache-file states -/
def C04_cache_full : Prop :=
  ∀ (c : Cfg) (files : List CacheFile), 1 ≤ c.initialHeight → ∃ r, startWithCaches c {} files = .ok r

/-- **false of the current code**: one truncated file and the node cannot start any more
(`C04/restart-fails/cache-file-truncated` on the real node) -/
theorem C04_cache_fails : ¬ C04_cache_full := by
  intro h
  obtain ⟨r, hr⟩ := h wCfg [.ok, .truncated] (by decide)
  simp [startWithCaches, start_empty] at hr

/-- partial: with no truncated file, restart is exactly `start` (so (b) applies) -/
theorem C04_cache_partial {c : Cfg} {d : Store} (hd : DInv c d) (files : List CacheFile)
    (hf : ∀ f ∈ files, f ≠ .truncated) :
    ∃ n ws, startWithCaches c d files = .ok (n, ws) ∧ start c d = .ok (n, ws) ∧ Inv c n := by
  obtain ⟨n, ws, hst, hi, _⟩ := start_of_dinv hd
  refine ⟨n, ws, ?_, hst, hi⟩
  have : files.any (· == .truncated) = false := by
    rw [List.any_eq_false]; intro f hf'; simpa using hf f hf'
  simp [startWithCaches, hst, this]

/-! ## non-vacuity -/

/-- a history with a (harmless) crash after the early save of the third block, a crash during the restart, a
further step, a crash between two operations, and one more step: the hypotheses of `C04_recovers_partial` hold
and it ends with three committed blocks on a restarted node -/
def gOps : List Op := wOps ++ [.crash 2, .crash 0, .step (.batch [[5]] 600 []) .ok, .crash 7]

example : NoBadCut wCfg (initSt wCfg) (gOps ++ [.step (.batch [[6]] 700 []) .ok]) ∧
    (match runOps wCfg (initSt wCfg) gOps with
     | .ok σ => some (σ.node.store.height, σ.node.lastState.lastHeight)
     | .error _ => none) = some (3, 3) := by decide +kernel

/-- a concrete node with two committed blocks (the witness before its third step) -/
theorem two_blocks : ∃ σ, runOps wCfg (initSt wCfg) (wOps.take 2) = .ok σ ∧ Good wCfg σ ∧
    σ.node.store.height = 2 ∧ σ.node.store.getBlock 3 = none ∧ σ.node.lastState.lastTime = 300 := by
  obtain ⟨σ, hr, hg, _⟩ := runOps_good (good_init wCfg (by decide)) (wOps.take 2) (noBadCut_steps _ _ (wSteps.take 2))
  have : (match runOps wCfg (initSt wCfg) (wOps.take 2) with
          | .ok σ => (σ.node.store.height, (σ.node.store.getBlock 3).isNone, σ.node.lastState.lastTime)
          | .error _ => (0, false, 0)) = (2, true, 300) := by decide +kernel
  rw [hr] at this
  simp only [Prod.mk.injEq] at this
  refine ⟨σ, hr, hg, this.1, ?_, this.2.2⟩
  cases h : σ.node.store.getBlock 3 with
  | none => rfl
  | some b => rw [h] at this; simp at this

/-- it meets the hypotheses of (b), (c), (d) … -/
example : ∃ n, n.store.height = 2 ∧ Inv wCfg n ∧ Synced wCfg n ∧ WmOK n.store ∧ DInv wCfg n.store := by
  obtain ⟨σ, _, hg, hh, _⟩ := two_blocks
  exact ⟨σ.node, hh, hg.inv, hg.synced, hg.wm, dinv_of_node hg.inv hg.synced hg.wm⟩

/-- … and those of `badcut_always_wedges` -/
example : ∃ n, Inv wCfg n ∧ n.store.state = some n.lastState ∧ wCfg.initialHeight ≤ n.lastState.lastHeight ∧
    WmOK n.store ∧ (publish wCfg n (.batch [[3]] 400 []) .ok).2.2 = .ok := by
  obtain ⟨σ, _, hg, hh, hnone, ht⟩ := two_blocks
  obtain ⟨s1, s2⟩ := synced_some hg.inv hg.synced (by rw [hh]; decide)
  refine ⟨σ.node, hg.inv, s1, s2, hg.wm, ?_⟩
  exact (fresh_commits hg.inv (by rw [hh]; exact hnone) rfl rfl (by decide) [[3]] 400 [] (by omega)).1

/-- a wedged node exists (the witness), so `wedged_forever` is not vacuous -/
example : ∃ n : Node, Wedged n := by
  obtain ⟨_, σ', _, _, _, _, _, _, hw⟩ := witness_wedged
  exact ⟨σ'.node, hw⟩

end Spec.C04
