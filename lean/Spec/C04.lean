import Proofs.Producer

/-! # C04 — the sequencer node recovers from a crash at any point of block production
(first theorems; the crash-prefix invariant is under construction) -/
namespace Spec.C04
open Wire Chain Producer

/-- a fresh start on an empty disk always succeeds and yields a node satisfying the production invariant -/
theorem start_on_empty_disk (c : Cfg) (hpos : 1 ≤ c.initialHeight) :
    ∃ ws, start c {} = .ok (freshNode c, ws) ∧ Inv c (freshNode c) :=
  ⟨freshWrites c, start_empty c, freshNode_inv c hpos⟩

/-- a crash before the first durable write of a step leaves the image unchanged; after the last one it is the
image of the completed step -/
theorem crash_prefix_ends (s : Store) (ws : List SW) :
    s.applyPrefix 0 ws = s ∧ s.applyPrefix ws.length ws = s.applyAll ws := by
  simp [Store.applyPrefix, Store.applyAll]

end Spec.C04
