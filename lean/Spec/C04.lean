import Proofs.CrashRun
import Proofs.CrashBatch
import Proofs.CrashData
import Proofs.CrashCache
import Model.CacheTree
import Spec.C01

/-!
# C04 — the sequencer node recovers from a crash at any point of block production

Model: `Producer.publish` returns the node after the step **and the atomic durable writes it issued, in order**
(`setMeta "l"` batch cursor, `saveBlock h` early/unsigned, `saveBlock h` final, `updateState`, `setHeight h` — the
order after the repair `fix: persist the new state before advancing the store height when producing a block`,
/repo c7b3f37); a crash after the first `k` of them is `Store.applyPrefix k`; a restart is `Producer.start`
(`NewManager`) on that image.  The model is compared with the real manager on the image after every atomic write
(stream C04).

Vocabulary (`Proofs/Crash*.lean`): `DInv c d` — the **disk invariant** on durable images (it admits the window
between `updateState` and `setHeight`: saved state one above the recorded chain height, the block of that height
stored and well-shaped); `Synced c n` — the node's saved state is its in-memory state; `WmOK d` — the two
submission watermarks parse; `Live c n` ⊇ `Inv c n` — the production invariant of C01 (a block waiting at
`height + 1` will validate); `Op`/`runOps` — histories of steps and crashes; `Adv c d d'` — image `d'` has the
blocks of `d` up to `d`'s height and a height between `d.height` and `d.height + 1`.

The crash-recovery part of the property holds for every history and every crash point, no cut excluded
(`C04_recovers`).  Hypotheses, all explicit in `C04_recovers_full`: `1 ≤ initialHeight` for the safety half
(`C04_recovers_safe`, `C04_blocks_are_their_batches`); for the final liveness clause also `signerAddr = proposerAddr`
(the node holds the genesis proposer's key), `proposerAddr ≠ []`, `maxPending = 0` (with a pending limit the node may
refuse to produce: C08).  The execution layer is the stateless double `execRoot`/`ExecResp` (same root when asked
again; an executor that answers a retried call differently, or that crashed after executing, is outside the model).  The cache-file part holds **in full** too since the repair `fix: replace the cache files atomically when
saving them to disk` (/repo 998b465): `C04_cache_full`, a theorem about the model at the facts regenerated from the
compiled `pkg/cache` (`CacheDir.tree`); the model of the code before the repair is refuted as before
(`C04_cache_nonatomic_fails`).
-/
namespace Spec.C04
open Wire Chain Producer
open Spec.C01 (ValidChain WellFormed validChain_of_inv wCfg)

/-! ## 1. the disk invariant -/

/-- (a) the empty disk satisfies the disk invariant -/
theorem C04_disk_inv_empty (c : Cfg) (hpos : 1 ≤ c.initialHeight) : DInv c {} := dinv_empty c hpos

/-- the window between `updateState` and `setHeight` satisfies it: a state `s` is saved whose height is one above the
recorded chain height, and with the height raised the image is that of a node satisfying the production invariant
(so the block of height `s.lastHeight` is stored, linked, signed, and `s` is its result) -/
theorem C04_disk_inv_window {c : Cfg} {d : Store} {s : State} (hw : WmOK d) (hs : d.state = some s)
    (hge : c.initialHeight ≤ s.lastHeight) (hh : s.lastHeight = d.height + 1)
    (hl : Live c { store := d.apply (.setHeight s.lastHeight), lastState := s }) : DInv c d :=
  dinv_of_window hw hs hge hh hl

/-- (b) **restart never fails and never replaces a committed block**: on every image satisfying the disk invariant
`NewManager` succeeds, the node it builds satisfies the production invariant (recorded height = state height, a valid
chain up to it, state = result of the tip), is in sync with its image, its store is the image plus the writes it
reports, and every block at or below the image's chain height is what it was.  When a state was saved the node holds
exactly that state and **its chain height is the state's height** — raised by one if the image was in the window. -/
theorem C04_restart_succeeds {c : Cfg} {d : Store} (hd : DInv c d) :
    ∃ n ws, start c d = .ok (n, ws) ∧ Inv c n ∧ Synced c n ∧ WmOK n.store ∧ ValidChain c n.store ∧
      n.store = d.applyAll ws ∧ d.height ≤ n.store.height ∧
      (∀ h, h ≤ d.height → n.store.getBlock h = d.getBlock h) ∧
      (∀ s, d.state = some s → n.lastState = s ∧ n.store.height = s.lastHeight ∧ s.lastHeight ≤ d.height + 1) := by
  obtain ⟨n, ws, hst, a1, a2, a3, a4, _, a6, a7⟩ := start_of_dinv hd
  have hadv := a6 ws.length
  rw [applyPrefix_all _ _ _ (Nat.le_refl _), ← a4] at hadv
  refine ⟨n, ws, hst, a1.toInv, a2, a3, validChain_of_inv a1.toInv, a4, hadv.1, hadv.2.2, fun s hs => ?_⟩
  obtain ⟨b1, b2, _⟩ := a7 s hs
  exact ⟨b1, b2, (hd.withState s hs).2.1⟩

/-- (c) **every crash point of every production step leaves an image satisfying the disk invariant** — for every
answer of the sequencing and execution layers (error, no batch, empty / non-empty batch, regressed time, execution
failure), every prior chain, **every** prefix length `k` (0 = before the first write, `≥ length` = after the last;
no exclusion). -/
theorem C04_crash_point_safe {c : Cfg} {n : Node} (hi : Live c n) (hs : Synced c n) (hw : WmOK n.store)
    (r : SeqResp) (e : ExecResp) (k : Nat) :
    DInv c (n.store.applyPrefix k (publish c n r e).2.1) :=
  (publish_prefix hi hs hw r e k).2

/-- … and leaves every committed block alone and raises the recorded chain height by at most one. -/
theorem C04_crash_point_keeps_blocks {c : Cfg} {n : Node} (hi : Live c n) (hs : Synced c n) (hw : WmOK n.store)
    (r : SeqResp) (e : ExecResp) (k : Nat) :
    Adv c n.store (n.store.applyPrefix k (publish c n r e).2.1) :=
  (publish_prefix hi hs hw r e k).1

/-- the step itself keeps the production invariant, keeps the node in sync with its durable image, which is the old
image plus exactly the reported writes -/
theorem C04_step_keeps_synced {c : Cfg} {n : Node} (hi : Live c n) (hs : Synced c n) (hw : WmOK n.store)
    (r : SeqResp) (e : ExecResp) :
    Live c (publish c n r e).1 ∧ Inv c (publish c n r e).1 ∧ Synced c (publish c n r e).1 ∧
    WmOK (publish c n r e).1.store ∧ (publish c n r e).1.store = n.store.applyAll (publish c n r e).2.1 :=
  ⟨publish_live hi r e, publish_inv hi.toInv r e, publish_synced hi hs hw r e⟩

/-- (d) **crash during recovery**: every prefix image of the writes of `start` itself satisfies the disk invariant
again (and keeps the committed blocks), so a crash while restarting is followed by a successful restart, to any
nesting depth. -/
theorem C04_crash_during_recovery {c : Cfg} {d : Store} (hd : DInv c d) :
    ∃ n ws, start c d = .ok (n, ws) ∧ ∀ k, DInv c (d.applyPrefix k ws) ∧ Adv c d (d.applyPrefix k ws) := by
  obtain ⟨n, ws, hst, _, _, _, _, a5, a6, _⟩ := start_of_dinv hd
  exact ⟨n, ws, hst, fun k => ⟨a5 k, a6 k⟩⟩

/-! ## 2. histories of steps and crashes -/

/-- what the property demands after one more operation (`σ` before, `σ'` after; `base` = durable image before the
operation, `node` = the running node after it):
* recorded chain height, recorded state and stored blocks agree (`Inv.hs`, `Inv.tip`, `Inv.chain`);
* the node's chain is valid (C01's predicate);
* the durable state is the node's state;
* the node's store is the durable image plus the writes of the operation;
* durable image before the previous operation → before this one: no height skipped, no committed block replaced
  (for a crash: `σ'.base` is the image the node restarted from);
* what the operation itself (a step, or the restart) did to its image: the same. -/
def Recovered (c : Cfg) (σ σ' : RunSt) : Prop :=
  Inv c σ'.node ∧ ValidChain c σ'.node.store ∧ Synced c σ'.node ∧ σ'.node.store = σ'.base.applyAll σ'.ws ∧
  Adv c σ.base σ'.base ∧ Adv c σ'.base σ'.node.store

/-- **The full property**: for *every* history (no exclusion) no restart fails, the node and its image agree, and the
node is never left unable to produce: two well-formed answers raise the height. -/
def C04_recovers_full : Prop :=
  ∀ (c : Cfg) (ops : List Op) (op : Op) (r1 r2 : SeqResp × ExecResp),
    1 ≤ c.initialHeight → c.signerAddr = c.proposerAddr → c.proposerAddr ≠ [] → c.maxPending = 0 →
    ∃ σ σ', runOps c (initSt c) ops = .ok σ ∧ opStep c σ op = .ok σ' ∧ Recovered c σ σ' ∧
      (WellFormed σ'.node r1 → WellFormed σ'.node r2 →
        σ'.node.store.height < (run c σ'.node [r1, r2]).store.height)

/-- the safety half needs no assumption on the configuration beyond `initialHeight ≥ 1`: for every history of
production steps (any answers) and crashes (after any number of the writes of the last operation — step or restart —,
so crashes during recovery at any depth), and every next operation: no restart fails (the node is alive), and after
the operation the node satisfies the production invariant (height = state height = blocks; valid chain), is in sync
with its image, no height was skipped or repeated and no committed block replaced, neither on disk nor by the
restarted node. -/
theorem C04_recovers_safe (c : Cfg) (hpos : 1 ≤ c.initialHeight) (ops : List Op) (op : Op) :
    ∃ σ σ', runOps c (initSt c) ops = .ok σ ∧ opStep c σ op = .ok σ' ∧ Recovered c σ σ' ∧ Live c σ'.node ∧
      Ext (initSt c).base σ.base := by
  obtain ⟨σ, hr, hg, he⟩ := runOps_good (good_init c hpos) ops
  obtain ⟨σ', hop, hg', ha⟩ := opStep_good hg op
  exact ⟨σ, σ', hr, hop, ⟨hg'.inv, validChain_of_inv hg'.inv, hg'.synced, hg'.store, ha, good_store_adv hg'⟩,
    hg'.live, he⟩

/-- **C04, crash recovery, in full.**  Every history, every crash point: restart never fails, `Inv`/`ValidChain`
hold, heights are never skipped or repeated, committed blocks never replaced, and the node is never left unable to
produce — the first well-formed answer after any operation already commits a block. -/
theorem C04_recovers : C04_recovers_full := by
  intro c ops op r1 r2 hpos hsg hne hmax
  obtain ⟨σ, σ', hr, hop, hrec, hl, _⟩ := C04_recovers_safe c hpos ops op
  refine ⟨σ, σ', hr, hop, hrec, fun hw1 _ => ?_⟩
  obtain ⟨_, h1⟩ := Spec.C01.C01_one_answer_commits hl hmax hsg hne r1 hw1
  have h2 := (publish_store (publish_inv hl.toInv r1.1 r1.2) r2.1 r2.2).1
  show _ < (publish c (publish c σ'.node r1.1 r1.2).1 r2.1 r2.2).1.store.height
  omega

/-- over a whole history: the durable image only grows — the height never decreases and every block at or below the
height of an earlier image is still there, unchanged, in every later image -/
theorem C04_committed_never_replaced (c : Cfg) (hpos : 1 ≤ c.initialHeight) (ops1 ops2 : List Op) :
    ∃ σ1 σ2, runOps c (initSt c) ops1 = .ok σ1 ∧ runOps c (initSt c) (ops1 ++ ops2) = .ok σ2 ∧
      Ext σ1.base σ2.base ∧ Ext σ1.base σ2.node.store := by
  obtain ⟨σ1, hr1, hg1, _⟩ := runOps_good (good_init c hpos) ops1
  obtain ⟨σ2, hr2, hg2, he⟩ := runOps_good hg1 ops2
  exact ⟨σ1, σ2, hr1, by rw [runOps_append _ hr1]; exact hr2, he, he.trans (good_store_adv hg2).ext⟩

/-- **Every committed block is the block of one batch of the history, across crashes and restarts.**  For every
history `ops` of steps and crashes there is an index function `f` such that every height `h` above the initial height
and at most the chain height of the node at the end holds a block whose transactions are exactly those (same list,
same order) of the batch answered at step `ops[f h]` and whose header time is that batch's timestamp; `f` is strictly
increasing in `h`.  A block that was built, survived a crash as the block waiting at `height + 1` (or failed
execution) and was committed later by "using pending block" has the batch **taken when it was first built**; a block
lost in a crash before it was durable has no say: the height is built again from a later batch.  The same holds for
**every** block stored above the initial height in every crash image of the last operation (in particular the block
waiting at `height + 1`), and the block at the initial height is the empty genesis block. -/
theorem C04_blocks_are_their_batches (c : Cfg) (hpos : 1 ≤ c.initialHeight) (ops : List Op) :
    ∃ (σ : RunSt) (f : Nat → Nat), runOps c (initSt c) ops = .ok σ ∧
      (∀ h, c.initialHeight < h → h ≤ σ.node.store.height →
        ∃ b txs ts bd e, σ.node.store.getBlock h = some b ∧
          ops[f h]? = some (.step (.batch txs ts bd) e) ∧ b.data.txs = txs ∧ b.sh.hdr.time = ts) ∧
      (∀ h h', c.initialHeight < h → h < h' → h' ≤ σ.node.store.height → f h < f h') ∧
      (∀ k h b, c.initialHeight < h → (σ.base.applyPrefix k σ.ws).getBlock h = some b →
        ∃ txs ts bd e, ops[f h]? = some (.step (.batch txs ts bd) e) ∧ b.data.txs = txs ∧ b.sh.hdr.time = ts) ∧
      (∀ k b, (σ.base.applyPrefix k σ.ws).getBlock c.initialHeight = some b →
        b.data.txs = [] ∧ b.sh.hdr.time = c.genesisTime) := by
  obtain ⟨σ, f, hr, hg, hs⟩ := runOps_src (good_init c hpos) (src_init c (fun _ => 0)) ops
  rw [List.nil_append] at hs
  obtain ⟨hn, _⟩ := hs.node hg
  have hi := hg.inv
  refine ⟨σ, f, hr, fun h h1 h2 => ?_, fun h h' h1 h2 h3 => ?_, fun k h b h1 hb => ?_, fun k b hb => (hs.image k).2 b hb⟩
  · obtain ⟨b, hb, _⟩ := hi.chain h (by omega) h2
    obtain ⟨txs, bd, e, hop, htx⟩ := hn h b h1 hb
    exact ⟨b, txs, b.sh.hdr.time, bd, e, hb, hop, htx, rfl⟩
  · obtain ⟨b, hb, _⟩ := hi.chain h' (by omega) h3
    exact hs.mono h h' h1 h2 (by rw [hb]; simp)
  · obtain ⟨txs, bd, e, hop, htx⟩ := (hs.image k).1 h b h1 hb
    exact ⟨txs, b.sh.hdr.time, bd, e, hop, htx, rfl⟩

/-- **The data chain survives every history**: after any steps, restarts and crashes, every committed block of the
running node carries metadata that repeats its header's chain id, height and time and names the hash of the previous
block's data — also a block that was recovered after a crash between the early and the final save, or between the
final save and the state, and committed through "using pending block"; and the same holds in **every crash image** of
the last operation up to where the image counts as committed (its chain height, or the saved state's height in the
window between `updateState` and `setHeight`). -/
theorem C04_data_links (c : Cfg) (hpos : 1 ≤ c.initialHeight) (ops : List Op) :
    ∃ σ, runOps c (initSt c) ops = .ok σ ∧
      Spec.C01.DataChain c σ.node.store σ.node.store.height ∧
      ∀ k, Spec.C01.DataChain c (σ.base.applyPrefix k σ.ws) (topOf (σ.base.applyPrefix k σ.ws)) := by
  obtain ⟨σ, hr, hg, hc⟩ := runOps_dataCuts (good_init c hpos) (dataCuts_init c hpos) ops
  exact ⟨σ, hr, hc.node hg, hc⟩

/-- after **any** history production resumes: one well-formed answer commits the next block (whether or not a block
is waiting at `height + 1`) -/
theorem C04_production_resumes (c : Cfg) (hpos : 1 ≤ c.initialHeight) (ops : List Op)
    (hmax : c.maxPending = 0) (hsg : c.signerAddr = c.proposerAddr) (hne : c.proposerAddr ≠ []) :
    ∃ σ, runOps c (initSt c) ops = .ok σ ∧
      ∀ txs ts bd, σ.node.lastState.lastTime ≤ ts →
        (publish c σ.node (.batch txs ts bd) .ok).2.2 = .ok ∧
        (publish c σ.node (.batch txs ts bd) .ok).1.store.height = σ.node.store.height + 1 := by
  obtain ⟨σ, hr, hg, _⟩ := runOps_good (good_init c hpos) ops
  exact ⟨σ, hr, fun txs ts bd hts => live_commits hg.live hmax hsg hne txs ts bd hts⟩

/-! ## 3. the witness that refuted the full statement before the repair -/

/-- two blocks, then a third step … -/
def wSteps : List (SeqResp × ExecResp) :=
  [(.batch [[1]] 200 [], .ok), (.batch [[2]] 300 [], .ok), (.batch [[3]] 400 [], .ok)]
def wOps : List Op := wSteps.map fun r => .step r.1 r.2
/-- … that crashes after its 4th write.  Before the repair: `setMeta`, early save, final save, `setHeight` |
`updateState` — the restarted node had chain height 3, state height 2 and never produced again.  Now: `setMeta`,
early save, final save, `updateState` | `setHeight`. -/
def wCrash : Op := .crash 4
def wProbe : SeqResp × ExecResp := (.batch [[4]] 500 [], .ok)

/-- what there is to know about the old witness history, evaluated once by the kernel: number of writes of the third
step; of the image the node restarts from: chain height and saved state height; number of writes of the restart; of
the restarted node: chain height, state height, whether block 3 is stored (1/0), state time; height after one / two
well-formed answers -/
def wSummary : Option (List Nat) :=
  match runOps wCfg (initSt wCfg) wOps with
  | .error _ => none
  | .ok σ =>
    match opStep wCfg σ wCrash with
    | .error _ => none
    | .ok σ' => some [σ.ws.length, σ'.base.height, (σ'.base.state.map (·.lastHeight)).getD 0, σ'.ws.length,
                      σ'.node.store.height, σ'.node.lastState.lastHeight,
                      if (σ'.node.store.getBlock 3).isSome then 1 else 0, σ'.node.lastState.lastTime,
                      (run wCfg σ'.node [wProbe]).store.height, (run wCfg σ'.node [wProbe, wProbe]).store.height]

theorem wSummary_eq : wSummary = some [5, 2, 3, 1, 3, 3, 1, 400, 4, 5] := by decide +kernel

/-- **The old witness now recovers** (kernel-checked): the third step issues five writes; after four of them the
image has chain height 2 and saved state height 3 (the window); the restart succeeds with one write (`setHeight 3`);
the restarted node has chain height 3 = state height 3, and two well-formed answers raise the height (to 5).
(Before c7b3f37: chain height 3, state height 2, wedged for ever.) -/
theorem C04_old_witness_recovers : ∃ σ σ', runOps wCfg (initSt wCfg) wOps = .ok σ ∧ opStep wCfg σ wCrash = .ok σ' ∧
    σ.ws.length = 5 ∧ σ'.base.height = 2 ∧ (∃ s, σ'.base.state = some s ∧ s.lastHeight = 3) ∧ σ'.ws.length = 1 ∧
    σ'.node.store.height = 3 ∧ σ'.node.lastState.lastHeight = 3 ∧
    WellFormed σ'.node wProbe ∧
    σ'.node.store.height < (run wCfg σ'.node [wProbe, wProbe]).store.height := by
  have h := wSummary_eq
  unfold wSummary at h
  split at h
  · cases h
  · rename_i σ hr
    split at h
    · cases h
    · rename_i σ' hop
      simp only [Option.some.injEq, List.cons.injEq, and_true] at h
      obtain ⟨h1, h2, h3, h4, h5, h6, _, h8, _, h10⟩ := h
      refine ⟨σ, σ', hr, hop, h1, h2, ?_, h4, h5, h6, ?_, by rw [h5, h10]; decide⟩
      · cases hs : σ'.base.state with
        | none => rw [hs] at h3; cases h3
        | some s => rw [hs] at h3; exact ⟨s, rfl, h3⟩
      · show σ'.node.lastState.lastTime ≤ 500
        omega

/-! ## 4. cache files

`Model/CacheDir.lean`: at a clean stop `SaveCache` rewrites eight gob files one after the other; a crash can fall
before, inside or after the save of each; `NewManager` fails when `LoadCache` fails.  What a crash *inside* the save
of a file leaves at its path depends on how `saveMapGob` replaces the file, and that is a **regenerated fact**
(`Gen.C04.cacheSaveAtomic`), measured on every run from the **system calls** of the real `SaveToDisk` (run in a child
process under `strace` over an existing directory): no target path is opened for writing, created, truncated, unlinked
or renamed away (`cacheSaveNoTruncateInPlace`); every target path is only the destination of a rename from another
path in the same directory (`cacheSaveViaRename`); the renamed file was `fsync`ed after its last write and before the
rename (`cacheSaveSyncBeforeRename`); cross-checked on the outcome (`cacheSaveInodeCheck`: new inode at every path, the
old inodes — held open and hard-linked — byte for byte alone; that alone would also accept remove + create + encode).
So is the fact that `LoadFromDisk` does not look at left-over `.tmp` files (`Gen.C04.cacheLoadIgnoresTmp`).
`CacheDir.tree` is the pair; the compiled driver interprets `restart cut=…` with it.  A save that renames without
syncing first counts as **not** atomic: after a power failure the renamed file may be empty or cut off, the same image
as an in-place truncation.

Trusted to the file system, not proved: `rename(2)` replaces a path atomically, and `fsync` makes the temporary file's
bytes durable before the rename can become durable.  Not claimed: the directory is not `fsync`ed (after a power failure
a finished save may be rolled back to the **old** complete file — an image the model contains); the temporary name is
fixed (`<file>.tmp`; two concurrent saves of one directory are outside the model, `SaveCache` runs once, at stop); the
eight files are not replaced as one consistent set — mixed generations are reachable and are exactly what
`crashImages` ranges over; a cache file that does not decode (disk corruption, not a crash of the node) is still
fatal to start-up (`startWithCaches`, `.loadCache`). -/

open CacheDir

/-- full claim, for a model of `pkg/cache` with the facts `f`: from every durable image of the store satisfying the
disk invariant (so: after every history and every crash point, `C04_cache_after_any_history`) and **every** crash
image of the cache directory — any older versions, the crash anywhere in the save of each file — the restart
succeeds, and is the restart `start` of parts 1–3 -/
def C04_cache_full_for (f : Facts) : Prop :=
  ∀ (c : Cfg) (d : Store) (olds : List OldFile) (pts : List SavePoint), DInv c d →
    ∃ n ws, restartAfterSaveCrash f c d olds pts = .ok (n, ws) ∧ start c d = .ok (n, ws) ∧ Inv c n

/-- partial, for any facts: when files are rewritten in place the crash must not fall inside a write
(`during false`); when they are replaced atomically nothing is excluded -/
theorem C04_cache_partial {f : Facts} {c : Cfg} {d : Store} (hd : DInv c d) (olds : List OldFile)
    (pts : List SavePoint) (ht : f.loadIgnoresTmp = true)
    (hp : f.saveAtomic = false → ∀ p ∈ pts, p ≠ .during false) :
    ∃ n ws, restartAfterSaveCrash f c d olds pts = .ok (n, ws) ∧ start c d = .ok (n, ws) ∧ Inv c n := by
  obtain ⟨n, ws, hst, hi, _⟩ := start_of_dinv hd
  exact ⟨n, ws, startWithCaches_of_loadOK (loadOK_crashImages ht olds pts hp) hst, hst, hi.toInv⟩

/-- **the obligation tying the theorem to the tree**: the compiled `pkg/cache` replaces the cache files atomically and
loads beside left-over `.tmp` files.  `Gen/C04.lean` is regenerated on every run; on a tree that rewrites the files
in place this `decide` fails, the check goes to its search and the monitor `C04/restart-fails/cache-file-truncated`
produces the failing input. -/
theorem C04_tree_saves_atomically : CacheDir.tree = { saveAtomic := true, loadIgnoresTmp := true } := by decide

/-- the components of `Gen.C04.cacheSaveAtomic`, one by one (so that a failing obligation names what changed): the
system calls of the real save — nothing in place, rename only, sync before the rename — and the inode cross-check -/
theorem C04_tree_save_syscalls :
    Gen.C04.cacheSaveNoTruncateInPlace = true ∧ Gen.C04.cacheSaveViaRename = true ∧
    Gen.C04.cacheSaveSyncBeforeRename = true ∧ Gen.C04.cacheSaveInodeCheck = true ∧
    Gen.C04.cacheSaveAtomic = (Gen.C04.cacheSaveNoTruncateInPlace && Gen.C04.cacheSaveViaRename &&
      Gen.C04.cacheSaveSyncBeforeRename && Gen.C04.cacheSaveInodeCheck) := by decide

/-- the files the real `SaveCache` leaves are the eight files of the model, in its order -/
theorem C04_cache_file_names : Gen.C04.cacheFileNames = CacheDir.fileNames := by decide

/-- **C04, cache files, in full — a theorem of the current tree**: wherever the crash fell while the caches were
being saved, the node restarts. -/
theorem C04_cache_full : C04_cache_full_for CacheDir.tree := by
  rw [C04_tree_saves_atomically]
  intro c d olds pts hd
  exact C04_cache_partial hd olds pts rfl (fun h => by cases h)

/-- … and what the crash leaves at every path is the complete old version or the complete new one (never a cut-off
file), possibly with a `.tmp` file beside it -/
theorem C04_cache_image_old_or_new (old : OldFile) (p : SavePoint) :
    (crashImage CacheDir.tree old p).target = old.file ∨ (crashImage CacheDir.tree old p).target = .ok :=
  crashImage_atomic_old_or_new (by rw [C04_tree_saves_atomically]) old p

/-- together with part 2: after **every** history of steps and crashes, a crash after any number `k` of the writes of
the last operation, with any crash image of the cache directory: the restart succeeds -/
theorem C04_cache_after_any_history (c : Cfg) (hpos : 1 ≤ c.initialHeight) (ops : List Op) (k : Nat)
    (olds : List OldFile) (pts : List SavePoint) :
    ∃ σ n ws, runOps c (initSt c) ops = .ok σ ∧
      restartAfterSaveCrash CacheDir.tree c (σ.base.applyPrefix k σ.ws) olds pts = .ok (n, ws) ∧ Inv c n := by
  obtain ⟨σ, hr, hg, _⟩ := runOps_good (good_init c hpos) ops
  obtain ⟨n, ws, h1, _, h3⟩ := C04_cache_full c _ olds pts (hg.cuts k)
  exact ⟨σ, n, ws, hr, h1, h3⟩

/-- the code before the repair (`os.Create` on the target, encode in place): **the full claim is false** — one file
cut short inside its write and the node cannot start any more.  Kept so that the reason stays visible: this is the
model the driver runs, and the input the monitor `C04/restart-fails/cache-file-truncated` finds, on a tree whose
`Gen.C04.cacheSaveAtomic` is `false`. -/
theorem C04_cache_nonatomic_fails : ¬ C04_cache_full_for { saveAtomic := false, loadIgnoresTmp := true } := by
  intro h
  obtain ⟨n, ws, hr, _⟩ := h wCfg {} [.complete, .complete] [.after, .during false] (dinv_empty wCfg (by decide))
  simp [restartAfterSaveCrash, startWithCaches, start_empty, crashImages, crashImage, loadOK] at hr

/-- the same input on the current tree: the second file keeps its old version, a `.tmp` file is left, the node starts -/
example : crashImages CacheDir.tree [.complete, .absent, .complete] [.after, .during false, .before]
    = [{ target := .ok }, { target := .absent, tmp := true }, { target := .ok }] ∧
    crashImages { saveAtomic := false, loadIgnoresTmp := true } [.complete, .absent, .complete] [.after, .during false, .before]
    = [{ target := .ok }, { target := .truncated }, { target := .ok }] := by decide

/-- the sequential crash images the driver builds from `restart cut=<file 2 of 4>`: saved, saved, cut, untouched -/
example : seqPoints 4 2 false = [.after, .after, .during false, .before] := by decide

/-- a `LoadFromDisk` that read the left-over `.tmp` files would fail on the current crash images (why
`cacheLoadIgnoresTmp` is part of the obligation) -/
example : loadOK { saveAtomic := true, loadIgnoresTmp := false }
    (crashImages { saveAtomic := true, loadIgnoresTmp := false } [.complete] [.during false]) = false := by decide

/-! ### stale cache files: a crash that is *not* during a save

A crash outside `SaveCache` leaves the cache directory as the **last clean stop** left it: files of an older
generation than the store image (or none, or the mixed old/new set a cut save left earlier).  What the node reads
from them: `NewManager` → `LoadCache` gob-decodes the eight files, each on its own (no cross-check between files, none
against the store), and fails iff one does not decode.  The contents — cached items of the sync loop, the *seen* sets,
the DA-included marks — are never read by `publishBlockInternal` (it only *adds* the new header hash to the seen set)
nor by `getInitialState`; on an aggregator they are read by the DA includer alone (property C07).  So for the
producer state of this model (`Node`) a restart on stale files is the restart `start` of the store image, whatever
they contain: `startWithCaches` needs `loadOK` only, and every complete file of any generation decodes.  The stream
runs every `crash` on the files of the last clean stop (`crash-restarts-on-stale-cache-files`) and compares. -/

theorem loadOK_untouched (f : Facts) (olds : List OldFile) :
    loadOK f (crashImages f olds (olds.map fun _ => SavePoint.before)) = true := by
  induction olds with
  | nil => simp [crashImages, loadOK]
  | cons o os ih =>
    simp only [crashImages, loadOK, List.map_cons, List.zipWith_cons_cons, List.all_cons, Bool.and_eq_true] at ih ⊢
    refine ⟨?_, ih⟩
    cases o <;> simp [crashImage, OldFile.file]

/-- **a crash outside a save restarts on whatever older generation of cache files is there** — for any `pkg/cache`
(atomic or not): the files are complete files of earlier saves or absent, `LoadCache` accepts them, and the restart is
`start` on the store image -/
theorem C04_cache_stale_generation (f : Facts) {c : Cfg} {d : Store} (hd : DInv c d) (olds : List OldFile) :
    ∃ n ws, restartAfterSaveCrash f c d olds (olds.map fun _ => .before) = .ok (n, ws) ∧ start c d = .ok (n, ws) ∧
      Inv c n := by
  obtain ⟨n, ws, hst, hi, _⟩ := start_of_dinv hd
  exact ⟨n, ws, startWithCaches_of_loadOK (loadOK_untouched f olds) hst, hst, hi.toInv⟩

/-! ## non-vacuity -/

/-- a history with a crash after the early save of the third block, a crash during the restart, a further step, a
crash in the window between `updateState` and `setHeight` (the former bad cut), a crash during *that* restart
before its `setHeight`, a crash between two operations, and one more step: it ends with five committed blocks on a
restarted node whose state height is its chain height -/
def gOps : List Op := wOps ++ [.crash 2, .crash 0, .step (.batch [[5]] 600 []) .ok, .step (.batch [[6]] 700 []) .ok,
  .crash 4, .crash 0, .crash 7, .step (.batch [[7]] 800 []) .ok]

example : (match runOps wCfg (initSt wCfg) gOps with
     | .ok σ => some (σ.node.store.height, σ.node.lastState.lastHeight)
     | .error _ => none) = some (5, 5) := by decide +kernel

/-- `C04_blocks_are_their_batches` at work: block 3 is built from `[[7]]`@400 but the crash keeps only the batch
cursor (block lost), so height 3 is built again from `[[8]]`@450, early-saved, execution fails, the node crashes and
restarts with that block waiting, and the answer `[[9]]`@500 commits it: block 3 holds `[[8]]`@450 (position 4) -/
def bOps : List Op := wOps.take 2 ++ [.step (.batch [[7]] 400 []) .ok, .crash 1, .step (.batch [[8]] 450 []) .fail,
  .crash 9, .step (.batch [[9]] 500 []) .ok]

example : (match runOps wCfg (initSt wCfg) bOps with
     | .ok σ => (σ.node.store.getBlock 3).map (fun b => (σ.node.store.height, b.data.txs, b.sh.hdr.time))
     | .error _ => none) = some (3, [[8]], 450) := by decide +kernel

/-- a concrete node with two committed blocks (the witness before its third step) -/
theorem two_blocks : ∃ σ, runOps wCfg (initSt wCfg) (wOps.take 2) = .ok σ ∧ Good wCfg σ ∧
    σ.node.store.height = 2 ∧ σ.node.store.getBlock 3 = none ∧ σ.node.lastState.lastTime = 300 := by
  obtain ⟨σ, hr, hg, _⟩ := runOps_good (good_init wCfg (by decide)) (wOps.take 2)
  have : (match runOps wCfg (initSt wCfg) (wOps.take 2) with
          | .ok σ => (σ.node.store.height, (σ.node.store.getBlock 3).isNone, σ.node.lastState.lastTime)
          | .error _ => (0, false, 0)) = (2, true, 300) := by decide +kernel
  rw [hr] at this
  simp only [Prod.mk.injEq] at this
  refine ⟨σ, hr, hg, this.1, ?_, this.2.2⟩
  cases h : σ.node.store.getBlock 3 with
  | none => rfl
  | some b => rw [h] at this; simp at this

/-- it meets the hypotheses of (b), (c), (d) -/
example : ∃ n, n.store.height = 2 ∧ Live wCfg n ∧ Synced wCfg n ∧ WmOK n.store ∧ DInv wCfg n.store := by
  obtain ⟨σ, _, hg, hh, _⟩ := two_blocks
  exact ⟨σ.node, hh, hg.live, hg.synced, hg.wm, dinv_of_node hg.live hg.synced hg.wm⟩

/-- the window image exists: the old witness restarts from an image with chain height 2 and saved state height 3,
which satisfies the disk invariant (so `C04_disk_inv_window`'s case of `DInv` is inhabited) -/
example : ∃ d : Store, DInv wCfg d ∧ d.height = 2 ∧ ∃ s, d.state = some s ∧ s.lastHeight = 3 := by
  obtain ⟨σ, σ', hr, hop, _, h2, h3, _⟩ := C04_old_witness_recovers
  obtain ⟨σ0, hr0, hg, _⟩ := runOps_good (good_init wCfg (by decide)) wOps
  rw [hr] at hr0; cases hr0
  have hd := hg.cuts 4
  have hb : σ'.base = σ.base.applyPrefix 4 σ.ws := by
    simp only [wCrash, opStep] at hop
    split at hop
    · cases hop
    · cases hop; rfl
  exact ⟨σ'.base, by rw [hb]; exact hd, h2, h3⟩

end Spec.C04
