import Model.DAProxy
import Proofs.C16
import Gen.C16

/-! # C16 — a DA layer behind the JSON-RPC proxy behaves like the same DA layer in-process

`env` is the environment the compiled code presents *now* (`Gen.C16`: go-jsonrpc registry as built by
`getKnownErrorsMapping`, the sentinels' messages and dynamic types), so every `decide` below is
re-checked against /repo on every run.

The full statement (`C16_full`) is false of the current code: the registry registers every sentinel
under the *interface* type `error` (`&coreda.ErrX : *error`), the server looks codes up by the
*dynamic* type, so every error crosses the wire as code 1 and comes back as `*jsonrpc.JSONRPCError`;
`errors.Is(err, sentinel)` is then false for every sentinel.  The `_fails` theorems are the
witnesses, the `_partial` theorems say what survives. -/
namespace Spec.C16
open DAProxy Proofs.C16

/-- the environment of the current tree -/
def env : Env :=
  { reg := { byType := Gen.C16.byType, byCode := Gen.C16.byCode },
    sentMsg := Gen.C16.sentinelMsgs, sentType := Gen.C16.sentinelTypes,
    canceledMsg := Gen.C16.ctxCanceledMsg, tyCtxCanceled := Gen.C16.tyCtxCanceled,
    tyJSONRPCError := Gen.C16.tyJSONRPCError, tyErrClient := Gen.C16.tyErrClient,
    tyWrapError := Gen.C16.tyWrapError, tyPlain := Gen.C16.tyPlain }

/-! ## Facts: the model's tables are the compiled code's tables -/

/-- the status constants have the values the model assumes (registry codes are status codes) -/
theorem status_values : Status.all.map Status.toNat = Gen.C16.statusValues := by decide

/-- the sentinel table lists every `Err*` variable of core/da/errors.go -/
theorem sentinel_table_complete :
    Gen.C16.unknownSentinels = [] ∧ Gen.C16.sentinelsInSource = Sentinel.all.length ∧
    Gen.C16.sentinelMsgs.length = Sentinel.all.length ∧ Gen.C16.sentinelTypes.length = Sentinel.all.length := by
  decide

/-- errors.go registers exactly the status codes the sentinels are meant to travel under -/
theorem registry_codes_intended :
    (∀ s ∈ Sentinel.all, (lookup (Int.ofNat s.intendedCode.toNat) env.reg.byCode).isSome) ∧
    (∀ c ∈ env.reg.byCode, c.1 > 0 → ∃ s ∈ Sentinel.all, Int.ofNat s.intendedCode.toNat = c.1) := by
  decide

/-- the code the model's server computes for each sentinel is the code observed on the wire -/
theorem wire_code_model :
    Sentinel.all.map (fun s => serverCode env.reg (env.sentinel s)) = Gen.C16.sentinelWireCode ∧
    Gen.C16.sentinelWireMsgKept = Sentinel.all.map (fun _ => true) := by decide

/-- the model's in-process submit classification of each sentinel is the real helper's -/
theorem direct_submit_model :
    Sentinel.all.map (fun s => (submitHelper 1 1 (.error (env.sentinel s))).code.toNat) = Gen.C16.sentinelDirectSubmit := by
  decide

/-- a fresh client carries the limit of `internal.DefaultMaxBytes`, which is positive -/
theorem default_limit : Gen.C16.defaultMaxBlobSize = Gen.C16.hookDefaultMaxBlobSize ∧ 0 < Gen.C16.defaultMaxBlobSize := by
  decide

/-- **no deadline of the HTTP server covers the handler run.**  `net/http` arms `WriteTimeout` when the request
header has been read (`conn.readRequest`: `c.rwc.SetWriteDeadline(time.Now().Add(d))`) and `ReadTimeout` when the
request starts to be read; neither is "time spent writing/reading": both keep running while the handler - the DA call -
executes.  The handler is not cancelled when such a deadline passes: the DA layer completes the call, stores the
blobs and returns the ids, and only then the response write fails; the client sees `EOF` for a call that succeeded
(in-process the caller simply waits and gets the ids), so the node submits accepted blobs again.  DA submissions
legitimately take long (inclusion in a DA block; the node budgets 60 s, block/submitter.go), so for the proxied DA
layer to behave like the in-process one both must be off (0 = none) and the handler must not be an
`http.TimeoutHandler`.  `ReadHeaderTimeout` ends when the header has been read and `IdleTimeout` only runs between
requests: neither covers a handler run; their values are pinned.  Read from the real `*http.Server` inside the value
`proxy.NewServer` returns, on every run. -/
theorem server_no_handler_deadline :
    Gen.C16.serverWriteTimeout = 0 ∧ Gen.C16.serverReadTimeout = 0 ∧ Gen.C16.serverHandlerIsTimeoutHandler = false := by
  decide

/-- today's values of the deadlines that do not cover the handler: 2 s for the request header, no idle limit -/
theorem server_other_timeouts : Gen.C16.serverReadHeaderTimeout = 2000000000 ∧ Gen.C16.serverIdleTimeout = 0 := by decide

/-- `RetrieveWithHelpers` fetches in chunks of 100 ids and keeps every blob -/
theorem chunking_250 : chunkSizes 250 = Gen.C16.getChunks250 ∧ (chunkSizes 250).sum = Gen.C16.retrieve250Blobs := by decide

/-- the message texts the model prepends are the real helper's / client wrapper's -/
theorem message_prefixes :
    Bytes.ofString "failed to get IDs: " = Gen.C16.getIDsErrPrefix ∧
    Bytes.ofString "failed to get blobs for batch " ++ natBytes 0 ++ Bytes.ofString "-" ++ natBytes 0 ++ Bytes.ofString ": " = Gen.C16.getErrPrefix0 ∧
    Gen.C16.getErrPrefix0 ++ Bytes.ofString "failed to get blobs: " = Gen.C16.getErrPrefix0Proxied := by
  decide +kernel

/-! ## Classification across the wire -/

/-- what the node's submit helper reports when a submission that passed the size rule is answered
with error `e` by the DA layer — in-process … -/
def directSubmitErr (e : GoErr) : SubmitResult := submitHelper 1 1 (.error e)
/-- … and behind the proxy -/
def proxiedSubmitErr (env : Env) (e : GoErr) : SubmitResult := submitHelper 1 1 (clientSubmitReply env (.error e))

def SubmitPreserved (env : Env) (e : GoErr) : Prop := proxiedSubmitErr env e = directSubmitErr e

instance (env : Env) (e : GoErr) : Decidable (SubmitPreserved env e) := by unfold SubmitPreserved; infer_instance

/-- the node's retrieve helper on a `GetIDs` failure `e`, proxied vs in-process: same status and the
same verdict of block/retriever.go -/
def RetrieveIdsPreserved (env : Env) (e : GoErr) : Prop :=
  (proxiedRetrieve env false (.error e) (fun _ n => .ok n)).code = (directRetrieve env (.error e) (fun _ n => .ok n)).code ∧
  fetchOutcome env (proxiedRetrieve env false (.error e) (fun _ n => .ok n)) = fetchOutcome env (directRetrieve env (.error e) (fun _ n => .ok n))

instance (env : Env) (e : GoErr) : Decidable (RetrieveIdsPreserved env e) := by unfold RetrieveIdsPreserved; infer_instance

/-- the same for a failure of the `Get` call of chunk 0 -/
def RetrieveGetPreserved (env : Env) (e : GoErr) : Prop :=
  (proxiedRetrieve env false (.ok (.ids 3)) (fun _ _ => .error e)).code = (directRetrieve env (.ok (.ids 3)) (fun _ _ => .error e)).code ∧
  fetchOutcome env (proxiedRetrieve env false (.ok (.ids 3)) (fun _ _ => .error e)) = fetchOutcome env (directRetrieve env (.ok (.ids 3)) (fun _ _ => .error e))

instance (env : Env) (e : GoErr) : Decidable (RetrieveGetPreserved env e) := by unfold RetrieveGetPreserved; infer_instance

/-- the error values the property speaks about: every sentinel of the DA interface, bare or wrapped
by `fmt.Errorf("…%w…")`, and `context.Canceled` -/
def interfaceErrors (env : Env) : List GoErr :=
  Sentinel.all.map env.sentinel ++
  Sentinel.all.map (fun s => env.wrap (Bytes.ofString "da: ") (Bytes.ofString ": requested 7, current 3") (env.sentinel s)) ++
  [env.ctxCanceled]

/-- **The property, classification half, at full strength**: every error the DA interface defines is
classified identically in-process and behind the proxy, on every path. -/
def C16_full (env : Env) : Prop :=
  ∀ e ∈ interfaceErrors env, SubmitPreserved env e ∧ RetrieveIdsPreserved env e ∧ RetrieveGetPreserved env e

/-! ### it fails: one witness per sentinel that loses its identity -/

/-- the error of a reply, if any -/
def errOf {α} : Except GoErr α → Option GoErr
  | .error e => some e
  | .ok _ => none

/-- after the wire every sentinel still arrives as an error, but none is recognisable by `errors.Is`
any more (registration by `*error`) -/
theorem C16_identity_lost :
    Sentinel.all.map (fun s => (errOf (clientSubmitReply env (.error (env.sentinel s)))).map (fun r => r.is (.da s))) =
      Sentinel.all.map (fun _ => some false) := by
  decide

theorem C16_submit_tooBig_from_server_fails : ¬ SubmitPreserved env (env.sentinel .blobSizeOverLimit) := by decide
theorem C16_submit_timedOut_fails : ¬ SubmitPreserved env (env.sentinel .txTimedOut) := by decide
theorem C16_submit_alreadyInMempool_fails : ¬ SubmitPreserved env (env.sentinel .txAlreadyInMempool) := by decide
theorem C16_submit_incorrectAccountSequence_fails : ¬ SubmitPreserved env (env.sentinel .txIncorrectAccountSequence) := by decide
theorem C16_submit_contextDeadline_fails : ¬ SubmitPreserved env (env.sentinel .contextDeadline) := by decide
/-- the other direction: `ErrContextCanceled` is a generic error in-process (types/da.go has no case
for it) but its text makes the client wrapper return `context.Canceled` -/
theorem C16_submit_contextCanceledSentinel_fails : ¬ SubmitPreserved env (env.sentinel .contextCanceled) := by decide

/-- what the proxied classification is for each of them: timed-out / in-mempool / bad-sequence /
too-big-from-the-server / deadline all collapse to the generic `error` -/
theorem C16_collapse_to_generic_error :
    ∀ s ∈ [Sentinel.blobSizeOverLimit, .txTimedOut, .txAlreadyInMempool, .txIncorrectAccountSequence, .contextDeadline],
      (proxiedSubmitErr env (env.sentinel s)).code = .error ∧ (directSubmitErr (env.sentinel s)).code ≠ .error := by
  decide

theorem C16_full_fails : ¬ C16_full env := by
  intro h
  exact C16_submit_timedOut_fails (h (env.sentinel .txTimedOut) (by decide)).1

/-- exactly which interface errors keep their submit classification (complete table, `decide`) -/
theorem C16_submit_table :
    (interfaceErrors env).map (fun e => decide (SubmitPreserved env e)) =
      [true, false, false, false, false, false, true, false,      -- bare: only not-found / from-future (generic both sides)
       true, false, false, false, false, false, true, false,      -- wrapped: the same
       true] := by                                                 -- context.Canceled
  decide +kernel

/-! ### what survives -/

/-- **partial (retrieval side)**: every interface error, on `GetIDs` and on `Get`, gets the same status
and the same retriever verdict behind the proxy ('nothing at this height', 'height from the future'
included) — the classifiers there match on the text, and the text survives. -/
theorem C16_retrieve_partial :
    ∀ e ∈ interfaceErrors env, RetrieveIdsPreserved env e ∧ RetrieveGetPreserved env e := by
  decide +kernel

/-- what the two retrieval sentinels are classified as (so that the agreement is not vacuous) -/
theorem C16_retrieve_classes :
    (proxiedRetrieve env false (.error (env.sentinel .blobNotFound)) (fun _ n => .ok n)).code = .notFound ∧
    (proxiedRetrieve env false (.error (env.sentinel .heightFromFuture)) (fun _ n => .ok n)).code = .heightFromFuture ∧
    fetchOutcome env (proxiedRetrieve env false (.error (env.sentinel .heightFromFuture)) (fun _ n => .ok n)) = .future := by
  decide

/-- **partial (cancellation)**: `context.Canceled` returned by the DA layer, and a call made with a
cancelled context, are classified as cancelled on both sides -/
theorem C16_cancellation_partial :
    SubmitPreserved env env.ctxCanceled ∧ (proxiedSubmitErr env env.ctxCanceled).code = .contextCanceled ∧
    (∀ (blobs : List Nat) (max h : Nat) (backing : List Nat → Except GoErr Nat) (bs : List Nat),
       filterBlobs id max blobs = .send bs →
       (proxiedSubmit env id max blobs h true backing).1.code = .contextCanceled) := by
  refine ⟨by decide, by decide, ?_⟩
  intro blobs max h backing bs hf
  have hc : remapCanceled env env.canceledTransport = env.ctxCanceled := by decide +kernel
  simp [proxiedSubmit, clientSubmit, hf, hc, submitHelper]
  decide

/-- retrieval classification of *any* `GetIDs` error text is preserved, whatever the message, as long
as its dynamic type is not a registered one (today only the interface type `error` is, which no value
has): generalises the table above to all errors -/
theorem C16_retrieve_ids_any_message (e : GoErr) (hty : lookup e.dynType env.reg.byType = none) :
    (proxiedRetrieve env false (.error e) (fun _ n => .ok n)).code = (directRetrieve env (.error e) (fun _ n => .ok n)).code := by
  have h1 : lookup (1 : Int) env.reg.byCode = none := by decide
  have hnf : contains env.canceledMsg (env.msgOf .blobNotFound) = false := by decide
  have hff : contains env.canceledMsg (env.msgOf .heightFromFuture) = false := by decide
  have hm : (env.ctxCanceled).msg = env.canceledMsg := rfl
  simp only [proxiedRetrieve, directRetrieve, retrieveHelper, stub, transport, serverCode, hty, Option.getD,
    clientDecode, h1, rpcMessage, Bool.false_eq_true, if_false]
  have hr : ¬ ((-32768 : Int) ≤ 1 ∧ (1 : Int) ≤ -32000) := by decide
  simp only [hr, if_false, clientGetIDs]
  by_cases a : contains e.msg (env.msgOf .blobNotFound) = true
  · simp [a, retrieveIdsErrStatus]
  · by_cases b : contains e.msg (env.msgOf .heightFromFuture) = true
    · simp [a, b, retrieveIdsErrStatus]
    · by_cases c : contains e.msg env.canceledMsg = true
      · simp [a, b, c, retrieveIdsErrStatus, hm, hnf, hff]
      · simp [a, b, c, retrieveIdsErrStatus]

/-! ## The size rule — for all blob lists and all limits -/

/-- **the client sends the longest prefix that fits**: whenever a call reaches the server, the blobs it
carries are a non-empty prefix of the request, fit the limit, and the next blob of the request (if
any) would not fit; no prefix with these properties is different (`longest_prefix_unique`). -/
theorem C16_sends_longest_prefix {α} (size : α → Nat) (max : Nat) (blobs sent : List α) (cancelled : Bool)
    (backing : List α → Except GoErr Nat)
    (h : (clientSubmit env size max blobs cancelled backing).2 = some sent) :
    sent ≠ [] ∧ ∃ rest, blobs = sent ++ rest ∧ total size sent ≤ max ∧
      (∀ r rest', rest = r :: rest' → total size sent + size r > max) ∧
      (∀ other orest, blobs = other ++ orest → total size other ≤ max →
         (∀ r rest', orest = r :: rest' → total size other + size r > max) → other = sent) := by
  unfold clientSubmit at h
  split at h
  · cases h
  · cases h
  · rename_i bs hf
    split at h
    · cases h
    · simp at h
      subst h
      obtain ⟨hne, _, rest, hpre, hfit, hnext⟩ := filter_send size max blobs bs hf
      refine ⟨hne, rest, hpre, hfit, hnext, ?_⟩
      intro other orest ho hof hon
      exact longest_prefix_unique size max blobs other bs orest rest ho hpre hof hfit hon hnext

/-- **an oversize blob in the examined prefix ⇒ error and nothing sent**: if some blob is larger than
the limit and everything before it fits, the call is refused with `ErrBlobSizeOverLimit` (the real
sentinel: classified too-big), nothing reaches the server and nothing counts as submitted. -/
theorem C16_oversize_refused {α} (size : α → Nat) (max : Nat) (pre : List α) (r : α) (rest : List α)
    (hfit : total size pre ≤ max) (hov : size r > max) (h : Nat) (cancelled : Bool)
    (backing : List α → Except GoErr Nat) :
    proxiedSubmit env size max (pre ++ r :: rest) h cancelled backing =
      ({ code := .tooBig, count := 0, nids := 0, height := 0 }, none) := by
  have hf : filterBlobs size max (pre ++ r :: rest) = .tooBig :=
    (filter_tooBig_iff size max _).2 ⟨pre, r, rest, rfl, hfit, hov⟩
  have hs : submitHelper (pre ++ r :: rest).length h (.error (env.sentinel .blobSizeOverLimit)) =
      { code := .tooBig, count := 0, nids := 0, height := 0 } := by
    simp only [submitHelper]
    decide
  simp only [proxiedSubmit, clientSubmit, hf, hs]

/-- conversely the client refuses *only* then: a too-big verdict without a call means such a blob exists -/
theorem C16_refused_only_if_oversize {α} (size : α → Nat) (max : Nat) (blobs : List α)
    (h : filterBlobs size max blobs = .tooBig) :
    ∃ pre r rest, blobs = pre ++ r :: rest ∧ total size pre ≤ max ∧ size r > max :=
  (filter_tooBig_iff size max blobs).1 h

/-- **SubmittedCount = #ids ≤ #sent ≤ #requested, and only blobs that were sent are counted**: for any
backing DA that returns at most one id per blob it received, the count the node sees equals the
number of ids, and the first `count` blobs of the request are exactly the first `count` blobs sent. -/
theorem C16_count_bounds {α} (size : α → Nat) (max : Nat) (blobs : List α) (h : Nat) (cancelled : Bool)
    (backing : List α → Except GoErr Nat) (hb : ∀ l k, backing l = .ok k → k ≤ l.length) :
    let r := proxiedSubmit env size max blobs h cancelled backing
    r.1.count = r.1.nids ∧ r.1.count ≤ blobs.length ∧
    (r.1.count > 0 → ∃ sent, r.2 = some sent ∧ r.1.count ≤ sent.length ∧ blobs.take r.1.count = sent.take r.1.count) := by
  have hcnt : ∀ n (x : Except GoErr Nat), (submitHelper n h x).count = (submitHelper n h x).nids := by
    intro n x
    cases x with
    | error e => simp only [submitHelper]; split <;> rfl
    | ok k => simp only [submitHelper]; split <;> rfl
  have hpos : ∀ n (x : Except GoErr Nat), (submitHelper n h x).count > 0 → x = .ok (submitHelper n h x).count := by
    intro n x hx
    cases x with
    | error e => simp only [submitHelper] at hx; split at hx <;> simp at hx
    | ok k =>
      simp only [submitHelper] at hx ⊢
      split
      · rename_i hk; simp [hk] at hx
      · rfl
  have hreply : ∀ (x : Except GoErr Nat) k, clientSubmitReply env x = .ok k → k > 0 → x = .ok k := by
    intro x k hx hk
    cases x with
    | ok k' => simp [clientSubmitReply, stub] at hx; rw [hx]
    | error e =>
      simp only [clientSubmitReply, stub] at hx
      split at hx
      · rename_i heq
        split at heq
        · simp at heq hx; omega
        · cases heq
      · cases hx
  -- a positive number of ids can only come from a call that reached the server
  have hcall : ∀ k, k > 0 → (clientSubmit env size max blobs cancelled backing).1 = .ok k →
      ∃ sent rest, (clientSubmit env size max blobs cancelled backing).2 = some sent ∧ k ≤ sent.length ∧ blobs = sent ++ rest := by
    intro k hk0 hk
    unfold clientSubmit at hk ⊢
    cases hf : filterBlobs size max blobs with
    | tooBig => simp only [hf] at hk; cases hk
    | nothing => simp only [hf] at hk; injection hk with hk; omega
    | send bs =>
      simp only [hf] at hk ⊢
      cases cancelled with
      | true => simp at hk
      | false =>
        simp only [Bool.false_eq_true, if_false] at hk ⊢
        have hle := hb bs k (hreply _ _ hk hk0)
        obtain ⟨_, _, rest, hpre, _⟩ := filter_send size max blobs bs hf
        exact ⟨bs, rest, rfl, hle, hpre⟩
  intro r
  have hr1 : r.1 = submitHelper blobs.length h (clientSubmit env size max blobs cancelled backing).1 := rfl
  have hr2 : r.2 = (clientSubmit env size max blobs cancelled backing).2 := rfl
  refine ⟨by rw [hr1]; exact hcnt _ _, ?_, ?_⟩
  · by_cases hz : r.1.count > 0
    · rw [hr1] at hz
      obtain ⟨sent, rest, _, hle, hpre⟩ := hcall _ hz (hpos _ _ hz)
      rw [hr1, hpre]
      rw [hpre] at hle
      simp at hle ⊢
      omega
    · omega
  · intro hz
    rw [hr1] at hz
    obtain ⟨sent, rest, hs, hle, hpre⟩ := hcall _ hz (hpos _ _ hz)
    refine ⟨sent, by rw [hr2]; exact hs, by rw [hr1]; exact hle, ?_⟩
    rw [hr1]
    generalize (submitHelper blobs.length h (clientSubmit env size max blobs cancelled backing).1).count = c at hle ⊢
    rw [hpre, List.take_append_of_le_length hle]

/-- **client-side too-big is exact (partial → full for a DA with the same limit)**: for DummyDA
(core/da/dummy.go) with limit `max` behind a client with limit `max`, the node's submit result is the
same as calling DummyDA in-process — for every blob list and every limit, including the too-big
classification (the client raises the real sentinel). -/
theorem C16_dummy_same_limit_equiv {α} (size : α → Nat) (max : Nat) (blobs : List α) (h : Nat) :
    (proxiedSubmit env size max blobs h false (dummySubmit env size max)).1 =
      directSubmit blobs h (dummySubmit env size max) := by
  have hd := dummyScan_eq_scan size max blobs 0
  simp only [proxiedSubmit, directSubmit, clientSubmit]
  cases hf : filterBlobs size max blobs with
  | tooBig =>
    obtain ⟨pre, r, rest, heq, hfit, hov⟩ := (filter_tooBig_iff size max blobs).1 hf
    have h2 := (scan_oversize_iff size max blobs 0 (Nat.zero_le _)).2 ⟨pre, r, rest, heq, by omega, hov⟩
    simp [dummySubmit, hd, h2]
  | nothing =>
    have hb := (filter_nothing_iff size max blobs).1 hf
    subst hb
    simp [dummySubmit, dummyScan]
  | send bs =>
    obtain ⟨hne, h20, rest, hpre, hfit, _⟩ := filter_send size max blobs bs hf
    have hbs : (scan size max 0 blobs).1 = bs := by
      unfold filterBlobs at hf
      simp only at hf
      split at hf
      · cases hf
      · split at hf
        · split at hf <;> cases hf
        · injection hf
    have hall := dummyScan_all_fit size max bs 0 (by omega)
    simp [dummySubmit, hd, h20, hbs, hall, clientSubmitReply, stub]

/-! ## Cancellation in the middle of a call, and two callers on one client -/

/-- **a cancellation crosses the wire**: when the caller gives up while the DA layer is working on the batch `bs`
the client sent, the proxied side is indistinguishable from the in-process call on `bs`: the caller is told
`canceled`, the DA layer learns of the cancellation, and it holds nothing afterwards — so the blob the caller
will submit again is not already there. -/
theorem C16_midcall_cancel_equiv {α} (size : α → Nat) (max : Nat) (blobs bs : List α) (h : Nat)
    (hf : filterBlobs size max blobs = .send bs) :
    let p := proxiedMidCall env size max blobs true
    let d := directMidCall env bs true
    (submitHelper blobs.length h p.result).code = .contextCanceled ∧
    (submitHelper bs.length h d.result).code = .contextCanceled ∧
    p.reached = some bs ∧ d.reached = some bs ∧
    p.sawCancel = true ∧ d.sawCancel = true ∧ p.stored = [] ∧ d.stored = [] := by
  have hc : remapCanceled env env.canceledTransport = env.ctxCanceled := by decide +kernel
  have hi : env.ctxCanceled.is .ctxCanceled = true := by decide +kernel
  simp [proxiedMidCall, directMidCall, waitingDA, hf, hc, submitHelper, hi]

/-- a call that is not cancelled completes identically: same count, same contents, no cancellation seen -/
theorem C16_midcall_complete_equiv {α} (size : α → Nat) (max : Nat) (blobs bs : List α)
    (hf : filterBlobs size max blobs = .send bs) :
    let p := proxiedMidCall env size max blobs false
    let d := directMidCall env bs false
    p.result = .ok bs.length ∧ d.result = .ok bs.length ∧ p.reached = some bs ∧
    p.sawCancel = false ∧ d.sawCancel = false ∧ p.stored = bs ∧ d.stored = bs := by
  simp [proxiedMidCall, directMidCall, waitingDA, hf, clientSubmitReply, stub]

/-- whoever is told `canceled` finds nothing of that call on the DA layer (all inputs, cancelled or not) -/
theorem C16_told_canceled_nothing_stored {α} (size : α → Nat) (max : Nat) (blobs : List α) (h : Nat) (mid : Bool)
    (ht : (submitHelper blobs.length h (proxiedMidCall env size max blobs mid).result).code = .contextCanceled) :
    (proxiedMidCall env size max blobs mid).stored = [] := by
  cases mid with
  | true =>
    unfold proxiedMidCall
    split <;> simp [waitingDA]
  | false =>
    unfold proxiedMidCall at ht ⊢
    split at ht
    · simp
    · simp
    · rename_i bs hf
      simp only [waitingDA, Bool.false_eq_true, if_false, clientSubmitReply, stub, submitHelper] at ht
      split at ht <;> simp at ht

/-- **overlapping calls on one client keep their own blobs**: under every interleaving of the phases of two
`SubmitWithOptions` calls (any schedule, any inputs), what a request carries is exactly what the same call
sends when it is alone — the longest fitting prefix of its own caller's blobs (`C16_sends_longest_prefix`) —
whatever the other call does in between. -/
theorem C16_concurrent_requests_own_batch {α} (size : α → Nat) (max : Nat) (inA inB : List α) (sched : List Phase)
    (backing : List α → Except GoErr Nat) :
    (∀ l, (Calls.run size max inA inB sched).wireA = some l → (clientSubmit env size max inA false backing).2 = some l) ∧
    (∀ l, (Calls.run size max inA inB sched).wireB = some l → (clientSubmit env size max inB false backing).2 = some l) := by
  have h := callsOwn_foldl size max inA inB sched {} ⟨by simp, by simp, by simp, by simp⟩
  obtain ⟨_, _, h3, h4⟩ := h
  exact ⟨fun l hl => by simp [clientSubmit, h3 l hl], fun l hl => by simp [clientSubmit, h4 l hl]⟩

/-! ## Non-vacuity -/

/-- a batch over the limit: 5+5 fit, the third blob does not; exactly two are sent and counted -/
example : proxiedSubmit env id 10 [5, 5, 1] 3 false (fun l => .ok l.length) =
    ({ code := .success, count := 2, nids := 2, height := 3 }, some [5, 5]) := by decide
/-- partial acceptance by the DA layer: one id ⇒ one blob counted -/
example : (proxiedSubmit env id 10 [5, 5, 1] 3 false (fun _ => .ok 1)).1.count = 1 := by decide
/-- an oversize blob after a fitting one: refused, nothing sent -/
example : proxiedSubmit env id 10 [6, 20, 3] 3 false (fun l => .ok l.length) =
    ({ code := .tooBig, count := 0, nids := 0, height := 0 }, none) := by decide
/-- an oversize blob beyond the point where the prefix stops is not examined -/
example : (proxiedSubmit env id 10 [6, 6, 20] 3 false (fun l => .ok l.length)).2 = some [6] := by decide
/-- the hypotheses of `C16_count_bounds` and `C16_sends_longest_prefix` are satisfiable -/
example : ∃ sent, (clientSubmit env id 10 [5, 5, 1] false (fun l => .ok l.length)).2 = some sent := ⟨[5, 5], by decide⟩
/-- the witness in numbers: in-process `notincluded`, behind the proxy `error` -/
example : (directSubmitErr (env.sentinel .txTimedOut)).code = .notIncludedInBlock ∧
    (proxiedSubmitErr env (env.sentinel .txTimedOut)).code = .error := by decide
/-- the hypothesis of `C16_retrieve_ids_any_message` holds for every interface error -/
example : ∀ e ∈ interfaceErrors env, lookup e.dynType env.reg.byType = none := by decide
/-- empty ids ⇒ not found (client.go:79-82) -/
example : (proxiedRetrieve env false (.ok (.ids 0)) (fun _ n => .ok n)).code = .notFound ∧
    (proxiedRetrieve env false (.ok .nilRes) (fun _ n => .ok n)).code = .notFound ∧
    errOf (clientGetIDs env (.ok (.ids 0))) = some (env.sentinel .blobNotFound) := by decide
/-- a successful retrieval of 250 ids is fetched as 100+100+50 and returns 250 blobs on both sides -/
example : proxiedRetrieve env false (.ok (.ids 250)) (fun _ n => .ok n) = directRetrieve env (.ok (.ids 250)) (fun _ n => .ok n) ∧
    (proxiedRetrieve env false (.ok (.ids 250)) (fun _ n => .ok n)).nblobs = 250 := by decide

/-- the seeded interleaving (A packs, B runs from start to end, A sends): both requests carry their own batch -/
example : (Calls.run id 64 [8, 8, 8] [6, 6] schedStub).wireA = some [8, 8, 8] ∧
    (Calls.run id 64 [8, 8, 8] [6, 6] schedStub).wireB = some [6, 6] ∧
    (Calls.run id 20 [8, 8, 8] [6, 6, 30] schedDA).wireA = some [8, 8] ∧
    (Calls.run id 20 [8, 8, 8] [6, 6, 30] schedDA).wireB = none := by decide
/-- cancelling in the middle: told canceled, seen by the DA layer, nothing stored — on both sides -/
example : (proxiedMidCall env id 5 [3, 4] true).reached = some [3] ∧ (proxiedMidCall env id 5 [3, 4] true).sawCancel = true ∧
    (proxiedMidCall env id 5 [3, 4] true).stored = [] ∧ (directMidCall env [3] true).stored = ([] : List Nat) ∧
    (proxiedMidCall env id 5 [3, 4] false).stored = [3] := by decide

end Spec.C16
