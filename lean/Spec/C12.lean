import Model.Wire
import Gen.C12

/-! # C12 — property theorems (wire encodings round-trip, hashes stable, decoders total) -/
namespace Spec.C12
open Wire

/-! ## Golden vectors: the model's bytes and hashes for fixed values equal what the code produces
now (`Gen.C12`, regenerated from /repo on every run; the check script also compares `Gen.C12` with
the copy committed from the pinned tree). -/

def gHeader : Header :=
  { version := { block := 1, app := 2 }, height := 7, time := 1700000000000000000,
    lastHeaderHash := List.replicate 32 0x11, dataHash := List.replicate 32 0x22,
    consensusHash := List.replicate 32 0, appHash := Bytes.ofString "app-hash",
    proposerAddress := Gen.C12.goldenAddr, validatorHash := List.replicate 32 0x33,
    chainId := "golden-chain" }

def gData : Data :=
  { metadata := some { chainId := "golden-chain", height := 7, time := 1700000000000000000,
                       lastDataHash := List.replicate 32 0x44 },
    txs := [Bytes.ofString "tx-one", [], Bytes.ofString "tx-three"] }

def gSigner : Signer := { address := Gen.C12.goldenAddr, pubKey := Gen.C12.goldenPubKey }
def gSignedHeader : SignedHeader := { header := gHeader, signature := List.replicate 64 0x55, signer := gSigner }
def gSignedData : SignedData := { data := gData, signature := List.replicate 64 0x66, signer := gSigner }

theorem golden_header_bytes : gHeader.encode = Gen.C12.headerBytes := by decide +kernel
theorem golden_header_hash : gHeader.hash = Gen.C12.headerHash := by decide +kernel
theorem golden_zero_header_bytes : ({} : Header).encode = Gen.C12.zeroHeaderBytes := by decide +kernel
theorem golden_zero_header_hash : ({} : Header).hash = Gen.C12.zeroHeaderHash := by decide +kernel
theorem golden_data_bytes : gData.encode = Gen.C12.dataBytes := by decide +kernel
theorem golden_data_hash : gData.hash = Gen.C12.dataHash := by decide +kernel
theorem golden_data_commitment : gData.daCommitment = Gen.C12.dataCommitment := by decide +kernel
theorem golden_signed_header_bytes : gSignedHeader.encode = Gen.C12.signedHeaderBytes := by decide +kernel
theorem golden_signed_data_bytes : gSignedData.encode = Gen.C12.signedDataBytes := by decide +kernel
theorem golden_empty_data_bytes : ({} : Data).encode = Gen.C12.emptyDataBytes := by decide +kernel
theorem golden_empty_commitment : emptyDataHash = Gen.C12.emptyDataCommitment := by decide +kernel
/-- the constant `dataHashForEmptyTxs` compiled into the node is the commitment of the empty data -/
theorem golden_empty_constant : emptyDataHash = Gen.C12.dataHashForEmptyTxs := by decide +kernel

end Spec.C12
