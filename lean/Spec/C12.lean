import Model.Wire
import Model.WireState
import Gen.C12
import Proofs.WireTyped
import Proofs.WireCanon
import Proofs.WireBatch
import Proofs.WireState
import Drv.C12

/-! # C12 — property theorems (wire encodings round-trip, hashes stable, decoders total) -/
namespace Spec.C12
open Wire

/-! ## Golden vectors: the model's bytes and hashes for fixed values equal what the code produces
now (`Gen.C12`, regenerated from /repo on every run; the check script also compares `Gen.C12` with
the copy committed from the pinned tree). -/

def gHeader : Header :=
  { version := { block := 1, app := 2 }, height := 7, time := 1700000000000000000,
    lastHeaderHash := List.replicate 32 0x11, dataHash := List.replicate 32 0x22,
    consensusHash := List.replicate 32 0, appHash := Bytes.ofString "app-hash",
    proposerAddress := Gen.C12.goldenAddr, validatorHash := List.replicate 32 0x33,
    chainId := "golden-chain" }

def gData : Data :=
  { metadata := some { chainId := "golden-chain", height := 7, time := 1700000000000000000,
                       lastDataHash := List.replicate 32 0x44 },
    txs := [Bytes.ofString "tx-one", [], Bytes.ofString "tx-three"] }

def gSigner : Signer := { address := Gen.C12.goldenAddr, pubKey := Gen.C12.goldenPubKey }
def gSignedHeader : SignedHeader := { header := gHeader, signature := List.replicate 64 0x55, signer := gSigner }
def gSignedData : SignedData := { data := gData, signature := List.replicate 64 0x66, signer := gSigner }

theorem golden_header_bytes : gHeader.encode = Gen.C12.headerBytes := by decide +kernel
theorem golden_header_hash : gHeader.hash = Gen.C12.headerHash := by decide +kernel
theorem golden_zero_header_bytes : ({} : Header).encode = Gen.C12.zeroHeaderBytes := by decide +kernel
theorem golden_zero_header_hash : ({} : Header).hash = Gen.C12.zeroHeaderHash := by decide +kernel
theorem golden_data_bytes : gData.encode = Gen.C12.dataBytes := by decide +kernel
theorem golden_data_hash : gData.hash = Gen.C12.dataHash := by decide +kernel
theorem golden_data_commitment : gData.daCommitment = Gen.C12.dataCommitment := by decide +kernel
theorem golden_signed_header_bytes : gSignedHeader.encode = Gen.C12.signedHeaderBytes := by decide +kernel
theorem golden_signed_data_bytes : gSignedData.encode = Gen.C12.signedDataBytes := by decide +kernel
theorem golden_empty_data_bytes : ({} : Data).encode = Gen.C12.emptyDataBytes := by decide +kernel
theorem golden_empty_commitment : emptyDataHash = Gen.C12.emptyDataCommitment := by decide +kernel
/-- the constant `dataHashForEmptyTxs` compiled into the node is the commitment of the empty data -/
theorem golden_empty_constant : emptyDataHash = Gen.C12.dataHashForEmptyTxs := by decide +kernel

/-- the metadata of the golden data on its own (`Metadata.MarshalBinary`) -/
def gMeta : Metadata := { chainId := "golden-chain", height := 7, time := 1700000000000000000, lastDataHash := List.replicate 32 0x44 }
theorem golden_meta_bytes : gMeta.encode = Gen.C12.metaBytes ∧ gData.metadata = some gMeta := by decide +kernel

/-- a header with every field set (the first golden header leaves fields 5 and 9 empty), a maximal
`uint64` and a multi-byte chain id -/
def gFullHeader : Header :=
  { gHeader with version := { block := 2 ^ 64 - 1, app := 300 }, lastCommitHash := List.replicate 32 0x5c,
                 lastResultsHash := List.replicate 32 0x99, chainId := "golden-chain-é" }
theorem golden_full_header_bytes : gFullHeader.encode = Gen.C12.fullHeaderBytes := by decide +kernel
theorem golden_full_header_hash : gFullHeader.hash = Gen.C12.fullHeaderHash := by decide +kernel
theorem golden_full_header_decode : Header.decode Gen.C12.fullHeaderBytes = some gFullHeader := by decide +kernel

/-- states: every field set with non-zero nanoseconds; a time before the epoch (negative seconds are a
10-byte varint); the zero `State{}` (`time.Time{}` is year 1: seconds −62135596800) -/
def gState : State :=
  { version := { block := 11, app := 3 }, chainId := Bytes.ofString "golden-chain", initialHeight := 1,
    lastBlockHeight := 42, lastBlockTime := { sec := 1700000000, nsec := 123456789 }, daHeight := 17,
    lastResultsHash := List.replicate 32 0x77, appHash := Bytes.ofString "app-hash" }
def gStatePreEpoch : State :=
  { version := { block := 11 }, chainId := Bytes.ofString "golden-chain", initialHeight := 5, lastBlockHeight := 4,
    lastBlockTime := { sec := -5, nsec := 999999999 }, daHeight := 1 }
theorem golden_state_bytes : gState.encode? = some Gen.C12.stateBytes := by decide +kernel
theorem golden_state_decode : State.decode Gen.C12.stateBytes = some gState := by decide +kernel
theorem golden_state_pre_epoch_bytes : gStatePreEpoch.encode? = some Gen.C12.statePreEpochBytes := by decide +kernel
theorem golden_state_pre_epoch_decode : State.decode Gen.C12.statePreEpochBytes = some gStatePreEpoch := by decide +kernel
theorem golden_state_zero_bytes : ({} : State).encode? = some Gen.C12.stateZeroBytes := by decide +kernel
theorem golden_state_zero_decode : State.decode Gen.C12.stateZeroBytes = some {} := by decide +kernel

/-- cache files (`pkg/cache` `SaveToDisk`, `items_by_height.gob` of a cache holding the golden signed
header / the golden data at height 7): the gob framing is pinned as bytes (`golden/C12.lean`) and not
modelled; what is proved is that the file ends with exactly the value's own `MarshalBinary` bytes —
gob stores a `BinaryMarshaler` as the bytes it returns. -/
theorem golden_cache_header_file :
    Gen.C12.cacheHeaderItemsFile.drop (Gen.C12.cacheHeaderItemsFile.length - gSignedHeader.encode.length) =
      gSignedHeader.encode := by decide +kernel
theorem golden_cache_data_file :
    Gen.C12.cacheDataItemsFile.drop (Gen.C12.cacheDataItemsFile.length - gData.encode.length) = gData.encode := by
  decide +kernel

/-! ## 1. Varints (`protowire.AppendVarint` / `ConsumeVarint`) -/

/-- every `uint64` round-trips, whatever follows it -/
theorem varint_roundtrip (n : Nat) (rest : Bytes) (h : n < 2 ^ 64) :
    decVarint (encVarint n ++ rest) = some (n, rest) := decVarint_encVarint n rest h
example : decVarint (encVarint (2 ^ 64 - 1) ++ [7, 8]) = some (2 ^ 64 - 1, [7, 8]) :=
  varint_roundtrip _ _ (by decide)

theorem varint_length (n : Nat) : (encVarint n).length ≤ 10 := encVarint_length_le n
example : (encVarint (2 ^ 64 - 1)).length = 10 := by decide

/-- what `ConsumeVarint` accepts is a `uint64`, it consumes at least one byte, and the canonical
encoding of the value is not longer than what was consumed -/
theorem varint_decoded_in_range {bs : Bytes} {n : Nat} {r : Bytes} (h : decVarint bs = some (n, r)) :
    n < 2 ^ 64 ∧ r.length < bs.length ∧ (encVarint n).length + r.length ≤ bs.length :=
  ⟨(decVarint_bound h).1, (decVarint_bound h).2, decVarint_enc_length h⟩
example : decVarint [0x80, 0x00, 9] = some (0, [9]) := by decide   -- a non-canonical (padded) zero

/-! ## 2. Raw field layer -/

/-- a list of well-formed fields (number in `[1, 2^29-1]`, varint `< 2^64`, fixed widths exact,
payload length `< 2^64`) is parsed back exactly -/
theorem raw_roundtrip (fs : List Field) (h : ∀ f ∈ fs, WF f) : decFields (encFields fs) = some fs :=
  decFields_encFields fs h
example : decFields (encFields [(1, .varint 300), (536870911, .len [1, 2]), (7, .i64 (List.replicate 8 9)),
    (1, .i32 [1, 2, 3, 4]), (2, .len [])]) =
    some [(1, .varint 300), (536870911, .len [1, 2]), (7, .i64 (List.replicate 8 9)), (1, .i32 [1, 2, 3, 4]), (2, .len [])] :=
  raw_roundtrip _ (by decide)

/-- whatever the parser accepts is well formed and is a fixed point of parse ∘ print -/
theorem raw_decoded_wf {bs : Bytes} {fs : List Field} (h : decFields bs = some fs) :
    (∀ f ∈ fs, WF f) ∧ (encFields fs).length ≤ bs.length ∧ decFields (encFields fs) = some fs :=
  ⟨decFields_wf h, decFields_length h, decFields_canon h⟩
-- a group (wire types 3/4) is consumed and dropped, a padded varint is normalised:
example : decFields [0x0b, 0x08, 0x01, 0x0c, 0x10, 0x81, 0x00] = some [(2, .varint 1)] := by decide

/-! ## 3. Typed round trips, for all values in the Go types' ranges -/

theorem version_roundtrip (v : Version) (h : v.WF) : Version.decode v.encode = some v :=
  Version.decode_encode h
example : Version.decode (Version.encode { block := 2 ^ 64 - 1, app := 0 }) = some { block := 2 ^ 64 - 1, app := 0 } :=
  version_roundtrip _ (by decide)

theorem metadata_roundtrip (m : Metadata) (h : m.WF) : Metadata.decode m.encode = some m :=
  Metadata.decode_encode h
example : ({ chainId := "c-é", height := 2 ^ 64 - 1, time := 0, lastDataHash := [0] } : Metadata).WF := by
  decide +kernel

theorem header_roundtrip (h : Header) (hw : h.WF) : Header.decode h.encode = some h :=
  Header.decode_encode hw
example : gHeader.WF := by decide +kernel
example : ({} : Header).WF := by decide +kernel

theorem data_roundtrip (d : Data) (hw : d.WF) : Data.decode d.encode = some d :=
  Data.decode_encode hw
example : gData.WF := by decide +kernel
example : ({ metadata := some {}, txs := [[], []] } : Data).WF := by decide +kernel   -- empty metadata ≠ nil metadata

/-- consequence: on in-range values the encodings are injective, so two different headers / data
have different hash *inputs* (hash equality is then a SHA-256 collision) -/
theorem header_encode_injective (h h' : Header) (hw : h.WF) (hw' : h'.WF) (e : h.encode = h'.encode) : h = h' := by
  have a := header_roundtrip h hw
  rw [e, header_roundtrip h' hw'] at a
  exact (Option.some.inj a).symm

theorem data_encode_injective (d d' : Data) (hw : d.WF) (hw' : d'.WF) (e : d.encode = d'.encode) : d = d' := by
  have a := data_roundtrip d hw
  rw [e, data_roundtrip d' hw'] at a
  exact (Option.some.inj a).symm
-- nil metadata and empty metadata are different values with different bytes (and both round-trip)
example : ({ metadata := some {} } : Data).encode ≠ ({} : Data).encode := by decide +kernel

/-- full statement for signed headers: **false** of the current code -/
def C12_full_signed_header_roundtrip : Prop :=
  ∀ (keyOk : Bytes → Bool) (sh : SignedHeader), sh.WF →
    (sh.signer.pubKey ≠ [] → keyOk sh.signer.pubKey = true) →
    SignedHeader.decode keyOk sh.encode = some sh

/-- finding `C12/roundtrip/signer-address-without-key-dropped` -/
def addrOnlyHeader : SignedHeader := { header := gHeader, signer := { address := Gen.C12.goldenAddr, pubKey := [] } }

theorem C12_full_signed_header_roundtrip_fails : ¬ C12_full_signed_header_roundtrip := by
  intro h
  exact absurd (h (fun _ => true) addrOnlyHeader (by decide +kernel) (by decide +kernel)) (by decide +kernel)

/-- what holds: the value comes back with exactly the canonicalisation `FromProto` performs
(`Signer.canon`: a signer without public key is replaced by the zero signer) -/
theorem signed_header_roundtrip_partial (keyOk : Bytes → Bool) (sh : SignedHeader) (hw : sh.WF)
    (hk : sh.signer.pubKey ≠ [] → keyOk sh.signer.pubKey = true) :
    SignedHeader.decode keyOk sh.encode = some sh.canon' := SignedHeader.decode_encode keyOk hw hk
example : gSignedHeader.WF ∧ gSignedHeader.signer.pubKey ≠ [] := by decide +kernel

/-- the nested-length clauses of `SignedHeader.WF` are implied by sizes a Go process can hold:
`uint64` scalars and byte strings that together are shorter than `2^63` -/
theorem signed_header_roundtrip_of_sizes (keyOk : Bytes → Bool) (sh : SignedHeader) (hv : sh.header.version.WF)
    (hh : sh.header.height < 2 ^ 64) (ht : sh.header.time < 2 ^ 64)
    (hs : sh.header.payload + sh.signature.length + sh.signer.address.length + sh.signer.pubKey.length < 2 ^ 63)
    (hk : sh.signer.pubKey ≠ [] → keyOk sh.signer.pubKey = true) :
    SignedHeader.decode keyOk sh.encode = some sh.canon' :=
  signed_header_roundtrip_partial keyOk sh (SignedHeader.wf_of_sizes hv hh ht hs) hk

/-- with a key (every header a node signs or accepts) nothing is lost -/
theorem signed_header_roundtrip_with_key (keyOk : Bytes → Bool) (sh : SignedHeader) (hw : sh.WF)
    (hne : sh.signer.pubKey ≠ []) (hk : keyOk sh.signer.pubKey = true) :
    SignedHeader.decode keyOk sh.encode = some sh := by
  rw [signed_header_roundtrip_partial keyOk sh hw (fun _ => hk)]
  simp [SignedHeader.canon', Signer.canon, hne]

/-- … and without key and address (an unsigned header as a full node stores it) as well -/
theorem signed_header_roundtrip_unsigned (keyOk : Bytes → Bool) (sh : SignedHeader) (hw : sh.WF)
    (hs : sh.signer = {}) : SignedHeader.decode keyOk sh.encode = some sh := by
  rw [signed_header_roundtrip_partial keyOk sh hw (by simp [hs])]
  obtain ⟨h, sg, s⟩ := sh
  simp only at hs; subst hs
  simp [SignedHeader.canon', Signer.canon]

def C12_full_signed_data_roundtrip : Prop :=
  ∀ (keyOk : Bytes → Bool) (sd : SignedData), sd.WF →
    (sd.signer.pubKey ≠ [] → keyOk sd.signer.pubKey = true) →
    SignedData.decode keyOk sd.encode = some sd

def addrOnlyData : SignedData := { data := gData, signer := { address := Gen.C12.goldenAddr, pubKey := [] } }

theorem C12_full_signed_data_roundtrip_fails : ¬ C12_full_signed_data_roundtrip := by
  intro h
  exact absurd (h (fun _ => true) addrOnlyData (by decide +kernel) (by decide +kernel)) (by decide +kernel)

theorem signed_data_roundtrip_partial (keyOk : Bytes → Bool) (sd : SignedData) (hw : sd.WF)
    (hk : sd.signer.pubKey ≠ [] → keyOk sd.signer.pubKey = true) :
    SignedData.decode keyOk sd.encode = some sd.canon' := SignedData.decode_encode keyOk hw hk
example : gSignedData.WF ∧ gSignedData.signer.pubKey ≠ [] := by decide +kernel

theorem signed_data_roundtrip_with_key (keyOk : Bytes → Bool) (sd : SignedData) (hw : sd.WF)
    (hne : sd.signer.pubKey ≠ []) (hk : keyOk sd.signer.pubKey = true) :
    SignedData.decode keyOk sd.encode = some sd := by
  rw [signed_data_roundtrip_partial keyOk sd hw (fun _ => hk)]
  simp [SignedData.canon', Signer.canon, hne]

/-- the key parse is the only thing that can reject encoder output: a key that does not parse is an error -/
example : SignedHeader.decode (fun _ => false) gSignedHeader.encode = none := by decide +kernel

/-! ## 4. Hashes, commitment, signature payload -/

/-- the DA commitment depends on the ordered transaction list only (the converse — different
lists give different commitments — is collision resistance of SHA-256 and is not claimed).
These two are `rfl` on the model's own definition of `daCommitment`; that this definition is what
`Data.DACommitment()` computes is tied by the stream (every `enc-data` / `dec-data` / `enc-sd` line
compares `dac=` of the real code with the model, and the monitor `C12/commitment/depends-on-metadata`
re-computes it with other metadata on the real code) and by `golden_data_commitment`. -/
theorem commitment_ignores_metadata (d : Data) (m : Option Metadata) :
    d.daCommitment = ({ d with metadata := m } : Data).daCommitment := rfl

theorem commitment_txs_only (d d' : Data) (h : d.txs = d'.txs) : d.daCommitment = d'.daCommitment := by
  simp [Data.daCommitment, h]
example : gData.daCommitment = ({ txs := gData.txs } : Data).daCommitment ∧ gData.hash ≠ gData.daCommitment := by
  decide +kernel
/-- the order does matter to the model -/
example : ({ txs := [[1], [2]] } : Data).encode ≠ ({ txs := [[2], [1]] } : Data).encode := by decide

theorem header_hash_roundtrip (h : Header) (hw : h.WF) :
    (Header.decode h.encode).map Header.hash = some h.hash := by rw [header_roundtrip h hw]; rfl

theorem data_hash_roundtrip (d : Data) (hw : d.WF) :
    (Data.decode d.encode).map (fun d' => (d'.hash, d'.daCommitment)) = some (d.hash, d.daCommitment) := by
  rw [data_roundtrip d hw]; rfl

/-- The signed payload of a header is `Header.encode` (`SignedHeader.Header.MarshalBinary`), the
verification key is the signer's public key.  Both, and the signature, survive the round trip, so
any verification predicate gives the same verdict before and after (also in the address-only case
of the finding, where only the address is lost). -/
theorem signed_header_payload_preserved (keyOk : Bytes → Bool) (sh : SignedHeader) (hw : sh.WF)
    (hk : sh.signer.pubKey ≠ [] → keyOk sh.signer.pubKey = true) :
    ∃ sh', SignedHeader.decode keyOk sh.encode = some sh' ∧
      sh'.header = sh.header ∧ sh'.header.encode = sh.header.encode ∧ sh'.header.hash = sh.header.hash ∧
      sh'.signature = sh.signature ∧ sh'.signer.pubKey = sh.signer.pubKey ∧
      ∀ verify : Bytes → Bytes → Bytes → Bool,
        verify sh'.signer.pubKey sh'.header.encode sh'.signature =
        verify sh.signer.pubKey sh.header.encode sh.signature :=
  ⟨sh.canon', signed_header_roundtrip_partial keyOk sh hw hk, rfl, rfl, rfl, rfl,
    Signer.canon_pubKey _, fun verify => by simp [SignedHeader.canon', Signer.canon_pubKey]⟩

/-- same for signed data: the payload is `Data.encode` (`SignedData.Data.MarshalBinary`) -/
theorem signed_data_payload_preserved (keyOk : Bytes → Bool) (sd : SignedData) (hw : sd.WF)
    (hk : sd.signer.pubKey ≠ [] → keyOk sd.signer.pubKey = true) :
    ∃ sd', SignedData.decode keyOk sd.encode = some sd' ∧
      sd'.data = sd.data ∧ sd'.data.encode = sd.data.encode ∧ sd'.data.hash = sd.data.hash ∧
      sd'.data.daCommitment = sd.data.daCommitment ∧
      sd'.signature = sd.signature ∧ sd'.signer.pubKey = sd.signer.pubKey ∧
      ∀ verify : Bytes → Bytes → Bytes → Bool,
        verify sd'.signer.pubKey sd'.data.encode sd'.signature =
        verify sd.signer.pubKey sd.data.encode sd.signature :=
  ⟨sd.canon', signed_data_roundtrip_partial keyOk sd hw hk, rfl, rfl, rfl, rfl, rfl,
    Signer.canon_pubKey _, fun verify => by simp [SignedData.canon', Signer.canon_pubKey]⟩

/-! ## 5. Arbitrary bytes: decoders are total, accepted values are canonical

The decoders are total Lean functions (structural recursion with fuel; Lean accepts no partial
definition here), so "fails cleanly or returns a value" holds by construction: the result is
`none` or `some v`.  For protobuf-go itself "never panics" is explored by the recover-guarded
malformed-bytes stream of the check, not proved.  What is proved: every value a decoder returns
is in range (`WF`) and is a fixed point of decode ∘ encode.  `Version`, `Metadata`, `Header` need
no hypothesis; messages with nested message payloads (`Data`, `SignedHeader`, `SignedData`) need
the input to be a Go slice (`len < 2^63`), so that the re-encoded inner message is again a legal
`len` payload. -/

theorem version_decode_total_canonical (bs : Bytes) :
    Version.decode bs = none ∨ ∃ v, Version.decode bs = some v ∧ v.WF ∧ Version.decode v.encode = some v := by
  cases h : Version.decode bs with
  | none => exact .inl rfl
  | some v => exact .inr ⟨v, rfl, Version.decode_wf h, Version.decode_canon h⟩
-- padded varint, repeated field (last wins), unknown field 15: accepted and normalised
example : Version.decode [0x08, 0x81, 0x00, 0x08, 0x05, 0x78, 0x01] = some { block := 5 } ∧
    Version.encode { block := 5 } = [0x08, 0x05] := by decide

theorem metadata_decode_total_canonical (bs : Bytes) :
    Metadata.decode bs = none ∨ ∃ m, Metadata.decode bs = some m ∧ m.WF ∧ Metadata.decode m.encode = some m := by
  cases h : Metadata.decode bs with
  | none => exact .inl rfl
  | some m => exact .inr ⟨m, rfl, Metadata.decode_wf h, Metadata.decode_canon h⟩
example : Metadata.decode [0x18, 0x07, 0x10, 0x81, 0x00, 0x0a, 0x01, 0x61, 0x78, 0x01] =
    some { chainId := "a", height := 1, time := 7 } := by decide +kernel
example : Metadata.decode [0x0a, 0x01, 0xff] = none := by decide +kernel       -- invalid UTF-8
example : Metadata.decode [0x10] = none := by decide                            -- truncated

theorem header_decode_total_canonical (bs : Bytes) :
    Header.decode bs = none ∨ ∃ h, Header.decode bs = some h ∧ h.WF ∧ Header.decode h.encode = some h ∧
      (Header.decode h.encode).map Header.hash = some h.hash := by
  cases h : Header.decode bs with
  | none => exact .inl rfl
  | some hd =>
    exact .inr ⟨hd, rfl, Header.decode_wf h, Header.decode_canon h, by rw [Header.decode_canon h]; rfl⟩
-- two version sub-messages are merged, fields out of order:
example : Header.decode [0x10, 0x07, 0x0a, 0x02, 0x08, 0x01, 0x0a, 0x02, 0x10, 0x02] =
    some { version := { block := 1, app := 2 }, height := 7 } := by decide +kernel

theorem data_decode_total_canonical (bs : Bytes) (hb : bs.length < 2 ^ 63) :
    Data.decode bs = none ∨ ∃ d, Data.decode bs = some d ∧ d.WF ∧ Data.decode d.encode = some d := by
  cases h : Data.decode bs with
  | none => exact .inl rfl
  | some d => exact .inr ⟨d, rfl, Data.decode_wf hb h, Data.decode_canon hb h⟩
-- txs before the metadata; present-but-empty metadata stays present:
example : Data.decode [0x12, 0x01, 0x09, 0x0a, 0x00, 0x12, 0x00] = some { metadata := some {}, txs := [[9], []] } := by
  decide +kernel

theorem signed_header_decode_total_canonical (keyOk : Bytes → Bool) (bs : Bytes) (hb : bs.length < 2 ^ 63) :
    SignedHeader.decode keyOk bs = none ∨
    ∃ sh, SignedHeader.decode keyOk bs = some sh ∧ sh.WF ∧ SignedHeader.decode keyOk sh.encode = some sh := by
  cases h : SignedHeader.decode keyOk bs with
  | none => exact .inl rfl
  | some sh => exact .inr ⟨sh, rfl, (SignedHeader.decode_wf keyOk hb h).1, SignedHeader.decode_canon keyOk hb h⟩
-- an address-only signer on the wire decodes to the zero signer, which is canonical:
example : SignedHeader.decode (fun _ => true) [0x0a, 0x00, 0x1a, 0x03, 0x0a, 0x01, 0x07] = some {} := by
  decide +kernel
example : SignedHeader.decode (fun _ => true) [0x1a, 0x00] = none := by decide +kernel   -- nil header

theorem signed_data_decode_total_canonical (keyOk : Bytes → Bool) (bs : Bytes) (hb : bs.length < 2 ^ 63) :
    SignedData.decode keyOk bs = none ∨
    ∃ sd, SignedData.decode keyOk bs = some sd ∧ sd.WF ∧ SignedData.decode keyOk sd.encode = some sd := by
  cases h : SignedData.decode keyOk bs with
  | none => exact .inl rfl
  | some sd => exact .inr ⟨sd, rfl, (SignedData.decode_wf keyOk hb h).1, SignedData.decode_canon keyOk hb h⟩
example : SignedData.decode (fun _ => true) [0x12, 0x01, 0x05, 0x1a, 0x04, 0x12, 0x02, 0x01, 0x02] =
    some { signature := [5], signer := { pubKey := [1, 2] } } := by decide +kernel

/-! ## 6. Batch-cursor list codec (`block/manager.go` `convertBatchDataToBytes` / `bytesToBatchData`) -/

/-- round trip for every list whose entries fit the 32-bit length prefix -/
theorem batch_roundtrip (bd : List Bytes) (h : ∀ d ∈ bd, d.length < 2 ^ 32) :
    Producer.bytesToBatchData (Producer.batchDataToBytes bd) = some bd := Producer.bytesToBatchData_enc bd h
example : Producer.bytesToBatchData (Producer.batchDataToBytes [[1, 2], [], [3]]) = some [[1, 2], [], [3]] :=
  batch_roundtrip _ (by decide)

/-- the decoder is total; what it accepts is *exactly* the encoding of what it returns (the format
has no redundancy), so it re-encodes to the same bytes and decodes to itself -/
theorem batch_decode_total_canonical (bs : Bytes) :
    Producer.bytesToBatchData bs = none ∨
    ∃ l, Producer.bytesToBatchData bs = some l ∧ Producer.batchDataToBytes l = bs ∧
      Producer.bytesToBatchData (Producer.batchDataToBytes l) = some l := by
  cases h : Producer.bytesToBatchData bs with
  | none => exact .inl rfl
  | some l =>
    have ⟨h1, h2⟩ := Producer.bytesToBatchData_dec h
    exact .inr ⟨l, rfl, h1, Producer.bytesToBatchData_enc l h2⟩
example : Producer.bytesToBatchData [1, 0, 0] = none ∧ Producer.bytesToBatchData [2, 0, 0, 0, 9] = none ∧
    Producer.bytesToBatchData [1, 0, 0, 0, 9, 0, 0, 0, 0] = some [[9], []] := by decide

/-- the encoder writes the length modulo `2^32` (`uint32(len(data))` in Go, `Bytes.le 4` here), so the
hypothesis of `batch_roundtrip` is exact: a list round-trips **iff** every entry fits the prefix.  An
entry of `2^32` bytes or more is silently mis-framed by `convertBatchDataToBytes`; it cannot be built
in a test (4 GiB), so that the Go encoder really truncates is an assumption read off the source
(`block/manager.go`: `binary.LittleEndian.PutUint32(lengthBytes, uint32(len(data)))`). -/
theorem batch_roundtrip_iff (bd : List Bytes) :
    Producer.bytesToBatchData (Producer.batchDataToBytes bd) = some bd ↔ ∀ d ∈ bd, d.length < 2 ^ 32 :=
  ⟨fun h => (Producer.bytesToBatchData_dec h).2, batch_roundtrip bd⟩

theorem golden_batch_bytes :
    Producer.batchDataToBytes [Bytes.ofString "ab", [], Bytes.ofString "cde"] = Gen.C12.batchDataBytes := by
  decide +kernel
theorem golden_batch_decode :
    Producer.bytesToBatchData Gen.C12.batchDataBytes = some [Bytes.ofString "ab", [], Bytes.ofString "cde"] := by
  decide +kernel

/-! ## 7. State (`types.State` ↔ `pb.State`; `pkg/store` `UpdateState` / `GetState`)

`LastBlockTime` is a `time.Time`; on the wire it is a `google.protobuf.Timestamp` (seconds : int64,
nanos : int32).  `GoTime` is the instant `(t.Unix(), t.Nanosecond())`.  Neither `ToProto` nor
`FromProto` nor the store calls `CheckValid`, so the range is Go's, not timestamppb's (years 1 … 9999):
every `int64` second count round-trips.  Location and monotonic reading are not carried (`AsTime`
returns UTC): see §9. -/

/-- int64 / int32 fields: two's complement through the varint -/
theorem timestamp_roundtrip (t : Timestamp) (h : t.WF) : Timestamp.decode t.encode = some t :=
  Timestamp.decode_encode h
example : Timestamp.decode (Timestamp.encode { seconds := -2 ^ 63, nanos := -2 ^ 31 }) =
    some { seconds := -2 ^ 63, nanos := -2 ^ 31 } := timestamp_roundtrip _ (by decide)
example : (Timestamp.encode { seconds := -1 }).length = 11 := by decide +kernel   -- 10-byte varint

/-- `timestamppb.New` then `AsTime` is the identity on every instant Go can represent -/
theorem time_roundtrip (t : GoTime) (h : t.WF) : (tsNew t).asTime = t := asTime_tsNew h
example : (tsNew GoTime.zero).asTime = GoTime.zero := time_roundtrip _ GoTime.zero_wf

/-- `time.Unix` on arbitrary nanoseconds: floor division, Euclidean remainder, the seconds wrap like
Go's `int64`; the result is always normalised -/
theorem time_unix_normalises (s n : Int) (h1 : -two63 ≤ s) (h2 : s < two63) :
    timeUnix s n = { sec := wrapI64 (s + n / 1000000000), nsec := (n % 1000000000).toNat } ∧ (timeUnix s n).WF :=
  ⟨timeUnix_spec s n h1 h2, timeUnix_wf n h1 h2⟩
example : timeUnix 5 (-1) = { sec := 4, nsec := 999999999 } := by decide +kernel
example : timeUnix 5 2000000001 = { sec := 7, nsec := 1 } := by decide +kernel
example : timeUnix (2 ^ 63 - 1) 1999999999 = { sec := -2 ^ 63, nsec := 999999999 } := by decide +kernel  -- wraps

/-- **round trip**: every state whose integers are `uint64`s, whose time is a Go instant and whose
chain id is valid UTF-8 is encoded without error and decodes to itself -/
theorem state_roundtrip (s : State) (hw : s.WF) (hu : validUtf8 s.chainId = true) :
    ∃ bs, s.encode? = some bs ∧ State.decode bs = some s := State.decode_encode hw hu
example : gState.WF ∧ validUtf8 gState.chainId = true := by decide +kernel
/-- also far outside timestamppb's range: year 292277026596 is not `valid`, and round-trips -/
example : let s : State := { lastBlockTime := { sec := 2 ^ 63 - 1, nsec := 999999999 } }
    s.WF ∧ (tsNew s.lastBlockTime).valid = false ∧ (s.encode?.bind State.decode) = some s := by decide +kernel

/-- a chain id that is not UTF-8: the encoder refuses (protobuf-go checks proto3 strings on marshal);
`UpdateState` returns the error and writes nothing (stream monitor `store-accepted-unencodable`) -/
theorem state_not_utf8_refused (s : State) (hu : validUtf8 s.chainId = false) : s.encode? = none :=
  State.encode?_none hu
example : ({ chainId := [0xff] } : State).encode? = none := by decide +kernel

/-- **arbitrary bytes**: the decoder is total; what it accepts is in range, has a UTF-8 chain id and a
normalised time, re-encodes without error and decodes to itself — no hypothesis on the input -/
theorem state_decode_total_canonical (bs : Bytes) :
    State.decode bs = none ∨
    ∃ s, State.decode bs = some s ∧ s.WF ∧ validUtf8 s.chainId = true ∧
      ∃ bs', s.encode? = some bs' ∧ State.decode bs' = some s := by
  cases h : State.decode bs with
  | none => exact .inl rfl
  | some s => exact .inr ⟨s, rfl, (State.decode_wf h).1, (State.decode_wf h).2, State.decode_canon h⟩
-- negative nanoseconds are normalised; an absent timestamp is `time.Time{}`; an over-long `int32` is truncated
example : State.decode [0x2a, 0x0d, 0x08, 0x05, 0x10, 0xff, 0xff, 0xff, 0xff, 0xff, 0xff, 0xff, 0xff, 0xff, 0x01] =
    some { lastBlockTime := { sec := 4, nsec := 999999999 } } := by decide +kernel
example : State.decode [] = some {} ∧ State.decode [0x12, 0x01, 0xff] = none := by decide +kernel
example : State.decode [0x2a, 0x07, 0x10, 0x81, 0x80, 0x80, 0x80, 0x80, 0x01] =
    some { lastBlockTime := { sec := 0, nsec := 1 } } := by decide +kernel

/-! ## 8. Chain ids that are not UTF-8

A Go string holds any bytes; the typed messages of the model carry `String`s, i.e. valid UTF-8.  The
`…Go` functions take the raw bytes.  protobuf-go refuses an invalid chain id on marshal **and** on
unmarshal (`Header.decode`, `Metadata.decode`, `State.decode` return `none`: examples in §5, §7). -/

/-- on UTF-8 the Go-level functions are the model's -/
theorem header_marshal_go_utf8 (h : Header) :
    h.marshalGo (utf8 h.chainId) = some h.encode ∧ h.hashGo (utf8 h.chainId) = h.hash := Header.marshalGo_self h

/-- not UTF-8: `MarshalBinary` fails cleanly and `Header.Hash` returns nil (no hash) -/
theorem header_not_utf8_refused (h : Header) (cid : Bytes) (hu : validUtf8 cid = false) :
    h.marshalGo cid = none ∧ h.hashGo cid = [] := Header.marshalGo_none hu
example : gHeader.marshalGo [0xff, 0x61] = none := by decide +kernel

/-- full statement for the hash of `Data`: different values have different hash inputs (so equal hashes
are SHA-256 collisions) — **false** of the current code -/
def C12_full_data_hash_input_injective : Prop :=
  ∀ (d d' : Data) (cid : Bytes), d.WF → d'.WF → d ≠ d' → d.hashInputGo cid ≠ d'.hashInputGo cid

/-- finding `C12/hash/data-hash-ignores-marshal-error`: `Data.Hash` ignores the marshal error and hashes
what `proto.Marshal` left in its buffer — tag and size of the metadata and the chain-id field, nothing
else — so data with the same (invalid) chain id and an equally long metadata encoding share a hash,
whatever their transactions -/
def badCidDataA : Data := { metadata := some { height := 5, time := 7, lastDataHash := [9] }, txs := [[0x61]] }
def badCidDataB : Data := { metadata := some { height := 6, time := 8, lastDataHash := [7] }, txs := [[0x62], [0x63]] }

theorem C12_full_data_hash_input_injective_fails : ¬ C12_full_data_hash_input_injective := by
  intro h
  exact absurd (h badCidDataA badCidDataB [0xff, 0x61] (by decide +kernel) (by decide +kernel) (by decide))
    (by decide +kernel)
theorem data_hash_not_utf8_collision : badCidDataA.hashGo [0xff, 0x61] = badCidDataB.hashGo [0xff, 0x61] ∧
    badCidDataA.daCommitment ≠ badCidDataB.daCommitment := by decide +kernel

/-- the cause, in general: with a chain id that is not UTF-8 the hash input is independent of the transactions -/
theorem data_hash_input_not_utf8 (m : Metadata) (cid : Bytes) (hu : validUtf8 cid = false) (txs txs' : List Bytes) :
    ({ metadata := some m, txs := txs } : Data).hashInputGo cid = ({ metadata := some m, txs := txs' } : Data).hashInputGo cid := by
  rw [Data.hashInputGo_invalid m cid hu, Data.hashInputGo_invalid m cid hu]

/-- what holds: for values whose chain id is UTF-8 (every value a decoder returns, every value built
from a genesis file) the Go-level hash is the model's, and different values have different hash inputs -/
theorem data_hash_input_injective_partial (d d' : Data) (cid cid' : Bytes) (hw : d.WF) (hw' : d'.WF)
    (hc : ∀ m, d.metadata = some m → cid = utf8 m.chainId) (hc' : ∀ m, d'.metadata = some m → cid' = utf8 m.chainId)
    (hne : d ≠ d') : d.hashGo cid = d.hash ∧ d'.hashGo cid' = d'.hash ∧ d.hashInputGo cid ≠ d'.hashInputGo cid' := by
  have key : ∀ (x : Data) (c : Bytes), (∀ m, x.metadata = some m → c = utf8 m.chainId) →
      x.marshalGo c = .ok x.encode ∧ x.hashGo c = x.hash := by
    intro x c hx
    cases hm : x.metadata with
    | none => exact Data.marshalGo_nometa x c hm
    | some m => rw [hx m hm]; exact Data.marshalGo_utf8 x m hm
  have a := key d cid hc
  have b := key d' cid' hc'
  refine ⟨a.2, b.2, ?_⟩
  simp only [Data.hashInputGo, a.1, b.1]
  exact fun e => hne (data_encode_injective d d' hw hw' e)

/-! ## 9. nil vs empty

The property's "equal value" is equality of what the fields hold: the model (and `bytes.Equal`, the
wire format, hashing, signature verification, every consumer of decoded values) identifies a nil and
an empty slice.  The repository's own round-trip tests compare with testify's `assert.Equal`
(`reflect.DeepEqual`), which does not; `TestTxsRoundtrip` asserts that nil transactions come back as
`Txs{}`.  Exactly where Go tells the two apart after a round trip (`deq=` of the stream, predicted by
the driver from these definitions): -/

/-- a `bytes` field keeps its contents; it comes back **nil iff it is empty** — so `DeepEqual` holds
iff the field was not an empty non-nil slice (last header hash, data hash, app hash, signature,
signer address, `LastDataHash`, `LastResultsHash`, …) -/
theorem bytes_field_nilness (g : GoSlice) : g.rt.bytes = g.bytes ∧ (g.rt = g ↔ g ≠ some []) ∧ g.rt.rt = g.rt :=
  ⟨GoSlice.rt_bytes g, GoSlice.rt_eq_iff g, GoSlice.rt_rt g⟩
example : GoSlice.rt (some []) = none ∧ GoSlice.rt none = none ∧ GoSlice.rt (some [1]) = some [1] := by decide

/-- the transaction list keeps its contents; it **never comes back nil** (`byteSlicesToTxs` returns
`Txs{}`; `isValidSignedData` relies on it) and no transaction comes back nil — so `DeepEqual` holds iff
the list was not nil and held no nil transaction -/
theorem txs_nilness (t : GoTxs) :
    t.rt.list.map GoSlice.bytes = t.list.map GoSlice.bytes ∧ t.rt ≠ none ∧
    (t.rt = t ↔ t ≠ none ∧ ∀ x ∈ t.list, x ≠ none) :=
  ⟨GoTxs.rt_bytes t, by simp [GoTxs.rt], GoTxs.rt_eq_iff t⟩
example : GoTxs.rt none = some [] ∧ GoTxs.rt (some [none, some [1]]) = some [some [], some [1]] := by decide

/-! ## 10. Decoding is a function of the bytes ("whichever path it travelled")

Trivial in Lean — the decoders are functions and the driver's state is `Unit` — and stated because it is
what the real code is compared with: in a process that has decoded any other messages before, in any
order, a decoder must return what the model returns for the same bytes.  The tie is the stream: every
observation is diffed with this history-free driver, and the `recheck` op re-runs each scenario's ops in
the same process and, in the opposite order, in a fresh process
(`C12/roundtrip|decode/depends-on-earlier-decodes/<type>`). -/

/-- whatever was decoded before (`hist`, `hist'`: two processes' inputs so far), the same bytes decode to
the same result -/
theorem decode_is_a_function_of_the_bytes {α : Type} (dec : Bytes → Option α) (hist hist' : List Bytes) (i j : Nat)
    (bs : Bytes) (hi : hist[i]? = some bs) (hj : hist'[j]? = some bs) :
    (hist.map dec)[i]? = (hist'.map dec)[j]? := by
  simp [List.getElem?_map, hi, hj]
example (keyOk : Bytes → Bool) (junk genuine : Bytes) :
    ([junk, genuine].map (SignedHeader.decode keyOk))[1]? = ([genuine, junk].map (SignedHeader.decode keyOk))[0]? :=
  decode_is_a_function_of_the_bytes _ _ _ 1 0 genuine rfl rfl

/-- the driver the real code is diffed with has no memory: the observation of an op line is the same
after any earlier lines -/
theorem driver_is_history_free (before before' : List String) (line : String) :
    (Drv.C12.step (before.foldl (fun s l => (Drv.C12.step s l).1) ()) line).2 =
    (Drv.C12.step (before'.foldl (fun s l => (Drv.C12.step s l).1) ()) line).2 := rfl

/-- `pkg/cache` `loadMapGob` hands the opened file itself to the gob decoder (fact regenerated from the source
the binary is built from): no cap on what is read, so whatever `SaveToDisk` wrote can be read back whatever its
size.  The running code is exercised with a 72 MiB file in the thorough tier (`cache-big`). -/
theorem cache_load_reads_whole_file : Gen.C12.cacheLoadUnbounded = true := by decide

end Spec.C12
