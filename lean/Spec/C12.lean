import Model.Wire
import Gen.C12
import Proofs.WireTyped
import Proofs.WireCanon
import Proofs.WireBatch

/-! # C12 — property theorems (wire encodings round-trip, hashes stable, decoders total) -/
namespace Spec.C12
open Wire

/-! ## Golden vectors: the model's bytes and hashes for fixed values equal what the code produces
now (`Gen.C12`, regenerated from /repo on every run; the check script also compares `Gen.C12` with
the copy committed from the pinned tree). -/

def gHeader : Header :=
  { version := { block := 1, app := 2 }, height := 7, time := 1700000000000000000,
    lastHeaderHash := List.replicate 32 0x11, dataHash := List.replicate 32 0x22,
    consensusHash := List.replicate 32 0, appHash := Bytes.ofString "app-hash",
    proposerAddress := Gen.C12.goldenAddr, validatorHash := List.replicate 32 0x33,
    chainId := "golden-chain" }

def gData : Data :=
  { metadata := some { chainId := "golden-chain", height := 7, time := 1700000000000000000,
                       lastDataHash := List.replicate 32 0x44 },
    txs := [Bytes.ofString "tx-one", [], Bytes.ofString "tx-three"] }

def gSigner : Signer := { address := Gen.C12.goldenAddr, pubKey := Gen.C12.goldenPubKey }
def gSignedHeader : SignedHeader := { header := gHeader, signature := List.replicate 64 0x55, signer := gSigner }
def gSignedData : SignedData := { data := gData, signature := List.replicate 64 0x66, signer := gSigner }

theorem golden_header_bytes : gHeader.encode = Gen.C12.headerBytes := by decide +kernel
theorem golden_header_hash : gHeader.hash = Gen.C12.headerHash := by decide +kernel
theorem golden_zero_header_bytes : ({} : Header).encode = Gen.C12.zeroHeaderBytes := by decide +kernel
theorem golden_zero_header_hash : ({} : Header).hash = Gen.C12.zeroHeaderHash := by decide +kernel
theorem golden_data_bytes : gData.encode = Gen.C12.dataBytes := by decide +kernel
theorem golden_data_hash : gData.hash = Gen.C12.dataHash := by decide +kernel
theorem golden_data_commitment : gData.daCommitment = Gen.C12.dataCommitment := by decide +kernel
theorem golden_signed_header_bytes : gSignedHeader.encode = Gen.C12.signedHeaderBytes := by decide +kernel
theorem golden_signed_data_bytes : gSignedData.encode = Gen.C12.signedDataBytes := by decide +kernel
theorem golden_empty_data_bytes : ({} : Data).encode = Gen.C12.emptyDataBytes := by decide +kernel
theorem golden_empty_commitment : emptyDataHash = Gen.C12.emptyDataCommitment := by decide +kernel
/-- the constant `dataHashForEmptyTxs` compiled into the node is the commitment of the empty data -/
theorem golden_empty_constant : emptyDataHash = Gen.C12.dataHashForEmptyTxs := by decide +kernel

/-! ## 1. Varints (`protowire.AppendVarint` / `ConsumeVarint`) -/

/-- every `uint64` round-trips, whatever follows it -/
theorem varint_roundtrip (n : Nat) (rest : Bytes) (h : n < 2 ^ 64) :
    decVarint (encVarint n ++ rest) = some (n, rest) := decVarint_encVarint n rest h
example : decVarint (encVarint (2 ^ 64 - 1) ++ [7, 8]) = some (2 ^ 64 - 1, [7, 8]) :=
  varint_roundtrip _ _ (by decide)

theorem varint_length (n : Nat) : (encVarint n).length ≤ 10 := encVarint_length_le n
example : (encVarint (2 ^ 64 - 1)).length = 10 := by decide

/-- what `ConsumeVarint` accepts is a `uint64`, it consumes at least one byte, and the canonical
encoding of the value is not longer than what was consumed -/
theorem varint_decoded_in_range {bs : Bytes} {n : Nat} {r : Bytes} (h : decVarint bs = some (n, r)) :
    n < 2 ^ 64 ∧ r.length < bs.length ∧ (encVarint n).length + r.length ≤ bs.length :=
  ⟨(decVarint_bound h).1, (decVarint_bound h).2, decVarint_enc_length h⟩
example : decVarint [0x80, 0x00, 9] = some (0, [9]) := by decide   -- a non-canonical (padded) zero

/-! ## 2. Raw field layer -/

/-- a list of well-formed fields (number in `[1, 2^29-1]`, varint `< 2^64`, fixed widths exact,
payload length `< 2^64`) is parsed back exactly -/
theorem raw_roundtrip (fs : List Field) (h : ∀ f ∈ fs, WF f) : decFields (encFields fs) = some fs :=
  decFields_encFields fs h
example : decFields (encFields [(1, .varint 300), (536870911, .len [1, 2]), (7, .i64 (List.replicate 8 9)),
    (1, .i32 [1, 2, 3, 4]), (2, .len [])]) =
    some [(1, .varint 300), (536870911, .len [1, 2]), (7, .i64 (List.replicate 8 9)), (1, .i32 [1, 2, 3, 4]), (2, .len [])] :=
  raw_roundtrip _ (by decide)

/-- whatever the parser accepts is well formed and is a fixed point of parse ∘ print -/
theorem raw_decoded_wf {bs : Bytes} {fs : List Field} (h : decFields bs = some fs) :
    (∀ f ∈ fs, WF f) ∧ (encFields fs).length ≤ bs.length ∧ decFields (encFields fs) = some fs :=
  ⟨decFields_wf h, decFields_length h, decFields_canon h⟩
-- a group (wire types 3/4) is consumed and dropped, a padded varint is normalised:
example : decFields [0x0b, 0x08, 0x01, 0x0c, 0x10, 0x81, 0x00] = some [(2, .varint 1)] := by decide

/-! ## 3. Typed round trips, for all values in the Go types' ranges -/

theorem version_roundtrip (v : Version) (h : v.WF) : Version.decode v.encode = some v :=
  Version.decode_encode h
example : Version.decode (Version.encode { block := 2 ^ 64 - 1, app := 0 }) = some { block := 2 ^ 64 - 1, app := 0 } :=
  version_roundtrip _ (by decide)

theorem metadata_roundtrip (m : Metadata) (h : m.WF) : Metadata.decode m.encode = some m :=
  Metadata.decode_encode h
example : ({ chainId := "c-é", height := 2 ^ 64 - 1, time := 0, lastDataHash := [0] } : Metadata).WF := by
  decide +kernel

theorem header_roundtrip (h : Header) (hw : h.WF) : Header.decode h.encode = some h :=
  Header.decode_encode hw
example : gHeader.WF := by decide +kernel
example : ({} : Header).WF := by decide +kernel

theorem data_roundtrip (d : Data) (hw : d.WF) : Data.decode d.encode = some d :=
  Data.decode_encode hw
example : gData.WF := by decide +kernel
example : ({ metadata := some {}, txs := [[], []] } : Data).WF := by decide +kernel   -- empty metadata ≠ nil metadata

/-- consequence: on in-range values the encodings are injective, so two different headers / data
have different hash *inputs* (hash equality is then a SHA-256 collision) -/
theorem header_encode_injective (h h' : Header) (hw : h.WF) (hw' : h'.WF) (e : h.encode = h'.encode) : h = h' := by
  have a := header_roundtrip h hw
  rw [e, header_roundtrip h' hw'] at a
  exact (Option.some.inj a).symm

theorem data_encode_injective (d d' : Data) (hw : d.WF) (hw' : d'.WF) (e : d.encode = d'.encode) : d = d' := by
  have a := data_roundtrip d hw
  rw [e, data_roundtrip d' hw'] at a
  exact (Option.some.inj a).symm
-- nil metadata and empty metadata are different values with different bytes (and both round-trip)
example : ({ metadata := some {} } : Data).encode ≠ ({} : Data).encode := by decide +kernel

/-- full statement for signed headers: **false** of the current code -/
def C12_full_signed_header_roundtrip : Prop :=
  ∀ (keyOk : Bytes → Bool) (sh : SignedHeader), sh.WF →
    (sh.signer.pubKey ≠ [] → keyOk sh.signer.pubKey = true) →
    SignedHeader.decode keyOk sh.encode = some sh

/-- finding `C12/roundtrip/signer-address-without-key-dropped` -/
def addrOnlyHeader : SignedHeader := { header := gHeader, signer := { address := Gen.C12.goldenAddr, pubKey := [] } }

theorem C12_full_signed_header_roundtrip_fails : ¬ C12_full_signed_header_roundtrip := by
  intro h
  exact absurd (h (fun _ => true) addrOnlyHeader (by decide +kernel) (by decide +kernel)) (by decide +kernel)

/-- what holds: the value comes back with exactly the canonicalisation `FromProto` performs
(`Signer.canon`: a signer without public key is replaced by the zero signer) -/
theorem signed_header_roundtrip_partial (keyOk : Bytes → Bool) (sh : SignedHeader) (hw : sh.WF)
    (hk : sh.signer.pubKey ≠ [] → keyOk sh.signer.pubKey = true) :
    SignedHeader.decode keyOk sh.encode = some sh.canon' := SignedHeader.decode_encode keyOk hw hk
example : gSignedHeader.WF ∧ gSignedHeader.signer.pubKey ≠ [] := by decide +kernel

/-- the nested-length clauses of `SignedHeader.WF` are implied by sizes a Go process can hold:
`uint64` scalars and byte strings that together are shorter than `2^63` -/
theorem signed_header_roundtrip_of_sizes (keyOk : Bytes → Bool) (sh : SignedHeader) (hv : sh.header.version.WF)
    (hh : sh.header.height < 2 ^ 64) (ht : sh.header.time < 2 ^ 64)
    (hs : sh.header.payload + sh.signature.length + sh.signer.address.length + sh.signer.pubKey.length < 2 ^ 63)
    (hk : sh.signer.pubKey ≠ [] → keyOk sh.signer.pubKey = true) :
    SignedHeader.decode keyOk sh.encode = some sh.canon' :=
  signed_header_roundtrip_partial keyOk sh (SignedHeader.wf_of_sizes hv hh ht hs) hk

/-- with a key (every header a node signs or accepts) nothing is lost -/
theorem signed_header_roundtrip_with_key (keyOk : Bytes → Bool) (sh : SignedHeader) (hw : sh.WF)
    (hne : sh.signer.pubKey ≠ []) (hk : keyOk sh.signer.pubKey = true) :
    SignedHeader.decode keyOk sh.encode = some sh := by
  rw [signed_header_roundtrip_partial keyOk sh hw (fun _ => hk)]
  simp [SignedHeader.canon', Signer.canon, hne]

/-- … and without key and address (an unsigned header as a full node stores it) as well -/
theorem signed_header_roundtrip_unsigned (keyOk : Bytes → Bool) (sh : SignedHeader) (hw : sh.WF)
    (hs : sh.signer = {}) : SignedHeader.decode keyOk sh.encode = some sh := by
  rw [signed_header_roundtrip_partial keyOk sh hw (by simp [hs])]
  obtain ⟨h, sg, s⟩ := sh
  simp only at hs; subst hs
  simp [SignedHeader.canon', Signer.canon]

def C12_full_signed_data_roundtrip : Prop :=
  ∀ (keyOk : Bytes → Bool) (sd : SignedData), sd.WF →
    (sd.signer.pubKey ≠ [] → keyOk sd.signer.pubKey = true) →
    SignedData.decode keyOk sd.encode = some sd

def addrOnlyData : SignedData := { data := gData, signer := { address := Gen.C12.goldenAddr, pubKey := [] } }

theorem C12_full_signed_data_roundtrip_fails : ¬ C12_full_signed_data_roundtrip := by
  intro h
  exact absurd (h (fun _ => true) addrOnlyData (by decide +kernel) (by decide +kernel)) (by decide +kernel)

theorem signed_data_roundtrip_partial (keyOk : Bytes → Bool) (sd : SignedData) (hw : sd.WF)
    (hk : sd.signer.pubKey ≠ [] → keyOk sd.signer.pubKey = true) :
    SignedData.decode keyOk sd.encode = some sd.canon' := SignedData.decode_encode keyOk hw hk
example : gSignedData.WF ∧ gSignedData.signer.pubKey ≠ [] := by decide +kernel

theorem signed_data_roundtrip_with_key (keyOk : Bytes → Bool) (sd : SignedData) (hw : sd.WF)
    (hne : sd.signer.pubKey ≠ []) (hk : keyOk sd.signer.pubKey = true) :
    SignedData.decode keyOk sd.encode = some sd := by
  rw [signed_data_roundtrip_partial keyOk sd hw (fun _ => hk)]
  simp [SignedData.canon', Signer.canon, hne]

/-- the key parse is the only thing that can reject encoder output: a key that does not parse is an error -/
example : SignedHeader.decode (fun _ => false) gSignedHeader.encode = none := by decide +kernel

/-! ## 4. Hashes, commitment, signature payload -/

/-- the DA commitment depends on the ordered transaction list only (the converse — different
lists give different commitments — is collision resistance of SHA-256 and is not claimed) -/
theorem commitment_ignores_metadata (d : Data) (m : Option Metadata) :
    d.daCommitment = ({ d with metadata := m } : Data).daCommitment := rfl

theorem commitment_txs_only (d d' : Data) (h : d.txs = d'.txs) : d.daCommitment = d'.daCommitment := by
  simp [Data.daCommitment, h]
example : gData.daCommitment = ({ txs := gData.txs } : Data).daCommitment ∧ gData.hash ≠ gData.daCommitment := by
  decide +kernel
/-- the order does matter to the model -/
example : ({ txs := [[1], [2]] } : Data).encode ≠ ({ txs := [[2], [1]] } : Data).encode := by decide

theorem header_hash_roundtrip (h : Header) (hw : h.WF) :
    (Header.decode h.encode).map Header.hash = some h.hash := by rw [header_roundtrip h hw]; rfl

theorem data_hash_roundtrip (d : Data) (hw : d.WF) :
    (Data.decode d.encode).map (fun d' => (d'.hash, d'.daCommitment)) = some (d.hash, d.daCommitment) := by
  rw [data_roundtrip d hw]; rfl

/-- The signed payload of a header is `Header.encode` (`SignedHeader.Header.MarshalBinary`), the
verification key is the signer's public key.  Both, and the signature, survive the round trip, so
any verification predicate gives the same verdict before and after (also in the address-only case
of the finding, where only the address is lost). -/
theorem signed_header_payload_preserved (keyOk : Bytes → Bool) (sh : SignedHeader) (hw : sh.WF)
    (hk : sh.signer.pubKey ≠ [] → keyOk sh.signer.pubKey = true) :
    ∃ sh', SignedHeader.decode keyOk sh.encode = some sh' ∧
      sh'.header = sh.header ∧ sh'.header.encode = sh.header.encode ∧ sh'.header.hash = sh.header.hash ∧
      sh'.signature = sh.signature ∧ sh'.signer.pubKey = sh.signer.pubKey ∧
      ∀ verify : Bytes → Bytes → Bytes → Bool,
        verify sh'.signer.pubKey sh'.header.encode sh'.signature =
        verify sh.signer.pubKey sh.header.encode sh.signature :=
  ⟨sh.canon', signed_header_roundtrip_partial keyOk sh hw hk, rfl, rfl, rfl, rfl,
    Signer.canon_pubKey _, fun verify => by simp [SignedHeader.canon', Signer.canon_pubKey]⟩

/-- same for signed data: the payload is `Data.encode` (`SignedData.Data.MarshalBinary`) -/
theorem signed_data_payload_preserved (keyOk : Bytes → Bool) (sd : SignedData) (hw : sd.WF)
    (hk : sd.signer.pubKey ≠ [] → keyOk sd.signer.pubKey = true) :
    ∃ sd', SignedData.decode keyOk sd.encode = some sd' ∧
      sd'.data = sd.data ∧ sd'.data.encode = sd.data.encode ∧ sd'.data.hash = sd.data.hash ∧
      sd'.data.daCommitment = sd.data.daCommitment ∧
      sd'.signature = sd.signature ∧ sd'.signer.pubKey = sd.signer.pubKey ∧
      ∀ verify : Bytes → Bytes → Bytes → Bool,
        verify sd'.signer.pubKey sd'.data.encode sd'.signature =
        verify sd.signer.pubKey sd.data.encode sd.signature :=
  ⟨sd.canon', signed_data_roundtrip_partial keyOk sd hw hk, rfl, rfl, rfl, rfl, rfl,
    Signer.canon_pubKey _, fun verify => by simp [SignedData.canon', Signer.canon_pubKey]⟩

/-! ## 5. Arbitrary bytes: decoders are total, accepted values are canonical

The decoders are total Lean functions (structural recursion with fuel; Lean accepts no partial
definition here), so "fails cleanly or returns a value" holds by construction: the result is
`none` or `some v`.  For protobuf-go itself "never panics" is explored by the recover-guarded
malformed-bytes stream of the check, not proved.  What is proved: every value a decoder returns
is in range (`WF`) and is a fixed point of decode ∘ encode.  `Version`, `Metadata`, `Header` need
no hypothesis; messages with nested message payloads (`Data`, `SignedHeader`, `SignedData`) need
the input to be a Go slice (`len < 2^63`), so that the re-encoded inner message is again a legal
`len` payload. -/

theorem version_decode_total_canonical (bs : Bytes) :
    Version.decode bs = none ∨ ∃ v, Version.decode bs = some v ∧ v.WF ∧ Version.decode v.encode = some v := by
  cases h : Version.decode bs with
  | none => exact .inl rfl
  | some v => exact .inr ⟨v, rfl, Version.decode_wf h, Version.decode_canon h⟩
-- padded varint, repeated field (last wins), unknown field 15: accepted and normalised
example : Version.decode [0x08, 0x81, 0x00, 0x08, 0x05, 0x78, 0x01] = some { block := 5 } ∧
    Version.encode { block := 5 } = [0x08, 0x05] := by decide

theorem metadata_decode_total_canonical (bs : Bytes) :
    Metadata.decode bs = none ∨ ∃ m, Metadata.decode bs = some m ∧ m.WF ∧ Metadata.decode m.encode = some m := by
  cases h : Metadata.decode bs with
  | none => exact .inl rfl
  | some m => exact .inr ⟨m, rfl, Metadata.decode_wf h, Metadata.decode_canon h⟩
example : Metadata.decode [0x18, 0x07, 0x10, 0x81, 0x00, 0x0a, 0x01, 0x61, 0x78, 0x01] =
    some { chainId := "a", height := 1, time := 7 } := by decide +kernel
example : Metadata.decode [0x0a, 0x01, 0xff] = none := by decide +kernel       -- invalid UTF-8
example : Metadata.decode [0x10] = none := by decide                            -- truncated

theorem header_decode_total_canonical (bs : Bytes) :
    Header.decode bs = none ∨ ∃ h, Header.decode bs = some h ∧ h.WF ∧ Header.decode h.encode = some h ∧
      (Header.decode h.encode).map Header.hash = some h.hash := by
  cases h : Header.decode bs with
  | none => exact .inl rfl
  | some hd =>
    exact .inr ⟨hd, rfl, Header.decode_wf h, Header.decode_canon h, by rw [Header.decode_canon h]; rfl⟩
-- two version sub-messages are merged, fields out of order:
example : Header.decode [0x10, 0x07, 0x0a, 0x02, 0x08, 0x01, 0x0a, 0x02, 0x10, 0x02] =
    some { version := { block := 1, app := 2 }, height := 7 } := by decide +kernel

theorem data_decode_total_canonical (bs : Bytes) (hb : bs.length < 2 ^ 63) :
    Data.decode bs = none ∨ ∃ d, Data.decode bs = some d ∧ d.WF ∧ Data.decode d.encode = some d := by
  cases h : Data.decode bs with
  | none => exact .inl rfl
  | some d => exact .inr ⟨d, rfl, Data.decode_wf hb h, Data.decode_canon hb h⟩
-- txs before the metadata; present-but-empty metadata stays present:
example : Data.decode [0x12, 0x01, 0x09, 0x0a, 0x00, 0x12, 0x00] = some { metadata := some {}, txs := [[9], []] } := by
  decide +kernel

theorem signed_header_decode_total_canonical (keyOk : Bytes → Bool) (bs : Bytes) (hb : bs.length < 2 ^ 63) :
    SignedHeader.decode keyOk bs = none ∨
    ∃ sh, SignedHeader.decode keyOk bs = some sh ∧ sh.WF ∧ SignedHeader.decode keyOk sh.encode = some sh := by
  cases h : SignedHeader.decode keyOk bs with
  | none => exact .inl rfl
  | some sh => exact .inr ⟨sh, rfl, (SignedHeader.decode_wf keyOk hb h).1, SignedHeader.decode_canon keyOk hb h⟩
-- an address-only signer on the wire decodes to the zero signer, which is canonical:
example : SignedHeader.decode (fun _ => true) [0x0a, 0x00, 0x1a, 0x03, 0x0a, 0x01, 0x07] = some {} := by
  decide +kernel
example : SignedHeader.decode (fun _ => true) [0x1a, 0x00] = none := by decide +kernel   -- nil header

theorem signed_data_decode_total_canonical (keyOk : Bytes → Bool) (bs : Bytes) (hb : bs.length < 2 ^ 63) :
    SignedData.decode keyOk bs = none ∨
    ∃ sd, SignedData.decode keyOk bs = some sd ∧ sd.WF ∧ SignedData.decode keyOk sd.encode = some sd := by
  cases h : SignedData.decode keyOk bs with
  | none => exact .inl rfl
  | some sd => exact .inr ⟨sd, rfl, (SignedData.decode_wf keyOk hb h).1, SignedData.decode_canon keyOk hb h⟩
example : SignedData.decode (fun _ => true) [0x12, 0x01, 0x05, 0x1a, 0x04, 0x12, 0x02, 0x01, 0x02] =
    some { signature := [5], signer := { pubKey := [1, 2] } } := by decide +kernel

/-! ## 6. Batch-cursor list codec (`block/manager.go` `convertBatchDataToBytes` / `bytesToBatchData`) -/

/-- round trip for every list whose entries fit the 32-bit length prefix -/
theorem batch_roundtrip (bd : List Bytes) (h : ∀ d ∈ bd, d.length < 2 ^ 32) :
    Producer.bytesToBatchData (Producer.batchDataToBytes bd) = some bd := Producer.bytesToBatchData_enc bd h
example : Producer.bytesToBatchData (Producer.batchDataToBytes [[1, 2], [], [3]]) = some [[1, 2], [], [3]] :=
  batch_roundtrip _ (by decide)

/-- the decoder is total; what it accepts is *exactly* the encoding of what it returns (the format
has no redundancy), so it re-encodes to the same bytes and decodes to itself -/
theorem batch_decode_total_canonical (bs : Bytes) :
    Producer.bytesToBatchData bs = none ∨
    ∃ l, Producer.bytesToBatchData bs = some l ∧ Producer.batchDataToBytes l = bs ∧
      Producer.bytesToBatchData (Producer.batchDataToBytes l) = some l := by
  cases h : Producer.bytesToBatchData bs with
  | none => exact .inl rfl
  | some l =>
    have ⟨h1, h2⟩ := Producer.bytesToBatchData_dec h
    exact .inr ⟨l, rfl, h1, Producer.bytesToBatchData_enc l h2⟩
example : Producer.bytesToBatchData [1, 0, 0] = none ∧ Producer.bytesToBatchData [2, 0, 0, 0, 9] = none ∧
    Producer.bytesToBatchData [1, 0, 0, 0, 9, 0, 0, 0, 0] = some [[9], []] := by decide

theorem golden_batch_bytes :
    Producer.batchDataToBytes [Bytes.ofString "ab", [], Bytes.ofString "cde"] = Gen.C12.batchDataBytes := by
  decide +kernel
theorem golden_batch_decode :
    Producer.bytesToBatchData Gen.C12.batchDataBytes = some [Bytes.ofString "ab", [], Bytes.ofString "cde"] := by
  decide +kernel

end Spec.C12
