import Model.Queue
import Proofs.C10
import Gen.C10

/-!
# C10 — the sequencer's batch queue is a durable FIFO with exactly-once delivery

Vocabulary (`Model/Queue.lean`): a history is a `List Op` (submit / next / restart / a crash before
or after the single durable write of a submit or a next / the bare-queue operations) run from the
freshly created queue; `run key cfg ops` yields the final state `st` (memory list + key-ordered
datastore), the batches accepted so far `acc`, the batches **handed out = returned to the caller** so
far `dlv`, the batches removed from the queue so far `rem` (pop + durable `Delete`), the batches `lost`
(removed by a `Next` that died after its durable `Delete` and before its return: neither on disk nor
with the caller; `rem` = `dlv` + `lost`), all in order, and the answers `outs`.  `key` is the datastore key function; theorems that hold for every key
function are stated for every `key`, the counter-witnesses use `realKey` (the real SHA-256 of the
real `Batch.Hash` encoding – the function the driver runs against the real code on every check).

Full statement of the property:  for every history  `dlv ++ st.mem = acc`  (everything accepted is
handed out exactly once, in acceptance order, nothing else ever), refused submissions change
nothing, the bound holds.  The order/durability half is **false** of the current code once a restart
is involved (`C10_durable_full_fails`, `C10_order_full_fails`), and exactly-once is **false** at the crash
point between the `Delete` of `Next` and its return (`C10_exactly_once_across_crash_full_fails`); what is
true is proved below, with hypotheses that are shown to be necessary (`…_sharp`).  Concurrent callers: §6.
-/

namespace Spec.C10
open Queue List

/-! ## the model computes the real keys and values (facts regenerated from /repo on every run) -/

def gBatch : Batch := [Bytes.ofString "tx-one", [], Bytes.ofString "tx-three"]

/-- `Batch.Hash` of the golden batch / of the empty batch -/
theorem golden_hash : hashOf gBatch = Gen.C10.goldenHash := by decide +kernel
theorem golden_empty_hash : hashOf [] = Gen.C10.emptyHash := by decide +kernel
/-- datastore key (with the `batches` prefix) and value under which the real sequencer stored it -/
theorem golden_key : keyString gBatch = Gen.C10.goldenKey := by decide +kernel
theorem golden_value : valueOf gBatch = Gen.C10.goldenValue := by decide +kernel
/-- the keys of the two batches used by the order counter-witness -/
theorem golden_key01 : keyString [[1]] = Gen.C10.key01 := by decide +kernel
theorem golden_key02 : keyString [[2]] = Gen.C10.key02 := by decide +kernel

/-- The model's datastore is ordered by the numeric key `realKey` and the driver prints it as
`renderKey (realKey b)` (64 hex digits); that string **is** `keyString b` = `/batches/` + hex of the
hash bytes, for every batch – so the golden facts above are about the keys `step` works with. -/
theorem keyString_eq_render (b : Batch) : keyString b = renderKey (realKey b) := keyString_eq_renderKey b

theorem golden_key_rendered : renderKey (realKey gBatch) = Gen.C10.goldenKey := by
  rw [← keyString_eq_render]; exact golden_key
theorem golden_key01_rendered : renderKey (realKey [[1]]) = Gen.C10.key01 := by
  rw [← keyString_eq_render]; exact golden_key01
theorem golden_key02_rendered : renderKey (realKey [[2]]) = Gen.C10.key02 := by
  rw [← keyString_eq_render]; exact golden_key02

/-! ## 1. without restart the queue *is* the abstract FIFO -/

/-- Refinement: on histories without restart/crash the answers and the memory list are those of the
abstract FIFO `List Batch` (`astep`: submit appends unless refused, next removes the head); the
datastore has no influence. -/
theorem C10_refines_fifo (key : Batch → Nat) (cfg : Cfg) (ops : List Op) (hp : ∀ op ∈ ops, op.plain = true) :
    (run key cfg ops).st.mem = (arun cfg [] ops).1 ∧ (run key cfg ops).outs = (arun cfg [] ops).2 := by
  show (runFrom key cfg {} ops).st.mem = _ ∧ (runFrom key cfg {} ops).outs = _
  simpa using run_refines key cfg ops hp {} ⟨rfl, rfl, rfl⟩

/-- FIFO, exactly once (no restart): handed out ++ pending = accepted, as sequences – duplicates
of contents included. -/
theorem C10_fifo_exactly_once_no_restart (key : Batch → Nat) (cfg : Cfg) (ops : List Op)
    (hp : ∀ op ∈ ops, op.plain = true) :
    (run key cfg ops).dlv ++ (run key cfg ops).st.mem = (run key cfg ops).acc := by
  have hl := lost_nil_of_no_crash key cfg ops (fun op ho => plain_not_crash (hp op ho))
  rw [dlv_eq_rem (Gh_run key cfg ops) hl]
  exact fifo_plain key cfg ops hp {} rfl

def cfg2 : Cfg := { id := [7], max := 2 }
def a1 : Batch := [[1]]
def a2 : Batch := [[2]]
def a3 : Batch := [[3], []]

/-- non-vacuity: a history that accepts, refuses (full, foreign id, empty) and hands out -/
example :
    let r := run realKey cfg2 [.submit [7] a1, .submit [7] a1, .submit [7] a3, .submit [9] a2, .submit [7] [], .next [7],
      .submit [7] a3, .next [9], .next [7]]
    r.outs = [.ok, .ok, .errFull, .errId, .skipEmpty, .batch a1, .ok, .errId, .batch a1] ∧
    r.acc = [a1, a1, a3] ∧ r.dlv = [a1, a1] ∧ r.st.mem = [a3] := by decide +kernel

/-! ## 2. refused submissions leave no trace -/

/-- A submission (or request) answered with an error, or an empty submission, changes neither memory
nor the datastore (nor anything else), whatever datastore faults are armed. -/
theorem C10_rejected_no_trace (key : Batch → Nat) (cfg : Cfg) (s : St) (op : Op) (hp : op.plain = true)
    (hr : Out.refused (step key cfg s op).2 = true) : (step key cfg s op).1 = s := by
  cases op with
  | submit id b =>
    rcases submitF_cases key cfg s id b with ⟨o, h, _⟩ | ⟨h, _⟩ | ⟨h, _⟩
    · simp [step, h]
    · simp [step, h, Out.refused] at hr
    · simp [step, h, Out.refused] at hr
  | add b =>
    rcases addBatchF_cases key cfg s b with ⟨h, _⟩ | ⟨h, _⟩ | ⟨h, _⟩
    · simp [step, h]
    · simp [step, h, Out.refused] at hr
    · simp [step, h, Out.refused] at hr
  | next id =>
    rcases getNextF_cases key cfg s id with ⟨o, h, _⟩ | ⟨b, r, h, _⟩ | ⟨b, r, h, _⟩
    · simp [step, h]
    · simp [step, h, Out.refused] at hr
    · simp [step, h, Out.refused] at hr
  | qnext =>
    rcases nextBatchF_cases key s with ⟨h, _⟩ | ⟨b, r, h, _⟩ | ⟨b, r, h, _⟩
    · simp [step, h]
    · simp [step, h, Out.refused] at hr
    · simp [step, h, Out.refused] at hr
  | restart => simp [Op.plain] at hp
  | load => simp [Op.plain] at hp
  | crashSubmit _ _ _ => simp [Op.plain] at hp
  | crashNext _ _ => simp [Op.plain] at hp
  | restartMax _ => simp [Op.plain] at hp
  | fail _ _ => simp [Op.plain] at hp
  | submitCtx c id b =>
    rcases submitF_cases key cfg s id b with ⟨o, h, _⟩ | ⟨h, _⟩ | ⟨h, _⟩
    · simp [step, h]
    · simp [step, h, Out.refused] at hr
    · simp [step, h, Out.refused] at hr
  | nextCtx c id =>
    rcases getNextF_cases key cfg s id with ⟨o, h, _⟩ | ⟨b, r, h, _⟩ | ⟨b, r, h, _⟩
    · simp [step, h]
    · simp [step, h, Out.refused] at hr
    · simp [step, h, Out.refused] at hr

/-- … and when the process dies during a refused operation the datastore is still unchanged. -/
theorem C10_rejected_no_durable_trace (key : Batch → Nat) (cfg : Cfg) (s : St) (op : Op)
    (hr : Out.refused (step key cfg s op).2 = true) : (step key cfg s op).1.disk = s.disk := by
  cases op with
  | crashSubmit aw id b =>
    cases aw
    · rfl
    · rcases submitF_cases key cfg s id b with ⟨o, h, _⟩ | ⟨h, _⟩ | ⟨h, _⟩
      · simp [step, h, reload]
      · simp [step, h, Out.refused] at hr
      · simp [step, h, Out.refused] at hr
  | crashNext aw id =>
    cases aw
    · rfl
    · rcases getNextF_cases key cfg s id with ⟨o, h, _⟩ | ⟨b, r, h, _⟩ | ⟨b, r, h, _⟩
      · simp [step, h, reload]
      · simp [step, h, Out.refused] at hr
      · simp [step, h, Out.refused] at hr
  | restart => rfl
  | load => rfl
  | restartMax _ => rfl
  | fail _ _ => rfl
  | submit id b => rw [C10_rejected_no_trace key cfg s _ rfl hr]
  | add b => rw [C10_rejected_no_trace key cfg s _ rfl hr]
  | next id => rw [C10_rejected_no_trace key cfg s _ rfl hr]
  | qnext => rw [C10_rejected_no_trace key cfg s _ rfl hr]
  | submitCtx c id b => rw [C10_rejected_no_trace key cfg s _ rfl hr]
  | nextCtx c id => rw [C10_rejected_no_trace key cfg s _ rfl hr]

/-- A submission whose datastore `Put` failed (`err:store`; datastore errors are outside the property's
quantifier, modelled for the correspondence) changes neither memory nor the datastore: the batch is not
appended in memory, only the armed fault is consumed. -/
theorem C10_store_error_no_trace (key : Batch → Nat) (cfg : Cfg) (s : St) (op : Op) (hp : op.plain = true)
    (hr : (step key cfg s op).2 = .errStore) :
    (step key cfg s op).1.mem = s.mem ∧ (step key cfg s op).1.disk = s.disk ∧ 0 < s.failPut := by
  cases op with
  | submit id b =>
    rcases submitF_cases key cfg s id b with ⟨o, h, ho⟩ | ⟨h, _, hf⟩ | ⟨h, _⟩
    · rcases ho with rfl | rfl | rfl <;> simp [step, h] at hr
    · simp [step, h, putFailed, hf]
    · simp [step, h] at hr
  | add b =>
    rcases addBatchF_cases key cfg s b with ⟨h, _⟩ | ⟨h, _, hf⟩ | ⟨h, _⟩
    · simp [step, h] at hr
    · simp [step, h, putFailed, hf]
    · simp [step, h] at hr
  | next id =>
    rcases getNextF_cases key cfg s id with ⟨o, h, ho⟩ | ⟨b, r, h, _⟩ | ⟨b, r, h, _⟩
    · rcases ho with rfl | rfl <;> simp [step, h] at hr
    · simp [step, h] at hr
    · simp [step, h] at hr
  | qnext =>
    rcases nextBatchF_cases key s with ⟨h, _⟩ | ⟨b, r, h, _⟩ | ⟨b, r, h, _⟩
    · simp [step, h] at hr
    · simp [step, h] at hr
    · simp [step, h] at hr
  | restart => simp [Op.plain] at hp
  | load => simp [Op.plain] at hp
  | crashSubmit _ _ _ => simp [Op.plain] at hp
  | crashNext _ _ => simp [Op.plain] at hp
  | restartMax _ => simp [Op.plain] at hp
  | fail _ _ => simp [Op.plain] at hp
  | submitCtx c id b =>
    rcases submitF_cases key cfg s id b with ⟨o, h, ho⟩ | ⟨h, _, hf⟩ | ⟨h, _⟩
    · rcases ho with rfl | rfl | rfl <;> simp [step, h] at hr
    · simp [step, h, putFailed, hf]
    · simp [step, h] at hr
  | nextCtx c id =>
    rcases getNextF_cases key cfg s id with ⟨o, h, ho⟩ | ⟨b, r, h, _⟩ | ⟨b, r, h, _⟩
    · rcases ho with rfl | rfl <;> simp [step, h] at hr
    · simp [step, h] at hr
    · simp [step, h] at hr

/-- non-vacuity: the three refusals on a non-trivial state -/
example :
    let s : St := (run realKey cfg2 [.submit [7] a1, .submit [7] a2]).st
    (step realKey cfg2 s (.submit [7] a3)) = (s, .errFull) ∧ (step realKey cfg2 s (.submit [8] a3)) = (s, .errId) ∧
    (step realKey cfg2 s (.submit [7] [])) = (s, .skipEmpty) ∧ s.disk.length = 2 := by decide +kernel

/-! ## 2b. the context a call is made with (`next … ctx=cancelled|expired`, `submit … ctx=…`)

Neither `SubmitBatchTxs` / `GetNextBatch` nor `AddBatch` / `Next` look at their `context.Context` (it is only passed on
to the datastore).  That is what the property needs: `Next` pops and deletes, so a call that noticed a dead context
*afterwards* and answered with an error would lose the head batch. -/

/-- The answer and the state after a call do not depend on the context it is made with: a call with a cancelled or
expired context is the same step as the call with a live one – so every theorem of this file (stated for every
`List Op`, the `…Ctx` operations included) covers cancelled calls, and a call never answers an error after having
taken a batch out of the queue. -/
theorem C10_context_irrelevant (key : Batch → Nat) (cfg : Cfg) (s : St) (c : Ctx) (id : Bytes) (b : Batch) :
    step key cfg s (.submitCtx c id b) = step key cfg s (.submit id b) ∧
    step key cfg s (.nextCtx c id) = step key cfg s (.next id) ∧
    (∀ o, acceptedBy (.submitCtx c id b) o = acceptedBy (.submit id b) o) ∧
    (∀ o, deliveredBy (.nextCtx c id) o = deliveredBy (.next id) o ∧ removedBy (.nextCtx c id) o = removedBy (.next id) o) :=
  ⟨rfl, rfl, fun o => by cases o <;> rfl, fun o => by cases o <;> exact ⟨rfl, rfl⟩⟩

/-- Whatever the context: a request that takes a batch out of the queue answers with that batch (never with an error). -/
theorem C10_removed_is_answered (key : Batch → Nat) (cfg : Cfg) (s : St) (op : Op) (hp : op.plain = true)
    (hm : (step key cfg s op).1.mem ≠ s.mem) (ha : acceptedBy op (step key cfg s op).2 = []) :
    ∃ b r, s.mem = b :: r ∧ (step key cfg s op).2 = .batch b ∧ (step key cfg s op).1.mem = r := by
  have nx : ∀ id, (getNextF key cfg s id).1.mem ≠ s.mem →
      ∃ b r, s.mem = b :: r ∧ (getNextF key cfg s id).2 = .batch b ∧ (getNextF key cfg s id).1.mem = r := by
    intro id h
    rcases getNextF_cases key cfg s id with ⟨o, h1, _⟩ | ⟨b, r, h1, hmem, _⟩ | ⟨b, r, h1, hmem, _⟩
    · rw [h1] at h; exact absurd rfl h
    · exact ⟨b, r, hmem, by rw [h1], by rw [h1]; rfl⟩
    · exact ⟨b, r, hmem, by rw [h1], by rw [h1]; rfl⟩
  have sb : ∀ id b, okList b (submitF key cfg s id b).2 = [] → (submitF key cfg s id b).1.mem = s.mem := by
    intro id b h
    rcases submitF_cases key cfg s id b with ⟨o, h1, _⟩ | ⟨h1, _⟩ | ⟨h1, _⟩
    · rw [h1]
    · rw [h1]; rfl
    · rw [h1] at h; simp [okList] at h
  cases op with
  | next id => exact nx id hm
  | nextCtx c id => exact nx id hm
  | qnext =>
    rcases nextBatchF_cases key s with ⟨h1, _⟩ | ⟨b, r, h1, hmem, _⟩ | ⟨b, r, h1, hmem, _⟩
    · simp only [step, h1] at hm; exact absurd rfl hm
    · exact ⟨b, r, hmem, by simp [step, h1], by simp [step, h1, pop]⟩
    · exact ⟨b, r, hmem, by simp [step, h1], by simp [step, h1, popKeep]⟩
  | submit id b => rw [acceptedBy_submit] at ha; exact absurd (sb id b ha) hm
  | submitCtx c id b => rw [acceptedBy_submitCtx] at ha; exact absurd (sb id b ha) hm
  | add b =>
    rw [acceptedBy_add] at ha
    rcases addBatchF_cases key cfg s b with ⟨h1, _⟩ | ⟨h1, _⟩ | ⟨h1, _⟩
    · simp only [step, h1] at hm; exact absurd rfl hm
    · simp only [step, h1] at hm; exact absurd rfl hm
    · simp only [step, h1, okList] at ha; simp at ha
  | restart => simp [Op.plain] at hp
  | load => simp [Op.plain] at hp
  | crashSubmit _ _ _ => simp [Op.plain] at hp
  | crashNext _ _ => simp [Op.plain] at hp
  | restartMax _ => simp [Op.plain] at hp
  | fail _ _ => simp [Op.plain] at hp

/-- non-vacuity: calls with dead contexts in a history with a restart; nothing is lost, FIFO -/
example :
    let ops : List Op := [.submitCtx .cancelled [] a2, .submit [] a1, .nextCtx .cancelled [], .restart, .nextCtx .expired [], .next []]
    let r := run realKey {} ops
    r.outs = [.ok, .ok, .batch a2, .restarted, .batch a1, .empty] ∧ r.acc = [a2, a1] ∧ r.dlv = [a2, a1] ∧ r.st.disk = [] := by
  decide +kernel

/-! ## 3. the bound, and the datastore never holds anything but pending batches
(every history: restarts, crashes, duplicates) -/

/-- datastore errors are outside the property's quantifier; a failing `Put` is harmless and allowed in every
theorem below, a failing `Delete` is excluded: no operation of the history arms one -/
def NoDeleteFaults (ops : List Op) : Prop := ∀ op ∈ ops, op.armsDelete = false

instance (ops : List Op) : Decidable (NoDeleteFaults ops) := by unfold NoDeleteFaults; infer_instance

theorem NoDeleteFaults.take {ops : List Op} (h : NoDeleteFaults ops) (n : Nat) : NoDeleteFaults (ops.take n) :=
  fun op ho => h op (mem_of_mem_take ho)

/-- the history never restarts the node with another queue bound -/
def BoundUnchanged (ops : List Op) : Prop := ∀ op ∈ ops, op.changesBound = false

instance (ops : List Op) : Decidable (BoundUnchanged ops) := by unfold BoundUnchanged; infer_instance

/-- The queue bound is respected after every history in which the configured bound stays the same. -/
theorem C10_bound (key : Batch → Nat) (cfg : Cfg) (ops : List Op) (hm : 0 < cfg.max)
    (hf : NoDeleteFaults ops) (hb : BoundUnchanged ops) :
    (run key cfg ops).st.mem.length ≤ cfg.max := by
  have h := run_induction_ops key cfg (fun r => J key cfg r.st ∧ B cfg r.st)
    (fun op => op.armsDelete = false ∧ op.changesBound = false)
    (fun r op h hr => ⟨J_step key h.1 op hr.1, B_step key h.1 h.2 op hr.1 hr.2⟩) {}
    ⟨J_init key cfg, ⟨rfl, fun _ => by simp⟩⟩ ops (fun op ho => ⟨hf op ho, hb op ho⟩)
  exact h.2.bound hm

/-- The bound is an **admission** bound (every history, every bound the node was ever restarted with, every
datastore fault): a submission is accepted only while fewer than `effMax` batches are pending, so right after an
accepted submission at most `effMax` (the bound in force) are. -/
theorem C10_admission_bound (key : Batch → Nat) (cfg : Cfg) (s : St) (op : Op) (hp : op.plain = true)
    (hok : (step key cfg s op).2 = .ok) (hm : 0 < effMax cfg s) :
    s.mem.length < effMax cfg s ∧ (step key cfg s op).1.mem.length ≤ effMax cfg (step key cfg s op).1 := by
  have key_fact : ∀ b, full cfg s = false → s.mem.length < effMax cfg s ∧
      (accept key s b).mem.length ≤ effMax cfg (accept key s b) := by
    intro b hf
    simp only [full, hm, decide_true, Bool.true_and, decide_eq_false_iff_not, Nat.not_le] at hf
    exact ⟨hf, by simp only [accept, effMax, length_append, length_singleton] at hf ⊢; omega⟩
  cases op with
  | submit id b =>
    rcases submitF_cases key cfg s id b with ⟨o, h, ho⟩ | ⟨h, _⟩ | ⟨h, hf, _⟩
    · rcases ho with rfl | rfl | rfl <;> simp [step, h] at hok
    · simp [step, h] at hok
    · simp only [step, h]; exact key_fact b hf
  | add b =>
    rcases addBatchF_cases key cfg s b with ⟨h, _⟩ | ⟨h, _⟩ | ⟨h, hf, _⟩
    · simp [step, h] at hok
    · simp [step, h] at hok
    · simp only [step, h]; exact key_fact b hf
  | next id =>
    rcases getNextF_cases key cfg s id with ⟨o, h, ho⟩ | ⟨b, r, h, _⟩ | ⟨b, r, h, _⟩
    · rcases ho with rfl | rfl <;> simp [step, h] at hok
    · simp [step, h] at hok
    · simp [step, h] at hok
  | qnext =>
    rcases nextBatchF_cases key s with ⟨h, _⟩ | ⟨b, r, h, _⟩ | ⟨b, r, h, _⟩
    · simp [step, h] at hok
    · simp [step, h] at hok
    · simp [step, h] at hok
  | restart => simp [Op.plain] at hp
  | load => simp [Op.plain] at hp
  | crashSubmit _ _ _ => simp [Op.plain] at hp
  | crashNext _ _ => simp [Op.plain] at hp
  | restartMax _ => simp [Op.plain] at hp
  | fail _ _ => simp [Op.plain] at hp
  | submitCtx c id b =>
    rcases submitF_cases key cfg s id b with ⟨o, h, ho⟩ | ⟨h, _⟩ | ⟨h, hf, _⟩
    · rcases ho with rfl | rfl | rfl <;> simp [step, h] at hok
    · simp [step, h] at hok
    · simp only [step, h]; exact key_fact b hf
  | nextCtx c id =>
    rcases getNextF_cases key cfg s id with ⟨o, h, ho⟩ | ⟨b, r, h, _⟩ | ⟨b, r, h, _⟩
    · rcases ho with rfl | rfl <;> simp [step, h] at hok
    · simp [step, h] at hok
    · simp [step, h] at hok

/-- Reading "the queue bound is respected" as a **capacity** ("never more than the bound in force pending")
contradicts "accepted batches survive a restart" when the node is restarted with a smaller bound, and it is
not what the code does: `Load` reloads everything.  (Not a finding: durability wins; the monitor checks the
admission reading.) -/
def C10_bound_as_capacity : Prop :=
  ∀ (cfg : Cfg) (ops : List Op), 0 < effMax cfg (run realKey cfg ops).st →
    (run realKey cfg ops).st.mem.length ≤ effMax cfg (run realKey cfg ops).st

theorem C10_bound_as_capacity_fails : ¬ C10_bound_as_capacity := by
  intro h
  have h1 := h { id := [7], max := 4 } [.submit [7] [[1]], .submit [7] [[2]], .restartMax 1] (by decide +kernel)
  revert h1
  decide +kernel

/-- Every datastore entry is stored under the key of its own batch, that batch is pending, and the
keys are strictly ascending (so: distinct). -/
theorem C10_disk_subset_undelivered (key : Batch → Nat) (cfg : Cfg) (ops : List Op) (hf : NoDeleteFaults ops) :
    let s := (run key cfg ops).st
    (∀ e ∈ s.disk, e.1 = key e.2 ∧ e.2 ∈ s.mem) ∧ s.disk.Pairwise (fun x y => x.1 < y.1) := by
  have j := J_run key cfg ops hf
  refine ⟨fun e he => ⟨j.keyed e he, ?_⟩, j.sorted⟩
  obtain ⟨l, hl, hp⟩ := j.sub
  exact hl.subset ((hp.mem_iff).1 (mem_map_of_mem (f := (·.2)) he))

/-- At most once, for every history (restarts with any bound, crashes at every write boundary, duplicates,
failing Puts): no batch is handed out, lost or pending more often than it was accepted.  In particular a batch
that was handed out never reappears, and nothing that was refused is ever handed out. -/
theorem C10_at_most_once_accounting (key : Batch → Nat) (cfg : Cfg) (ops : List Op) (hf : NoDeleteFaults ops) (x : Batch) :
    ((run key cfg ops).dlv ++ (run key cfg ops).lost ++ (run key cfg ops).st.mem).count x ≤
      (run key cfg ops).acc.count x := by
  have h := run_induction_ops key cfg (fun r => J key cfg r.st ∧ M r) (fun op => op.armsDelete = false)
    (fun r op h hr => ⟨J_step key h.1 op hr, M_step key h.1 h.2 op hr⟩) {} ⟨J_init key cfg, fun _ => by simp⟩ ops hf
  have h2 : ((run key cfg ops).rem ++ (run key cfg ops).st.mem).count x ≤ (run key cfg ops).acc.count x := h.2 x
  have h3 := (Gh_run key cfg ops).perm.count_eq x
  simp only [count_append] at h2 h3 ⊢
  omega

/-- … in the property's words (handed out = returned to the caller). -/
theorem C10_at_most_once (key : Batch → Nat) (cfg : Cfg) (ops : List Op) (hf : NoDeleteFaults ops) (x : Batch) :
    ((run key cfg ops).dlv ++ (run key cfg ops).st.mem).count x ≤ (run key cfg ops).acc.count x := by
  have := C10_at_most_once_accounting key cfg ops hf x
  simp only [count_append] at this ⊢
  omega

/-- non-vacuity: the inequality is strict on the duplicate history (accepted twice, only one copy left),
and the datastore entry that is left is a pending batch under its own key -/
example :
    let r := run realKey {} [.submit [] a1, .submit [] a1, .restart]
    r.acc.count a1 = 2 ∧ (r.dlv ++ r.st.mem).count a1 = 1 ∧ r.st.disk = [(realKey a1, a1)] := by decide +kernel

/-- non-vacuity: bound 2 reached, a restart in between -/
example : (run realKey cfg2 [.submit [7] a1, .submit [7] a2, .restart, .submit [7] a3]).st.mem.length = 2 := by
  decide +kernel

/-! ## 4. across restarts and crashes -/

/-- Full statement, durability half: after every history every accepted batch has been handed out
or is still pending – exactly once (as multisets). -/
def C10_durable_full : Prop :=
  ∀ (cfg : Cfg) (ops : List Op), ((run realKey cfg ops).dlv ++ (run realKey cfg ops).st.mem).Perm (run realKey cfg ops).acc

/-- FALSE of the current code: two accepted batches with identical contents share one datastore
key, so a restart brings back only one of them (known finding
`C10/durable/duplicate-content-lost-on-restart`). -/
theorem C10_durable_full_fails : ¬ C10_durable_full := by
  intro h
  have h1 := (h {} [.submit [] a1, .submit [] a1, .restart]).length_eq
  revert h1
  decide +kernel

/-- the witness in full: both accepted, one pending after the restart, one datastore entry -/
example :
    let r := run realKey {} [.submit [] a1, .submit [] a1, .restart]
    r.acc = [a1, a1] ∧ r.dlv = [] ∧ r.st.mem = [a1] ∧ r.st.disk.length = 1 := by decide +kernel

/-- Full statement, order half: even when all contents are distinct, after every history
handed out ++ pending = accepted **in acceptance order**. -/
def C10_order_full : Prop :=
  ∀ (cfg : Cfg) (ops : List Op), (run realKey cfg ops).acc.Nodup →
    (run realKey cfg ops).dlv ++ (run realKey cfg ops).st.mem = (run realKey cfg ops).acc

/-- FALSE of the current code: `Load` iterates the datastore in key order, i.e. in the order of the
SHA-256 hashes of the contents (known finding `C10/fifo/restart-delivers-in-key-order`). -/
theorem C10_order_full_fails : ¬ C10_order_full := by
  intro h
  have h1 := h {} [.submit [] a1, .submit [] a2, .restart] (by decide +kernel)
  revert h1
  decide +kernel

/-- the witness in full: accepted `[1]` then `[2]`, after the restart `[2]` comes first -/
example :
    let r := run realKey {} [.submit [] a1, .submit [] a2, .restart, .next []]
    r.acc = [a1, a2] ∧ r.dlv = [a2] ∧ r.st.mem = [a1] := by decide +kernel

/-- After a restart memory is in strictly ascending key order, whatever the arrival order was
(every key function, every history) – the mechanism behind `C10_order_full_fails`. -/
theorem C10_reload_in_key_order (key : Batch → Nat) (cfg : Cfg) (ops : List Op) (hf : NoDeleteFaults ops) :
    ((run key cfg (ops ++ [.restart])).st.mem.map key).Pairwise (· < ·) := by
  have j := J_run key cfg ops hf
  have hrun : (run key cfg (ops ++ [.restart])).st = reload (run key cfg ops).st := by
    show (runFrom key cfg {} (ops ++ [.restart])).st = reload (runFrom key cfg {} ops).st
    simp [runFrom, Run.step, step]
  rw [hrun]
  simp only [reload, map_map]
  have hk : (run key cfg ops).st.disk.map (key ∘ fun x => x.2) = (run key cfg ops).st.disk.map (·.1) :=
    map_congr_left (fun e he => (j.keyed e he).symm)
  rw [hk, pairwise_map]
  exact j.sorted

/-- non-vacuity: arrival order `[1]`, `[2]`, `[3,·]`; key order after the restart is another one -/
example : (run realKey {} ([.submit [] a1, .submit [] a2, .submit [] a3] ++ [.restart])).st.mem = [a2, a1, a3] := by
  decide +kernel

/-! ### the sharp hypotheses

`stepCore key cfg s op` is the state the process is in right after the effect of `op` and before it
stops (for the operations that restart: the state whose durable part is reloaded).  The two hypotheses
speak about the batches **pending at the same time**, at every position `n` of the history: -/

/-- no two batches with the same datastore key are ever pending at the same time -/
def PendingKeysDistinct (key : Batch → Nat) (cfg : Cfg) (ops : List Op) : Prop :=
  ∀ n, (h : n < ops.length) → ((stepCore key cfg (run key cfg (ops.take n)).st ops[n]).mem.map key).Nodup

/-- at every restart (restart / reload / crash) the pending batches are in ascending key order -/
def PendingAscendingAtRestarts (key : Batch → Nat) (cfg : Cfg) (ops : List Op) : Prop :=
  ∀ n, (h : n < ops.length) → ops[n].reloads = true →
    ((stepCore key cfg (run key cfg (ops.take n)).st ops[n]).mem.map key).Pairwise (· < ·)

/-- no `Next` died between its durable `Delete` and its return on a batch -/
def NoCrashBetweenDeleteAndReturn (key : Batch → Nat) (cfg : Cfg) (ops : List Op) : Prop :=
  (run key cfg ops).lost = []

instance (key : Batch → Nat) (cfg : Cfg) (ops : List Op) : Decidable (PendingKeysDistinct key cfg ops) := by
  unfold PendingKeysDistinct; infer_instance
instance (key : Batch → Nat) (cfg : Cfg) (ops : List Op) : Decidable (PendingAscendingAtRestarts key cfg ops) := by
  unfold PendingAscendingAtRestarts; infer_instance
instance (key : Batch → Nat) (cfg : Cfg) (ops : List Op) : Decidable (NoCrashBetweenDeleteAndReturn key cfg ops) := by
  unfold NoCrashBetweenDeleteAndReturn; infer_instance

/-- a syntactic sufficient condition: the history contains no `crashNext true` -/
theorem noCrashWindow_of_ops (key : Batch → Nat) (cfg : Cfg) (ops : List Op)
    (h : ∀ op ∈ ops, op.crashAfterDelete = false) : NoCrashBetweenDeleteAndReturn key cfg ops :=
  lost_nil_of_no_crash key cfg ops h

private theorem at_split {ops pre post : List Op} {op : Op} (he : ops = pre ++ op :: post) :
    ∃ h : pre.length < ops.length, ops.take pre.length = pre ∧ ops[pre.length] = op := by
  subst he
  exact ⟨by simp, by simp, by simp⟩

private theorem distinct_split {key : Batch → Nat} {cfg : Cfg} {ops : List Op} (hd : PendingKeysDistinct key cfg ops) :
    ∀ pre op post, ops = pre ++ op :: post → ((stepCore key cfg (run key cfg pre).st op).mem.map key).Nodup := by
  intro pre op post he
  obtain ⟨h, h1, h2⟩ := at_split he
  have := hd pre.length h
  rwa [h1, h2] at this

private theorem ascending_split {key : Batch → Nat} {cfg : Cfg} {ops : List Op} (ha : PendingAscendingAtRestarts key cfg ops) :
    ∀ pre op post, ops = pre ++ op :: post → op.reloads = true →
      ((stepCore key cfg (run key cfg pre).st op).mem.map key).Pairwise (· < ·) := by
  intro pre op post he hp
  obtain ⟨h, h1, h2⟩ := at_split he
  have := ha pre.length h (h2 ▸ hp)
  rwa [h1, h2] at this

/-- the accounting of the queue after a history: everything accepted has been removed from the queue
or is still pending, exactly once, and the datastore holds exactly the pending batches (so that every
crash from here loses nothing) -/
def Accounted (key : Batch → Nat) (cfg : Cfg) (ops : List Op) : Prop :=
  ((run key cfg ops).rem ++ (run key cfg ops).st.mem).Perm (run key cfg ops).acc ∧
  ((run key cfg ops).st.disk.map (·.2)).Perm (run key cfg ops).st.mem

/-- PARTIAL (excludes the duplicate witness), queue side: if no two batches with the same key are
pending at the same time, then after every history – restarts and crashes before/after every durable
write included – the accounting is right. -/
theorem C10_accounted_partial (key : Batch → Nat) (cfg : Cfg) (ops : List Op) (hf : NoDeleteFaults ops)
    (hd : PendingKeysDistinct key cfg ops) : Accounted key cfg ops :=
  have k := K_run key cfg ops hf (distinct_split hd)
  ⟨k.multiset, k.disk⟩

/-- SHARP: the hypothesis is necessary – the accounting is right after every prefix of a history
**iff** no two batches with the same key were ever pending at the same time. -/
theorem C10_accounted_sharp (key : Batch → Nat) (cfg : Cfg) (ops : List Op) (hf : NoDeleteFaults ops) :
    (∀ n, n ≤ ops.length → Accounted key cfg (ops.take n)) ↔ PendingKeysDistinct key cfg ops := by
  constructor
  · intro h n hn
    have h0 := h n (Nat.le_of_lt hn)
    have h1 := h (n + 1) hn
    have ht : ops.take (n + 1) = ops.take n ++ [ops[n]] := take_succ_eq_append_getElem hn
    rw [ht] at h1
    unfold Accounted at h1
    rw [run_snoc] at h1
    exact nodup_necessary key (J_run key cfg _ (hf.take n)) _ (hf _ (getElem_mem hn)) h0.1 h1.1 h1.2
  · intro hd n _
    refine C10_accounted_partial key cfg _ (hf.take n) (fun m hm => ?_)
    have hm' : m < ops.length := by simp at hm; omega
    have hlt : m < n := by simp at hm; omega
    have := hd m hm'
    have e1 : (ops.take n).take m = ops.take m := by rw [take_take]; congr 1; omega
    have e2 : (ops.take n)[m] = ops[m] := by simp
    rwa [e1, e2]

/-- PARTIAL (excludes the duplicate witness and the crash window), in the property's words: if no two
batches with the same key are pending at the same time and no `Next` died between its `Delete` and its
return, then after every history handed out ++ pending is a permutation of accepted (every accepted
batch survives, exactly once; none reappears after having been handed out), and the datastore holds
exactly the pending batches. -/
theorem C10_restart_partial (key : Batch → Nat) (cfg : Cfg) (ops : List Op) (hf : NoDeleteFaults ops)
    (hd : PendingKeysDistinct key cfg ops) (hc : NoCrashBetweenDeleteAndReturn key cfg ops) :
    ((run key cfg ops).dlv ++ (run key cfg ops).st.mem).Perm (run key cfg ops).acc ∧
    ((run key cfg ops).st.disk.map (·.2)).Perm (run key cfg ops).st.mem := by
  have h := C10_accounted_partial key cfg ops hf hd
  rw [dlv_eq_rem (Gh_run key cfg ops) hc]
  exact h

/-- the hypothesis used before (keys of *all* accepted batches pairwise distinct, over the whole
history) implies the sharp one … -/
theorem distinct_of_all_keys_distinct (key : Batch → Nat) (cfg : Cfg) (ops : List Op) (hf : NoDeleteFaults ops)
    (hn : ((run key cfg ops).acc.map key).Nodup) : PendingKeysDistinct key cfg ops := by
  have hk : ∀ n, n ≤ ops.length → Accounted key cfg (ops.take n) := by
    intro n _
    have hp : ((run key cfg (ops.take n)).acc.map key).Nodup := by
      obtain ⟨t, ht⟩ := acc_prefix key cfg (run key cfg (ops.take n)) (ops.drop n)
      have : runFrom key cfg (run key cfg (ops.take n)) (ops.drop n) = run key cfg ops := by
        show runFrom key cfg (runFrom key cfg {} (ops.take n)) (ops.drop n) = runFrom key cfg {} ops
        rw [← runFrom_append, take_append_drop]
      rw [this] at ht
      rw [ht] at hn
      exact nodup_keys_prefix key _ t hn
    have k := K_run_of_nodup key cfg _ (hf.take n) hp
    exact ⟨k.multiset, k.disk⟩
  exact (C10_accounted_sharp key cfg ops hf).1 hk

/-- … so the earlier form follows: distinct keys over the whole history. -/
theorem C10_restart_partial_distinct_keys (key : Batch → Nat) (cfg : Cfg) (ops : List Op) (hf : NoDeleteFaults ops)
    (hn : ((run key cfg ops).acc.map key).Nodup) (hc : NoCrashBetweenDeleteAndReturn key cfg ops) :
    ((run key cfg ops).dlv ++ (run key cfg ops).st.mem).Perm (run key cfg ops).acc ∧
    ((run key cfg ops).st.disk.map (·.2)).Perm (run key cfg ops).st.mem :=
  C10_restart_partial key cfg ops hf (distinct_of_all_keys_distinct key cfg ops hf hn) hc

/-- The same in the property's words: the contents are pairwise distinct and the hash does not
collide on them. -/
theorem C10_restart_partial' (key : Batch → Nat) (cfg : Cfg) (ops : List Op) (hf : NoDeleteFaults ops)
    (hd : (run key cfg ops).acc.Nodup)
    (keyNoCollision : ∀ a ∈ (run key cfg ops).acc, ∀ b ∈ (run key cfg ops).acc, key a = key b → a = b)
    (hc : NoCrashBetweenDeleteAndReturn key cfg ops) :
    ((run key cfg ops).dlv ++ (run key cfg ops).st.mem).Perm (run key cfg ops).acc ∧
    ((run key cfg ops).st.disk.map (·.2)).Perm (run key cfg ops).st.mem := by
  refine C10_restart_partial_distinct_keys key cfg ops hf ?_ hc
  rw [Nodup, pairwise_map]
  exact Pairwise.imp_of_mem (fun ha hb hne hk => hne (keyNoCollision _ ha _ hb hk)) hd

/-- Under the sharp hypothesis no two pending batches are equal (nothing is pending twice); with
distinct keys over the whole history nothing is both handed out and pending or handed out twice. -/
theorem C10_no_reappearance_partial (key : Batch → Nat) (cfg : Cfg) (ops : List Op) (hf : NoDeleteFaults ops)
    (hn : ((run key cfg ops).acc.map key).Nodup) :
    ((run key cfg ops).dlv ++ (run key cfg ops).lost ++ (run key cfg ops).st.mem).Nodup := by
  have hp := (C10_accounted_partial key cfg ops hf (distinct_of_all_keys_distinct key cfg ops hf hn)).1
  have hg := (Gh_run key cfg ops).perm
  have hp2 : ((run key cfg ops).dlv ++ (run key cfg ops).lost ++ (run key cfg ops).st.mem).Perm (run key cfg ops).acc :=
    (hg.symm.append_right _).trans hp
  have h2 : (((run key cfg ops).dlv ++ (run key cfg ops).lost ++ (run key cfg ops).st.mem).map key).Nodup :=
    (hp2.map key).nodup_iff.2 hn
  rw [Nodup, pairwise_map] at h2
  exact h2.imp (fun hne heq => hne (congrArg key heq))

/-- the disk = pending part is false without the hypothesis: after one of two equal batches was
handed out the other is pending but no longer in the datastore -/
theorem C10_disk_eq_undelivered_fails :
    ¬ (∀ (cfg : Cfg) (ops : List Op), ((run realKey cfg ops).st.disk.map (·.2)).Perm (run realKey cfg ops).st.mem) := by
  intro h
  have h1 := (h {} [.submit [] a1, .submit [] a1, .next []]).length_eq
  revert h1
  decide +kernel

/-- sharpness on the existing witness: the duplicate history violates `PendingKeysDistinct` (at position 1: two
equal keys pending), not the crash-window hypothesis -/
example :
    ¬ PendingKeysDistinct realKey {} [.submit [] a1, .submit [] a1, .restart] ∧
    NoCrashBetweenDeleteAndReturn realKey {} [.submit [] a1, .submit [] a1, .restart] := by decide +kernel

/-- non-vacuity, and the case no earlier theorem covered: **accept a, hand a out, accept a again**,
restart, both kinds of crash – the same contents twice in the history (the old hypothesis `Nodup` of all
accepted keys is false) but never pending at the same time: nothing is lost -/
example :
    let ops : List Op := [.submit [] a1, .next [], .submit [] a1, .restart, .submit [] a2, .crashSubmit true [] a3,
      .crashNext false [], .next [], .restart]
    let r := run realKey {} ops
    PendingKeysDistinct realKey {} ops ∧ NoCrashBetweenDeleteAndReturn realKey {} ops ∧ ¬ (r.acc.map realKey).Nodup ∧
    r.acc = [a1, a1, a2, a3] ∧ r.dlv = [a1, a2] ∧ r.st.mem = [a1, a3] := by decide +kernel

/-- PARTIAL (excludes the order witness), the *full* statement under the sharp hypotheses: if no two
equal keys are pending at the same time, the pending batches are in ascending key order at every
restart, and no `Next` died between `Delete` and return, then after every history – restarts and
crashes included – handed out ++ pending = accepted as sequences. -/
theorem C10_order_partial (key : Batch → Nat) (cfg : Cfg) (ops : List Op) (hf : NoDeleteFaults ops)
    (hd : PendingKeysDistinct key cfg ops) (ha : PendingAscendingAtRestarts key cfg ops)
    (hc : NoCrashBetweenDeleteAndReturn key cfg ops) :
    (run key cfg ops).dlv ++ (run key cfg ops).st.mem = (run key cfg ops).acc := by
  rw [dlv_eq_rem (Gh_run key cfg ops) hc]
  exact (A_run key cfg ops hf (distinct_split hd) (ascending_split ha)).fifo

/-- queue side, without the crash-window hypothesis: removed ++ pending = accepted as sequences -/
theorem C10_order_removed_partial (key : Batch → Nat) (cfg : Cfg) (ops : List Op) (hf : NoDeleteFaults ops)
    (hd : PendingKeysDistinct key cfg ops) (ha : PendingAscendingAtRestarts key cfg ops) :
    (run key cfg ops).rem ++ (run key cfg ops).st.mem = (run key cfg ops).acc :=
  (A_run key cfg ops hf (distinct_split hd) (ascending_split ha)).fifo

/-- SHARP: "the datastore holds exactly the pending batches and removed ++ pending = accepted in
order, after every prefix of the history" holds **iff** both hypotheses hold. -/
theorem C10_order_sharp (key : Batch → Nat) (cfg : Cfg) (ops : List Op) (hf : NoDeleteFaults ops) :
    (∀ n, n ≤ ops.length → Accounted key cfg (ops.take n) ∧
      (run key cfg (ops.take n)).rem ++ (run key cfg (ops.take n)).st.mem = (run key cfg (ops.take n)).acc) ↔
    (PendingKeysDistinct key cfg ops ∧ PendingAscendingAtRestarts key cfg ops) := by
  constructor
  · intro h
    refine ⟨(C10_accounted_sharp key cfg ops hf).1 (fun n hn => (h n hn).1), fun n hn hp => ?_⟩
    have h0 := (h n (Nat.le_of_lt hn)).2
    have h1 := (h (n + 1) hn).2
    have ht : ops.take (n + 1) = ops.take n ++ [ops[n]] := take_succ_eq_append_getElem hn
    rw [ht, run_snoc] at h1
    exact ascending_necessary key (J_run key cfg _ (hf.take n)) _ (hf _ (getElem_mem hn)) hp h0 h1
  · intro ⟨hd, ha⟩ n hn
    refine ⟨(C10_accounted_sharp key cfg ops hf).2 hd n hn, ?_⟩
    refine C10_order_removed_partial key cfg _ (hf.take n) (fun m hm => ?_) (fun m hm hp => ?_)
    · have hm' : m < ops.length := by simp at hm; omega
      have := hd m hm'
      have e1 : (ops.take n).take m = ops.take m := by rw [take_take]; congr 1; simp at hm; omega
      have e2 : (ops.take n)[m] = ops[m] := by simp
      rwa [e1, e2]
    · have hm' : m < ops.length := by simp at hm; omega
      have e2 : (ops.take n)[m] = ops[m] := by simp
      have := ha m hm' (e2 ▸ hp)
      have e1 : (ops.take n).take m = ops.take m := by rw [take_take]; congr 1; simp at hm; omega
      rwa [e1, e2]

/-- the earlier form follows: keys of all accepted batches strictly ascending in acceptance order -/
theorem C10_order_partial_ascending_keys (key : Batch → Nat) (cfg : Cfg) (ops : List Op) (hf : NoDeleteFaults ops)
    (hn : ((run key cfg ops).acc.map key).Pairwise (· < ·)) (hc : NoCrashBetweenDeleteAndReturn key cfg ops) :
    (run key cfg ops).dlv ++ (run key cfg ops).st.mem = (run key cfg ops).acc := by
  rw [dlv_eq_rem (Gh_run key cfg ops) hc]
  exact (A_run_of_ascending key cfg ops hf hn).fifo

/-- sharpness on the existing witness: the order history violates `PendingAscendingAtRestarts` only -/
example :
    PendingKeysDistinct realKey {} [.submit [] a1, .submit [] a2, .restart] ∧
    ¬ PendingAscendingAtRestarts realKey {} [.submit [] a1, .submit [] a2, .restart] := by decide +kernel

/-- non-vacuity, and more than the earlier theorem covered: the accepted keys are **not** ascending over
the history (`a1` has the larger key and comes first), but `a1` has been handed out before the restart:
what is pending at each restart is in key order, and the full FIFO statement holds -/
example :
    let ops : List Op := [.submit [] a1, .submit [] a2, .next [], .restart, .submit [] a1, .crashNext false [], .next []]
    let r := run realKey {} ops
    PendingKeysDistinct realKey {} ops ∧ PendingAscendingAtRestarts realKey {} ops ∧
    NoCrashBetweenDeleteAndReturn realKey {} ops ∧ ¬ (r.acc.map realKey).Pairwise (· < ·) ∧
    r.acc = [a1, a2, a1] ∧ r.dlv = [a1, a2] ∧ r.st.mem = [a1] := by decide +kernel

/-! ## 5. the crash point between the `Delete` of `Next` and its return -/

/-- Full statement at that crash point: even when neither of the two defects above is involved (no two
equal keys pending at the same time, pending keys ascending at every restart), after every history
every accepted batch has been handed out – **returned to the caller** – or is still pending. -/
def C10_exactly_once_across_crash_full : Prop :=
  ∀ (cfg : Cfg) (ops : List Op), NoDeleteFaults ops → PendingKeysDistinct realKey cfg ops → PendingAscendingAtRestarts realKey cfg ops →
    ((run realKey cfg ops).dlv ++ (run realKey cfg ops).st.mem).Perm (run realKey cfg ops).acc

/-- FALSE of the current code: `Next` deletes the write-ahead record before it returns
(`queue.go`: `bq.db.Delete`, then `return &batch`).  A process that dies after the `Delete` became
durable and before the caller has the batch (the block producer has stored nothing yet) has lost it:
not on disk, not handed out (known finding
`C10/durable/batch-lost-in-crash-after-delete-before-return`). -/
theorem C10_exactly_once_across_crash_full_fails : ¬ C10_exactly_once_across_crash_full := by
  intro h
  have h1 := (h {} [.submit [] a1, .crashNext true []] (by decide) (by decide +kernel) (by decide +kernel)).length_eq
  revert h1
  decide +kernel

/-- the witness in full: one batch accepted, the process dies in `Next` after the `Delete`: nothing
handed out, nothing pending, nothing in the datastore – the batch is `lost` -/
example :
    let r := run realKey {} [.submit [] a1, .crashNext true []]
    r.acc = [a1] ∧ r.dlv = [] ∧ r.lost = [a1] ∧ r.rem = [a1] ∧ r.st.mem = [] ∧ r.st.disk = [] ∧
    r.outs = [.ok, .batch a1] := by decide +kernel

/-- the neighbouring crash point is fine: dying *before* the `Delete` is durable keeps the batch -/
example :
    let r := run realKey {} [.submit [] a1, .crashNext false [], .next []]
    r.acc = [a1] ∧ r.dlv = [a1] ∧ r.lost = [] ∧ r.st.mem = [] := by decide +kernel

/-- Exact accounting (needs only `PendingKeysDistinct`): every accepted batch is, exactly once, handed
out, or lost in the window between `Delete` and return, or pending. -/
theorem C10_accounting_with_lost_partial (key : Batch → Nat) (cfg : Cfg) (ops : List Op) (hf : NoDeleteFaults ops)
    (hd : PendingKeysDistinct key cfg ops) :
    ((run key cfg ops).dlv ++ (run key cfg ops).lost ++ (run key cfg ops).st.mem).Perm (run key cfg ops).acc :=
  ((Gh_run key cfg ops).perm.symm.append_right _).trans (C10_accounted_partial key cfg ops hf hd).1

/-- PARTIAL (excludes exactly that crash point), and sharp: under `PendingKeysDistinct`, handed out ++
pending is a permutation of accepted **iff** no `Next` died between its `Delete` and its return. -/
theorem C10_exactly_once_across_crash_partial (key : Batch → Nat) (cfg : Cfg) (ops : List Op) (hf : NoDeleteFaults ops)
    (hd : PendingKeysDistinct key cfg ops) :
    ((run key cfg ops).dlv ++ (run key cfg ops).st.mem).Perm (run key cfg ops).acc ↔
      NoCrashBetweenDeleteAndReturn key cfg ops := by
  constructor
  · intro h
    have h2 := (C10_accounting_with_lost_partial key cfg ops hf hd).length_eq
    have h1 := h.length_eq
    simp only [length_append] at h1 h2
    exact length_eq_zero_iff.1 (by omega)
  · exact fun hc => (C10_restart_partial key cfg ops hf hd hc).1

/-- what is handed out is always a subsequence of what was removed, and removed = handed out + lost -/
theorem C10_delivered_sub_removed (key : Batch → Nat) (cfg : Cfg) (ops : List Op) :
    (run key cfg ops).dlv.Sublist (run key cfg ops).rem ∧
    (run key cfg ops).rem.Perm ((run key cfg ops).dlv ++ (run key cfg ops).lost) :=
  ⟨(Gh_run key cfg ops).sub, (Gh_run key cfg ops).perm⟩

/-! ## 5b. a restart with another queue bound (`restart max=n`)

`.restartMax n` is an ordinary restarting operation of a history, so every theorem above already covers it
(with **any** `n`, smaller than the number of pending batches included): `C10_restart_partial`,
`C10_order_partial`, the sharpness theorems.  Spelled out for one restart: -/

/-- A restart with **any** bound brings back exactly the pending batches (as a multiset; in the same order
when their keys are ascending) – `Load` does not look at the bound. -/
theorem C10_restart_any_bound_keeps_pending (key : Batch → Nat) (cfg : Cfg) (ops : List Op) (n : Nat)
    (hf : NoDeleteFaults ops) (hd : PendingKeysDistinct key cfg ops) :
    (run key cfg (ops ++ [.restartMax n])).st.mem.Perm (run key cfg ops).st.mem ∧
    (((run key cfg ops).st.mem.map key).Pairwise (· < ·) →
      (run key cfg (ops ++ [.restartMax n])).st.mem = (run key cfg ops).st.mem) := by
  have k := K_run key cfg ops hf (distinct_split hd)
  have j := J_run key cfg ops hf
  have hst : (run key cfg (ops ++ [.restartMax n])).st.mem = (run key cfg ops).st.disk.map (·.2) := by
    rw [run_snoc]; rfl
  rw [hst]
  exact ⟨k.disk, fun ha => eq_of_perm_ascending key k.disk (sorted_keys key j.keyed j.sorted) ha⟩

/-- non-vacuity: three batches accepted under bound 4 (submitted in key order), the node is restarted with
bound 1: all three are still pending, in order, and are handed out; further submissions are refused while
more than the new bound are pending -/
example :
    let ops : List Op := [.submit [7] a2, .submit [7] a1, .submit [7] a3, .restartMax 1, .submit [7] [[9]], .next [7], .next [7],
      .next [7], .submit [7] [[9]]]
    let r := run realKey { id := [7], max := 4 } ops
    NoDeleteFaults ops ∧ PendingKeysDistinct realKey { id := [7], max := 4 } ops ∧
    PendingAscendingAtRestarts realKey { id := [7], max := 4 } ops ∧
    r.outs = [.ok, .ok, .ok, .restarted, .errFull, .batch a2, .batch a1, .batch a3, .ok] ∧
    r.dlv = [a2, a1, a3] ∧ r.st.mem = [[[9]]] := by decide +kernel

/-! ## 5c. datastore errors (outside the property's quantifier; modelled so that the correspondence holds)

`fail put=p del=d` arms the datastore double: the next `p` single Puts / `d` single Deletes fail.
A failing `Put`: `AddBatch` returns the error, the batch is not in memory (`C10_store_error_no_trace`); such
faults are allowed in **every** theorem above (`NoDeleteFaults` excludes only failing Deletes).
A failing `Delete`: `Next` logs it and hands the batch out; the record stays. -/

/-- Within one process lifetime – calls and datastore faults in any pattern, failing Puts **and** failing
Deletes – the queue is FIFO and exactly-once: handed out ++ pending = accepted, as sequences. -/
theorem C10_lifetime_fifo_under_faults (key : Batch → Nat) (cfg : Cfg) (ops : List Op)
    (hl : ∀ op ∈ ops, op.lifetime = true) :
    (run key cfg ops).dlv ++ (run key cfg ops).st.mem = (run key cfg ops).acc := by
  have hc := lost_nil_of_no_crash key cfg ops (fun op ho => lifetime_not_crash (hl op ho))
  rw [dlv_eq_rem (Gh_run key cfg ops) hc]
  exact fifo_lifetime key cfg ops hl {} rfl

/-- … hence at most once within one lifetime under every fault pattern. -/
theorem C10_lifetime_at_most_once_under_faults (key : Batch → Nat) (cfg : Cfg) (ops : List Op)
    (hl : ∀ op ∈ ops, op.lifetime = true) (x : Batch) :
    ((run key cfg ops).dlv ++ (run key cfg ops).st.mem).count x = (run key cfg ops).acc.count x := by
  rw [C10_lifetime_fifo_under_faults key cfg ops hl]

/-- non-vacuity: a failing Put (refused with `errStore`, nothing stored, the retry succeeds) and a failing
Delete (the batch is handed out all the same, in order; its record stays in the datastore) -/
example :
    let ops : List Op := [.submit [] a1, .fail 1 1, .submit [] a2, .submit [] a2, .submit [] a3, .next [], .next [], .next []]
    let r := run realKey {} ops
    r.outs = [.ok, .restarted, .errStore, .ok, .ok, .batch a1, .batch a2, .batch a3] ∧
    r.acc = [a1, a2, a3] ∧ r.dlv = [a1, a2, a3] ∧ r.st.mem = [] ∧ r.st.disk = [(realKey a1, a1)] := by decide +kernel

/-- What the current code does after a failed `Delete` **and a restart** (datastore errors are not in the
property's quantifier, so this is recorded as an assumption, not as a finding): the record that could not be
deleted is reloaded and the batch is handed out a second time. -/
theorem C10_redelivery_after_failed_delete :
    let r := run realKey {} [.submit [] a1, .fail 0 1, .next [], .restart, .next []]
    r.acc = [a1] ∧ r.dlv = [a1, a1] := by decide +kernel

/-! ## 6. concurrent callers (the property's `schedules`)

Regenerated fact (go/parser over the current source, `harness/streams/c10/facts.go`): every method of
`BatchQueue` takes `bq.mu` as its first statement and releases it by `defer`, nobody else selects a field
of the queue, and the `Sequencer` methods that reach the queue contain exactly one queue call, no loop,
goroutine or function literal, and assign to no field of the sequencer (what they do outside the queue
call reads the immutable chain id and the request only). -/
theorem calls_are_atomic :
    Gen.C10.queueMethods.all (·.2) = true ∧
    (["AddBatch", "Next", "Load"].all fun m => Gen.C10.queueMethods.any (·.1 == m)) = true ∧
    Gen.C10.queueFieldEscapes = 0 ∧
    (Gen.C10.sequencerQueueCalls.all fun e => e.2.1 == 1 && e.2.2) = true ∧
    (["SubmitBatchTxs", "GetNextBatch"].all fun m => Gen.C10.sequencerQueueCalls.any (·.1 == m)) = true := by
  decide

/-- Linearizability at the model level.  Given `calls_are_atomic`, a concurrent execution of clients
running the programs `progs` (`Conc`: again and again some client with an outstanding call gets the mutex
and performs its whole call) ends in `r` **iff** `r` is the result of the *sequential* history `sched` for
some interleaving `sched` of the programs.  (Nearly definitional once every call is one atomic step – that
is the point: the fact above carries the weight, and everything proved for every `List Op` applies.) -/
theorem C10_concurrent_is_sequential (key : Batch → Nat) (cfg : Cfg) (progs : List (List Op)) (r : Run) :
    Conc key cfg progs {} r ↔ ∃ sched, Interleaving progs sched ∧ r = run key cfg sched :=
  ⟨interleaving_of_conc key, fun ⟨_, hs, hr⟩ => hr ▸ conc_of_interleaving key hs {}⟩

/-- An interleaving is a permutation of all the clients' calls that respects every client's program order. -/
theorem C10_interleaving_respects_programs (progs : List (List Op)) (sched : List Op) (h : Interleaving progs sched) :
    sched.Perm progs.flatten ∧ ∀ p ∈ progs, p.Sublist sched :=
  ⟨h.perm, h.sublist⟩

/-- Hence: concurrent submitters and consumers, no restart – FIFO, exactly once, refined to the abstract
queue along *some* interleaving of the calls, the bound respected. -/
theorem C10_concurrent_fifo_exactly_once (key : Batch → Nat) (cfg : Cfg) (progs : List (List Op)) (r : Run)
    (hc : Conc key cfg progs {} r) (hp : ∀ p ∈ progs, ∀ op ∈ p, op.plain = true) :
    r.dlv ++ r.st.mem = r.acc ∧ (0 < cfg.max → r.st.mem.length ≤ cfg.max) ∧
    ∃ sched, Interleaving progs sched ∧ r.st.mem = (arun cfg [] sched).1 ∧ r.outs = (arun cfg [] sched).2 := by
  obtain ⟨sched, hs, rfl⟩ := (C10_concurrent_is_sequential key cfg progs r).1 hc
  have hpl : ∀ op ∈ sched, op.plain = true := by
    intro op ho
    obtain ⟨p, hp1, hp2⟩ := mem_flatten.1 ((hs.perm.mem_iff).1 ho)
    exact hp p hp1 op hp2
  have hnf : NoDeleteFaults sched := fun op ho => by have := hpl op ho; cases op <;> first | rfl | simp [Op.plain] at this
  have hbu : BoundUnchanged sched := fun op ho => by have := hpl op ho; cases op <;> first | rfl | simp [Op.plain] at this
  exact ⟨C10_fifo_exactly_once_no_restart key cfg sched hpl, fun hm => C10_bound key cfg sched hm hnf hbu,
    sched, hs, C10_refines_fifo key cfg sched hpl⟩

/-- … and with restarts and crashes among the concurrent calls: at most once, and the accounting under
the sharp hypothesis on the schedule that happened. -/
theorem C10_concurrent_at_most_once (key : Batch → Nat) (cfg : Cfg) (progs : List (List Op)) (r : Run)
    (hc : Conc key cfg progs {} r) (hf : ∀ p ∈ progs, NoDeleteFaults p) (x : Batch) :
    (r.dlv ++ r.st.mem).count x ≤ r.acc.count x := by
  obtain ⟨sched, hs, rfl⟩ := (C10_concurrent_is_sequential key cfg progs r).1 hc
  refine C10_at_most_once key cfg sched (fun op ho => ?_) x
  obtain ⟨p, hp1, hp2⟩ := mem_flatten.1 ((hs.perm.mem_iff).1 ho)
  exact hf p hp1 op hp2

/-- non-vacuity: two writers (equal contents among them) and one reader; one concurrent execution -/
example :
    let progs : List (List Op) := [[.submit [] a1, .submit [] a2], [.submit [] a1], [.next [], .next []]]
    ∃ r, Conc realKey {} progs {} r ∧ r.acc = [a1, a1, a2] ∧ r.dlv = [a1, a1] ∧ r.st.mem = [a2] := by
  refine ⟨run realKey {} [.submit [] a1, .next [], .submit [] a1, .submit [] a2, .next []], ?_, by decide +kernel⟩
  refine conc_of_interleaving realKey ?_ {}
  exact .call 0 _ _ rfl (.call 2 _ _ rfl (.call 1 _ _ rfl (.call 0 _ _ rfl (.call 2 _ _ rfl (.done (by decide))))))

/-! ## 7. the datastore key separates different batches: the hash input is injective -/

/-- The byte string the CURRENT `Batch.Hash` feeds to SHA-256 (8-byte big-endian count, then every transaction as
8-byte big-endian length + bytes; nothing for the empty batch) is injective on lists of byte strings shorter than 2^64
(Go slices are): two different batches never have the same hash input, so their datastore keys differ unless SHA-256
collides (`keyNoCollision`).  This is the assumption under which `PendingKeysDistinct` follows from "no two batches with
equal CONTENTS pending at the same time" (`C10_restart_partial'`), made explicit. -/
theorem batchHashInput_injective (a b : List Bytes) (ha : ∀ tx ∈ a, tx.length < 2 ^ 64)
    (hb : ∀ tx ∈ b, tx.length < 2 ^ 64) (h : hashInput a = hashInput b) : a = b :=
  hashEnc_injective a b ha hb h

/-- the Lean layout is the compiled code's: SHA-256 of `hashInput` of the golden batch (three transactions, the middle
one empty) is what `Batch.Hash` of /repo returned now (regenerated fact) -/
theorem golden_hash_input : sha256 (hashInput gBatch) = Gen.C10.goldenHash := golden_hash

/-- … and of a re-split pair: the compiled code gives `["ab","c"]` and `["a","bc"]` the keys the model computes -/
theorem golden_key_resplit :
    keyString [[97, 98], [99]] = Gen.C10.keyAbC ∧ keyString [[97], [98, 99]] = Gen.C10.keyABc ∧
      Gen.C10.keyAbC ≠ Gen.C10.keyABc := by decide +kernel

/-- Without the per-transaction length fields the input is NOT injective: `["ab","c"]` and `["a","bc"]` (same count,
same concatenation, other boundaries) collide. -/
theorem hashInputNoLen_not_injective :
    hashInputNoLen [[97, 98], [99]] = hashInputNoLen [[97], [98, 99]] ∧
      ([[97, 98], [99]] : List Bytes) ≠ [[97], [98, 99]] := by decide

/-- … also with a boundary moved across an empty transaction -/
example : hashInputNoLen [[], [97, 98]] = hashInputNoLen [[97], [98]] ∧
    hashInputNoLen [[97], [98]] = hashInputNoLen [[97, 98], []] := by decide

/-- What the injectivity buys, on the smallest history: a re-split pair pending at a restart.  With the real keys both
batches survive, also after the first was handed out; with a key that leaves the length fields out the second acceptance
overwrites the first record (one batch after the restart) and handing the first out deletes the only record (none). -/
theorem resplit_pair_survives_restart :
    let p : Batch := [[97], [98, 99]]
    let q : Batch := [[97, 98], [99]]
    (run realKey {} [.submit [] p, .submit [] q, .restart]).st.mem = [p, q] ∧
    (run realKey {} [.submit [] p, .submit [] q, .next [], .restart]).st.mem = [q] ∧
    (run noLenKey {} [.submit [] p, .submit [] q, .restart]).st.mem = [q] ∧
    (run noLenKey {} [.submit [] p, .submit [] q, .next [], .restart]).st.mem = [] := by decide +kernel

example : PendingKeysDistinct realKey {} [.submit [] [[97], [98, 99]], .submit [] [[97, 98], [99]], .restart] := by
  decide +kernel
example : ¬ PendingKeysDistinct noLenKey {} [.submit [] [[97], [98, 99]], .submit [] [[97, 98], [99]], .restart] := by
  decide +kernel

end Spec.C10
