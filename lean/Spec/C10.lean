import Model.Queue
import Proofs.C10
import Gen.C10

/-!
# C10 — the sequencer's batch queue is a durable FIFO with exactly-once delivery

Vocabulary (`Model/Queue.lean`): a history is a `List Op` (submit / next / restart / a crash before
or after the single durable write of a submit or a next / the bare-queue operations) run from the
freshly created queue; `run key cfg ops` yields the final state `st` (memory list + key-ordered
datastore), the batches accepted so far `acc`, the batches handed out so far `dlv` (both in order)
and the answers `outs`.  `key` is the datastore key function; theorems that hold for every key
function are stated for every `key`, the counter-witnesses use `realKey` (the real SHA-256 of the
real `Batch.Hash` encoding – the function the driver runs against the real code on every check).

Full statement of the property:  for every history  `dlv ++ st.mem = acc`  (everything accepted is
handed out exactly once, in acceptance order, nothing else ever), refused submissions change
nothing, the bound holds.  The order/durability half is **false** of the current code once a restart
is involved (`C10_durable_full_fails`, `C10_order_full_fails`); what is true is proved below.
-/

namespace Spec.C10
open Queue List

/-! ## the model computes the real keys and values (facts regenerated from /repo on every run) -/

def gBatch : Batch := [Bytes.ofString "tx-one", [], Bytes.ofString "tx-three"]

/-- `Batch.Hash` of the golden batch / of the empty batch -/
theorem golden_hash : hashOf gBatch = Gen.C10.goldenHash := by decide +kernel
theorem golden_empty_hash : hashOf [] = Gen.C10.emptyHash := by decide +kernel
/-- datastore key (with the `batches` prefix) and value under which the real sequencer stored it -/
theorem golden_key : keyString gBatch = Gen.C10.goldenKey := by decide +kernel
theorem golden_value : valueOf gBatch = Gen.C10.goldenValue := by decide +kernel
/-- the keys of the two batches used by the order counter-witness -/
theorem golden_key01 : keyString [[1]] = Gen.C10.key01 := by decide +kernel
theorem golden_key02 : keyString [[2]] = Gen.C10.key02 := by decide +kernel

/-! ## 1. without restart the queue *is* the abstract FIFO -/

/-- Refinement: on histories without restart/crash the answers and the memory list are those of the
abstract FIFO `List Batch` (`astep`: submit appends unless refused, next removes the head); the
datastore has no influence. -/
theorem C10_refines_fifo (key : Batch → Nat) (cfg : Cfg) (ops : List Op) (hp : ∀ op ∈ ops, op.plain = true) :
    (run key cfg ops).st.mem = (arun cfg [] ops).1 ∧ (run key cfg ops).outs = (arun cfg [] ops).2 := by
  show (runFrom key cfg {} ops).st.mem = _ ∧ (runFrom key cfg {} ops).outs = _
  simpa using run_refines key cfg ops hp {}

/-- FIFO, exactly once (no restart): handed out ++ pending = accepted, as sequences – duplicates
of contents included. -/
theorem C10_fifo_exactly_once_no_restart (key : Batch → Nat) (cfg : Cfg) (ops : List Op)
    (hp : ∀ op ∈ ops, op.plain = true) :
    (run key cfg ops).dlv ++ (run key cfg ops).st.mem = (run key cfg ops).acc :=
  fifo_plain key cfg ops hp {} rfl

def cfg2 : Cfg := { id := [7], max := 2 }
def a1 : Batch := [[1]]
def a2 : Batch := [[2]]
def a3 : Batch := [[3], []]

/-- non-vacuity: a history that accepts, refuses (full, foreign id, empty) and hands out -/
example :
    let r := run realKey cfg2 [.submit [7] a1, .submit [7] a1, .submit [7] a3, .submit [9] a2, .submit [7] [], .next [7],
      .submit [7] a3, .next [9], .next [7]]
    r.outs = [.ok, .ok, .errFull, .errId, .skipEmpty, .batch a1, .ok, .errId, .batch a1] ∧
    r.acc = [a1, a1, a3] ∧ r.dlv = [a1, a1] ∧ r.st.mem = [a3] := by decide +kernel

/-! ## 2. refused submissions leave no trace -/

/-- A submission (or request) answered with an error, or an empty submission, changes neither memory
nor the datastore. -/
theorem C10_rejected_no_trace (key : Batch → Nat) (cfg : Cfg) (s : St) (op : Op) (hp : op.plain = true)
    (hr : Out.refused (step key cfg s op).2 = true) : (step key cfg s op).1 = s := by
  obtain ⟨s₁, t, _, hpl⟩ := step_cases key cfg s op
  rw [hpl hp]
  cases op with
  | submit id b =>
    rcases submit_cases key cfg s id b with ⟨o, h, _⟩ | ⟨h, _⟩
    · have := hpl hp; simp only [step, h] at this; exact this.symm
    · simp [step, h, Out.refused] at hr
  | add b =>
    rcases addBatch_cases key cfg s b with ⟨h, _⟩ | ⟨h, _⟩
    · have := hpl hp; simp only [step, h] at this; exact this.symm
    · simp [step, h, Out.refused] at hr
  | next id =>
    rcases getNext_cases key cfg s id with ⟨o, h, _⟩ | ⟨b, r, h, _⟩
    · have := hpl hp; simp only [step, h] at this; exact this.symm
    · simp [step, h, Out.refused] at hr
  | qnext =>
    rcases nextBatch_cases key s with ⟨h, _⟩ | ⟨b, r, h, _⟩
    · have := hpl hp; simp only [step, h] at this; exact this.symm
    · simp [step, h, Out.refused] at hr
  | restart => simp [Op.plain] at hp
  | load => simp [Op.plain] at hp
  | crashSubmit _ _ _ => simp [Op.plain] at hp
  | crashNext _ _ => simp [Op.plain] at hp

/-- … and when the process dies during a refused operation the datastore is still unchanged. -/
theorem C10_rejected_no_durable_trace (key : Batch → Nat) (cfg : Cfg) (s : St) (op : Op)
    (hr : Out.refused (step key cfg s op).2 = true) : (step key cfg s op).1.disk = s.disk := by
  cases op with
  | crashSubmit aw id b =>
    cases aw
    · rfl
    · rcases submit_cases key cfg s id b with ⟨o, h, _⟩ | ⟨h, _⟩
      · simp [step, h, reload]
      · simp [step, h, Out.refused] at hr
  | crashNext aw id =>
    cases aw
    · rfl
    · rcases getNext_cases key cfg s id with ⟨o, h, _⟩ | ⟨b, r, h, _⟩
      · simp [step, h, reload]
      · simp [step, h, Out.refused] at hr
  | restart => rfl
  | load => rfl
  | submit id b => rw [C10_rejected_no_trace key cfg s _ rfl hr]
  | add b => rw [C10_rejected_no_trace key cfg s _ rfl hr]
  | next id => rw [C10_rejected_no_trace key cfg s _ rfl hr]
  | qnext => rw [C10_rejected_no_trace key cfg s _ rfl hr]

/-- non-vacuity: the three refusals on a non-trivial state -/
example :
    let s : St := (run realKey cfg2 [.submit [7] a1, .submit [7] a2]).st
    (step realKey cfg2 s (.submit [7] a3)) = (s, .errFull) ∧ (step realKey cfg2 s (.submit [8] a3)) = (s, .errId) ∧
    (step realKey cfg2 s (.submit [7] [])) = (s, .skipEmpty) ∧ s.disk.length = 2 := by decide +kernel

/-! ## 3. the bound, and the datastore never holds anything but pending batches
(every history: restarts, crashes, duplicates) -/

/-- The queue bound is respected after every history. -/
theorem C10_bound (key : Batch → Nat) (cfg : Cfg) (ops : List Op) (hm : 0 < cfg.max) :
    (run key cfg ops).st.mem.length ≤ cfg.max :=
  (J_run key cfg ops).bound hm

/-- Every datastore entry is stored under the key of its own batch, that batch is pending, and the
keys are strictly ascending (so: distinct). -/
theorem C10_disk_subset_undelivered (key : Batch → Nat) (cfg : Cfg) (ops : List Op) :
    let s := (run key cfg ops).st
    (∀ e ∈ s.disk, e.1 = key e.2 ∧ e.2 ∈ s.mem) ∧ s.disk.Pairwise (fun x y => x.1 < y.1) := by
  have j := J_run key cfg ops
  refine ⟨fun e he => ⟨j.keyed e he, ?_⟩, j.sorted⟩
  obtain ⟨l, hl, hp⟩ := j.sub
  exact hl.subset ((hp.mem_iff).1 (mem_map_of_mem (f := (·.2)) he))

/-- At most once, for every history (restarts, crashes at every write boundary, duplicates): no
batch is handed out or pending more often than it was accepted.  In particular a batch that was
handed out never reappears, and nothing that was refused is ever handed out. -/
theorem C10_at_most_once (key : Batch → Nat) (cfg : Cfg) (ops : List Op) (x : Batch) :
    ((run key cfg ops).dlv ++ (run key cfg ops).st.mem).count x ≤ (run key cfg ops).acc.count x := by
  have h := run_induction key cfg (fun r => J key cfg r.st ∧ M r)
    (fun r op h => ⟨J_step key h.1 op, M_step key h.1 h.2 op⟩) {} ⟨J_init key cfg, fun _ => by simp⟩ ops
  exact h.2 x

/-- non-vacuity: the inequality is strict on the duplicate history (accepted twice, only one copy left),
and the datastore entry that is left is a pending batch under its own key -/
example :
    let r := run realKey {} [.submit [] a1, .submit [] a1, .restart]
    r.acc.count a1 = 2 ∧ (r.dlv ++ r.st.mem).count a1 = 1 ∧ r.st.disk = [(realKey a1, a1)] := by decide +kernel

/-- non-vacuity: bound 2 reached, a restart in between -/
example : (run realKey cfg2 [.submit [7] a1, .submit [7] a2, .restart, .submit [7] a3]).st.mem.length = 2 := by
  decide +kernel

/-! ## 4. across restarts and crashes -/

/-- Full statement, durability half: after every history every accepted batch has been handed out
or is still pending – exactly once (as multisets). -/
def C10_durable_full : Prop :=
  ∀ (cfg : Cfg) (ops : List Op), ((run realKey cfg ops).dlv ++ (run realKey cfg ops).st.mem).Perm (run realKey cfg ops).acc

/-- FALSE of the current code: two accepted batches with identical contents share one datastore
key, so a restart brings back only one of them (known finding
`C10/durable/duplicate-content-lost-on-restart`). -/
theorem C10_durable_full_fails : ¬ C10_durable_full := by
  intro h
  have h1 := (h {} [.submit [] a1, .submit [] a1, .restart]).length_eq
  revert h1
  decide +kernel

/-- the witness in full: both accepted, one pending after the restart, one datastore entry -/
example :
    let r := run realKey {} [.submit [] a1, .submit [] a1, .restart]
    r.acc = [a1, a1] ∧ r.dlv = [] ∧ r.st.mem = [a1] ∧ r.st.disk.length = 1 := by decide +kernel

/-- Full statement, order half: even when all contents are distinct, after every history
handed out ++ pending = accepted **in acceptance order**. -/
def C10_order_full : Prop :=
  ∀ (cfg : Cfg) (ops : List Op), (run realKey cfg ops).acc.Nodup →
    (run realKey cfg ops).dlv ++ (run realKey cfg ops).st.mem = (run realKey cfg ops).acc

/-- FALSE of the current code: `Load` iterates the datastore in key order, i.e. in the order of the
SHA-256 hashes of the contents (known finding `C10/fifo/restart-delivers-in-key-order`). -/
theorem C10_order_full_fails : ¬ C10_order_full := by
  intro h
  have h1 := h {} [.submit [] a1, .submit [] a2, .restart] (by decide +kernel)
  revert h1
  decide +kernel

/-- the witness in full: accepted `[1]` then `[2]`, after the restart `[2]` comes first -/
example :
    let r := run realKey {} [.submit [] a1, .submit [] a2, .restart, .next []]
    r.acc = [a1, a2] ∧ r.dlv = [a2] ∧ r.st.mem = [a1] := by decide +kernel

/-- After a restart memory is in strictly ascending key order, whatever the arrival order was
(every key function, every history) – the mechanism behind `C10_order_full_fails`. -/
theorem C10_reload_in_key_order (key : Batch → Nat) (cfg : Cfg) (ops : List Op) :
    ((run key cfg (ops ++ [.restart])).st.mem.map key).Pairwise (· < ·) := by
  have j := J_run key cfg ops
  have hrun : (run key cfg (ops ++ [.restart])).st = reload (run key cfg ops).st := by
    show (runFrom key cfg {} (ops ++ [.restart])).st = reload (runFrom key cfg {} ops).st
    simp [runFrom, Run.step, step]
  rw [hrun]
  simp only [reload, map_map]
  have hk : (run key cfg ops).st.disk.map (key ∘ fun x => x.2) = (run key cfg ops).st.disk.map (·.1) :=
    map_congr_left (fun e he => (j.keyed e he).symm)
  rw [hk, pairwise_map]
  exact j.sorted

/-- non-vacuity: arrival order `[1]`, `[2]`, `[3,·]`; key order after the restart is another one -/
example : (run realKey {} ([.submit [] a1, .submit [] a2, .submit [] a3] ++ [.restart])).st.mem = [a2, a1, a3] := by
  decide +kernel

/-- PARTIAL (excludes the duplicate witness): if the keys of the accepted batches are pairwise
distinct, then after every history – restarts and crashes before/after every durable write
included – handed out ++ pending is a permutation of accepted (every accepted batch survives,
exactly once; none reappears after having been handed out), and the datastore holds exactly the
pending batches. -/
theorem C10_restart_partial (key : Batch → Nat) (cfg : Cfg) (ops : List Op)
    (hn : ((run key cfg ops).acc.map key).Nodup) :
    ((run key cfg ops).dlv ++ (run key cfg ops).st.mem).Perm (run key cfg ops).acc ∧
    ((run key cfg ops).st.disk.map (·.2)).Perm (run key cfg ops).st.mem :=
  ⟨(K_run key cfg ops hn).multiset, (K_run key cfg ops hn).disk⟩

/-- The hypothesis in the property's words: the contents are pairwise distinct and the hash does not
collide on them. -/
theorem C10_restart_partial' (key : Batch → Nat) (cfg : Cfg) (ops : List Op)
    (hd : (run key cfg ops).acc.Nodup)
    (keyNoCollision : ∀ a ∈ (run key cfg ops).acc, ∀ b ∈ (run key cfg ops).acc, key a = key b → a = b) :
    ((run key cfg ops).dlv ++ (run key cfg ops).st.mem).Perm (run key cfg ops).acc ∧
    ((run key cfg ops).st.disk.map (·.2)).Perm (run key cfg ops).st.mem := by
  refine C10_restart_partial key cfg ops ?_
  rw [Nodup, pairwise_map]
  exact Pairwise.imp_of_mem (fun ha hb hne hk => hne (keyNoCollision _ ha _ hb hk)) hd

/-- Under the same hypothesis nothing is both handed out and pending, nothing is handed out twice. -/
theorem C10_no_reappearance_partial (key : Batch → Nat) (cfg : Cfg) (ops : List Op)
    (hn : ((run key cfg ops).acc.map key).Nodup) :
    ((run key cfg ops).dlv ++ (run key cfg ops).st.mem).Nodup := by
  have hp := (C10_restart_partial key cfg ops hn).1
  have h2 : (((run key cfg ops).dlv ++ (run key cfg ops).st.mem).map key).Nodup := (hp.map key).nodup_iff.2 hn
  rw [Nodup, pairwise_map] at h2
  exact h2.imp (fun hne heq => hne (congrArg key heq))

/-- the disk = pending part is false without the hypothesis: after one of two equal batches was
handed out the other is pending but no longer in the datastore -/
theorem C10_disk_eq_undelivered_fails :
    ¬ (∀ (cfg : Cfg) (ops : List Op), ((run realKey cfg ops).st.disk.map (·.2)).Perm (run realKey cfg ops).st.mem) := by
  intro h
  have h1 := (h {} [.submit [] a1, .submit [] a1, .next []]).length_eq
  revert h1
  decide +kernel

/-- non-vacuity of the partial theorems: distinct keys, restart and both kinds of crash, and the
conclusion is about a non-empty multiset (order differs from arrival order!) -/
example :
    let r := run realKey {} [.submit [] a1, .submit [] a2, .crashSubmit true [] a3, .crashNext false [], .next [], .restart]
    (r.acc.map realKey).Nodup ∧ r.acc = [a1, a2, a3] ∧ r.dlv = [a2] ∧ r.st.mem = [a1, a3] := by decide +kernel

/-- PARTIAL (excludes the order witness): if the keys of the accepted batches are strictly ascending
in acceptance order (then they are distinct, too), the full statement holds: after every history,
restarts and crashes included, handed out ++ pending = accepted as sequences. -/
theorem C10_order_partial (key : Batch → Nat) (cfg : Cfg) (ops : List Op)
    (hn : ((run key cfg ops).acc.map key).Pairwise (· < ·)) :
    (run key cfg ops).dlv ++ (run key cfg ops).st.mem = (run key cfg ops).acc :=
  (A_run key cfg ops hn).fifo

/-- non-vacuity: the order witness's batches submitted in key order survive a restart in order -/
example :
    let r := run realKey {} [.submit [] a2, .submit [] a1, .restart, .next []]
    (r.acc.map realKey).Pairwise (· < ·) ∧ r.acc = [a2, a1] ∧ r.dlv = [a2] ∧ r.st.mem = [a1] := by decide +kernel

end Spec.C10
