import Model.KeyFile
import Proofs.C19
import Gen.C19

/-! # C19 — the proposer key file protects the key and yields a working, matching signer

All theorems are about `KeyFile.load/save/exportKey/importKey/legacyKey` — the definitions the
driver `drv_C19` executes — for an arbitrary crypto bundle `C` with `L : Laws C` (hypotheses, not
axioms); the concrete files are on the instance `Sym` (`Sym.laws : Laws Sym`).

`C19_noPanic`, `C19_usable`, `C19_corruption` hold at full strength (every passphrase, every file)
since the three `fix:` commits in /repo (notes/C19.md).  The one clause that is still false of the
code — a legacy file loads only with its own passphrase — stays a `def` with a `_fails` witness and
a `_partial` theorem (`C19_full_iff_legacy`: it is the only obstacle to `C19_full`). -/
namespace Spec.C19
open KeyFile Proofs.C19

variable {C : Crypto}

/-! ## Round trip and passphrase discipline (files written by the current code) -/

/-- A key saved under a passphrase loads with that passphrase to the same key, and the signer
reports the public key of that key. (All passphrases, including empty and very long; all keys.) -/
theorem load_save (L : Laws C) (p : Bytes) (sk : C.SK) (salt nonce : Bytes)
    (hs : salt ≠ []) (hn : nonce.length = nonceSize) :
    load C p (save C p sk salt nonce) = .ok { sk := sk, pk := C.pubOf sk } := by
  unfold load
  rw [decrypt_save L p sk salt nonce hs hn]
  simp only [L.parsePriv_privBytes, save, fld, Option.getD_some, L.parsePub_pubBytes, if_true]

/-- … its signatures verify under the public key it reports, and its address is the one verifiers
derive from that key (`types.KeyAddress` = SHA-256 of the raw public key). -/
theorem load_save_signer (L : Laws C) (p : Bytes) (sk : C.SK) (salt nonce : Bytes)
    (hs : salt ≠ []) (hn : nonce.length = nonceSize) :
    ∃ s, load C p (save C p sk salt nonce) = .ok s ∧ s.pk = C.pubOf sk ∧ s.Consistent ∧
      address C s.pk = sha256 (C.pubBytes (C.pubOf sk)) :=
  ⟨_, load_save L p sk salt nonce hs hn, rfl, fun m => L.verify_sign sk m, rfl⟩

/-- A file written by the current code loads only with the passphrase it was saved under. -/
theorem wrong_passphrase (L : Laws C) (p p' : Bytes) (sk : C.SK) (salt nonce : Bytes)
    (hs : salt ≠ []) (hn : nonce.length = nonceSize) (hp : p' ≠ p) :
    load C p' (save C p sk salt nonce) = .err .auth ∧ exportKey C p' (save C p sk salt nonce) = .err .auth := by
  have hk : C.argon p salt ≠ C.argon p' salt := fun e => hp (L.argon_inj _ _ _ _ e).1.symm
  have hs0 : ¬ (salt.length = 0 ∧ p'.length = 0) := fun h => hs (List.length_eq_zero_iff.mp h.1)
  have hd : decrypt C p' (save C p sk salt nonce) = .err .auth := by
    unfold decrypt save gcmOpen
    simp only [fld, Option.getD_some, if_neg hs0, deriveKey_salted p' salt hs, hn, ne_eq, not_true_eq_false, if_false,
      L.dec_key _ _ nonce nonce _ hk]
  exact ⟨by unfold load; rw [hd], hd⟩

/-- "signatures verify under the reported key" is exactly "the reported key is the private key's". -/
theorem consistent_iff (L : Laws C) (s : Signer C) : s.Consistent ↔ s.pk = C.pubOf s.sk :=
  Proofs.C19.consistent_iff L s

/-! ## The full statement: every passphrase, every file (every field-level corruption, either format) -/

/-- **No (passphrase, file) pair makes `Load` or `Export` panic**: the two partial operations the
code contains (`i % len(passphrase)`, `gcm.Open` on a nonce of the wrong length — `Panic`) are
unreachable behind the guards of `decrypt`. -/
theorem C19_noPanic (p : Bytes) (f : File C) :
    (load C p f).isPanic = false ∧ (exportKey C p f).isPanic = false :=
  ⟨by rw [load_isPanic_eq]; exact decrypt_not_panic p f, decrypt_not_panic p f⟩

/-- **Whatever `Load` hands out is a working signer**: it reports the public key of the private
key it signs with, so all its signatures verify under the key (and address) it reports — for every
passphrase and every file, whatever the `pub_key` field says. -/
theorem C19_usable (L : Laws C) (p : Bytes) (f : File C) (s : Signer C) (h : load C p f = .ok s) :
    s.pk = C.pubOf s.sk ∧ s.Consistent ∧ address C s.pk = sha256 (C.pubBytes (C.pubOf s.sk)) := by
  obtain ⟨_, _, _, _, he⟩ := load_ok_inv h
  have hpk : s.pk = C.pubOf s.sk := (pubBytes_inj L he).symm
  exact ⟨hpk, (consistent_iff L s).mpr hpk, by rw [hpk]; rfl⟩

/-- a legacy-format file loads only with the passphrase it was sealed under — **false**, see
`legacyKey_collision` (inherent in the legacy format; known finding, not repaired) -/
def C19_legacyOnlyItsPassphrase (C : Crypto) : Prop :=
  ∀ (p p' : Bytes) (sk : C.SK) (nonce : Bytes) (f : File C), nonce.length = nonceSize →
    saveLegacy C p sk nonce = some f → p' ≠ p → ∀ s, load C p' f ≠ .ok s

/-- C19 at full strength: for all passphrases and all files (every field-level corruption of every
file, in either format). -/
def C19_full (C : Crypto) : Prop :=
  (∀ (p : Bytes) (f : File C), (load C p f).isPanic = false ∧ (exportKey C p f).isPanic = false) ∧
  (∀ (p : Bytes) (f : File C) (s : Signer C), load C p f = .ok s → s.Consistent) ∧
  C19_legacyOnlyItsPassphrase C

/-- the only part of the full statement the code does not meet is the legacy passphrase clause -/
theorem C19_full_iff_legacy (L : Laws C) : C19_full C ↔ C19_legacyOnlyItsPassphrase C :=
  ⟨fun h => h.2.2, fun h => ⟨C19_noPanic, fun p f s hl => (C19_usable L p f s hl).2.1, h⟩⟩

/-! ### Concrete files on `Sym`: the inputs that used to break the property are now rejected -/

def wSk : SymSK := ⟨List.replicate 32 1 ++ List.replicate 32 2, by decide⟩
def wOtherPub : SymPK := ⟨List.replicate 32 3, by decide⟩
def wPass : Bytes := [112, 119]
def wSalt : Bytes := List.replicate 16 5
def wNonce : Bytes := List.replicate 12 6
/-- an untouched file as the current code writes it -/
def wFile : File Sym := save Sym wPass wSk wSalt wNonce
/-- (a) the stored public key replaced by another valid key -/
def wSwapped : File Sym := { wFile with pub := some wOtherPub.val }
/-- (b) the nonce field lost -/
def wNoNonce : File Sym := { wFile with nonce := none }
/-- (b') the nonce one byte short -/
def wShortNonce : File Sym := { wFile with nonce := some (List.replicate 11 6) }
/-- (c) no salt: the legacy path -/
def wNoSalt : File Sym := { wFile with salt := none }

/-- (a) the file with the swapped public key is rejected (it used to load and report the other key);
`Export` does not look at `pub_key` and still returns the key, so the file can be repaired. -/
theorem swapped_rejected : load Sym wPass wSwapped = .err .pubmismatch ∧
    exportKey Sym wPass wSwapped = .ok wSk.val := ⟨by rfl, by rfl⟩

/-- (b) a missing or short nonce is an error in `Load` and in `Export` (it used to reach
`gcm.Open`'s length panic). -/
theorem bad_nonce_rejected : load Sym wPass wNoNonce = .err .nonce ∧
    load Sym wPass wShortNonce = .err .nonce ∧ exportKey Sym wPass wNoNonce = .err .nonce :=
  ⟨by rfl, by rfl, by rfl⟩

/-- (c) a salt-less file with the empty passphrase is an error (it used to reach `i % 0`). -/
theorem legacy_empty_passphrase_rejected : load Sym [] wNoSalt = .err .emptypass ∧
    load Sym [] ({} : File Sym) = .err .emptypass ∧ exportKey Sym [] wNoSalt = .err .emptypass :=
  ⟨by rfl, by rfl, by rfl⟩

/-- (d) the legacy derivation is not injective: it ignores everything after 32 bytes, and a 1-byte
passphrase collides with the 31-byte prefix of its own expansion. -/
def wLong : Bytes := List.replicate 40 7
def wLong' : Bytes := List.replicate 32 7 ++ [9]
theorem legacyKey_collision : wLong ≠ wLong' ∧ legacyKey wLong = legacyKey wLong' ∧ (legacyKey wLong).isSome = true ∧
    legacyKey [65] = legacyKey (((legacyKey [65]).getD []).take 31) := by decide +kernel

def wLegacy : File Sym := { ct := some (Sym.enc (Sym.raw (List.replicate 32 7)) wNonce wSk.val),
                            nonce := some wNonce, pub := some (Sym.pubOf wSk).val, salt := none }

theorem C19_legacyOnlyItsPassphrase_fails : ¬ C19_legacyOnlyItsPassphrase Sym := by
  intro h
  exact h wLong wLong' wSk wNonce wLegacy (by decide) (by rfl) (by decide)
    { sk := wSk, pk := Sym.pubOf wSk } (by rfl)

theorem C19_full_fails : ¬ C19_full Sym := fun h => C19_legacyOnlyItsPassphrase_fails h.2.2

/-! ## Corruption -/

/-- AEAD integrity, as a hypothesis on a modified ciphertext: it opens under no key. -/
def Unopenable (C : Crypto) (ct : C.Ct) : Prop := ∀ k n, C.dec k n ct = none

/-- **Every field-level corruption** of a saved file, with **any** passphrase: the nonce, salt and
public-key fields may be anything (absent, empty, any length, any bytes), the ciphertext field may
be the original, absent, or modified (a modified ciphertext being one that opens under no key —
the AEAD assumption), and the outcome is never a panic and never another key: it is an error or
the *same* key with its own public key. -/
theorem C19_corruption (L : Laws C) (p : Bytes) (sk : C.SK) (salt nonce : Bytes)
    (p' : Bytes) (f' : File C)
    (hct : f'.ct = (save C p sk salt nonce).ct ∨ f'.ct = none ∨ ∃ ct, f'.ct = some ct ∧ Unopenable C ct) :
    (load C p' f').isErr = true ∨ load C p' f' = .ok { sk := sk, pk := C.pubOf sk } := by
  have hnp := (C19_noPanic (C := C) p' f').1
  cases hl : load C p' f' with
  | panic q => rw [hl] at hnp; cases hnp
  | err e => exact Or.inl rfl
  | ok s =>
    right
    obtain ⟨m, hd, hsk, _, _⟩ := load_ok_inv hl
    obtain ⟨k, ct, _, _, hct', hdec⟩ := decrypt_ok_inv hd
    have hm : m = C.privBytes sk := by
      cases hct with
      | inl h =>
        rw [h] at hct'
        simp only [save, Option.some.injEq] at hct'
        rw [← hct'] at hdec
        exact (dec_enc_inv L hdec).2.2
      | inr h =>
        cases h with
        | inl h => rw [h] at hct'; cases hct'
        | inr h =>
          obtain ⟨ct2, h1, h2⟩ := h
          rw [h1] at hct'; cases hct'
          rw [h2] at hdec; cases hdec
    rw [hm, L.parsePriv_privBytes] at hsk
    have hpk := (C19_usable L p' f' s hl).1
    cases s with
    | mk ssk spk =>
      simp only at hsk hpk
      rw [hpk, ← Option.some.inj hsk]

/-- In particular: no corruption of a saved file, with any passphrase, yields a signer for a
*different* key or one that reports a key that is not its own. -/
theorem C19_corruption_same_key (L : Laws C) (p : Bytes) (sk : C.SK) (salt nonce : Bytes) (p' : Bytes)
    (f' : File C) (s : Signer C)
    (hct : f'.ct = (save C p sk salt nonce).ct ∨ f'.ct = none ∨ ∃ ct, f'.ct = some ct ∧ Unopenable C ct)
    (h : load C p' f' = .ok s) : s.sk = sk ∧ s.pk = C.pubOf sk ∧ s.Consistent := by
  cases C19_corruption L p sk salt nonce p' f' hct with
  | inl he => rw [h] at he; cases he
  | inr ho =>
    rw [h] at ho
    cases ho
    exact ⟨rfl, rfl, fun m => L.verify_sign sk m⟩

/-! ### Legacy (salt-less) files -/

/-- a legacy file loads with the passphrase it was sealed under … -/
theorem legacy_load (L : Laws C) (p : Bytes) (sk : C.SK) (nonce : Bytes) (f : File C)
    (hn : nonce.length = nonceSize) (hf : saveLegacy C p sk nonce = some f) :
    load C p f = .ok { sk := sk, pk := C.pubOf sk } := by
  unfold saveLegacy at hf
  cases hk : legacyKey p with
  | none => rw [hk] at hf; cases hf
  | some kb =>
    rw [hk] at hf
    simp only [Option.map_some, Option.some.injEq] at hf
    subst hf
    have hp0 : ¬ (([] : Bytes).length = 0 ∧ p.length = 0) := by
      intro h
      rw [List.length_eq_zero_iff.mp h.2, legacyKey_nil] at hk; cases hk
    unfold load decrypt
    simp only [fld, Option.getD_none, Option.getD_some, if_neg hp0, deriveKey_legacy, hk, Option.map_some, hn, ne_eq,
      not_true_eq_false, if_false, gcmOpen_enc L _ _ _ hn, L.parsePriv_privBytes, L.parsePub_pubBytes, if_true]

/-- … and with no passphrase that derives a different legacy key (**partial**: the derivation is
not injective, see `legacyKey_collision`). -/
theorem C19_legacyOnlyItsPassphrase_partial (L : Laws C) (p p' : Bytes) (sk : C.SK) (nonce : Bytes) (f : File C)
    (hf : saveLegacy C p sk nonce = some f)
    (hk : legacyKey p' ≠ legacyKey p) : ∀ s, load C p' f ≠ .ok s := by
  intro s hl
  obtain ⟨m, hd, _, _, _⟩ := load_ok_inv hl
  obtain ⟨k, ct, hdk, _, hct, hdec⟩ := decrypt_ok_inv hd
  unfold saveLegacy at hf
  cases hkp : legacyKey p with
  | none => rw [hkp] at hf; cases hf
  | some kb =>
    rw [hkp] at hf
    simp only [Option.map_some, Option.some.injEq] at hf
    subst hf
    simp only [fld, Option.getD_none, deriveKey_legacy] at hdk
    simp only [Option.some.injEq] at hct
    subst hct
    cases hkp' : legacyKey p' with
    | none => rw [hkp'] at hdk; cases hdk
    | some kb' =>
      rw [hkp'] at hdk
      simp only [Option.map_some, Option.some.injEq] at hdk
      subst hdk
      have := (dec_enc_inv L hdec).1
      have := L.raw_inj _ _ this
      exact hk (by rw [hkp', hkp, this])

/-- among passphrases of one length ≤ 32 the legacy derivation *is* injective -/
theorem legacyKey_inj_same_length (p p' : Bytes) (hl : p.length = p'.length) (h32 : p.length ≤ keyLen)
    (hne : p ≠ []) (h : legacyKey p = legacyKey p') : p = p' := by
  have hl0 : p.length ≠ 0 := fun e => hne (List.length_eq_zero_iff.mp e)
  have hl0' : p'.length ≠ 0 := by rw [← hl]; exact hl0
  unfold legacyKey at h
  by_cases h1 : keyLen ≤ p.length
  · have e : p.length = keyLen := Nat.le_antisymm h32 h1
    have e' : p'.length = keyLen := by rw [← hl]; exact e
    rw [if_pos h1, if_pos (by rw [← hl]; exact h1)] at h
    have := Option.some.inj h
    rwa [List.take_of_length_le (Nat.le_of_eq e), List.take_of_length_le (Nat.le_of_eq e')] at this
  · rw [if_neg h1, if_neg (by rw [← hl]; exact h1), mapM_legacyByte p hl0, mapM_legacyByte p' hl0'] at h
    simp only [Option.map_some, Option.some.injEq] at h
    exact (List.append_inj h hl).1

/-! ### Export and import -/

theorem export_save (L : Laws C) (p : Bytes) (sk : C.SK) (salt nonce : Bytes)
    (hs : salt ≠ []) (hn : nonce.length = nonceSize) :
    exportKey C p (save C p sk salt nonce) = .ok (C.privBytes sk) := decrypt_save L p sk salt nonce hs hn

/-- `import (export f) ≃ f`: exporting a saved key and importing it (under any passphrase, with
fresh salt and nonce) gives exactly the file that saving the same key would have given. -/
theorem import_export (L : Laws C) (p p2 : Bytes) (sk : C.SK) (salt nonce salt2 nonce2 : Bytes)
    (hs : salt ≠ []) (hn : nonce.length = nonceSize) :
    ∃ raw, exportKey C p (save C p sk salt nonce) = .ok raw ∧
      importKey C p2 raw salt2 nonce2 = .ok (save C p2 sk salt2 nonce2) := by
  refine ⟨_, export_save L p sk salt nonce hs hn, ?_⟩
  unfold importKey
  rw [L.parsePriv_privBytes]

/-- For **any** file (also a legacy one, or one whose `pub_key` was tampered with, which no longer
loads): if `Export` returns a well-formed key, importing it gives a file that loads to a signer for
that private key with the right public key, and re-exports the same bytes — export→import repairs
a tampered `pub_key`. -/
theorem import_export_any (L : Laws C) (p p2 : Bytes) (f : File C) (raw : Bytes) (sk : C.SK) (salt2 nonce2 : Bytes)
    (hs : salt2 ≠ []) (hn : nonce2.length = nonceSize) (_he : exportKey C p f = .ok raw)
    (hp : C.parsePriv raw = some sk) :
    ∃ f2, importKey C p2 raw salt2 nonce2 = .ok f2 ∧
      load C p2 f2 = .ok { sk := sk, pk := C.pubOf sk } ∧ exportKey C p2 f2 = .ok (C.privBytes sk) := by
  refine ⟨save C p2 sk salt2 nonce2, ?_, load_save L p2 sk salt2 nonce2 hs hn, export_save L p2 sk salt2 nonce2 hs hn⟩
  unfold importKey; rw [hp]

/-- … in particular for every file that loads: export→import→load gives the same signer. -/
theorem import_export_loaded (L : Laws C) (p p2 : Bytes) (f : File C) (s : Signer C) (salt2 nonce2 : Bytes)
    (hs : salt2 ≠ []) (hn : nonce2.length = nonceSize) (hl : load C p f = .ok s) :
    ∃ raw f2, exportKey C p f = .ok raw ∧ importKey C p2 raw salt2 nonce2 = .ok f2 ∧
      load C p2 f2 = .ok s ∧ exportKey C p2 f2 = .ok (C.privBytes s.sk) := by
  obtain ⟨m, hd, hsk, _, _⟩ := load_ok_inv hl
  obtain ⟨f2, h1, h2, h3⟩ := import_export_any L p p2 f m s.sk salt2 nonce2 hs hn hd hsk
  have hpk := (C19_usable L p f s hl).1
  refine ⟨m, f2, hd, h1, ?_, h3⟩
  rw [h2, ← hpk]

/-! ## What the repair changed (`loadPre` = the behaviour before the three `fix:` commits) -/

/-- the unguarded code panicked **exactly** on the two inputs the guards reject: the guards are
necessary as well as sufficient -/
theorem repair_guards_sharp (p : Bytes) (f : File C) :
    (loadPre C p f).isPanic = true ↔ ((p = [] ∧ fld f.salt = []) ∨ (fld f.nonce).length ≠ nonceSize) := by
  rw [← decryptPre_isPanic]
  have : (loadPre C p f).isPanic = (decryptPre C p f).isPanic := by
    unfold loadPre
    cases decryptPre C p f with
    | panic q => rfl
    | err e => rfl
    | ok m =>
      simp only
      cases C.parsePriv m with
      | none => rfl
      | some sk => cases C.parsePub (fld f.pub) <;> rfl
  rw [this]

/-- the repair rejects nothing that was right: a load that gave a working signer still gives it -/
theorem repair_conservative (L : Laws C) (p : Bytes) (f : File C) (s : Signer C) (h : loadPre C p f = .ok s)
    (hc : s.Consistent) : load C p f = .ok s := by
  have hnp : (loadPre C p f).isPanic = false := by rw [h]; rfl
  have hsharp : ¬ ((p = [] ∧ fld f.salt = []) ∨ (fld f.nonce).length ≠ nonceSize) := fun hh => by
    have := (repair_guards_sharp (C := C) p f).mpr hh
    rw [hnp] at this; cases this
  obtain ⟨m, hd, hsk, hpk⟩ := loadPre_ok_inv h
  have h1 : ¬ ((fld f.salt).length = 0 ∧ p.length = 0) := fun hh =>
    hsharp (Or.inl ⟨List.length_eq_zero_iff.mp hh.2, List.length_eq_zero_iff.mp hh.1⟩)
  have h2 : (fld f.nonce).length = nonceSize := Decidable.not_not.mp fun hh => hsharp (Or.inr hh)
  have hpkeq : s.pk = C.pubOf s.sk := (consistent_iff L s).mp hc
  unfold load
  rw [decrypt_eq_pre p f h1 h2, hd]
  simp only [hsk, hpk]
  rw [if_pos (by rw [hpkeq])]

/-- … and accepts nothing new: whatever loads now loaded before, to the same signer -/
theorem repair_accepts_nothing_new (p : Bytes) (f : File C) (s : Signer C) (h : load C p f = .ok s) :
    loadPre C p f = .ok s := by
  obtain ⟨m, hd, hsk, hpk, _⟩ := load_ok_inv h
  unfold loadPre
  rw [decrypt_ok_pre hd]
  simp only [hsk, hpk]

/-! ## Address: the three derivations in the tree and the model agree (facts regenerated from /repo on every run) -/

/-- the model's address is `types.KeyAddress`: SHA-256 of the raw public key -/
theorem address_def (pk : C.PK) : address C pk = sha256 (C.pubBytes pk) := rfl

/-- on the fixed key of `Gen.C19`, what `types.KeyAddress` computes now is the model's address … -/
theorem golden_address : sha256 Gen.C19.goldenPub = Gen.C19.addrKeyAddress := by decide +kernel

/-- … and the file signer (`getAddress`, local.go:445), the noop signer (noop/signer.go:54) and
`types.NewSigner` (types/signer.go:24) give the same bytes as `types.KeyAddress` (types/signer.go:42);
the file signer reports the public key that is the second half of the raw private key (`symPubOf`). -/
theorem golden_address_agree : Gen.C19.addrFile = Gen.C19.addrKeyAddress ∧ Gen.C19.addrNoop = Gen.C19.addrKeyAddress ∧
    Gen.C19.addrNewSigner = Gen.C19.addrKeyAddress ∧ Gen.C19.filePub = Gen.C19.goldenPub ∧
    Gen.C19.goldenSk.drop 32 = Gen.C19.goldenPub := by decide +kernel

/-! ## Non-vacuity: the hypotheses are satisfiable and both outcomes occur (on `Sym`) -/

example : Laws Sym := Sym.laws
example : load Sym wPass wFile = .ok { sk := wSk, pk := Sym.pubOf wSk } :=
  load_save Sym.laws wPass wSk wSalt wNonce (by decide) (by decide)
example : load Sym [] (save Sym [] wSk wSalt wNonce) = .ok { sk := wSk, pk := Sym.pubOf wSk } :=
  load_save Sym.laws [] wSk wSalt wNonce (by decide) (by decide)
example : load Sym [112] wFile = .err .auth :=
  (wrong_passphrase Sym.laws wPass [112] wSk wSalt wNonce (by decide) (by decide) (by decide)).1
/-- a corruption covered by `C19_corruption` that ends in an error (salt bit flipped) … -/
example : (load Sym wPass { wFile with salt := some (List.replicate 16 4) }).isErr = true := by rfl
/-- … one that ends in an error via the legacy path (salt lost, passphrase non-empty) … -/
example : (load Sym wPass wNoSalt).isErr = true := by rfl
/-- … a garbage ciphertext … -/
example : Unopenable Sym SymCt.garbage := fun _ _ => rfl
example : (load Sym wPass { wFile with ct := some SymCt.garbage }).isErr = true := by rfl
/-- … and the untouched file, which is covered too and loads. -/
example : (load Sym wPass wFile).isErr = true ∨ load Sym wPass wFile = .ok { sk := wSk, pk := Sym.pubOf wSk } :=
  C19_corruption Sym.laws wPass wSk wSalt wNonce wPass wFile (Or.inl rfl)
/-- corruptions of the public key, nonce and salt fields are covered by `C19_corruption` and end in errors -/
example : (load Sym wPass wSwapped).isErr = true ∧ (load Sym wPass wNoNonce).isErr = true ∧
    (load Sym [] wNoSalt).isErr = true := ⟨by rfl, by rfl, by rfl⟩
example : (load Sym wPass wNoNonce).isPanic = false := (C19_noPanic wPass wNoNonce).1
/-- `C19_usable` is not vacuous: files load (legacy format: see `legacy_load` below) -/
example : ∃ s, load Sym wPass wFile = .ok s ∧ s.Consistent :=
  ⟨_, load_save Sym.laws wPass wSk wSalt wNonce (by decide) (by decide), fun m => Sym.laws.verify_sign wSk m⟩
/-- the pre-repair behaviour on the three witnesses (what `repair_*` talk about) -/
example : loadPre Sym wPass wSwapped = .ok { sk := wSk, pk := wOtherPub } ∧
    loadPre Sym wPass wNoNonce = .panic .nonceLen ∧ loadPre Sym [] wNoSalt = .panic .divZero := ⟨by rfl, by rfl, by rfl⟩
example : (saveLegacy Sym [1, 2, 3] wSk wNonce).isSome = true := by rfl
example : ∃ f, saveLegacy Sym [1, 2, 3] wSk wNonce = some f ∧ load Sym [1, 2, 3] f = .ok { sk := wSk, pk := Sym.pubOf wSk } ∧
    ∀ s, load Sym [1, 2, 4] f ≠ .ok s := by
  cases hf : saveLegacy Sym [1, 2, 3] wSk wNonce with
  | none =>
    have h : (saveLegacy Sym [1, 2, 3] wSk wNonce).isSome = true := by rfl
    rw [hf] at h; cases h
  | some f =>
    exact ⟨f, rfl, legacy_load Sym.laws _ _ _ _ (by decide) hf,
      C19_legacyOnlyItsPassphrase_partial Sym.laws [1, 2, 3] [1, 2, 4] wSk wNonce f hf (by decide +kernel)⟩
example : ∃ raw, exportKey Sym wPass wFile = .ok raw ∧
    importKey Sym [9] raw wSalt wNonce = .ok (save Sym [9] wSk wSalt wNonce) :=
  import_export Sym.laws wPass [9] wSk wSalt wNonce wSalt wNonce (by decide) (by decide)
/-- export→import repairs the swapped public key of witness (a) -/
example : ∃ f2, importKey Sym wPass wSk.val wSalt wNonce = .ok f2 ∧
    load Sym wPass f2 = .ok { sk := wSk, pk := Sym.pubOf wSk } ∧ exportKey Sym wPass f2 = .ok (Sym.privBytes wSk) :=
  import_export_any Sym.laws wPass wPass wSwapped wSk.val wSk wSalt wNonce (by decide) (by decide)
    swapped_rejected.2 (by rfl)

end Spec.C19
