import Model.KeyFile
import Proofs.C19
import Gen.C19

/-! # C19 — the proposer key file protects the key and yields a working, matching signer

All theorems are about `KeyFile.load/save/exportKey/importKey/legacyKey` — the definitions the
driver `drv_C19` executes — for an arbitrary crypto bundle `C` with `L : Laws C` (hypotheses, not
axioms); the witnesses are on the concrete instance `Sym` (`Sym.laws : Laws Sym`). -/
namespace Spec.C19
open KeyFile Proofs.C19

variable {C : Crypto}

/-! ## What holds of the code as it is -/

/-- A key saved under a passphrase loads with that passphrase to the same key, and the signer
reports the public key of that key. (All passphrases, including empty and very long; all keys.) -/
theorem load_save (L : Laws C) (p : Bytes) (sk : C.SK) (salt nonce : Bytes)
    (hs : salt ≠ []) (hn : nonce.length = nonceSize) :
    load C p (save C p sk salt nonce) = .ok { sk := sk, pk := C.pubOf sk } := by
  unfold load
  rw [decrypt_save L p sk salt nonce hs hn]
  simp only [L.parsePriv_privBytes, save, fld, Option.getD_some, L.parsePub_pubBytes]

/-- … its signatures verify under the public key it reports, and its address is the one verifiers
derive from that key (`types.KeyAddress` = SHA-256 of the raw public key). -/
theorem load_save_signer (L : Laws C) (p : Bytes) (sk : C.SK) (salt nonce : Bytes)
    (hs : salt ≠ []) (hn : nonce.length = nonceSize) :
    ∃ s, load C p (save C p sk salt nonce) = .ok s ∧ s.pk = C.pubOf sk ∧ s.Consistent ∧
      address C s.pk = sha256 (C.pubBytes (C.pubOf sk)) :=
  ⟨_, load_save L p sk salt nonce hs hn, rfl, fun m => L.verify_sign sk m, rfl⟩

/-- A file written by the current code loads only with the passphrase it was saved under. -/
theorem wrong_passphrase (L : Laws C) (p p' : Bytes) (sk : C.SK) (salt nonce : Bytes)
    (hs : salt ≠ []) (hn : nonce.length = nonceSize) (hp : p' ≠ p) :
    load C p' (save C p sk salt nonce) = .err .auth ∧ exportKey C p' (save C p sk salt nonce) = .err .auth := by
  have hk : C.argon p salt ≠ C.argon p' salt := fun e => hp (L.argon_inj _ _ _ _ e).1.symm
  have hd : decrypt C p' (save C p sk salt nonce) = .err .auth := by
    unfold decrypt save
    simp only [fld, Option.getD_some, deriveKey_salted p' salt hs, hn, ne_eq, not_true_eq_false, if_false,
      L.dec_key _ _ nonce nonce _ hk]
  exact ⟨by unfold load; rw [hd], hd⟩

/-- "signatures verify under the reported key" is exactly "the reported key is the private key's". -/
theorem consistent_iff (L : Laws C) (s : Signer C) : s.Consistent ↔ s.pk = C.pubOf s.sk :=
  Proofs.C19.consistent_iff L s

/-! ## The full statement, and why it is false of the current code -/

/-- no (passphrase, file) pair makes `Load` panic -/
def C19_noPanic (C : Crypto) : Prop := ∀ (p : Bytes) (f : File C), (load C p f).isPanic = false

/-- whatever `Load` hands out is a working signer: its signatures verify under the key it reports -/
def C19_usable (C : Crypto) : Prop := ∀ (p : Bytes) (f : File C) (s : Signer C), load C p f = .ok s → s.Consistent

/-- a legacy-format file loads only with the passphrase it was sealed under -/
def C19_legacyOnlyItsPassphrase (C : Crypto) : Prop :=
  ∀ (p p' : Bytes) (sk : C.SK) (nonce : Bytes) (f : File C), nonce.length = nonceSize →
    saveLegacy C p sk nonce = some f → p' ≠ p → ∀ s, load C p' f ≠ .ok s

/-- C19 at full strength: for all passphrases and all files (every field-level corruption of every
file, in either format). -/
def C19_full (C : Crypto) : Prop := C19_noPanic C ∧ C19_usable C ∧ C19_legacyOnlyItsPassphrase C

/-! ### Witnesses (concrete files on `Sym`) -/

def wSk : SymSK := ⟨List.replicate 32 1 ++ List.replicate 32 2, by decide⟩
def wOtherPub : SymPK := ⟨List.replicate 32 3, by decide⟩
def wPass : Bytes := [112, 119]
def wSalt : Bytes := List.replicate 16 5
def wNonce : Bytes := List.replicate 12 6
/-- an untouched file as the current code writes it -/
def wFile : File Sym := save Sym wPass wSk wSalt wNonce
/-- (a) the stored public key replaced by another valid key -/
def wSwapped : File Sym := { wFile with pub := some wOtherPub.val }
/-- (b) the nonce field lost -/
def wNoNonce : File Sym := { wFile with nonce := none }
/-- (b') the nonce one byte short -/
def wShortNonce : File Sym := { wFile with nonce := some (List.replicate 11 6) }
/-- (c) no salt: the legacy path -/
def wNoSalt : File Sym := { wFile with salt := none }

/-- (a) `Load` succeeds on the file with the swapped public key and reports the *other* key. -/
theorem swapped_loads : load Sym wPass wSwapped = .ok { sk := wSk, pk := wOtherPub } := by rfl

theorem C19_usable_fails : ¬ C19_usable Sym := by
  intro h
  have hc := h wPass wSwapped _ swapped_loads
  have := (consistent_iff Sym.laws _).mp hc
  exact absurd (congrArg Subtype.val this) (by decide)

/-- (b) a missing or short nonce reaches `gcm.Open`'s length panic, in `Load` and in `Export`. -/
theorem missing_nonce_panics : load Sym wPass wNoNonce = .panic .nonceLen ∧
    load Sym wPass wShortNonce = .panic .nonceLen ∧ exportKey Sym wPass wNoNonce = .panic .nonceLen :=
  ⟨by rfl, by rfl, by rfl⟩

/-- (c) a salt-less file with the empty passphrase reaches `i % 0`. -/
theorem legacy_empty_passphrase_panics : load Sym [] wNoSalt = .panic .divZero ∧
    load Sym [] ({} : File Sym) = .panic .divZero := ⟨by rfl, by rfl⟩

theorem C19_noPanic_fails : ¬ C19_noPanic Sym := by
  intro h
  have := h wPass wNoNonce
  rw [missing_nonce_panics.1] at this
  cases this

theorem C19_noPanic_fails_divZero : ¬ C19_noPanic Sym := by
  intro h
  have := h [] wNoSalt
  rw [legacy_empty_passphrase_panics.1] at this
  cases this

/-- (d) the legacy derivation is not injective: it ignores everything after 32 bytes, and a 1-byte
passphrase collides with the 31-byte prefix of its own expansion. -/
def wLong : Bytes := List.replicate 40 7
def wLong' : Bytes := List.replicate 32 7 ++ [9]
theorem legacyKey_collision : wLong ≠ wLong' ∧ legacyKey wLong = legacyKey wLong' ∧ (legacyKey wLong).isSome = true ∧
    legacyKey [65] = legacyKey (((legacyKey [65]).getD []).take 31) := by decide +kernel

def wLegacy : File Sym := { ct := some (Sym.enc (Sym.raw (List.replicate 32 7)) wNonce wSk.val),
                            nonce := some wNonce, pub := some (Sym.pubOf wSk).val, salt := none }

theorem C19_legacyOnlyItsPassphrase_fails : ¬ C19_legacyOnlyItsPassphrase Sym := by
  intro h
  exact h wLong wLong' wSk wNonce wLegacy (by decide) (by rfl) (by decide)
    { sk := wSk, pk := Sym.pubOf wSk } (by rfl)

theorem C19_full_fails : ¬ C19_full Sym := fun h => C19_usable_fails h.2.1

/-! ## The strongest statements that do hold, with the excluding hypotheses explicit -/

/-- No panic, **provided** the nonce has the right length and the passphrase is non-empty or the
file is not in the legacy (salt-less) format. -/
theorem C19_noPanic_partial (p : Bytes) (f : File C)
    (hnonce : (fld f.nonce).length = nonceSize)
    (hpass : p ≠ [] ∨ fld f.salt ≠ []) :
    (load C p f).isPanic = false ∧ (exportKey C p f).isPanic = false := by
  have := decrypt_not_panic (C := C) p f hnonce hpass
  exact ⟨by rw [load_isPanic_eq]; exact this, this⟩

/-- The two excluded cases are exactly the two panics: the hypotheses cannot be weakened. -/
theorem C19_noPanic_partial_sharp (p : Bytes) (f : File C) :
    (load C p f).isPanic = true ↔ ((p = [] ∧ fld f.salt = []) ∨ (fld f.nonce).length ≠ nonceSize) := by
  constructor
  · intro h
    by_cases hn : (fld f.nonce).length = nonceSize
    · by_cases hp : p ≠ [] ∨ fld f.salt ≠ []
      · rw [(C19_noPanic_partial p f hn hp).1] at h; cases h
      · left
        exact ⟨Decidable.not_not.mp (fun a => hp (Or.inl a)), Decidable.not_not.mp (fun a => hp (Or.inr a))⟩
    · exact Or.inr hn
  · intro h
    rw [load_isPanic_eq]
    unfold decrypt
    cases h with
    | inl h => rw [h.1, h.2, deriveKey_legacy, legacyKey_nil]; rfl
    | inr h =>
      cases deriveKey C p (fld f.salt) with
      | none => rfl
      | some k => simp only [ne_eq, h, not_false_eq_true, if_true]; rfl

/-- Whatever `Load` hands out is a working signer, **provided** the stored public key is the public
key of the private key inside the file (i.e. the `pub_key` field is untouched). -/
theorem C19_usable_partial (L : Laws C) (p : Bytes) (f : File C) (s : Signer C)
    (h : load C p f = .ok s)
    (hpub : fld f.pub = C.pubBytes (C.pubOf s.sk)) : s.Consistent := by
  obtain ⟨m, _, _, hpk⟩ := load_ok_inv h
  rw [hpub, L.parsePub_pubBytes] at hpk
  exact (consistent_iff L s).mpr (Option.some.inj hpk).symm

/-- … and that hypothesis is exactly what is needed. -/
theorem C19_usable_iff (L : Laws C) (p : Bytes) (f : File C) (s : Signer C) (h : load C p f = .ok s) :
    s.Consistent ↔ C.parsePub (fld f.pub) = some (C.pubOf s.sk) := by
  obtain ⟨m, _, _, hpk⟩ := load_ok_inv h
  rw [consistent_iff L s, hpk]
  constructor
  · intro e; rw [e]
  · intro e; exact Option.some.inj e

/-- AEAD integrity, as a hypothesis on a modified ciphertext: it opens under no key. -/
def Unopenable (C : Crypto) (ct : C.Ct) : Prop := ∀ k n, C.dec k n ct = none

/-- **Every field-level corruption** of a saved file, with **any** passphrase: the ciphertext,
nonce and salt fields may be anything (a modified ciphertext being one that opens under no key),
and the outcome is an error or the *same* key with a matching public key — **provided** the stored
public key is untouched, the nonce still has 12 bytes, and the passphrase is non-empty or the salt
is still there. -/
theorem C19_corruption_partial (L : Laws C) (p : Bytes) (sk : C.SK) (salt nonce : Bytes)
    (p' : Bytes) (f' : File C)
    (hpub : f'.pub = (save C p sk salt nonce).pub)
    (hnonce : (fld f'.nonce).length = nonceSize)
    (hpass : p' ≠ [] ∨ fld f'.salt ≠ [])
    (hct : f'.ct = (save C p sk salt nonce).ct ∨ f'.ct = none ∨ ∃ ct, f'.ct = some ct ∧ Unopenable C ct) :
    (load C p' f').isErr = true ∨ load C p' f' = .ok { sk := sk, pk := C.pubOf sk } := by
  have hnp := (C19_noPanic_partial (C := C) p' f' hnonce hpass).1
  cases hl : load C p' f' with
  | panic q => rw [hl] at hnp; cases hnp
  | err e => exact Or.inl rfl
  | ok s =>
    right
    obtain ⟨m, hd, hsk, hpk⟩ := load_ok_inv hl
    obtain ⟨k, ct, _, _, hct', hdec⟩ := decrypt_ok_inv hd
    have hm : m = C.privBytes sk := by
      cases hct with
      | inl h =>
        rw [h] at hct'
        simp only [save, Option.some.injEq] at hct'
        rw [← hct'] at hdec
        exact (dec_enc_inv L hdec).2.2
      | inr h =>
        cases h with
        | inl h => rw [h] at hct'; cases hct'
        | inr h =>
          obtain ⟨ct2, h1, h2⟩ := h
          rw [h1] at hct'; cases hct'
          rw [h2] at hdec; cases hdec
    rw [hm, L.parsePriv_privBytes] at hsk
    rw [hpub] at hpk
    simp only [save, fld, Option.getD_some, L.parsePub_pubBytes] at hpk
    cases s with
    | mk ssk spk =>
      simp only at hsk hpk
      rw [← Option.some.inj hsk, ← Option.some.inj hpk]

/-- In particular: corrupting only salt and/or nonce (length kept) and/or ciphertext of a saved
file and using the right passphrase never yields a signer for a *different* key. -/
theorem C19_corruption_same_key (L : Laws C) (p : Bytes) (sk : C.SK) (salt nonce : Bytes) (p' : Bytes)
    (f' : File C) (s : Signer C)
    (hpub : f'.pub = (save C p sk salt nonce).pub) (hnonce : (fld f'.nonce).length = nonceSize)
    (hpass : p' ≠ [] ∨ fld f'.salt ≠ [])
    (hct : f'.ct = (save C p sk salt nonce).ct ∨ f'.ct = none ∨ ∃ ct, f'.ct = some ct ∧ Unopenable C ct)
    (h : load C p' f' = .ok s) : s.sk = sk ∧ s.pk = C.pubOf sk ∧ s.Consistent := by
  cases C19_corruption_partial L p sk salt nonce p' f' hpub hnonce hpass hct with
  | inl he => rw [h] at he; cases he
  | inr ho =>
    rw [h] at ho
    cases ho
    exact ⟨rfl, rfl, fun m => L.verify_sign sk m⟩

/-! ### Legacy (salt-less) files -/

/-- a legacy file loads with the passphrase it was sealed under … -/
theorem legacy_load (L : Laws C) (p : Bytes) (sk : C.SK) (nonce : Bytes) (f : File C)
    (hn : nonce.length = nonceSize) (hf : saveLegacy C p sk nonce = some f) :
    load C p f = .ok { sk := sk, pk := C.pubOf sk } := by
  unfold saveLegacy at hf
  cases hk : legacyKey p with
  | none => rw [hk] at hf; cases hf
  | some kb =>
    rw [hk] at hf
    simp only [Option.map_some, Option.some.injEq] at hf
    subst hf
    unfold load decrypt
    simp only [fld, Option.getD_none, Option.getD_some, deriveKey_legacy, hk, Option.map_some, hn, ne_eq,
      not_true_eq_false, if_false, L.dec_enc, L.parsePriv_privBytes, L.parsePub_pubBytes]

/-- … and with no passphrase that derives a different legacy key (**partial**: the derivation is
not injective, see `legacyKey_collision`). -/
theorem C19_legacyOnlyItsPassphrase_partial (L : Laws C) (p p' : Bytes) (sk : C.SK) (nonce : Bytes) (f : File C)
    (hf : saveLegacy C p sk nonce = some f)
    (hk : legacyKey p' ≠ legacyKey p) : ∀ s, load C p' f ≠ .ok s := by
  intro s hl
  obtain ⟨m, hd, _, _⟩ := load_ok_inv hl
  obtain ⟨k, ct, hdk, _, hct, hdec⟩ := decrypt_ok_inv hd
  unfold saveLegacy at hf
  cases hkp : legacyKey p with
  | none => rw [hkp] at hf; cases hf
  | some kb =>
    rw [hkp] at hf
    simp only [Option.map_some, Option.some.injEq] at hf
    subst hf
    simp only [fld, Option.getD_none, deriveKey_legacy] at hdk
    simp only [Option.some.injEq] at hct
    subst hct
    cases hkp' : legacyKey p' with
    | none => rw [hkp'] at hdk; cases hdk
    | some kb' =>
      rw [hkp'] at hdk
      simp only [Option.map_some, Option.some.injEq] at hdk
      subst hdk
      have := (dec_enc_inv L hdec).1
      have := L.raw_inj _ _ this
      exact hk (by rw [hkp', hkp, this])

/-- among passphrases of one length ≤ 32 the legacy derivation *is* injective -/
theorem legacyKey_inj_same_length (p p' : Bytes) (hl : p.length = p'.length) (h32 : p.length ≤ keyLen)
    (hne : p ≠ []) (h : legacyKey p = legacyKey p') : p = p' := by
  have hl0 : p.length ≠ 0 := fun e => hne (List.length_eq_zero_iff.mp e)
  have hl0' : p'.length ≠ 0 := by rw [← hl]; exact hl0
  unfold legacyKey at h
  by_cases h1 : keyLen ≤ p.length
  · have e : p.length = keyLen := Nat.le_antisymm h32 h1
    have e' : p'.length = keyLen := by rw [← hl]; exact e
    rw [if_pos h1, if_pos (by rw [← hl]; exact h1)] at h
    have := Option.some.inj h
    rwa [List.take_of_length_le (Nat.le_of_eq e), List.take_of_length_le (Nat.le_of_eq e')] at this
  · rw [if_neg h1, if_neg (by rw [← hl]; exact h1), mapM_legacyByte p hl0, mapM_legacyByte p' hl0'] at h
    simp only [Option.map_some, Option.some.injEq] at h
    exact (List.append_inj h hl).1

/-! ### Export and import -/

theorem export_save (L : Laws C) (p : Bytes) (sk : C.SK) (salt nonce : Bytes)
    (hs : salt ≠ []) (hn : nonce.length = nonceSize) :
    exportKey C p (save C p sk salt nonce) = .ok (C.privBytes sk) := decrypt_save L p sk salt nonce hs hn

/-- `import (export f) ≃ f`: exporting a saved key and importing it (under any passphrase, with
fresh salt and nonce) gives exactly the file that saving the same key would have given. -/
theorem import_export (L : Laws C) (p p2 : Bytes) (sk : C.SK) (salt nonce salt2 nonce2 : Bytes)
    (hs : salt ≠ []) (hn : nonce.length = nonceSize) :
    ∃ raw, exportKey C p (save C p sk salt nonce) = .ok raw ∧
      importKey C p2 raw salt2 nonce2 = .ok (save C p2 sk salt2 nonce2) := by
  refine ⟨_, export_save L p sk salt nonce hs hn, ?_⟩
  unfold importKey
  rw [L.parsePriv_privBytes]

/-- For **any** file (also a legacy or tampered one): if it loads, export→import→load gives a
signer for the same private key whose reported public key is now the right one. -/
theorem import_export_any (L : Laws C) (p p2 : Bytes) (f : File C) (s : Signer C) (salt2 nonce2 : Bytes)
    (hs : salt2 ≠ []) (hn : nonce2.length = nonceSize) (hl : load C p f = .ok s) :
    ∃ raw f2, exportKey C p f = .ok raw ∧ importKey C p2 raw salt2 nonce2 = .ok f2 ∧
      load C p2 f2 = .ok { sk := s.sk, pk := C.pubOf s.sk } ∧ exportKey C p2 f2 = .ok (C.privBytes s.sk) := by
  obtain ⟨m, hd, hsk, _⟩ := load_ok_inv hl
  refine ⟨m, save C p2 s.sk salt2 nonce2, hd, ?_, load_save L p2 s.sk salt2 nonce2 hs hn, ?_⟩
  · unfold importKey; rw [hsk]
  · exact export_save L p2 s.sk salt2 nonce2 hs hn

/-! ## The proposed repair is sufficient (`loadFixed`, notes/C19.md) -/

theorem fixed_noPanic (p : Bytes) (f : File C) : (loadFixed C p f).isPanic = false := by
  have hd : (decryptFixed C p f).isPanic = false := by
    unfold decryptFixed
    split
    · rfl
    · next h1 =>
      split
      · rfl
      · next h2 =>
        refine decrypt_not_panic p f (Decidable.not_not.mp h2) ?_
        by_cases hp : p = []
        · right; intro hs; exact h1 ⟨by rw [hs]; rfl, by rw [hp]; rfl⟩
        · exact Or.inl hp
  unfold loadFixed
  cases hdf : decryptFixed C p f with
  | panic q => rw [hdf] at hd; cases hd
  | err e => rfl
  | ok m =>
    simp only
    cases C.parsePriv m with
    | none => rfl
    | some sk =>
      cases C.parsePub (fld f.pub) with
      | none => rfl
      | some pk => simp only; split <;> rfl

theorem pubBytes_inj (L : Laws C) {a b : C.PK} (h : C.pubBytes a = C.pubBytes b) : a = b := by
  have := L.parsePub_pubBytes a
  rw [h, L.parsePub_pubBytes] at this
  exact (Option.some.inj this).symm

/-- with the repair, **every** file and passphrase: whatever loads is a working signer -/
theorem fixed_usable (L : Laws C) (p : Bytes) (f : File C) (s : Signer C) (h : loadFixed C p f = .ok s) :
    s.Consistent := by
  unfold loadFixed at h
  split at h
  · cases h
  · cases h
  · split at h
    · cases h
    · next sk _ =>
      split at h
      · cases h
      · next pk _ =>
        split at h
        · next he =>
          cases h
          exact (consistent_iff L _).mpr (pubBytes_inj L he).symm
        · cases h

/-- the repair rejects nothing that was right: a load that gave a working signer still gives it -/
theorem fixed_conservative (L : Laws C) (p : Bytes) (f : File C) (s : Signer C) (h : load C p f = .ok s)
    (hc : s.Consistent) : loadFixed C p f = .ok s := by
  have hnp : (load C p f).isPanic = false := by rw [h]; rfl
  have hsharp : ¬ ((p = [] ∧ fld f.salt = []) ∨ (fld f.nonce).length ≠ nonceSize) := fun hh => by
    have := (C19_noPanic_partial_sharp (C := C) p f).mpr hh
    rw [hnp] at this; cases this
  obtain ⟨m, hd, hsk, hpk⟩ := load_ok_inv h
  have h1 : ¬ ((fld f.salt).length = 0 ∧ p.length = 0) := fun hh =>
    hsharp (Or.inl ⟨List.length_eq_zero_iff.mp hh.2, List.length_eq_zero_iff.mp hh.1⟩)
  have h2 : ¬ (fld f.nonce).length ≠ nonceSize := fun hh => hsharp (Or.inr hh)
  have hpkeq : s.pk = C.pubOf s.sk := (consistent_iff L s).mp hc
  unfold loadFixed decryptFixed
  rw [if_neg h1, if_neg h2, hd]
  simp only [hsk, hpk]
  rw [if_pos (by rw [hpkeq])]

/-! ## Address: the three derivations in the tree and the model agree (facts regenerated from /repo on every run) -/

/-- the model's address is `types.KeyAddress`: SHA-256 of the raw public key -/
theorem address_def (pk : C.PK) : address C pk = sha256 (C.pubBytes pk) := rfl

/-- on the fixed key of `Gen.C19`, what `types.KeyAddress` computes now is the model's address … -/
theorem golden_address : sha256 Gen.C19.goldenPub = Gen.C19.addrKeyAddress := by decide +kernel

/-- … and the file signer (`getAddress`, local.go:445), the noop signer (noop/signer.go:54) and
`types.NewSigner` (types/signer.go:24) give the same bytes as `types.KeyAddress` (types/signer.go:42);
the file signer reports the public key that is the second half of the raw private key (`symPubOf`). -/
theorem golden_address_agree : Gen.C19.addrFile = Gen.C19.addrKeyAddress ∧ Gen.C19.addrNoop = Gen.C19.addrKeyAddress ∧
    Gen.C19.addrNewSigner = Gen.C19.addrKeyAddress ∧ Gen.C19.filePub = Gen.C19.goldenPub ∧
    Gen.C19.goldenSk.drop 32 = Gen.C19.goldenPub := by decide +kernel

/-! ## Non-vacuity: the hypotheses are satisfiable and both outcomes occur (on `Sym`) -/

example : Laws Sym := Sym.laws
example : load Sym wPass wFile = .ok { sk := wSk, pk := Sym.pubOf wSk } :=
  load_save Sym.laws wPass wSk wSalt wNonce (by decide) (by decide)
example : load Sym [] (save Sym [] wSk wSalt wNonce) = .ok { sk := wSk, pk := Sym.pubOf wSk } :=
  load_save Sym.laws [] wSk wSalt wNonce (by decide) (by decide)
example : load Sym [112] wFile = .err .auth :=
  (wrong_passphrase Sym.laws wPass [112] wSk wSalt wNonce (by decide) (by decide) (by decide)).1
/-- a corruption covered by `C19_corruption_partial` that ends in an error (salt bit flipped) … -/
example : (load Sym wPass { wFile with salt := some (List.replicate 16 4) }).isErr = true := by rfl
/-- … one that ends in an error via the legacy path (salt lost, passphrase non-empty) … -/
example : (load Sym wPass wNoSalt).isErr = true := by rfl
/-- … a garbage ciphertext … -/
example : Unopenable Sym SymCt.garbage := fun _ _ => rfl
example : (load Sym wPass { wFile with ct := some SymCt.garbage }).isErr = true := by rfl
/-- … and the untouched file, which is covered too and loads. -/
example : (load Sym wPass wFile).isErr = true ∨ load Sym wPass wFile = .ok { sk := wSk, pk := Sym.pubOf wSk } :=
  C19_corruption_partial Sym.laws wPass wSk wSalt wNonce wPass wFile rfl (by decide) (Or.inl (by decide)) (Or.inl rfl)
example : (load Sym wPass wFile).isPanic = false :=
  (C19_noPanic_partial wPass wFile (by decide) (Or.inl (by decide))).1
example : (saveLegacy Sym [1, 2, 3] wSk wNonce).isSome = true := by rfl
example : ∃ f, saveLegacy Sym [1, 2, 3] wSk wNonce = some f ∧ load Sym [1, 2, 3] f = .ok { sk := wSk, pk := Sym.pubOf wSk } ∧
    ∀ s, load Sym [1, 2, 4] f ≠ .ok s := by
  cases hf : saveLegacy Sym [1, 2, 3] wSk wNonce with
  | none =>
    have h : (saveLegacy Sym [1, 2, 3] wSk wNonce).isSome = true := by rfl
    rw [hf] at h; cases h
  | some f =>
    exact ⟨f, rfl, legacy_load Sym.laws _ _ _ _ (by decide) hf,
      C19_legacyOnlyItsPassphrase_partial Sym.laws [1, 2, 3] [1, 2, 4] wSk wNonce f hf (by decide +kernel)⟩
example : ∃ raw, exportKey Sym wPass wFile = .ok raw ∧
    importKey Sym [9] raw wSalt wNonce = .ok (save Sym [9] wSk wSalt wNonce) :=
  import_export Sym.laws wPass [9] wSk wSalt wNonce wSalt wNonce (by decide) (by decide)
/-- export→import repairs the swapped public key of witness (a) -/
example : ∃ raw f2, exportKey Sym wPass wSwapped = .ok raw ∧ importKey Sym wPass raw wSalt wNonce = .ok f2 ∧
    load Sym wPass f2 = .ok { sk := wSk, pk := Sym.pubOf wSk } ∧ exportKey Sym wPass f2 = .ok (Sym.privBytes wSk) :=
  import_export_any Sym.laws wPass wPass wSwapped _ wSalt wNonce (by decide) (by decide) swapped_loads

end Spec.C19
