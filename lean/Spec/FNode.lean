import Proofs.FNodeWitness
import Proofs.FNodeInc
import Proofs.FNodeMid
import Spec.C02
import Spec.C07

/-!
# C02 / C05 — a full node whose only source is the DA layer, across crashes and restarts

Model (`Model/FullNode.lean`): the REAL composition a node without signer runs — `Retrieve.scan` (= `RetrieveLoop`
over the DA layer) hands accepted header / signed-data blobs to `Sync.onHeader` / `Sync.onData` (= `SyncLoop`);
`FullNode.start` = `NewManager`: the DA cursor of a (re)started node is
`max (persisted state.DAHeight) (config DA start height)`; a crash keeps a prefix of the durable writes of the last
run and loses the caches, a clean restart keeps the caches.  Histories (`FullNode.hstep`): blobs placed on the DA
layer at any DA heights in any order (genuine parts, duplicates, junk, forged material), fetch faults, runs until
quiescence — also in schedules of the two event channels in which events are still queued when the node is stopped
— clean restarts, crashes after any number of the last writes (also of a restart's own writes).  The stream
`FNODE` compares this model with the real `block.Manager` running the real `RetrieveLoop` + `SyncLoop`.

What is **hypothesis**:
* `GoodChain`: the proposer's chain is one a full node accepts block by block (`Spec.C02.goodChain_of_producer`:
  every chain of C01's producer is one, `da_only_recovers_producer` below);
* `OpOK` for every placed blob: a blob the DA classifier ACCEPTS is a part of that chain (the conclusion of C03's
  admission theorems; junk and forged blobs are not accepted and are unconstrained);
* `OpOK` for a `p2p` operation: the events it delivers are **genuine parts of the chain**.  P2P *headers* are
  signed (C03); P2P *data* is not — a junk data item (any `Data` that does not validate against the header of the
  height it claims) is outside these histories.  `Spec.C02.C02_junk_data_harmless` proves for the sync loop alone that
  such items never terminate the loop nor corrupt what the node holds (after /repo 4bb2ed2);
  `Spec.C02.C02_converges_junk_fails` shows they can make it stall (recorded finding
  `C02/stall/junk-p2p-data-replaced-cached-data`) — so "P2P data events are genuine" is a real hypothesis of every
  convergence statement below that allows `p2p` operations;
* for convergence only: `DistinctCommitments` (the hypothesis of C02's recorded finding), no fetch answered
  "not found" in the final run, and the final scan reaches the head of the DA layer.
-/
namespace Spec.FNode
open Wire Chain Sync Retrieve FullNode

variable {C : FullNode.Cfg} {ch : PChain} {top : Nat}

/-! ## (1) the sync loop never moves the DA height of the state -/

/-- **`sync_keeps_daHeight`**: for EVERY node and EVERY header or data event (no hypothesis on either): the DA
height of the in-memory state is unchanged, and every state the step persists carries that same value.  (The
assignment `newState.DAHeight = daHeight` in `trySyncNextBlock` happens after `updateState` and has no durable
effect; a change that persists the event's DA height breaks this theorem's model counterpart — the stream's
correspondence on `disk=…/da<N>` — and the convergence theorems below.) -/
theorem sync_keeps_daHeight (n : FNode) :
    (∀ sh, (onHeader n sh).1.lastState.daHeight = n.lastState.daHeight ∧
      ∀ s, SW.updateState s ∈ (onHeader n sh).2 → s.daHeight = n.lastState.daHeight) ∧
    (∀ d, (onData n d).1.lastState.daHeight = n.lastState.daHeight ∧
      ∀ s, SW.updateState s ∈ (onData n d).2 → s.daHeight = n.lastState.daHeight) :=
  ⟨onHeader_da n, onData_da n⟩

/-- the same for everything the sync loop is handed by one DA scan, whatever it is -/
theorem sync_keeps_daHeight_scan (C : FullNode.Cfg) (n : FNode) (es : List Retrieve.Event) :
    (feed C n es).1.lastState.daHeight = n.lastState.daHeight ∧
    ∀ s, SW.updateState s ∈ (feed C n es).2 → s.daHeight = n.lastState.daHeight :=
  feed_da C es n

/-- the store of the node is exactly its durable writes, applied in order (so a crash image after all writes of a
run is the node's store, and a crash image is a prefix of what the node did) -/
theorem store_is_writes (C : FullNode.Cfg) (n : FNode) (es : List Retrieve.Event) :
    (feed C n es).1.store = n.store.applyAll (feed C n es).2 :=
  feed_store C es n

/-- **the DA cursor after a (re)start is what `NewManager` computes**: the larger of the persisted state's DA
height and the configured DA start height; the in-memory state carries the same value -/
theorem start_cursor (C : FullNode.Cfg) (d : Store) (caches : FNode) {nd : Node} {ws : List SW}
    (h : FullNode.start C d caches = some (nd, ws)) :
    nd.cursor = max ((d.state.map (·.daHeight)).getD 0) C.daStart ∧ nd.full.lastState.daHeight = nd.cursor :=
  start_cursor_eq C d caches h

/-- **hence every restart rescans from the configured DA start height**: after every history (no assumption on
commitments), the node is up, a clean restart and a restart after a crash at ANY write boundary both succeed and
put the DA cursor on the DA start height, and every crash image is a consistent image (`DiskOK`, C05) whose
state carries the DA start height. -/
theorem every_restart_rescans_from_dastart (g : GoodChain C.sync ch top) (ops : List HOp)
    (hops : ∀ op ∈ ops, OpOK C ch op) :
    (hrun C ops).ok = true ∧ C.daStart ≤ (hrun C ops).nd.cursor ∧
    ((hstep C (hrun C ops) .restart).ok = true ∧ (hstep C (hrun C ops) .restart).nd.cursor = C.daStart) ∧
    (∀ k, (hstep C (hrun C ops) (.crash k)).ok = true ∧ (hstep C (hrun C ops) (.crash k)).nd.cursor = C.daStart) ∧
    (∀ k, DiskOK C.sync ch (eraseStore ((hrun C ops).before.applyPrefix k (hrun C ops).ws)) ∧
      ∀ st, ((hrun C ops).before.applyPrefix k (hrun C ops).ws).state = some st → st.daHeight = C.daStart) := by
  obtain ⟨h0, evs, hi⟩ := hrun_inv (lv := false) (gr := false) g (fun h => by cases h) ops hops (fun h => by cases h)
  exact ⟨hi.ok, hi.cur, restart_cursor g hi, fun k => crash_cursor g hi k, fun k => ⟨(hi.crash k).1, (hi.crash k).2.2.1⟩⟩

/-- the very first start scans from the DA start height as well -/
theorem first_start_scans_from_dastart (g : GoodChain C.sync ch top) :
    (hinit C).ok = true ∧ (hinit C).nd.cursor = C.daStart :=
  ⟨(hinit_inv (lv := false) (gr := false) g).1.ok, (hinit_inv (lv := false) (gr := false) g).2⟩

/-! ## (2) safety over all histories: never a different block, never ahead of the DA layer, heights across restarts -/

/-- **after every history** (any placements, fetch faults, schedules, clean restarts, crashes at any write; no
assumption on commitments): the node is alive, its state is the state after its chain height, every height up to
it holds the proposer's block, and both parts of each of those blocks are on the DA layer at or above the DA start
height (nothing is applied that the DA layer does not hold). -/
theorem da_only_safety (g : GoodChain C.sync ch top) (ops : List HOp) (hops : ∀ op ∈ ops, OpOK C ch op)
    (hda : ∀ op ∈ ops, isP2P op = false) :
    (hrun C ops).nd.full.alive = true ∧
    eraseS (hrun C ops).nd.full.lastState = stateAt C.sync ch (hrun C ops).nd.full.store.height ∧
    (hrun C ops).nd.full.lastState.daHeight = C.daStart ∧
    ∀ k, C.sync.initialHeight ≤ k → k ≤ (hrun C ops).nd.full.store.height →
      OnDA C ch (hrun C ops).v k ∧
      ∃ b sb, ch k = some b ∧ (hrun C ops).nd.full.store.getBlock k = some sb ∧ SameBlock b sb := by
  obtain ⟨h0, evs, hi⟩ := hrun_inv (lv := false) (gr := true) g (fun h => by cases h) ops hops (fun _ => hda)
  exact ⟨hi.safe.alive, hi.safe.st, hi.da, fun k h1 h2 => ⟨hi.lowDA rfl k h1 h2, hi.safe.chain k h1 h2⟩⟩

/-- the same without the DA-only restriction (parts may also arrive over P2P, `HOp.p2p`): alive, consistent state,
only the proposer's blocks -/
theorem full_node_safety (g : GoodChain C.sync ch top) (ops : List HOp) (hops : ∀ op ∈ ops, OpOK C ch op) :
    (hrun C ops).nd.full.alive = true ∧
    eraseS (hrun C ops).nd.full.lastState = stateAt C.sync ch (hrun C ops).nd.full.store.height ∧
    ∀ k, C.sync.initialHeight ≤ k → k ≤ (hrun C ops).nd.full.store.height →
      ∃ b sb, ch k = some b ∧ (hrun C ops).nd.full.store.getBlock k = some sb ∧ SameBlock b sb := by
  obtain ⟨h0, evs, hi⟩ := hrun_inv (lv := false) (gr := false) g (fun h => by cases h) ops hops (fun h => by cases h)
  exact ⟨hi.safe.alive, hi.safe.st, fun k h1 h2 => hi.safe.chain k h1 h2⟩

/-- **heights across restarts**: a clean restart keeps the chain height; after a crash the node restarts at the
height its image records, which is never above the height it had reached -/
theorem heights_across_restarts (g : GoodChain C.sync ch top) (ops : List HOp) (hops : ∀ op ∈ ops, OpOK C ch op) :
    (hstep C (hrun C ops) .restart).nd.full.store.height = (hrun C ops).nd.full.store.height ∧
    ∀ k, (hstep C (hrun C ops) (.crash k)).nd.full.store.height
          = recHeight C.sync (eraseStore ((hrun C ops).before.applyPrefix k (hrun C ops).ws)) ∧
         (hstep C (hrun C ops) (.crash k)).nd.full.store.height ≤ (hrun C ops).nd.full.store.height := by
  obtain ⟨h0, evs, hi⟩ := hrun_inv (lv := false) (gr := false) g (fun h => by cases h) ops hops (fun h => by cases h)
  exact ⟨restart_height g hi, fun k => crash_height g hi k⟩

/-! ## (3) end to end: convergence after any history and any restart -/

/-- what "converged" means for the state `s'` reached by the final run, the DA layer being `v`: alive, the state is
the state after the chain height `H`, every height up to `H` has both parts on the DA layer and holds the
proposer's block, and block `H + 1` is NOT completely on the DA layer — `H` is the top of the longest complete
prefix of the chain on the DA layer. -/
def Converged (C : FullNode.Cfg) (ch : PChain) (v : DAView) (s' : HSt) : Prop :=
  s'.nd.full.alive = true ∧
  eraseS s'.nd.full.lastState = stateAt C.sync ch s'.nd.full.store.height ∧
  (∀ k, C.sync.initialHeight ≤ k → k ≤ s'.nd.full.store.height →
    OnDA C ch v k ∧ ∃ b sb, ch k = some b ∧ s'.nd.full.store.getBlock k = some sb ∧ SameBlock b sb) ∧
  ¬ OnDA C ch v (s'.nd.full.store.height + 1)

/-- **C05, DA only: recovery after a crash at any write.**  For every good chain with distinct commitments, every
history, every crash point `k` (also inside a restart's own writes): if the run after the restart is not answered
"not found" and reaches the head of the DA layer, the node converges to the longest complete prefix of the chain on
the DA layer — whatever lay in its lost caches is fetched again, because the restart rescans from the DA start
height. -/
theorem C05_da_only_recovers_after_any_crash (g : GoodChain C.sync ch top) (dc : DistinctCommitments ch)
    (ops : List HOp) (hops : ∀ op ∈ ops, OpOK C ch op) (hda : ∀ op ∈ ops, isP2P op = false) (k : Nat)
    (hnf : ∀ a, Fetch.notFound ∉ (hstep C (hrun C ops) (.crash k)).v.scriptAt a)
    (hreach : (hstep C (hrun C ops) (.crash k)).v.top ≤ (hstep C (hstep C (hrun C ops) (.crash k)) .run).nd.cursor) :
    Converged C ch (hstep C (hrun C ops) (.crash k)).v (hstep C (hstep C (hrun C ops) (.crash k)) .run) := by
  obtain ⟨h0, evs, hi⟩ := hrun_inv (lv := true) (gr := true) g (fun _ => dc) ops hops (fun _ => hda)
  obtain ⟨h1, evs1, hi1⟩ := hstep_inv g (fun _ => dc) hi (.crash k) trivial (fun _ => rfl)
  exact run_converges g dc hi1 (crash_cursor g hi k).2 hnf hreach

/-- **C02, DA only: convergence after a clean restart** — also one that happened while events were still queued
(`HOp.runHeld` before it): the restarted node rescans from the DA start height. -/
theorem C02_da_only_converges_after_restart (g : GoodChain C.sync ch top) (dc : DistinctCommitments ch)
    (ops : List HOp) (hops : ∀ op ∈ ops, OpOK C ch op) (hda : ∀ op ∈ ops, isP2P op = false)
    (hnf : ∀ a, Fetch.notFound ∉ (hstep C (hrun C ops) .restart).v.scriptAt a)
    (hreach : (hstep C (hrun C ops) .restart).v.top ≤ (hstep C (hstep C (hrun C ops) .restart) .run).nd.cursor) :
    Converged C ch (hstep C (hrun C ops) .restart).v (hstep C (hstep C (hrun C ops) .restart) .run) := by
  obtain ⟨h0, evs, hi⟩ := hrun_inv (lv := true) (gr := true) g (fun _ => dc) ops hops (fun _ => hda)
  obtain ⟨h1, evs1, hi1⟩ := hstep_inv g (fun _ => dc) hi .restart trivial (fun _ => rfl)
  exact run_converges g dc hi1 (restart_cursor g hi).2 hnf hreach

/-- operations on the DA layer only -/
def isDAOp : HOp → Bool
  | .place _ _ _ => true
  | .head _ => true
  | .script _ _ => true
  | _ => false

theorem daOps_keep_node (C : FullNode.Cfg) : ∀ (ops : List HOp) (s : HSt), (∀ op ∈ ops, isDAOp op = true) →
    (ops.foldl (hstep C) s).nd = s.nd := by
  intro ops
  induction ops with
  | nil => intro s _; rfl
  | cons op rest ih =>
    intro s h
    simp only [List.foldl_cons]
    rw [ih _ (fun o ho => h o (List.mem_cons_of_mem _ ho))]
    have := h op List.mem_cons_self
    cases op with
    | place da b o => rfl
    | head n => rfl
    | script da l => simp only [hstep]; split <;> rfl
    | run => cases this
    | runHeld _ _ => cases this
    | p2p _ => cases this
    | p2pstore _ _ _ => cases this
    | p2padd _ _ => cases this
    | restart => cases this
    | crash _ => cases this

theorem daOp_not_p2p {op : HOp} (h : isDAOp op = true) : isP2P op = false := by
  cases op <;> first | rfl | cases h

/-- **C02, DA only: the first run of a fresh node** over any DA contents -/
theorem C02_da_only_converges_first_run (g : GoodChain C.sync ch top) (dc : DistinctCommitments ch)
    (ops : List HOp) (hops : ∀ op ∈ ops, OpOK C ch op) (hda : ∀ op ∈ ops, isDAOp op = true)
    (hnf : ∀ a, Fetch.notFound ∉ (hrun C ops).v.scriptAt a)
    (hreach : (hrun C ops).v.top ≤ (hstep C (hrun C ops) .run).nd.cursor) :
    Converged C ch (hrun C ops).v (hstep C (hrun C ops) .run) := by
  obtain ⟨h0, evs, hi⟩ := hrun_inv (lv := true) (gr := true) g (fun _ => dc) ops hops
    (fun _ op ho => daOp_not_p2p (hda op ho))
  have hc : (hrun C ops).nd.cursor = C.daStart := by
    unfold hrun
    rw [daOps_keep_node C ops _ hda]
    exact (hinit_inv (lv := false) (gr := false) g).2
  exact run_converges g dc hi hc hnf hreach

/-- **link to C01**: the same for every chain the producer model commits (any sequencing-layer responses), under
`EmptyCommitmentUnique` **of that chain** (no block of the chain in hand is a second pre-image of the empty
commitment — a statement about its finitely many blocks, see `Spec.C02.goodChain_of_producer_or_collision`) -/
theorem C05_da_only_recovers_producer {pc : Producer.Cfg} {pn : Producer.Node} (hi : Producer.Inv pc pn)
    (hm : Producer.MetaInv pc pn) (hcol : Spec.C02.EmptyCommitmentUnique (Spec.C02.chainOf pc pn))
    (C : FullNode.Cfg) (hC : C.sync = Spec.C02.syncCfg pc)
    (dc : DistinctCommitments (Spec.C02.chainOf pc pn))
    (ops : List HOp) (hops : ∀ op ∈ ops, OpOK C (Spec.C02.chainOf pc pn) op) (hda : ∀ op ∈ ops, isP2P op = false)
    (k : Nat)
    (hnf : ∀ a, Fetch.notFound ∉ (hstep C (hrun C ops) (.crash k)).v.scriptAt a)
    (hreach : (hstep C (hrun C ops) (.crash k)).v.top ≤ (hstep C (hstep C (hrun C ops) (.crash k)) .run).nd.cursor) :
    Converged C (Spec.C02.chainOf pc pn) (hstep C (hrun C ops) (.crash k)).v
      (hstep C (hstep C (hrun C ops) (.crash k)) .run) := by
  have g : GoodChain C.sync (Spec.C02.chainOf pc pn) pn.store.height := by
    rw [hC]; exact Spec.C02.goodChain_of_producer hi hm hcol
  exact C05_da_only_recovers_after_any_crash g dc ops hops hda k hnf hreach

/-! ## (4) C07 on a full node: the DA-included height follows what the node OBSERVED on the DA layer

The includer of the composed node is `Submit.includerIter` (the model C07's stream compares with the real
`DAIncluderLoop`) applied to the full node's store and the marks its DA scans set; `Spec.C07`'s pass theorems apply
verbatim.  New here: where the marks come from (the node's own scans — every accepted blob at a passed DA height,
**seen before or not**), what survives restarts, and the liveness clause for a node that may have applied a block
(P2P) before it observes the block's blobs. -/

theorem includer_is_C07_pass (s : HSt) :
    (includeSt s).daInc = (Submit.includerIter (toA s.nd.full.store s.hMarks s.dMarks s.daInc s.finals)).1.daInc ∧
    (includeSt s).finals = (Submit.includerIter (toA s.nd.full.store s.hMarks s.dMarks s.daInc s.finals)).1.finals ∧
    (includeSt s).nd.full.store = (Submit.includerIter (toA s.nd.full.store s.hMarks s.dMarks s.daInc s.finals)).1.n.store ∧
    (includeSt s).ws = s.ws ++ (Submit.includerIter (toA s.nd.full.store s.hMarks s.dMarks s.daInc s.finals)).2 :=
  ⟨rfl, rfl, rfl, rfl⟩

/-- **one run of the includer on the full node** (any state): the DA-included height never decreases; `SetFinal` is
called for exactly the heights `old+1 … new`, in order (log latest first), so the last call is the reported height;
the new height is persisted; three durable writes per height (`rhb/<h>/h`, `rhb/<h>/d`, `d`) follow those of the
sync loop; chain height and marks are untouched. -/
theorem C07_full_node_pass (s : HSt) :
    s.daInc ≤ (includeSt s).daInc ∧
    (includeSt s).finals = (List.range' (s.daInc + 1) ((includeSt s).daInc - s.daInc)).reverse ++ s.finals ∧
    (s.daInc < (includeSt s).daInc → (includeSt s).finals.head? = some (includeSt s).daInc ∧
      (includeSt s).nd.full.store.getMeta Submit.daIncKey = some (le64 (includeSt s).daInc)) ∧
    (includeSt s).ws.length = s.ws.length + 3 * ((includeSt s).daInc - s.daInc) ∧
    (includeSt s).nd.full.store.height = s.nd.full.store.height ∧
    (includeSt s).hMarks = s.hMarks ∧ (includeSt s).dMarks = s.dMarks := by
  have h := Spec.C07.C07_pass_invariant (s.nd.full.store.height + 1) (toA s.nd.full.store s.hMarks s.dMarks s.daInc s.finals)
  simp only at h
  obtain ⟨a1, a2, a3, _, _, a6, _, _, _, _, _, _, a13⟩ := h
  refine ⟨a1, a2, a3, ?_, a13, rfl, rfl⟩
  show (s.ws ++ _).length = _
  rw [List.length_append]
  have : (Submit.includerPass (s.nd.full.store.height + 1) (toA s.nd.full.store s.hMarks s.dMarks s.daInc s.finals) []).2.length
      = 3 * ((includeSt s).daInc - s.daInc) := a6
  exact congrArg (s.ws.length + ·) this

/-- **soundness after every history** (placements, fetch faults, runs in any schedule, parts arriving over P2P,
clean restarts, crashes at any write; no assumption on commitments): the DA-included height is between
`initialHeight − 1` and the chain height; every reported height is a block of the proposer's chain the node holds,
whose header hash — and, unless the block is empty, whose data commitment — belongs to a blob the DA layer holds at
or above the DA start height (`IncOnDA`: by hash / commitment, because that is how marks are keyed — the two
commitment-shared findings of C07 live in this gap); every mark the node holds names an accepted blob at exactly
the DA height the mark records. -/
theorem C07_full_node_sound (g : GoodChain C.sync ch top) (ops : List HOp) (hops : ∀ op ∈ ops, OpOK C ch op) :
    C.sync.initialHeight - 1 ≤ (hrun C ops).daInc ∧ (hrun C ops).daInc ≤ (hrun C ops).nd.full.store.height ∧
    (∀ k, C.sync.initialHeight ≤ k → k ≤ (hrun C ops).daInc → IncOnDA C ch (hrun C ops).v k ∧
      ∃ b sb, ch k = some b ∧ (hrun C ops).nd.full.store.getBlock k = some sb ∧ SameBlock b sb) ∧
    (∀ m ∈ (hrun C ops).hMarks, MarkH C (hrun C ops).v m) ∧ (∀ m ∈ (hrun C ops).dMarks, MarkD C (hrun C ops).v m) := by
  obtain ⟨h0, evs, hi⟩ := hrun_inv (lv := false) (gr := false) g (fun h => by cases h) ops hops (fun h => by cases h)
  exact ⟨hi.incGe, hi.incLe,
    fun k h1 h2 => ⟨hi.incDA k h1 h2, hi.safe.chain k h1 (Nat.le_trans h2 hi.incLe)⟩, hi.marksH, hi.marksD⟩

/-- with distinct commitments, "by hash / commitment" is "by height": every reported height has its own header and
(unless empty) its own data on the DA layer -/
theorem C07_full_node_sound_by_height (g : GoodChain C.sync ch top) (dc : DistinctCommitments ch)
    (ops : List HOp) (hops : ∀ op ∈ ops, OpOK C ch op) :
    ∀ k, C.sync.initialHeight ≤ k → k ≤ (hrun C ops).daInc → OnDA C ch (hrun C ops).v k := by
  obtain ⟨h0, evs, hi⟩ := hrun_inv (lv := false) (gr := false) g (fun h => by cases h) ops hops (fun h => by cases h)
  exact fun k h1 h2 => incOnDA_onDA g dc hi.view (hi.incDA k h1 h2)

/-- **across restarts**: a restarted node (clean, or after a crash at any write) reports a DA-included height that is
never above the one it reported before and never above its chain height (it is the persisted value: equal to the
old one below 2^64 when the last advance was completely written, `Spec.C07.C07_restart_keeps_da_included`); a clean
restart keeps the marks (cache files), a crash loses them. -/
theorem C07_full_node_across_restarts (g : GoodChain C.sync ch top) (ops : List HOp) (hops : ∀ op ∈ ops, OpOK C ch op) :
    ((hstep C (hrun C ops) .restart).daInc ≤ (hrun C ops).daInc ∧
      (hstep C (hrun C ops) .restart).daInc ≤ (hstep C (hrun C ops) .restart).nd.full.store.height ∧
      (hstep C (hrun C ops) .restart).hMarks = (hrun C ops).hMarks ∧
      (hstep C (hrun C ops) .restart).dMarks = (hrun C ops).dMarks) ∧
    ∀ k, (hstep C (hrun C ops) (.crash k)).daInc ≤ (hrun C ops).daInc ∧
      (hstep C (hrun C ops) (.crash k)).daInc ≤ (hstep C (hrun C ops) (.crash k)).nd.full.store.height ∧
      (hstep C (hrun C ops) (.crash k)).hMarks = [] ∧ (hstep C (hrun C ops) (.crash k)).dMarks = [] := by
  obtain ⟨h0, evs, hi⟩ := hrun_inv (lv := false) (gr := false) g (fun h => by cases h) ops hops (fun h => by cases h)
  exact ⟨restart_daInc g hi, fun k => crash_daInc g hi k⟩

/-- what "every observable height is reported" means for the state `s'` a run reaches, the DA layer being `v` -/
def Reported (C : FullNode.Cfg) (ch : PChain) (v : DAView) (s' : HSt) : Prop :=
  ∀ h, h ≤ s'.nd.full.store.height → (∀ k, C.sync.initialHeight ≤ k → k ≤ h → OnDA C ch v k) → h ≤ s'.daInc

/-- **C07 eventually, full node, after a crash at any write** (the marks are lost with the process): for every
history — parts may have arrived over P2P and been applied long before their blobs were included —, if the run after
the restart is never answered "not found" and reaches the head of the DA layer, then every height the node holds
whose parts (and those of all heights below) are on the DA layer is reported as DA-included.  No assumption on
commitments.  A full node does NOT have the aggregator's known finding `marks-lost-in-crash-restart`: it rescans the
DA layer from the DA start height (`every_restart_rescans_from_dastart`) and every accepted blob it passes is marked
again, seen or not. -/
theorem C07_full_node_eventually_after_crash (g : GoodChain C.sync ch top) (ops : List HOp)
    (hops : ∀ op ∈ ops, OpOK C ch op) (k : Nat)
    (hnf : ∀ a, Fetch.notFound ∉ (hstep C (hrun C ops) (.crash k)).v.scriptAt a)
    (hreach : (hstep C (hrun C ops) (.crash k)).v.top ≤ (hstep C (hstep C (hrun C ops) (.crash k)) .run).nd.cursor) :
    Reported C ch (hstep C (hrun C ops) (.crash k)).v (hstep C (hstep C (hrun C ops) (.crash k)) .run) := by
  obtain ⟨h0, evs, hi⟩ := hrun_inv (lv := false) (gr := false) g (fun h => by cases h) ops hops (fun h => by cases h)
  obtain ⟨h1, evs1, hi1⟩ := hstep_inv g (fun h => by cases h) hi (.crash k) trivial (fun h => by cases h)
  exact fun h hh hon => run_includes g (fun h => by cases h) hi1 (crash_cursor g hi k).2 hnf hreach h hh hon

/-- the same after a clean restart (also one with events still queued, `HOp.runHeld`) -/
theorem C07_full_node_eventually_after_restart (g : GoodChain C.sync ch top) (ops : List HOp)
    (hops : ∀ op ∈ ops, OpOK C ch op)
    (hnf : ∀ a, Fetch.notFound ∉ (hstep C (hrun C ops) .restart).v.scriptAt a)
    (hreach : (hstep C (hrun C ops) .restart).v.top ≤ (hstep C (hstep C (hrun C ops) .restart) .run).nd.cursor) :
    Reported C ch (hstep C (hrun C ops) .restart).v (hstep C (hstep C (hrun C ops) .restart) .run) := by
  obtain ⟨h0, evs, hi⟩ := hrun_inv (lv := false) (gr := false) g (fun h => by cases h) ops hops (fun h => by cases h)
  obtain ⟨h1, evs1, hi1⟩ := hstep_inv g (fun h => by cases h) hi .restart trivial (fun h => by cases h)
  exact fun h hh hon => run_includes g (fun h => by cases h) hi1 (restart_cursor g hi).2 hnf hreach h hh hon

/-- operations that leave the DA cursor of a freshly started node where it is: the DA layer changes, and parts
arrive over P2P -/
def keepsCursor : HOp → Bool
  | .place _ _ _ => true
  | .head _ => true
  | .script _ _ => true
  | .p2p _ => true
  | _ => false

theorem includeSt_cursor (s : HSt) : (includeSt s).nd.cursor = s.nd.cursor := rfl

theorem keepsCursor_cursor (C : FullNode.Cfg) : ∀ (ops : List HOp) (s : HSt), (∀ op ∈ ops, keepsCursor op = true) →
    (ops.foldl (hstep C) s).nd.cursor = s.nd.cursor := by
  intro ops
  induction ops with
  | nil => intro s _; rfl
  | cons op rest ih =>
    intro s h
    simp only [List.foldl_cons]
    rw [ih _ (fun o ho => h o (List.mem_cons_of_mem _ ho))]
    have := h op List.mem_cons_self
    cases op with
    | place da b o => rfl
    | head n => rfl
    | script da l => simp only [hstep]; split <;> rfl
    | p2p es =>
      simp only [hstep]
      split
      · rfl
      · rw [includeSt_cursor]
    | p2pstore _ _ _ => cases this
    | p2padd _ _ => cases this
    | run => cases this
    | runHeld _ _ => cases this
    | restart => cases this
    | crash _ => cases this

/-- **applied first, observed later, no restart at all**: a fresh node that got blocks over P2P before (and while)
their blobs were included, then scans the DA layer up to its head -/
theorem C07_full_node_eventually_first_scan (g : GoodChain C.sync ch top) (ops : List HOp)
    (hops : ∀ op ∈ ops, OpOK C ch op) (hk : ∀ op ∈ ops, keepsCursor op = true)
    (hnf : ∀ a, Fetch.notFound ∉ (hrun C ops).v.scriptAt a)
    (hreach : (hrun C ops).v.top ≤ (hstep C (hrun C ops) .run).nd.cursor) :
    Reported C ch (hrun C ops).v (hstep C (hrun C ops) .run) := by
  obtain ⟨h0, evs, hi⟩ := hrun_inv (lv := false) (gr := false) g (fun h => by cases h) ops hops (fun h => by cases h)
  have hc : (hrun C ops).nd.cursor = C.daStart := by
    unfold hrun
    rw [keepsCursor_cursor C ops _ hk]
    exact (hinit_inv (lv := false) (gr := false) g).2
  exact fun h hh hon => run_includes g (fun h => by cases h) hi hc hnf hreach h hh hon

/-- **exactly**: under `DistinctCommitments`, after a crash at any write and a run that reaches the head of the DA
layer, the DA-included height `I` satisfies: `I ≤` chain height; every height up to `I` has both parts on the DA
layer; and every height the node holds with all parts (of it and of everything below) on the DA layer is `≤ I` —
`I = min(chain height, top of the longest prefix of the chain observable on the DA layer)`. -/
theorem C07_full_node_exact_after_crash (g : GoodChain C.sync ch top) (dc : DistinctCommitments ch) (ops : List HOp)
    (hops : ∀ op ∈ ops, OpOK C ch op) (k : Nat)
    (hnf : ∀ a, Fetch.notFound ∉ (hstep C (hrun C ops) (.crash k)).v.scriptAt a)
    (hreach : (hstep C (hrun C ops) (.crash k)).v.top ≤ (hstep C (hstep C (hrun C ops) (.crash k)) .run).nd.cursor) :
    (hstep C (hstep C (hrun C ops) (.crash k)) .run).daInc ≤ (hstep C (hstep C (hrun C ops) (.crash k)) .run).nd.full.store.height ∧
    (∀ j, C.sync.initialHeight ≤ j → j ≤ (hstep C (hstep C (hrun C ops) (.crash k)) .run).daInc →
      OnDA C ch (hstep C (hrun C ops) (.crash k)).v j) ∧
    Reported C ch (hstep C (hrun C ops) (.crash k)).v (hstep C (hstep C (hrun C ops) (.crash k)) .run) := by
  obtain ⟨h0, evs, hi⟩ := hrun_inv (lv := false) (gr := false) g (fun h => by cases h) ops hops (fun h => by cases h)
  obtain ⟨h1, evs1, hi1⟩ := hstep_inv g (fun h => by cases h) hi (.crash k) trivial (fun h => by cases h)
  obtain ⟨h2, evs2, hi2⟩ := hstep_inv g (fun h => by cases h) hi1 .run trivial (fun h => by cases h)
  refine ⟨hi2.incLe, fun j j1 j2 => ?_, C07_full_node_eventually_after_crash g ops hops k hnf hreach⟩
  have := incOnDA_onDA g dc hi2.view (hi2.incDA j j1 j2)
  exact this.mono (fun p hp => by rw [hstep_run_placed] at hp; exact hp)

/-! ## (5) the P2P stores: `HeaderStoreRetrieveLoop` / `DataStoreRetrieveLoop` composed with the sync loop

Model (`FullNode.pollH/pollD`, `HOp.p2pstore/p2padd`): the node's go-header stores hold items at the heights
`initialHeight, initialHeight+1, …`; a poll hands EVERY height in (cursor, store height] to the sync loop (headers
only if `isUsingExpectedSingleSequencer` = `Retrieve.p2pAdmit` admits them; data unchecked) and moves the cursor to
the store height; a (re)started loop begins at the node's chain height. -/

theorem p2pstore_cursors {s : HSt} (hok : s.ok = true) (hs : List (SignedHeader × Oracle)) (ds : List Data) (hf : Bool) :
    (hstep C s (.p2pstore hs ds hf)).hCur = C.sync.initialHeight - 1 + (hstep C s (.p2pstore hs ds hf)).hStore.length ∧
    (hstep C s (.p2pstore hs ds hf)).dCur = C.sync.initialHeight - 1 + (hstep C s (.p2pstore hs ds hf)).dStore.length := by
  have hnok : (!s.ok) = false := by rw [hok]; rfl
  simp only [hstep, hnok, Bool.false_eq_true, ↓reduceIte]
  exact ⟨rfl, rfl⟩

/-- **`C02_p2p_stores_converges_partial`**: for every good chain with distinct commitments, every history — items
arriving in the P2P stores in steps of ANY size (also while the node is down, `p2padd`), polls in either order of the
two loops, DA scans, parts handed over directly, clean restarts, crashes at any write — ending with a poll of both
store loops: the node holds every height `h` such that all blocks up to `h` are in its P2P stores (`InStores`: the
admitted header of block `k` at store height `k`, and its data unless the block is empty), and holds them as the
proposer's blocks.  In particular a store that is 150 heights ahead at one poll is worked off completely, and a
node that comes back after a long time finds everything above its own height.
`_partial`: the items of the P2P DATA store are assumed genuine (`OpOK`: `DatItemOK`); unauthenticated junk data —
which can replace a cached genuine item, the recorded finding `C02/stall/junk-p2p-data-replaced-cached-data` — is
covered by the stream and by `Spec.C02`'s junk safety theorems, not by this convergence theorem. -/
theorem C02_p2p_stores_converges_partial (g : GoodChain C.sync ch top) (dc : DistinctCommitments ch)
    (ops : List HOp) (hops : ∀ op ∈ ops, OpOK C ch op)
    (hs : List (SignedHeader × Oracle)) (ds : List Data) (hf : Bool) (hlast : OpOK C ch (.p2pstore hs ds hf))
    (h : Nat) (hin : ∀ k, C.sync.initialHeight ≤ k → k ≤ h → InStores C ch (hstep C (hrun C ops) (.p2pstore hs ds hf)) k) :
    h ≤ (hstep C (hrun C ops) (.p2pstore hs ds hf)).nd.full.store.height ∧
    (hstep C (hrun C ops) (.p2pstore hs ds hf)).nd.full.alive = true ∧
    ∀ k, C.sync.initialHeight ≤ k → k ≤ h →
      ∃ b sb, ch k = some b ∧ (hstep C (hrun C ops) (.p2pstore hs ds hf)).nd.full.store.getBlock k = some sb ∧ SameBlock b sb := by
  obtain ⟨h0, evs, hi⟩ := hrun_inv (lv := true) (gr := false) g (fun _ => dc) ops hops (fun h => by cases h)
  obtain ⟨h1, evs1, hi1⟩ := hstep_inv g (fun _ => dc) hi (.p2pstore hs ds hf) hlast (fun h => by cases h)
  obtain ⟨c1, c2⟩ := p2pstore_cursors (C := C) hi.ok hs ds hf
  have hle := p2p_converges g hi1 c1 c2 h hin
  exact ⟨hle, hi1.safe.alive, fun k k1 k2 => hi1.safe.chain k k1 (Nat.le_trans k2 hle)⟩

/-! ## non-vacuity: a concrete chain, an out-of-order placement, a crash -/

theorem witness_good : GoodChain fC.sync fch 3 := goodChain_of_check fC.sync _ 3 (by decide) fChainFacts.1
theorem witness_distinct : DistinctCommitments fch := distinct_of_check 1 3 _ fChainFacts.2.1
theorem witness_ops_ok : ∀ op ∈ fOps1 ++ fOps2, OpOK fC fch op :=
  fun op h => opOK_of_check (List.all_eq_true.mp fChainFacts.2.2 op h)
theorem witness_ops_da : ∀ op ∈ fOps1 ++ fOps2, isP2P op = false := by
  intro op h
  have := List.all_eq_true.mp (by decide : (fOps1 ++ fOps2).all (fun o => !isP2P o) = true) op h
  simpa using this

/- The history `fOps1 ++ fOps2` (DA start height 1; DA 0: header 3 — never read; DA 1: data 2, header 1; DA 2:
header 3, a forged header, junk; DA 3: header 2, an empty blob; run; DA 4: data 3): the run applied blocks 1 and 2
(6 writes of the sync loop + 6 of the includer, cursor 4, persisted DA height 1, DA-included height 2); a crash after 4 of those writes leaves height 1 and the restart's
cursor is 1, the DA start height; the next run reaches the head (5) and the node holds the whole chain. -/
example : summary (hrun fC fOps1) = [2, 4, 1, 12, 0, 1, 2] ∧
    summary (hrun fC (fOps1 ++ fOps2 ++ [.crash 4])) = [1, 1, 1, 0, 0, 1, 0] ∧
    summary (hrun fC (fOps1 ++ fOps2 ++ [.crash 4, .run])) = [3, 5, 1, 15, 1, 1, 3] :=
  ⟨fRunFacts.1, fRunFacts.2.1, fRunFacts.2.2.1⟩

theorem hrun_snoc (C : FullNode.Cfg) (ops : List HOp) (op : HOp) : hrun C (ops ++ [op]) = hstep C (hrun C ops) op := by
  simp [hrun, List.foldl_append]

/- the hypotheses of the recovery theorem are met by that history, and its conclusion is about height 3 -/
example : Converged fC fch (hrun fC (fOps1 ++ fOps2 ++ [.crash 4])).v (hrun fC (fOps1 ++ fOps2 ++ [.crash 4, .run])) ∧
    (hrun fC (fOps1 ++ fOps2 ++ [.crash 4, .run])).nd.full.store.height = 3 := by
  have e1 : hrun fC (fOps1 ++ fOps2 ++ [.crash 4]) = hstep fC (hrun fC (fOps1 ++ fOps2)) (.crash 4) := hrun_snoc _ _ _
  have e2 : hrun fC (fOps1 ++ fOps2 ++ [.crash 4, .run]) = hstep fC (hstep fC (hrun fC (fOps1 ++ fOps2)) (.crash 4)) .run := by
    have : fOps1 ++ fOps2 ++ [HOp.crash 4, HOp.run] = (fOps1 ++ fOps2 ++ [.crash 4]) ++ [.run] := by simp
    rw [this, hrun_snoc, hrun_snoc]
  have hsum := fRunFacts.2.2.1
  have htop := fRunFacts.2.2.2.1
  have hscr := fRunFacts.2.2.2.2
  refine ⟨?_, ?_⟩
  · rw [e1, e2]
    apply C05_da_only_recovers_after_any_crash witness_good witness_distinct _ witness_ops_ok witness_ops_da 4
    · intro a; rw [← e1, scriptAt_nil_of_all_empty hscr a]; simp
    · have e2' : hrun fC (fOps1 ++ fOps2 ++ [.crash 4, .run]) = hstep fC (hrun fC (fOps1 ++ fOps2 ++ [.crash 4])) .run := by
        rw [e2, e1]
      rw [← e1, ← e2', htop]
      have : (hrun fC (fOps1 ++ fOps2 ++ [.crash 4, .run])).nd.cursor = 5 := by
        have := congrArg (fun l => l.getD 1 0) hsum
        simpa [summary] using this
      omega
  · have := congrArg (fun l => l.getD 0 0) hsum
    simpa [summary] using this

/- with the seeded change (the event's DA height persisted with the state) the restart would resume at DA height 3
and never see header 3 at DA height 2 again: `every_restart_rescans_from_dastart` is what excludes it -/
example : (hstep fC (hrun fC (fOps1 ++ fOps2)) (.crash 4)).nd.cursor = fC.daStart :=
  ((every_restart_rescans_from_dastart witness_good (fOps1 ++ fOps2) witness_ops_ok).2.2.2.1 4).2

/- **applied first, observed later** (`fOps3`): blocks 1 and 2 arrive over P2P and are applied (height 2, nothing
reported); their blobs are then included (DA 1: data 2, header 1; DA 2: header 2); the run marks them although the
node has SEEN both blocks, and reports height 2 (6 includer writes); a crash after 2 of those writes loses the marks
and the persisted height (reported 0 again); the next run rescans from the DA start height and reports 2 again. -/
theorem witness3_ops_ok : ∀ op ∈ fOps3 ++ [HOp.run], OpOK fC fch op := by
  intro op h
  rcases List.mem_append.mp h with h | h
  · exact opOK_of_check (List.all_eq_true.mp fIncFacts.1 op h)
  · simp only [List.mem_singleton] at h; subst h; trivial

example : summary (hrun fC fOps3) = [2, 1, 1, 6, 0, 1, 0] ∧
    summary (hrun fC (fOps3 ++ [.run])) = [2, 3, 1, 6, 0, 1, 2] ∧
    summary (hrun fC (fOps3 ++ [.run, .crash 2])) = [2, 1, 1, 0, 0, 1, 0] ∧
    summary (hrun fC (fOps3 ++ [.run, .crash 2, .run])) = [2, 3, 1, 6, 0, 1, 2] :=
  ⟨fIncFacts.2.1, fIncFacts.2.2.1, fIncFacts.2.2.2.1, fIncFacts.2.2.2.2.1⟩

/- the hypotheses of the full-node `eventually` theorem are met by that history -/
example : Reported fC fch (hrun fC (fOps3 ++ [.run, .crash 2])).v (hrun fC (fOps3 ++ [.run, .crash 2, .run])) := by
  have e1 : hrun fC (fOps3 ++ [.run, .crash 2]) = hstep fC (hrun fC (fOps3 ++ [.run])) (.crash 2) := by
    have : fOps3 ++ [HOp.run, HOp.crash 2] = (fOps3 ++ [.run]) ++ [.crash 2] := by simp
    rw [this, hrun_snoc]
  have e2 : hrun fC (fOps3 ++ [.run, .crash 2, .run]) = hstep fC (hrun fC (fOps3 ++ [.run, .crash 2])) .run := by
    have : fOps3 ++ [HOp.run, HOp.crash 2, HOp.run] = (fOps3 ++ [.run, .crash 2]) ++ [.run] := by simp
    rw [this, hrun_snoc]
  have htop := fIncFacts.2.2.2.2.2.1
  have hscr := fIncFacts.2.2.2.2.2.2
  have hsum := fIncFacts.2.2.2.2.1
  rw [e2, e1]
  apply C07_full_node_eventually_after_crash witness_good _ witness3_ops_ok 2
  · intro a; rw [← e1, scriptAt_nil_of_all_empty hscr a]; simp
  · rw [← e1, ← e2, htop]
    have : (hrun fC (fOps3 ++ [.run, .crash 2, .run])).nd.cursor = 3 := by
      have := congrArg (fun l => l.getD 1 0) hsum
      simpa [summary] using this
    omega

/- **the P2P stores only** (`fOps4`): block 1 arrives in the stores and is polled (3 writes); the node is killed after
the first of them (height 0 again); blocks 2 and 3 arrive while it is down; it is restarted and polls: the store loops
begin at its height 0 and hand over all three heights; the node holds the whole chain. -/
theorem witness4_ops_ok : ∀ op ∈ fOps4, OpOK fC fch op :=
  fun op h => opOK_of_check (List.all_eq_true.mp fStoreFacts.1 op h)

example : (hrun fC (fOps4 ++ [.p2pstore [] [] true])).nd.full.store.height = 3 ∧
    3 ≤ (hstep fC (hrun fC fOps4) (.p2pstore [] [] true)).nd.full.store.height := by
  have e : hrun fC (fOps4 ++ [.p2pstore [] [] true]) = hstep fC (hrun fC fOps4) (.p2pstore [] [] true) := hrun_snoc _ _ _
  have hsum := fStoreFacts.2.2.2.1
  have hall := fStoreFacts.2.2.2.2
  refine ⟨by have := congrArg (fun l => l.getD 0 0) hsum; simpa [summary] using this, ?_⟩
  refine (C02_p2p_stores_converges_partial witness_good witness_distinct fOps4 witness4_ops_ok [] [] true
    ⟨fun wo hm => by simp at hm, fun d hm => by simp at hm⟩ 3 ?_).1
  intro k k1 k2
  rw [← e]
  have hk : k ∈ [1, 2, 3] := by
    have : 1 ≤ k := k1
    simp; omega
  exact inStores_of_check (List.all_eq_true.mp hall k hk)

/-! ## §6 the DA includer INSIDE a block application (C07; seed C07-I)

`trySyncNextBlock` writes `SaveBlockData(h)`, the state, `SetHeight(h)` in this order, and `DAIncluderLoop` is another
goroutine.  `midView C s k` is what the includer sees after `k` of the durable writes of the run that starts in `s`
(every mark of that run's scan already set - the worst case); stream op `runinc at=k` (`FullNode.runInc`, `HOp2`). -/

/-- **never above the chain height, at every write boundary**: after EVERY history (DA scans, P2P, restarts, crashes
at any write - so also: a block saved but not applied is lying in the store), for EVERY `k`: an includer pass after
`k` of the next run's durable writes leaves the DA-included height at most the STORE height of that instant (which
the pass does not change); the `SetFinal` calls it makes are for heights above the old DA-included height and at
most that store height (applied blocks only); the persisted value is the new height (hence also at most it). -/
theorem C07_full_node_never_exceeds_height_during_apply (g : GoodChain C.sync ch top) (ops : List HOp)
    (hops : ∀ op ∈ ops, OpOK C ch op) (k : Nat) :
    let s := hrun C ops
    let v := midView C s k
    let a := (Submit.includerIter v).1
    a.daInc ≤ v.n.store.height ∧ a.n.store.height = v.n.store.height ∧
    (∃ l, a.finals = l ++ s.finals ∧ ∀ h ∈ l, s.daInc < h ∧ h ≤ v.n.store.height) ∧
    (s.daInc < a.daInc → a.n.store.getMeta Submit.daIncKey = some (le64 a.daInc)) := by
  intro s v a
  have hs := (C07_full_node_sound g ops hops).2.1
  have hle : v.daInc ≤ v.n.store.height :=
    Nat.le_trans hs (height_le_applyAll _ _)
  exact includer_le_height v hle

/-- the state `runInc` continues with carries that pass: its DA-included height is at least the pass's (the final
includer only advances) -/
theorem runInc_is_run_when_no_boundary (s : HSt) (k : Nat) (h : midFires C s k = false) :
    runInc C s k = hstep C s .run := by
  unfold runInc
  split
  · rename_i h1; simp only [hstep, h1, if_true]
  · simp [h]

/-- the history used by the witnesses: header of block 1 and data of block 2 at DA 1, header of block 2 at DA 2 -/
def mOps : List HOp := [.place 1 (fH 1) oHdr, .place 1 (fD 2) oDat, .place 2 (fH 2) oHdr]

/-- **the guard is what ties the two heights together** (kernel-checked): (b) fresh node, scan done, block 1 SAVED
(1 of the run's writes), chain height still 0: the includer with the relaxed guard `syncedHeight+1 < height`
finalizes block 1 and reports DA-included height 1 > 0, the real guard reports 0; (a) after a crash that left
block 2 saved but not applied (chain height 1) and the rescan, BEFORE any write of the next run: the relaxed guard
finalizes 1 and 2 and reports 2 > 1, the real guard reports 1. -/
theorem relaxed_guard_finalizes_unapplied_block :
    (let v := midView fC (hrun fC mOps) 1
     v.n.store.height = 0 ∧ (v.n.store.getBlock 1).isSome = true ∧
     (includerPassRelaxed 3 v []).1.daInc = 1 ∧ (includerPassRelaxed 3 v []).1.finals = [1] ∧
     (includerPassRelaxed 3 v []).1.n.store.getMeta Submit.daIncKey = some (le64 1) ∧
     (Submit.includerIter v).1.daInc = 0 ∧ (Submit.includerIter v).1.finals = []) ∧
    (let v := midView fC (hrun fC (fOps1 ++ fOps2 ++ [.crash 4])) 0
     v.n.store.height = 1 ∧ (v.n.store.getBlock 2).isSome = true ∧
     (includerPassRelaxed 3 v []).1.daInc = 2 ∧ (includerPassRelaxed 3 v []).1.finals = [2, 1] ∧
     (Submit.includerIter v).1.daInc = 1 ∧ (Submit.includerIter v).1.finals = [1]) := by
  decide +kernel

/-- the theorem instantiated on the witness chain: non-vacuous -/
example (k : Nat) (ops : List HOp) (h : ops = fOps1 ++ fOps2 ++ [.crash 4]) :
    ((Submit.includerIter (midView fC (hrun fC ops) k)).1.daInc ≤ (midView fC (hrun fC ops) k).n.store.height) :=
  (C07_full_node_never_exceeds_height_during_apply witness_good ops
    (fun op hm => by
      subst h
      rcases List.mem_append.mp hm with hm | hm
      · exact witness_ops_ok op hm
      · cases List.mem_singleton.mp hm; trivial) k).1

end Spec.FNode
