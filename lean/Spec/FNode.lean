import Proofs.FNodeWitness
import Spec.C02

/-!
# C02 / C05 — a full node whose only source is the DA layer, across crashes and restarts

Model (`Model/FullNode.lean`): the REAL composition a node without signer runs — `Retrieve.scan` (= `RetrieveLoop`
over the DA layer) hands accepted header / signed-data blobs to `Sync.onHeader` / `Sync.onData` (= `SyncLoop`);
`FullNode.start` = `NewManager`: the DA cursor of a (re)started node is
`max (persisted state.DAHeight) (config DA start height)`; a crash keeps a prefix of the durable writes of the last
run and loses the caches, a clean restart keeps the caches.  Histories (`FullNode.hstep`): blobs placed on the DA
layer at any DA heights in any order (genuine parts, duplicates, junk, forged material), fetch faults, runs until
quiescence — also in schedules of the two event channels in which events are still queued when the node is stopped
— clean restarts, crashes after any number of the last writes (also of a restart's own writes).  The stream
`FNODE` compares this model with the real `block.Manager` running the real `RetrieveLoop` + `SyncLoop`.

What is **hypothesis**:
* `GoodChain`: the proposer's chain is one a full node accepts block by block (`Spec.C02.goodChain_of_producer`:
  every chain of C01's producer is one, `da_only_recovers_producer` below);
* `OpOK` for every placed blob: a blob the DA classifier ACCEPTS is a part of that chain (the conclusion of C03's
  admission theorems; junk and forged blobs are not accepted and are unconstrained);
* for convergence only: `DistinctCommitments` (the hypothesis of C02's recorded finding), no fetch answered
  "not found" in the final run, and the final scan reaches the head of the DA layer.
-/
namespace Spec.FNode
open Wire Chain Sync Retrieve FullNode

variable {C : FullNode.Cfg} {ch : PChain} {top : Nat}

/-! ## (1) the sync loop never moves the DA height of the state -/

/-- **`sync_keeps_daHeight`**: for EVERY node and EVERY header or data event (no hypothesis on either): the DA
height of the in-memory state is unchanged, and every state the step persists carries that same value.  (The
assignment `newState.DAHeight = daHeight` in `trySyncNextBlock` happens after `updateState` and has no durable
effect; a change that persists the event's DA height breaks this theorem's model counterpart — the stream's
correspondence on `disk=…/da<N>` — and the convergence theorems below.) -/
theorem sync_keeps_daHeight (n : FNode) :
    (∀ sh, (onHeader n sh).1.lastState.daHeight = n.lastState.daHeight ∧
      ∀ s, SW.updateState s ∈ (onHeader n sh).2 → s.daHeight = n.lastState.daHeight) ∧
    (∀ d, (onData n d).1.lastState.daHeight = n.lastState.daHeight ∧
      ∀ s, SW.updateState s ∈ (onData n d).2 → s.daHeight = n.lastState.daHeight) :=
  ⟨onHeader_da n, onData_da n⟩

/-- the same for everything the sync loop is handed by one DA scan, whatever it is -/
theorem sync_keeps_daHeight_scan (C : FullNode.Cfg) (n : FNode) (es : List Retrieve.Event) :
    (feed C n es).1.lastState.daHeight = n.lastState.daHeight ∧
    ∀ s, SW.updateState s ∈ (feed C n es).2 → s.daHeight = n.lastState.daHeight :=
  feed_da C es n

/-- the store of the node is exactly its durable writes, applied in order (so a crash image after all writes of a
run is the node's store, and a crash image is a prefix of what the node did) -/
theorem store_is_writes (C : FullNode.Cfg) (n : FNode) (es : List Retrieve.Event) :
    (feed C n es).1.store = n.store.applyAll (feed C n es).2 :=
  feed_store C es n

/-- **the DA cursor after a (re)start is what `NewManager` computes**: the larger of the persisted state's DA
height and the configured DA start height; the in-memory state carries the same value -/
theorem start_cursor (C : FullNode.Cfg) (d : Store) (caches : FNode) {nd : Node} {ws : List SW}
    (h : FullNode.start C d caches = some (nd, ws)) :
    nd.cursor = max ((d.state.map (·.daHeight)).getD 0) C.daStart ∧ nd.full.lastState.daHeight = nd.cursor :=
  start_cursor_eq C d caches h

/-- **hence every restart rescans from the configured DA start height**: after every history (no assumption on
commitments), the node is up, a clean restart and a restart after a crash at ANY write boundary both succeed and
put the DA cursor on the DA start height, and every crash image is a consistent image (`DiskOK`, C05) whose
state carries the DA start height. -/
theorem every_restart_rescans_from_dastart (g : GoodChain C.sync ch top) (ops : List HOp)
    (hops : ∀ op ∈ ops, OpOK C ch op) :
    (hrun C ops).ok = true ∧ C.daStart ≤ (hrun C ops).nd.cursor ∧
    ((hstep C (hrun C ops) .restart).ok = true ∧ (hstep C (hrun C ops) .restart).nd.cursor = C.daStart) ∧
    (∀ k, (hstep C (hrun C ops) (.crash k)).ok = true ∧ (hstep C (hrun C ops) (.crash k)).nd.cursor = C.daStart) ∧
    (∀ k, DiskOK C.sync ch (eraseStore ((hrun C ops).before.applyPrefix k (hrun C ops).ws)) ∧
      ∀ st, ((hrun C ops).before.applyPrefix k (hrun C ops).ws).state = some st → st.daHeight = C.daStart) := by
  obtain ⟨h0, evs, hi⟩ := hrun_inv (lv := false) g (fun h => by cases h) ops hops
  exact ⟨hi.ok, hi.cur, restart_cursor g hi, fun k => crash_cursor g hi k, fun k => ⟨(hi.crash k).1, (hi.crash k).2.2⟩⟩

/-- the very first start scans from the DA start height as well -/
theorem first_start_scans_from_dastart (g : GoodChain C.sync ch top) :
    (hinit C).ok = true ∧ (hinit C).nd.cursor = C.daStart :=
  ⟨(hinit_inv (lv := false) g).1.ok, (hinit_inv (lv := false) g).2⟩

/-! ## (2) safety over all histories: never a different block, never ahead of the DA layer, heights across restarts -/

/-- **after every history** (any placements, fetch faults, schedules, clean restarts, crashes at any write; no
assumption on commitments): the node is alive, its state is the state after its chain height, every height up to
it holds the proposer's block, and both parts of each of those blocks are on the DA layer at or above the DA start
height (nothing is applied that the DA layer does not hold). -/
theorem da_only_safety (g : GoodChain C.sync ch top) (ops : List HOp) (hops : ∀ op ∈ ops, OpOK C ch op) :
    (hrun C ops).nd.full.alive = true ∧
    eraseS (hrun C ops).nd.full.lastState = stateAt C.sync ch (hrun C ops).nd.full.store.height ∧
    (hrun C ops).nd.full.lastState.daHeight = C.daStart ∧
    ∀ k, C.sync.initialHeight ≤ k → k ≤ (hrun C ops).nd.full.store.height →
      OnDA C ch (hrun C ops).v k ∧
      ∃ b sb, ch k = some b ∧ (hrun C ops).nd.full.store.getBlock k = some sb ∧ SameBlock b sb := by
  obtain ⟨h0, evs, hi⟩ := hrun_inv (lv := false) g (fun h => by cases h) ops hops
  exact ⟨hi.safe.alive, hi.safe.st, hi.da, fun k h1 h2 => ⟨hi.lowDA k h1 h2, hi.safe.chain k h1 h2⟩⟩

/-- **heights across restarts**: a clean restart keeps the chain height; after a crash the node restarts at the
height its image records, which is never above the height it had reached -/
theorem heights_across_restarts (g : GoodChain C.sync ch top) (ops : List HOp) (hops : ∀ op ∈ ops, OpOK C ch op) :
    (hstep C (hrun C ops) .restart).nd.full.store.height = (hrun C ops).nd.full.store.height ∧
    ∀ k, (hstep C (hrun C ops) (.crash k)).nd.full.store.height
          = recHeight C.sync (eraseStore ((hrun C ops).before.applyPrefix k (hrun C ops).ws)) ∧
         (hstep C (hrun C ops) (.crash k)).nd.full.store.height ≤ (hrun C ops).nd.full.store.height := by
  obtain ⟨h0, evs, hi⟩ := hrun_inv (lv := false) g (fun h => by cases h) ops hops
  exact ⟨restart_height g hi, fun k => crash_height g hi k⟩

/-! ## (3) end to end: convergence after any history and any restart -/

/-- what "converged" means for the state `s'` reached by the final run, the DA layer being `v`: alive, the state is
the state after the chain height `H`, every height up to `H` has both parts on the DA layer and holds the
proposer's block, and block `H + 1` is NOT completely on the DA layer — `H` is the top of the longest complete
prefix of the chain on the DA layer. -/
def Converged (C : FullNode.Cfg) (ch : PChain) (v : DAView) (s' : HSt) : Prop :=
  s'.nd.full.alive = true ∧
  eraseS s'.nd.full.lastState = stateAt C.sync ch s'.nd.full.store.height ∧
  (∀ k, C.sync.initialHeight ≤ k → k ≤ s'.nd.full.store.height →
    OnDA C ch v k ∧ ∃ b sb, ch k = some b ∧ s'.nd.full.store.getBlock k = some sb ∧ SameBlock b sb) ∧
  ¬ OnDA C ch v (s'.nd.full.store.height + 1)

/-- **C05, DA only: recovery after a crash at any write.**  For every good chain with distinct commitments, every
history, every crash point `k` (also inside a restart's own writes): if the run after the restart is not answered
"not found" and reaches the head of the DA layer, the node converges to the longest complete prefix of the chain on
the DA layer — whatever lay in its lost caches is fetched again, because the restart rescans from the DA start
height. -/
theorem C05_da_only_recovers_after_any_crash (g : GoodChain C.sync ch top) (dc : DistinctCommitments ch)
    (ops : List HOp) (hops : ∀ op ∈ ops, OpOK C ch op) (k : Nat)
    (hnf : ∀ a, Fetch.notFound ∉ (hstep C (hrun C ops) (.crash k)).v.scriptAt a)
    (hreach : (hstep C (hrun C ops) (.crash k)).v.top ≤ (hstep C (hstep C (hrun C ops) (.crash k)) .run).nd.cursor) :
    Converged C ch (hstep C (hrun C ops) (.crash k)).v (hstep C (hstep C (hrun C ops) (.crash k)) .run) := by
  obtain ⟨h0, evs, hi⟩ := hrun_inv (lv := true) g (fun _ => dc) ops hops
  obtain ⟨h1, evs1, hi1⟩ := hstep_inv g (fun _ => dc) hi (.crash k) trivial
  exact run_converges g dc hi1 (crash_cursor g hi k).2 hnf hreach

/-- **C02, DA only: convergence after a clean restart** — also one that happened while events were still queued
(`HOp.runHeld` before it): the restarted node rescans from the DA start height. -/
theorem C02_da_only_converges_after_restart (g : GoodChain C.sync ch top) (dc : DistinctCommitments ch)
    (ops : List HOp) (hops : ∀ op ∈ ops, OpOK C ch op)
    (hnf : ∀ a, Fetch.notFound ∉ (hstep C (hrun C ops) .restart).v.scriptAt a)
    (hreach : (hstep C (hrun C ops) .restart).v.top ≤ (hstep C (hstep C (hrun C ops) .restart) .run).nd.cursor) :
    Converged C ch (hstep C (hrun C ops) .restart).v (hstep C (hstep C (hrun C ops) .restart) .run) := by
  obtain ⟨h0, evs, hi⟩ := hrun_inv (lv := true) g (fun _ => dc) ops hops
  obtain ⟨h1, evs1, hi1⟩ := hstep_inv g (fun _ => dc) hi .restart trivial
  exact run_converges g dc hi1 (restart_cursor g hi).2 hnf hreach

/-- operations on the DA layer only -/
def isDAOp : HOp → Bool
  | .place _ _ _ => true
  | .head _ => true
  | .script _ _ => true
  | _ => false

theorem daOps_keep_node (C : FullNode.Cfg) : ∀ (ops : List HOp) (s : HSt), (∀ op ∈ ops, isDAOp op = true) →
    (ops.foldl (hstep C) s).nd = s.nd := by
  intro ops
  induction ops with
  | nil => intro s _; rfl
  | cons op rest ih =>
    intro s h
    simp only [List.foldl_cons]
    rw [ih _ (fun o ho => h o (List.mem_cons_of_mem _ ho))]
    have := h op List.mem_cons_self
    cases op with
    | place da b o => rfl
    | head n => rfl
    | script da l => simp only [hstep]; split <;> rfl
    | run => cases this
    | runHeld _ _ => cases this
    | restart => cases this
    | crash _ => cases this

/-- **C02, DA only: the first run of a fresh node** over any DA contents -/
theorem C02_da_only_converges_first_run (g : GoodChain C.sync ch top) (dc : DistinctCommitments ch)
    (ops : List HOp) (hops : ∀ op ∈ ops, OpOK C ch op) (hda : ∀ op ∈ ops, isDAOp op = true)
    (hnf : ∀ a, Fetch.notFound ∉ (hrun C ops).v.scriptAt a)
    (hreach : (hrun C ops).v.top ≤ (hstep C (hrun C ops) .run).nd.cursor) :
    Converged C ch (hrun C ops).v (hstep C (hrun C ops) .run) := by
  obtain ⟨h0, evs, hi⟩ := hrun_inv (lv := true) g (fun _ => dc) ops hops
  have hc : (hrun C ops).nd.cursor = C.daStart := by
    unfold hrun
    rw [daOps_keep_node C ops _ hda]
    exact (hinit_inv (lv := false) g).2
  exact run_converges g dc hi hc hnf hreach

/-- **link to C01**: the same for every chain the producer model commits (any sequencing-layer responses), under
`EmptyCommitmentUnique` (a SHA-256 second pre-image would be needed otherwise) -/
theorem C05_da_only_recovers_producer {pc : Producer.Cfg} {pn : Producer.Node} (hi : Producer.Inv pc pn)
    (hm : Producer.MetaInv pc pn) (hcol : Spec.C02.EmptyCommitmentUnique)
    (C : FullNode.Cfg) (hC : C.sync = Spec.C02.syncCfg pc)
    (dc : DistinctCommitments (Spec.C02.chainOf pc pn))
    (ops : List HOp) (hops : ∀ op ∈ ops, OpOK C (Spec.C02.chainOf pc pn) op) (k : Nat)
    (hnf : ∀ a, Fetch.notFound ∉ (hstep C (hrun C ops) (.crash k)).v.scriptAt a)
    (hreach : (hstep C (hrun C ops) (.crash k)).v.top ≤ (hstep C (hstep C (hrun C ops) (.crash k)) .run).nd.cursor) :
    Converged C (Spec.C02.chainOf pc pn) (hstep C (hrun C ops) (.crash k)).v
      (hstep C (hstep C (hrun C ops) (.crash k)) .run) := by
  have g : GoodChain C.sync (Spec.C02.chainOf pc pn) pn.store.height := by
    rw [hC]; exact Spec.C02.goodChain_of_producer hi hm hcol
  exact C05_da_only_recovers_after_any_crash g dc ops hops k hnf hreach

/-! ## non-vacuity: a concrete chain, an out-of-order placement, a crash -/

theorem witness_good : GoodChain fC.sync fch 3 := goodChain_of_check fC.sync _ 3 (by decide) fChainFacts.1
theorem witness_distinct : DistinctCommitments fch := distinct_of_check 1 3 _ fChainFacts.2.1
theorem witness_ops_ok : ∀ op ∈ fOps1 ++ fOps2, OpOK fC fch op :=
  fun op h => opOK_of_check (List.all_eq_true.mp fChainFacts.2.2 op h)

/- The history `fOps1 ++ fOps2` (DA start height 1; DA 0: header 3 — never read; DA 1: data 2, header 1; DA 2:
header 3, a forged header, junk; DA 3: header 2, an empty blob; run; DA 4: data 3): the run applied blocks 1 and 2
(6 writes, cursor 4, persisted DA height 1); a crash after 4 of those writes leaves height 1 and the restart's
cursor is 1, the DA start height; the next run reaches the head (5) and the node holds the whole chain. -/
example : summary (hrun fC fOps1) = [2, 4, 1, 6, 0, 1] ∧
    summary (hrun fC (fOps1 ++ fOps2 ++ [.crash 4])) = [1, 1, 1, 0, 0, 1] ∧
    summary (hrun fC (fOps1 ++ fOps2 ++ [.crash 4, .run])) = [3, 5, 1, 6, 1, 1] :=
  ⟨fRunFacts.1, fRunFacts.2.1, fRunFacts.2.2.1⟩

theorem hrun_snoc (C : FullNode.Cfg) (ops : List HOp) (op : HOp) : hrun C (ops ++ [op]) = hstep C (hrun C ops) op := by
  simp [hrun, List.foldl_append]

/- the hypotheses of the recovery theorem are met by that history, and its conclusion is about height 3 -/
example : Converged fC fch (hrun fC (fOps1 ++ fOps2 ++ [.crash 4])).v (hrun fC (fOps1 ++ fOps2 ++ [.crash 4, .run])) ∧
    (hrun fC (fOps1 ++ fOps2 ++ [.crash 4, .run])).nd.full.store.height = 3 := by
  have e1 : hrun fC (fOps1 ++ fOps2 ++ [.crash 4]) = hstep fC (hrun fC (fOps1 ++ fOps2)) (.crash 4) := hrun_snoc _ _ _
  have e2 : hrun fC (fOps1 ++ fOps2 ++ [.crash 4, .run]) = hstep fC (hstep fC (hrun fC (fOps1 ++ fOps2)) (.crash 4)) .run := by
    have : fOps1 ++ fOps2 ++ [HOp.crash 4, HOp.run] = (fOps1 ++ fOps2 ++ [.crash 4]) ++ [.run] := by simp
    rw [this, hrun_snoc, hrun_snoc]
  have hsum := fRunFacts.2.2.1
  have htop := fRunFacts.2.2.2.1
  have hscr := fRunFacts.2.2.2.2
  refine ⟨?_, ?_⟩
  · rw [e1, e2]
    apply C05_da_only_recovers_after_any_crash witness_good witness_distinct _ witness_ops_ok 4
    · intro a; rw [← e1, scriptAt_nil_of_all_empty hscr a]; simp
    · have e2' : hrun fC (fOps1 ++ fOps2 ++ [.crash 4, .run]) = hstep fC (hrun fC (fOps1 ++ fOps2 ++ [.crash 4])) .run := by
        rw [e2, e1]
      rw [← e1, ← e2', htop]
      have : (hrun fC (fOps1 ++ fOps2 ++ [.crash 4, .run])).nd.cursor = 5 := by
        have := congrArg (fun l => l.getD 1 0) hsum
        simpa [summary] using this
      omega
  · have := congrArg (fun l => l.getD 0 0) hsum
    simpa [summary] using this

/- with the seeded change (the event's DA height persisted with the state) the restart would resume at DA height 3
and never see header 3 at DA height 2 again: `every_restart_rescans_from_dastart` is what excludes it -/
example : (hstep fC (hrun fC (fOps1 ++ fOps2)) (.crash 4)).nd.cursor = fC.daStart :=
  ((every_restart_rescans_from_dastart witness_good (fOps1 ++ fOps2) witness_ops_ok).2.2.2.1 4).2

end Spec.FNode
