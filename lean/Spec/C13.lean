import Proofs.Shutdown
import Gen.C13

/-! # C13 — concurrent background loops stop promptly (shutdown protocol of `FullNode.Run`)

Claimed **partial**: data-race freedom and actual latencies are not theorems (race-enabled runs of the real loops,
stream `c13`, are exploration).  What is proved here is the *shutdown protocol*: `Model/Shutdown.lean` abstracts every
worker of `Run` to its blocking points; the table of blocking points is regenerated from the current source
(`Gen.C13`, go/parser over block/*.go and node/full.go) on every run.

* `termination` — for EVERY table that is `allGuarded` (every blocking point inside a select with a ctx case / a
  default, or a bounded sleep; not more plain `errCh <-` senders than `errCh` has room for) and `errDisciplined`
  (error reports are either all non-blocking select-sends or all plain terminal sends): from every reachable
  state in which the node context is cancelled, every schedule is finite (`≤ μ` steps, the environment's included), a
  state in which the node itself can do nothing more is the finished one (all workers returned, `Run` returned), and
  the node can always get there by its own actions.
* `C13_all_guarded`, `C13_no_unguarded`, `C13_static_facts` — the current tree's tables satisfy the hypotheses
  (`decide` on the regenerated tables: an unguarded blocking point, a plain `errCh <-` next to the non-blocking ones,
  a loop without a ctx case, a changed worker set or `Run` protocol breaks the build of this file).
* `C13_lock_order_acyclic`, `lock_progress`, `C13_lock_progress`, `reentrant_lock_witness`, `lock_cycle_witness` (round 6,
  end of this file) — the lock-nesting table (mutexes acquired inside critical sections) has no self edge and no cycle;
  for every ranked table no set of workers is parked on mutexes for ever: what the `free` flag of a `lock` row rests on.
* `C13_extractor_complete`, `C13_boundary_declared`, `C13_mutex_regions` — completeness of the regenerated table: the
  extractor resolves calls with type information and follows them to any depth; every call into the repository's
  own packages or through a func value that it could NOT follow is listed in `Gen.C13.callsNotFollowed`, which must be
  empty; interface calls are the declared boundary (the list of interfaces is fixed here); every mutex the loops lock
  has only critical sections that cannot park their holder.
* `C13_no_unjoined_goroutines` — no `go` statement reachable from a worker leaves a goroutine that is not joined before
  the worker returns (`Gen.C13.goStmtsInWorkers = []`).  In the model such a statement is the point `spawn`: it is not
  `guarded`, it leaves an *orphan*, and `finished` - the conclusion of `termination` - demands "all workers returned,
  `Run` returned AND no orphan alive": the node shuts down with ALL its activity.  `spawn_witness`: with one un-joined
  `go` statement `Run` returns while an activity of the node is still alive.
* `C13_timer_loops` — every timer-driven loop re-arms its timer on every path back to its head (a loop that does not
  still stops promptly but never fires again: not a shutdown defect, an activity that silently ends while running).
* `C13_termination` — `termination` at full strength for BOTH worker sets of the current tree (aggregator and full
  node), any budget.
* witnesses on small hand-written tables, one per kind of unguarded point, showing what each would cause:
  `sleep_witness` (start-up `time.Sleep(delay)`: returns only when the environment lets the delay elapse),
  `errSend_witness` (two plain senders on the capacity-1 `errCh`: dead), `mixedErr_witness` (one plain sender next to a
  non-blocking one: dead), `fullChannel_witness` (plain send on a full event channel whose consumer returned: dead).
-/
namespace Spec.C13
open Shutdown

/-- capacities regenerated from the source; `budget` = how many blocking operations a worker may complete between
two passes of a loop-head ctx select (any number) -/
def cfg (budget : Nat) : Cfg :=
  { cap := capOf Gen.C13.capErrCh Gen.C13.capHeaderInCh Gen.C13.capDataInCh, budget := budget }

def aggProgs : List (List BP) := progsOf Gen.C13.points Gen.C13.aggregatorWorkers
def fullProgs : List (List BP) := progsOf Gen.C13.points Gen.C13.fullWorkers

/-- **Shutdown protocol (general).** -/
theorem termination (c : Cfg) (progs : List (List BP))
    (hg : allGuarded c progs = true) (hd : errDisciplined progs = true)
    (s : St) (hr : Reach c progs s) (hc : s.cancelled = true) :
    (∀ as s', exec c s as = some s' → as.length ≤ μ c s) ∧
    (∀ as s', exec c s as = some s' → Stuck c s' → finished s' = true) ∧
    (∃ as s', (∀ a ∈ as, a.isEnv = false) ∧ exec c s as = some s' ∧ finished s' = true) := by
  have hs := safe_of_allGuarded c progs hd hg
  refine ⟨?_, ?_, ?_⟩
  · intro as s' h
    have := exec_bounded c as s s' hc h
    omega
  · intro as s' h hstuck
    cases hf : finished s' with
    | true => rfl
    | false =>
      have hr' := reach_exec c progs as s s' hr h
      obtain ⟨a, s2, ha, hstep⟩ :=
        progress c progs hs s' (inv_reach c progs hs s' hr') (exec_cancelled c as s s' hc h) hf
      rw [hstuck a ha] at hstep
      simp at hstep
  · exact can_finish c progs hs (μ c s) s hr hc (Nat.le_refl _)

/-- non-vacuity (plain discipline): a guarded two-worker table with one plain error sender on a capacity-1 `errCh`; a
cancelled state is reachable -/
example : allGuarded { cap := fun _ => 1, budget := 2 } [[.ctxSelect, .errSend], [.ctxSelect, .recv .timer true]] = true ∧
    errDisciplined [[.ctxSelect, .errSend], [.ctxSelect, .recv .timer true]] = true ∧
    (exec { cap := fun _ => 1, budget := 2 } (initSt [[.ctxSelect, .errSend], [.ctxSelect, .recv .timer true]])
      [.work 0 (.next .errSend), .work 0 .ret, .runErr]).map (·.cancelled) = some true := by decide

/-- non-vacuity (non-blocking discipline, the one of the current tree): two workers that report errors with
`select { case errCh <- err: default: }`; both report, `Run` reads the first and cancels -/
example : allGuarded { cap := fun _ => 1, budget := 2 } [[.ctxSelect, .send .errCh true], [.ctxSelect, .send .errCh true]] = true ∧
    errDisciplined [[.ctxSelect, .send .errCh true], [.ctxSelect, .send .errCh true]] = true ∧
    (exec { cap := fun _ => 1, budget := 2 } (initSt [[.ctxSelect, .send .errCh true], [.ctxSelect, .send .errCh true]])
      [.work 0 (.next (.send .errCh true)), .work 1 (.next (.send .errCh true)), .work 0 .ret, .work 1 .ret,
       .runErr]).map (·.cancelled) = some true := by decide

/-! ## the current tree -/

/-- structural facts of the current source the abstraction relies on: `Run`'s protocol, terminal plain error sends,
every unbounded loop with a blocking operation has a ctx case, the discipline on `errCh`, the worker sets, every
worker has a ctx select.

WHAT IS PROVED HERE AND WHAT IS NOT: `runProtocol`, `errSendsTerminal`, `loopsHeaded` (like `mutexRegionsNonBlocking`
and `timerLoopsRearmOnEveryPath` below) are VERDICTS OF THE GO EXTRACTOR: the analysis (which select, which path,
which critical section) is done in `harness/streams/c13/facts.go`, which is trusted; Lean adds nothing to them.  What
Lean does decide is the final conjunction over the DATA the extractor emits next to each verdict
(`runSelectOverErrChAndParent/runWaitsAfterSelect/runErrChReads`, `plainErrSends`, `loopChecks`, `mutexRegionData`,
`timerBackEdges`): `C13_verdicts_from_data`. -/
theorem C13_static_facts :
    Gen.C13.runProtocol = true ∧ Gen.C13.errSendsTerminal = true ∧ Gen.C13.loopsHeaded = true ∧
    errDisciplined aggProgs = true ∧ errDisciplined fullProgs = true ∧
    Gen.C13.aggregatorWorkers = [0, 1, 2, 3, 4] ∧ Gen.C13.fullWorkers = [5, 6, 7, 8, 4] ∧
    aggProgs.all (fun p => p.contains .ctxSelect) = true ∧ fullProgs.all (fun p => p.contains .ctxSelect) = true := by
  decide

/-- the extractor's verdicts recomputed from the data it emits: `Run` has its select, a `wg.Wait()` after it and exactly one
receive from `errCh`; every plain error send is followed by `return`; every loop that can park leaves at a ctx case;
every critical section of every mutex of the table holds 0 operations that can park the holder, and every mutex of a
`lock` row has at least one critical section in the data; on every back-edge of every timer loop the timer is re-armed
(and there is such an edge for the three timers of the aggregation loops) -/
theorem C13_verdicts_from_data :
    Gen.C13.runSelectOverErrChAndParent = true ∧ Gen.C13.runWaitsAfterSelect = true ∧ Gen.C13.runErrChReads = 1 ∧
    Gen.C13.plainErrSends.all (·.2) = true ∧
    Gen.C13.loopChecks.all (fun l => !l.2.1 || l.2.2) = true ∧ 9 ≤ (Gen.C13.loopChecks.filter (·.2.1)).length ∧
    Gen.C13.mutexRegionData.all (fun r => r.2.2 == 0) = true ∧
    (Gen.C13.points.all fun p => p.2.1 != 5 || Gen.C13.mutexRegionData.any (fun r => r.1 == p.2.2.1)) = true ∧
    Gen.C13.timerBackEdges.all (·.2.2) = true ∧ 3 ≤ Gen.C13.timerBackEdges.length := by decide

/-- **The skeleton of the table is pinned** (an extractor regression that DROPS points must not pass): every worker has a
ctx select and the operations each loop is known for - AggregationLoop: timer receives, the `txNotifyCh` receive, the
non-blocking error report, the state lock, the broadcast join; Reaper: ticker and the `txNotifyCh` poll; the submission
loops: their tickers (and the back-off timer of `submitToDA`); DAIncluderLoop: `daIncluderCh`, error report;
RetrieveLoop: `retrieveCh`, the two event sends; the store loops: their store channel and event send; SyncLoop:
`headerInCh`, `dataInCh`, tickers, error report, state lock, the three non-blocking signals (channel identity follows
chan-typed PARAMETERS: `sendNonBlockingSignalWithMetrics(ch, …)`) - and at least the number of DISTINCT points
(kind, channel, flag) it has today.  Distinct, not raw rows: how many syntactic copies of the same operation a loop has is
not a property of the node (refactoring R2 folds SyncLoop's three identical error reports into one helper: same table
up to duplicates); an extractor that loses a KIND of operation of a loop still fails here. -/
theorem C13_table_skeleton :
    let P := fun l => progOf Gen.C13.points l
    (([0, 1, 2, 3, 4, 5, 6, 7, 8].all fun l => (P l).contains .ctxSelect) = true) ∧
    ([BP.recv .timer true, .recv .txNotifyCh true, .send .errCh true, .lock 0 true, .join true].all (P 0).contains = true) ∧
    ([BP.recv .timer true, .send .txNotifyCh true].all (P 1).contains = true) ∧
    ([BP.recv .timer true].all (P 2).contains = true) ∧ ([BP.recv .timer true].all (P 3).contains = true) ∧
    ([BP.recv .daIncluderCh true, .send .errCh true].all (P 4).contains = true) ∧
    ([BP.recv .retrieveCh true, .send .headerInCh true, .send .dataInCh true, .recv .timer true].all (P 5).contains = true) ∧
    ([BP.recv .headerStoreCh true, .send .headerInCh true].all (P 6).contains = true) ∧
    ([BP.recv .dataStoreCh true, .send .dataInCh true].all (P 7).contains = true) ∧
    ([BP.recv .headerInCh true, .recv .dataInCh true, .recv .timer true, .send .errCh true, .lock 0 true].all (P 8).contains = true) ∧
    ([BP.send .daIncluderCh true].all (P 2).contains = true) ∧ ([BP.send .daIncluderCh true].all (P 3).contains = true) ∧
    ([BP.send .daIncluderCh true].all (P 5).contains = true) ∧
    ([BP.send .retrieveCh true, .send .headerStoreCh true, .send .dataStoreCh true].all (P 8).contains = true) ∧
    ([(0, 6), (1, 3), (2, 3), (3, 3), (4, 3), (5, 8), (6, 3), (7, 3), (8, 9)].all
      fun (lc : Nat × Nat) => decide (lc.2 ≤ (P lc.1).eraseDups.length)) = true := by decide

/-- no `time.Sleep` is left on any walk (a sleep is never a guarded point: `BP.guarded (.sleep _) = false`) -/
theorem C13_no_sleep : (Gen.C13.points.all fun p => p.2.1 != 1) = true := by decide

/-- `Run` itself: its own `go` statements (and those of the functions of package node it calls) are either joined by its
WaitGroup (the workers) or `http.Server.ListenAndServe` goroutines, which the `Shutdown` calls of the post-join phase
end (net/http: ListenAndServe returns once Shutdown is called) - as many as there are; and the post-join phase
(after `wg.Wait()`, which is where the model's "`Run` returned" is) calls only the declared list: it is NOT in the
table, it is an assumption (props/C13.json) that these calls return: the sync services' `Stop` and the three
`Shutdown` under a 9 s context, `p2p.Client.Close` and `Store.Close` without any.  The runtime monitors measure the real
`Run` to its return and look for goroutines that survive it. -/
def declaredPostJoin : List String :=
  ["pkg/sync.SyncService.Stop", "pkg/p2p.Client.Close", "(*net/http.Server).Shutdown", "pkg/store.Store.Close",
   "block.Manager.SaveCache", "context.WithTimeout", "context.Background", "(context.Context).Err",
   "interface{Unwrap() []error}.Unwrap"]

theorem C13_run_envelope :
    Gen.C13.runGoStmts.all (·.2.2.2) = true ∧
    (Gen.C13.runGoStmts.filter fun g => g.2.2.1 == "unjoined").length = 3 ∧
    (Gen.C13.runGoStmts.filter fun g => g.2.2.1 == "joined").length = 1 ∧
    Gen.C13.runPostJoinCalls.all (fun c => declaredPostJoin.contains c) = true ∧
    Gen.C13.runPostJoinCalls.contains "(*net/http.Server).Shutdown" = true := by decide

/-- **Completeness of the table (1):** on its walks (the nine loop functions and the critical sections of the mutexes they
lock) the extractor met no call INTO THE REPOSITORY'S OWN PACKAGES, and no call through a func value (func-typed
field, parameter, local, method value) of unknown origin, that it could not resolve and follow.  NOT covered: method
calls on the declared boundary interfaces (`C13_boundary_declared`), calls into packages outside the repository
(`Gen.C13.externalPkgs`, documentation) and func values OBTAINED from outside the repository (e.g. the `cancel` of
`context.WithTimeout`; listed there as "<func value obtained from outside the repository>"): those are taken to
return, apart from the classified primitives of time / sync / errgroup. -/
theorem C13_extractor_complete : Gen.C13.callsNotFollowed = [] := by decide

/-- the interfaces whose method calls are NOT followed: the execution, sequencing and DA layers, the store, the P2P
broadcasters, the signer, the sequencer's metrics hook (assumed to return once their context is cancelled / to be
pure computation - props/C13.json), and the `Unwrap() []error` probe of an error value -/
def declaredBoundary : List String :=
  ["core/execution.Executor", "core/sequencer.Sequencer", "core/da.DA", "pkg/store.Store", "block.broadcaster",
   "block.MetricsRecorder", "pkg/signer.Signer", "interface{Unwrap() []error}"]

/-- **Completeness of the table (2):** every interface-method call left unfollowed is on the declared boundary -/
theorem C13_boundary_declared :
    Gen.C13.boundaryInterfaces.all (fun i => declaredBoundary.contains i) = true := by decide

/-- **Completeness of the table (3):** no critical section of a mutex locked by a loop (or locked inside such a critical
section), anywhere in the repository's loaded packages, contains an operation that can park its holder; hence every
`lock` point of the table is `free` -/
-- (extractor verdicts; the same conclusion from the emitted data: `C13_verdicts_from_data`)
theorem C13_mutex_regions :
    Gen.C13.mutexRegionsNonBlocking = true ∧ Gen.C13.mutexes.all (fun m => m.2.2) = true ∧
    (Gen.C13.points.all fun p => p.2.1 != 5 || p.2.2.2) = true := by decide

/-- **No activity escapes the join:** no `go` statement reachable from a worker body starts a goroutine that is not joined
before that worker returns (an errgroup whose `Wait` is reached, or a WaitGroup local to the function, counts as joined:
the joined bodies are part of the worker's table).  Hence the generated tables have no `spawn` point and the `finished`
of `C13_termination` (which includes "no orphan") speaks about everything the workers ever started. -/
theorem C13_no_unjoined_goroutines :
    Gen.C13.goStmtsInWorkers = [] ∧ (Gen.C13.points.all fun p => p.2.1 != 7) = true := by decide

/-- every `for { select { … case <-t.C: … } }` loop with a `*time.Timer` re-arms it on every path back to the loop head -/
-- (extractor verdict; from the emitted back-edges: `C13_verdicts_from_data`)
theorem C13_timer_loops : Gen.C13.timerLoopsRearmOnEveryPath = true := by decide

/-- **FULL statement for the current tree:** every blocking point of every worker of both modes is guarded and `errCh`
has room for all its plain senders -/
theorem C13_all_guarded :
    allGuarded (cfg 0) aggProgs = true ∧ allGuarded (cfg 0) fullProgs = true := by decide

/-- no point of the regenerated table is unguarded, and nobody does a plain `errCh <-` any more -/
theorem C13_no_unguarded :
    unguardedRaw Gen.C13.points = [] ∧ errSenders aggProgs = 0 ∧ errSenders fullProgs = 0 := by decide

/-- **Shutdown of the current tree (full strength, both worker sets, any budget):** from every reachable state of
`FullNode.Run` with its aggregator workers (AggregationLoop, Reaper, the two submission loops, DAIncluderLoop) or its
full-node workers (RetrieveLoop, the two store loops, SyncLoop, DAIncluderLoop) in which the node context is
cancelled — whenever and however the stop was requested — every schedule is finite, nothing can get stuck short of
"all loops returned and `Run` returned", and the node gets there by its own actions alone. -/
theorem C13_termination (budget : Nat) (progs : List (List BP))
    (hp : progs = aggProgs ∨ progs = fullProgs)
    (s : St) (hr : Reach (cfg budget) progs s) (hc : s.cancelled = true) :
    (∀ as s', exec (cfg budget) s as = some s' → as.length ≤ μ (cfg budget) s) ∧
    (∀ as s', exec (cfg budget) s as = some s' → Stuck (cfg budget) s' → finished s' = true) ∧
    (∃ as s', (∀ a ∈ as, a.isEnv = false) ∧ exec (cfg budget) s as = some s' ∧ finished s' = true) := by
  rcases hp with rfl | rfl
  · exact termination (cfg budget) aggProgs C13_all_guarded.1 C13_static_facts.2.2.2.1 s hr hc
  · exact termination (cfg budget) fullProgs C13_all_guarded.2 C13_static_facts.2.2.2.2.1 s hr hc

/-- non-vacuity on the generated tables: cancelled states are reachable in both modes — a stop request while
AggregationLoop waits out its start-up delay (`select { ctx.Done / time.After(delay) }`), and a full node whose
SyncLoop and DAIncluderLoop are both at their (non-blocking) error report when the stop request wins `Run`'s select -/
example :
    (exec (cfg 4) (initSt aggProgs)
      [.work 0 (.next .ctxSelect), .parentCancel, .runParent]).map (·.cancelled) = some true ∧
    (exec (cfg 4) (initSt fullProgs)
      [.work 3 (.next (.send .errCh true)), .work 4 (.next (.send .errCh true)), .parentCancel, .runParent,
       .work 3 .ret]).map (fun s => (s.cancelled, s.lvl .errCh)) = some (true, 1) := by decide

/-! ## witnesses on hand-written tables: what each kind of unguarded point would cause -/

def sleepTable : List (List BP) := [[.ctxSelect, .sleep false, .recv .timer true]]
def sleepCfg : Cfg := { cap := fun _ => 1, budget := 4 }

/-- the schedule "the production loop is in a start-up `time.Sleep(delay)` (genesis in the future), the node is asked
to stop" -/
def sleepWitness : Option St :=
  exec sleepCfg (initSt sleepTable) [.work 0 (.next (.sleep false)), .parentCancel, .runParent]

/-- **unbounded `time.Sleep`:** the state is reachable, the context is cancelled, the static judgement rejects the
table, and no schedule of the node's own actions ever reaches the finished state: `Run` returns only when the
environment lets the delay elapse (which it then does: a LATE stop, not a hang). -/
theorem sleep_witness :
    allGuarded sleepCfg sleepTable = false ∧
    (∃ s, sleepWitness = some s ∧ Reach sleepCfg sleepTable s ∧ s.cancelled = true ∧
      ∀ as s', (∀ a ∈ as, a.isEnv = false) → exec sleepCfg s as = some s' → finished s' = false) ∧
    (sleepWitness.bind fun s => (exec sleepCfg s [.elapse 0 .ret, .join]).map finished) = some true := by
  refine ⟨by decide, ?_, by decide⟩
  have hsome : sleepWitness.isSome = true := by decide
  obtain ⟨s, hs⟩ := Option.isSome_iff_exists.mp hsome
  refine ⟨s, hs, reach_exec sleepCfg sleepTable _ _ s Reach.init hs, ?_, ?_⟩
  · have : (sleepWitness.map (·.cancelled)) = some true := by decide
    rw [hs] at this; simpa using this
  · have hw : (sleepWitness.bind fun s => s.ws[0]?.map (·.st)) = some (.at (.sleep false) 3) := by decide
    rw [hs] at hw
    simp only [Option.bind_some, Option.map_eq_some_iff] at hw
    obtain ⟨w, hw0, hwst⟩ := hw
    intro as s' has hex
    exact sleep_never_returns sleepCfg as s s' 0 w 3 hw0 hwst has hex

def errTable : List (List BP) := [[.ctxSelect, .errSend], [.ctxSelect, .errSend]]
def errCfg : Cfg := { cap := fun _ => 1, budget := 2 }

/-- the schedule: both workers hit an error, the stop request wins `Run`'s select, the first sender fills `errCh` -/
def errWitness : Option St :=
  exec errCfg (initSt errTable)
    [.work 0 (.next .errSend), .work 1 (.next .errSend), .parentCancel, .runParent, .work 0 .ret]

theorem dead_of (c : Cfg) (s : St)
    (hw : ∀ i mv, step c s (.work i mv) = none) (he : ∀ i mv, step c s (.elapse i mv) = none)
    (h1 : step c s .runErr = none) (h2 : step c s .runParent = none) (h3 : step c s .join = none)
    (h4 : step c s .parentCancel = none) (h5 : step c s .orphanExit = none) : Dead c s := by
  intro a
  cases a with
  | work i mv => exact hw i mv
  | elapse i mv => exact he i mv
  | runErr => exact h1
  | runParent => exact h2
  | join => exact h3
  | parentCancel => exact h4
  | orphanExit => exact h5

/-- **blocking `errCh <-` from two workers onto the capacity-1 channel that `Run` reads at most once:** reachable,
cancelled, not finished, and NO action at all is enabled any more — the second sender and `Run` hang for ever -/
theorem errSend_witness :
    ∃ s, errWitness = some s ∧ Reach errCfg errTable s ∧ s.cancelled = true ∧ finished s = false ∧ Dead errCfg s := by
  have hsome : errWitness.isSome = true := by decide
  obtain ⟨s, hs⟩ := Option.isSome_iff_exists.mp hsome
  have hc : (errWitness.map (·.cancelled)) = some true := by decide
  have hf : (errWitness.map finished) = some false := by decide
  have hws : (errWitness.map fun s => s.ws.map (·.st)) = some [.done, .at .errSend 1] := by decide
  have hpr : (errWitness.map fun s => s.ws.map (·.prog)) = some errTable := by decide
  have hl : (errWitness.map fun s => s.lvl .errCh) = some 1 := by decide
  have hp : (errWitness.map (·.phase)) = some .joining := by decide
  have hpc : (errWitness.map (·.parentCancelled)) = some true := by decide
  have ho : (errWitness.map (·.orphans)) = some 0 := by decide
  rw [hs] at hc hf hws hl hp hpc hpr ho
  simp only [Option.map_some, Option.some.injEq] at hc hf hws hl hp hpc hpr ho
  refine ⟨s, hs, reach_exec errCfg errTable _ _ s Reach.init hs, hc, hf, ?_⟩
  obtain ⟨ws, lvl, c, pc, ph, orph⟩ := s
  simp only at hc hws hl hp hpc hpr ho
  subst hc hp hpc ho
  match ws, hws, hpr with
  | [w0, w1], hws, hpr =>
    simp only [List.map_cons, List.map_nil, List.cons.injEq, and_true] at hws hpr
    obtain ⟨h0, h1⟩ := hws
    apply dead_of
    · intro i mv
      match i with
      | 0 => simp [step, h0, stEnabled, after]
      | 1 => simp [step, h1, stEnabled, opEnabled, hl, errCfg]
      | n + 2 => simp [step]
    · intro i mv
      match i with
      | 0 => simp [step, h0]
      | 1 => simp [step, h1]
      | n + 2 => simp [step]
    · simp [step]
    · simp [step]
    · simp [step, allDone, h0, h1]
    · simp [step]
    · simp [step]

def chanTable : List (List BP) := [[.ctxSelect, .recv .headerInCh true], [.ctxSelect, .send .headerInCh false]]
def chanCfg : Cfg := { cap := fun _ => 1, budget := 2 }

/-- the schedule: the producer (RetrieveLoop / HeaderStoreRetrieveLoop) fills `headerInCh` and comes back with the next
event; the node is stopped; the consumer (SyncLoop) returns at its ctx select -/
def chanWitness : Option St :=
  exec chanCfg (initSt chanTable)
    [.work 0 (.next .ctxSelect), .work 1 (.next (.send .headerInCh false)), .work 1 (.next (.send .headerInCh false)),
     .parentCancel, .runParent, .work 0 .ret]

/-- **plain send on a full event channel whose consumer has returned:** reachable, cancelled, not finished, no action
enabled ever again -/
theorem fullChannel_witness :
    ∃ s, chanWitness = some s ∧ Reach chanCfg chanTable s ∧ s.cancelled = true ∧ finished s = false ∧ Dead chanCfg s := by
  have hsome : chanWitness.isSome = true := by decide
  obtain ⟨s, hs⟩ := Option.isSome_iff_exists.mp hsome
  have hc : (chanWitness.map (·.cancelled)) = some true := by decide
  have hf : (chanWitness.map finished) = some false := by decide
  have hws : (chanWitness.map fun s => s.ws.map (·.st)) = some [.done, .at (.send .headerInCh false) 0] := by decide
  have hl : (chanWitness.map fun s => s.lvl .headerInCh) = some 1 := by decide
  have hp : (chanWitness.map (·.phase)) = some .joining := by decide
  have hpc : (chanWitness.map (·.parentCancelled)) = some true := by decide
  have ho : (chanWitness.map (·.orphans)) = some 0 := by decide
  rw [hs] at hc hf hws hl hp hpc ho
  simp only [Option.map_some, Option.some.injEq] at hc hf hws hl hp hpc ho
  refine ⟨s, hs, reach_exec chanCfg chanTable _ _ s Reach.init hs, hc, hf, ?_⟩
  obtain ⟨ws, lvl, c, pc, ph, orph⟩ := s
  simp only at hc hws hl hp hpc ho
  subst hc hp hpc ho
  match ws, hws with
  | [w0, w1], hws =>
    simp only [List.map_cons, List.map_nil, List.cons.injEq, and_true] at hws
    obtain ⟨h0, h1⟩ := hws
    apply dead_of
    · intro i mv
      match i with
      | 0 => simp [step, h0, stEnabled, after]
      | 1 => simp [step, h1, stEnabled, opEnabled, hl, chanCfg]
      | n + 2 => simp [step]
    · intro i mv
      match i with
      | 0 => simp [step, h0]
      | 1 => simp [step, h1]
      | n + 2 => simp [step]
    · simp [step]
    · simp [step]
    · simp [step, allDone, h0, h1]
    · simp [step]
    · simp [step]

def mixTable : List (List BP) := [[.ctxSelect, .send .errCh true], [.ctxSelect, .errSend]]

/-- the schedule: both workers hit an error, the stop request wins `Run`'s select, the NON-blocking report of worker 0
takes the one slot of `errCh` -/
def mixWitness : Option St :=
  exec errCfg (initSt mixTable)
    [.work 0 (.next (.send .errCh true)), .work 1 (.next .errSend), .parentCancel, .runParent, .work 0 .ret]

/-- **one plain `errCh <-` left next to non-blocking reports:** the table passes the capacity count (one plain sender,
capacity 1) but not the discipline; reachable, cancelled, not finished, no action enabled ever again -/
theorem mixedErr_witness :
    allGuarded errCfg mixTable = true ∧ errDisciplined mixTable = false ∧
    ∃ s, mixWitness = some s ∧ Reach errCfg mixTable s ∧ s.cancelled = true ∧ finished s = false ∧ Dead errCfg s := by
  refine ⟨by decide, by decide, ?_⟩
  have hsome : mixWitness.isSome = true := by decide
  obtain ⟨s, hs⟩ := Option.isSome_iff_exists.mp hsome
  have hc : (mixWitness.map (·.cancelled)) = some true := by decide
  have hf : (mixWitness.map finished) = some false := by decide
  have hws : (mixWitness.map fun s => s.ws.map (·.st)) = some [.done, .at .errSend 1] := by decide
  have hl : (mixWitness.map fun s => s.lvl .errCh) = some 1 := by decide
  have hp : (mixWitness.map (·.phase)) = some .joining := by decide
  have hpc : (mixWitness.map (·.parentCancelled)) = some true := by decide
  have ho : (mixWitness.map (·.orphans)) = some 0 := by decide
  rw [hs] at hc hf hws hl hp hpc ho
  simp only [Option.map_some, Option.some.injEq] at hc hf hws hl hp hpc ho
  refine ⟨s, hs, reach_exec errCfg mixTable _ _ s Reach.init hs, hc, hf, ?_⟩
  obtain ⟨ws, lvl, c, pc, ph, orph⟩ := s
  simp only at hc hws hl hp hpc ho
  subst hc hp hpc ho
  match ws, hws with
  | [w0, w1], hws =>
    simp only [List.map_cons, List.map_nil, List.cons.injEq, and_true] at hws
    obtain ⟨h0, h1⟩ := hws
    apply dead_of
    · intro i mv
      match i with
      | 0 => simp [step, h0, stEnabled, after]
      | 1 => simp [step, h1, stEnabled, opEnabled, hl, errCfg]
      | n + 2 => simp [step]
    · intro i mv
      match i with
      | 0 => simp [step, h0]
      | 1 => simp [step, h1]
      | n + 2 => simp [step]
    · simp [step]
    · simp [step]
    · simp [step, allDone, h0, h1]
    · simp [step]
    · simp [step]

/-- a loop that takes a mutex some critical section of which can park its holder / that waits for goroutines the table
knows nothing about -/
def lockTable : List (List BP) := [[.ctxSelect, .lock 0 false]]
def joinTable : List (List BP) := [[.ctxSelect, .join false]]

/-- a worker that starts an un-joined goroutine on every round (`go r.SubmitTxs()`) -/
def spawnTable : List (List BP) := [[.ctxSelect, .recv .timer true, .spawn]]

/-- the schedule: one round is spawned, the worker is back at its ctx select, the node is stopped, the worker returns,
`Run` joins and returns -/
def spawnWitness : Option St :=
  exec errCfg (initSt spawnTable)
    [.work 0 (.next .spawn), .work 0 (.next .ctxSelect), .parentCancel, .runParent, .work 0 .ret, .join]

/-- **un-joined `go` statement:** the judgement rejects the table; a state is reachable in which every worker has returned
and `Run` has returned - `wg.Wait()` was satisfied - while an activity the node started is still alive: not `finished`;
nothing the node does can end it (only the environment's `orphanExit`) -/
theorem spawn_witness :
    allGuarded errCfg spawnTable = false ∧
    ∃ s, spawnWitness = some s ∧ Reach errCfg spawnTable s ∧ s.cancelled = true ∧ allDone s.ws = true ∧
      s.phase = .returned ∧ s.orphans = 1 ∧ finished s = false ∧
      (exec errCfg s [.orphanExit]).map finished = some true := by
  refine ⟨by decide, ?_⟩
  have hsome : spawnWitness.isSome = true := by decide
  obtain ⟨s, hs⟩ := Option.isSome_iff_exists.mp hsome
  have h1 : (spawnWitness.map (·.cancelled)) = some true := by decide
  have h2 : (spawnWitness.map fun s => allDone s.ws) = some true := by decide
  have h3 : (spawnWitness.map (·.phase)) = some .returned := by decide
  have h4 : (spawnWitness.map (·.orphans)) = some 1 := by decide
  have h5 : (spawnWitness.map finished) = some false := by decide
  have h6 : (spawnWitness.bind fun s => (exec errCfg s [.orphanExit]).map finished) = some true := by decide
  rw [hs] at h1 h2 h3 h4 h5 h6
  simp only [Option.map_some, Option.some.injEq, Option.bind_some] at h1 h2 h3 h4 h5 h6
  exact ⟨s, hs, reach_exec errCfg spawnTable _ _ s Reach.init hs, h1, h2, h3, h4, h5, h6⟩

/-- the static judgement rejects the two tables above (two plain senders for one slot; an unguarded send) -/
theorem witnesses_rejected :
    allGuarded errCfg errTable = false ∧ allGuarded chanCfg chanTable = false ∧
    allGuarded errCfg lockTable = false ∧ allGuarded errCfg joinTable = false := by decide

/-! ## the verdict function the driver prints, evaluated on the generated tables -/

/-- On the GENERATED tables every configuration the stream produces stops promptly: stop request with every worker at
a ctx select; AggregationLoop waiting out its start-up delay (now a select on ctx.Done / time.After; the former
`time.Sleep` point is no longer in the table, which is how the driver's future-genesis scenario gets "stopped=1");
both error reporters of a mode at their report with `errCh` already full; the event producers of the full node at
their send with `headerInCh` full.  On the hand-written tables with the unguarded forms the same configurations give
late / hang. -/
theorem C13_verdicts :
    stopsPromptly (cfg 4) aggProgs [] [] = true ∧ stopsPromptly (cfg 4) fullProgs [] [] = true ∧
    stopsPromptly (cfg 4) aggProgs [(0, .recv .timer true)] [] = true ∧
    stopsPromptly (cfg 4) aggProgs [(0, .sleep false)] [] = true ∧
    stopsPromptly (cfg 4) aggProgs [(0, .send .errCh true), (4, .send .errCh true)] [.errCh] = true ∧
    stopsPromptly (cfg 4) fullProgs [(3, .send .errCh true), (4, .send .errCh true)] [.errCh] = true ∧
    stopsPromptly (cfg 4) fullProgs [(3, .errSend), (4, .errSend)] [] = true ∧
    stopsPromptly (cfg 4) fullProgs [(0, .send .headerInCh true), (1, .send .headerInCh true)] [.headerInCh] = true ∧
    stopsPromptly (cfg 4) fullProgs [(0, .send .dataInCh true), (2, .send .dataInCh true)] [.dataInCh] = true ∧
    stopsPromptly sleepCfg sleepTable [(0, .sleep false)] [] = false ∧
    stopsPromptly errCfg errTable [(0, .errSend), (1, .errSend)] [] = false ∧
    stopsPromptly errCfg mixTable [(0, .send .errCh true), (1, .errSend)] [] = false ∧
    stopsPromptly chanCfg chanTable [(1, .send .headerInCh false)] [.headerInCh] = false ∧
    stopsPromptly errCfg lockTable [(0, .lock 0 false)] [] = false ∧
    stopsPromptly errCfg joinTable [(0, .join false)] [] = false ∧
    stopsPromptly errCfg spawnTable [(0, .spawn)] [] = false ∧
    stopsPromptly (cfg 4) aggProgs [(0, .lock 0 true), (0, .join true)] [] = true ∧
    stopsPromptly (cfg 4) aggProgs [(1, .send .txNotifyCh true)] [.txNotifyCh] = true := by decide

/-! ## lock order (round 6, after seed C13-H: `updateState` → `GetLastState` under `lastStateMtx`) -/

/-- **Lock order of the current tree (`decide` on the regenerated nesting table).**  `Gen.C13.lockNesting` lists, for every
critical section of every mutex the loops lock (calls followed by object identity to any depth), the mutexes acquired
inside it - Lock or RLock - as edges held → acquired.  Obligation: no self edge (a re-entrant acquisition of a
non-re-entrant `sync.Mutex` / `sync.RWMutex`: the goroutine parks on itself, whatever the context says); the order
`lockRank` computed by the extractor is CHECKED here to be a topological order of the relation (every edge goes from an
earlier to a strictly later position), it lists every mutex; independently, the transitive closure computed in Lean has no
mutex on a cycle; and every `lock` row of the table that is flagged free names a mutex that is free in the old sense (no
parking operation inside its sections, `mutexes`) AND not on a cycle. -/
theorem C13_lock_order_acyclic :
    Locks.noSelf Gen.C13.lockNesting = true ∧
    Locks.ranked Gen.C13.lockRank Gen.C13.lockNesting = true ∧
    Locks.acyclic Gen.C13.lockNesting = true ∧
    (Gen.C13.mutexes.all fun m => Gen.C13.lockRank.contains m.1) = true ∧
    (Gen.C13.points.all fun p => p.2.1 != 5 || !p.2.2.2 ||
      ((Gen.C13.mutexes.any fun m => m.1 == p.2.2.1 && m.2.2) && !Locks.onCycle Gen.C13.lockNesting p.2.2.1)) = true := by
  decide

/-- **No set of workers is parked on mutexes for ever (general: every nesting table, every schedule).**  Sub-model
`Shutdown.Locks`: workers acquire mutexes as the nesting table allows (inside a critical section only what has an edge
from everything held), the runtime grants a mutex only when nobody holds it, a holder that wants nothing leaves its
innermost critical section by itself (that is `free`: no OTHER parking operation inside a section).  If the relation is
ranked (`rk` rises strictly along every edge - what `C13_lock_order_acyclic` checks for the extractor's order), then from
every reachable state: (1) whenever somebody holds or waits for a mutex, a grant or a release is enabled - no deadlock;
(2) every schedule, the workers' own acquisitions included, has at most `lμ` steps; (3) a state in which neither the
runtime nor a holder can move is quiet: every `lock` point reached has been passed and every mutex released - this is
what "`lock m free` is enabled" stands for in the shutdown model; (4) no mutex is on a cycle. -/
theorem lock_progress (nest : Locks.Nest) (rk : Nat → Nat) (hr : Locks.Ranked rk nest)
    (init ws : List Locks.LW) (h0 : Locks.fresh init = true) (hreach : Locks.LReach nest init ws) :
    (Locks.quiet ws = false → Locks.canMove nest ws) ∧
    (∀ as ws', Locks.lexec nest ws as = some ws' → as.length ≤ Locks.lμ ws) ∧
    (∀ as ws', Locks.lexec nest ws as = some ws' → ¬ Locks.canMove nest ws' → Locks.quiet ws' = true) ∧
    (∀ m, Locks.onCycle nest m = false) := by
  refine ⟨?_, ?_, ?_, ?_⟩
  · exact Locks.progress_of_inv rk nest ws (Locks.linv_reach rk nest hr init ws h0 hreach)
  · intro as ws' h
    have := Locks.lexec_bounded nest as ws ws' h
    omega
  · intro as ws' h hno
    have hr' := Locks.lreach_lexec nest init as ws ws' hreach h
    cases hq : Locks.quiet ws' with
    | true => rfl
    | false => exact absurd (Locks.progress_of_inv rk nest ws' (Locks.linv_reach rk nest hr init ws' h0 hr') hq) hno
  · exact Locks.ranked_acyclic rk nest hr

/-- `lock_progress` for the nesting table of the CURRENT tree, ranked by the extractor's order as checked in
`C13_lock_order_acyclic`: the `free` flag of the generated `lock` rows, on which `C13_termination` relies, is backed by the
order condition and no longer by the section contents alone. -/
theorem C13_lock_progress (init ws : List Locks.LW) (h0 : Locks.fresh init = true)
    (hreach : Locks.LReach Gen.C13.lockNesting init ws) :
    (Locks.quiet ws = false → Locks.canMove Gen.C13.lockNesting ws) ∧
    (∀ as ws', Locks.lexec Gen.C13.lockNesting ws as = some ws' → as.length ≤ Locks.lμ ws) ∧
    (∀ as ws', Locks.lexec Gen.C13.lockNesting ws as = some ws' → ¬ Locks.canMove Gen.C13.lockNesting ws' →
      Locks.quiet ws' = true) := by
  have h := lock_progress Gen.C13.lockNesting (Locks.pos Gen.C13.lockRank)
    (Locks.ranked_Ranked _ _ C13_lock_order_acyclic.2.1) init ws h0 hreach
  exact ⟨h.1, h.2.1, h.2.2.1⟩

/-- non-vacuity on the generated table (one mutex, no edges): worker 0 holds `lastStateMtx`, worker 1 is parked on it - not
quiet, the grant is not enabled, the release is; after it the request is granted and everything is released -/
example : ∃ ws, Locks.lexec Gen.C13.lockNesting [{ left := 1 }, { left := 1 }] [.acquire 0 0, .grant 0, .acquire 1 0] = some ws ∧
    Locks.LReach Gen.C13.lockNesting [{ left := 1 }, { left := 1 }] ws ∧
    Locks.quiet ws = false ∧ Locks.lstep Gen.C13.lockNesting ws (.grant 1) = none ∧
    (Locks.lexec Gen.C13.lockNesting ws [.release 0, .grant 1, .release 1]).map Locks.quiet = some true := by
  refine ⟨[{ held := [0], left := 0 }, { want := some 0, left := 0 }], by decide, ?_, by decide, by decide, by decide⟩
  exact Locks.lreach_lexec _ _ [.acquire 0 0, .grant 0, .acquire 1 0] _ _ Locks.LReach.init (by decide)

/-- a relation with a mutex on a cycle has no ranking at all -/
theorem not_ranked_of_onCycle (nest : Locks.Nest) (m : Nat) (h : Locks.onCycle nest m = true) (rank : List Nat) :
    Locks.ranked rank nest = false := by
  cases hr : Locks.ranked rank nest with
  | false => rfl
  | true =>
    have := Locks.ranked_acyclic _ nest (Locks.ranked_Ranked rank nest hr) m
    rw [h] at this; exact Bool.noConfusion this

/-- seed C13-H in the small: `updateState` holds mutex 0 and, on its error path, calls a getter that locks mutex 0 -/
def reentrantNest : Locks.Nest := [(0, 0)]
def reentrantStuck : List Locks.LW := [{ held := [0], want := some 0, left := 0 }]

/-- **re-entrant acquisition (self edge):** the table is rejected (`noSelf` false, no order exists); the state in which the
worker waits for the mutex it holds is reachable, it is not quiet, and NO action is enabled in it - not the grant, not a
release, nothing of the worker: it is parked for ever holding the lock (in the shutdown model: a `lock 0 false` point,
`stopsPromptly … = false`, `C13_verdicts`) -/
theorem reentrant_lock_witness :
    Locks.noSelf reentrantNest = false ∧ (∀ rank, Locks.ranked rank reentrantNest = false) ∧
    Locks.lexec reentrantNest [{ left := 2 }] [.acquire 0 0, .grant 0, .acquire 0 0] = some reentrantStuck ∧
    Locks.LReach reentrantNest [{ left := 2 }] reentrantStuck ∧
    Locks.quiet reentrantStuck = false ∧ (∀ a, Locks.lstep reentrantNest reentrantStuck a = none) := by
  refine ⟨by decide, not_ranked_of_onCycle _ 0 (by decide), by decide, ?_, by decide, ?_⟩
  · exact Locks.lreach_lexec _ _ [.acquire 0 0, .grant 0, .acquire 0 0] _ _ Locks.LReach.init (by decide)
  · intro a
    cases a with
    | acquire i m => cases i <;> simp [Locks.lstep, reentrantStuck]
    | grant i => cases i <;> simp [Locks.lstep, reentrantStuck, Locks.heldBy]
    | release i => cases i <;> simp [Locks.lstep, reentrantStuck]

/-- lock-order inversion: one code path takes mutex 0 then 1, another takes 1 then 0 -/
def cycleNest : Locks.Nest := [(0, 1), (1, 0)]
def cycleStuck : List Locks.LW := [{ held := [0], want := some 1, left := 0 }, { held := [1], want := some 0, left := 0 }]

/-- **A→B / B→A between two workers:** no self edge, yet no order exists (`acyclic` false); the state in which each worker
holds one mutex and waits for the other is reachable, not quiet, and dead -/
theorem lock_cycle_witness :
    Locks.noSelf cycleNest = true ∧ Locks.acyclic cycleNest = false ∧ (∀ rank, Locks.ranked rank cycleNest = false) ∧
    Locks.lexec cycleNest [{ left := 2 }, { left := 2 }]
      [.acquire 0 0, .grant 0, .acquire 1 1, .grant 1, .acquire 0 1, .acquire 1 0] = some cycleStuck ∧
    Locks.LReach cycleNest [{ left := 2 }, { left := 2 }] cycleStuck ∧
    Locks.quiet cycleStuck = false ∧ (∀ a, Locks.lstep cycleNest cycleStuck a = none) := by
  refine ⟨by decide, by decide, not_ranked_of_onCycle _ 0 (by decide), by decide, ?_, by decide, ?_⟩
  · exact Locks.lreach_lexec _ _ [.acquire 0 0, .grant 0, .acquire 1 1, .grant 1, .acquire 0 1, .acquire 1 0] _ _
      Locks.LReach.init (by decide)
  · intro a
    cases a with
    | acquire i m => rcases i with _ | _ | i <;> simp [Locks.lstep, cycleStuck]
    | grant i => rcases i with _ | _ | i <;> simp [Locks.lstep, cycleStuck, Locks.heldBy]
    | release i => rcases i with _ | _ | i <;> simp [Locks.lstep, cycleStuck]

end Spec.C13
