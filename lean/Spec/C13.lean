import Proofs.Shutdown
import Gen.C13

/-! # C13 — concurrent background loops stop promptly (shutdown protocol of `FullNode.Run`)

Claimed **partial**: data-race freedom and actual latencies are not theorems (race-enabled runs of the real loops,
stream `c13`, are exploration).  What is proved here is the *shutdown protocol*: `Model/Shutdown.lean` abstracts every
worker of `Run` to its blocking points; the table of blocking points is regenerated from the current source
(`Gen.C13`, go/parser over block/*.go and node/full.go) on every run.

* `termination` — for EVERY table that is `allGuarded` (every blocking point inside a select with a ctx case / a
  default, or a bounded sleep; not more plain `errCh <-` senders than `errCh` has room for): from every reachable
  state in which the node context is cancelled, every schedule is finite (`≤ μ` steps, the environment's included), a
  state in which the node itself can do nothing more is the finished one (all workers returned, `Run` returned), and
  the node can always get there by its own actions.
* `C13_all_guarded` (the full statement about the current tree) is **false**: `C13_all_guarded_fails`;
  `C13_unguarded_exact` lists the unguarded points of the current tree exactly.
* `C13_termination_partial` — `termination` for the generated tables minus exactly those points.
* witnesses: a worker parked at each kind of unguarded point never returns
  (`C13_future_genesis_never_returns` on the GENERATED aggregator table; `errSend_witness`, `fullChannel_witness`).
-/
namespace Spec.C13
open Shutdown

/-- capacities regenerated from the source; `budget` = how many blocking operations a worker may complete between
two passes of a loop-head ctx select (any number) -/
def cfg (budget : Nat) : Cfg :=
  { cap := capOf Gen.C13.capErrCh Gen.C13.capHeaderInCh Gen.C13.capDataInCh, budget := budget }

def aggProgs : List (List BP) := progsOf Gen.C13.points Gen.C13.aggregatorWorkers
def fullProgs : List (List BP) := progsOf Gen.C13.points Gen.C13.fullWorkers

/-- **Shutdown protocol (general).** -/
theorem termination (c : Cfg) (progs : List (List BP))
    (hg : allGuarded c progs = true) (hsel : noSelErr progs = true)
    (s : St) (hr : Reach c progs s) (hc : s.cancelled = true) :
    (∀ as s', exec c s as = some s' → as.length ≤ μ c s) ∧
    (∀ as s', exec c s as = some s' → Stuck c s' → finished s' = true) ∧
    (∃ as s', (∀ a ∈ as, a.isEnv = false) ∧ exec c s as = some s' ∧ finished s' = true) := by
  have hs := safe_of_allGuarded c progs hsel hg
  refine ⟨?_, ?_, ?_⟩
  · intro as s' h
    have := exec_bounded c as s s' hc h
    omega
  · intro as s' h hstuck
    cases hf : finished s' with
    | true => rfl
    | false =>
      have hr' := reach_exec c progs as s s' hr h
      obtain ⟨a, s2, ha, hstep⟩ :=
        progress c progs hs s' (inv_reach c progs hs s' hr') (exec_cancelled c as s s' hc h) hf
      rw [hstuck a ha] at hstep
      simp at hstep
  · exact can_finish c progs hs (μ c s) s hr hc (Nat.le_refl _)

/-- non-vacuity: a guarded two-worker table with one plain error sender on a capacity-1 `errCh`; a cancelled state is
reachable -/
example : allGuarded { cap := fun _ => 1, budget := 2 } [[.ctxSelect, .errSend], [.ctxSelect, .recv .timer true]] = true ∧
    (exec { cap := fun _ => 1, budget := 2 } (initSt [[.ctxSelect, .errSend], [.ctxSelect, .recv .timer true]])
      [.work 0 (.next .errSend), .work 0 .ret, .runErr]).map (·.cancelled) = some true := by decide

/-! ## the current tree -/

/-- structural facts of the current source the abstraction relies on -/
theorem C13_static_facts :
    Gen.C13.runProtocol = true ∧ Gen.C13.errSendsTerminal = true ∧ Gen.C13.loopsHeaded = true ∧
    noSelErr aggProgs = true ∧ noSelErr fullProgs = true ∧
    Gen.C13.aggregatorWorkers = [0, 1, 2, 3, 4] ∧ Gen.C13.fullWorkers = [5, 6, 7, 8, 4] ∧
    aggProgs.all (fun p => p.contains .ctxSelect) = true ∧ fullProgs.all (fun p => p.contains .ctxSelect) = true := by
  decide

/-- FULL statement for the current tree: every blocking point of every worker of both modes is guarded and `errCh`
has room for all its plain senders -/
def C13_all_guarded : Prop :=
  allGuarded (cfg 0) aggProgs = true ∧ allGuarded (cfg 0) fullProgs = true

theorem C13_all_guarded_fails : ¬ C13_all_guarded := by unfold C13_all_guarded; decide

/-- exactly these points of the current tree are unguarded (loop, kind, channel, flag — codes in `Gen/C13.lean`):
`time.Sleep(delay)` of AggregationLoop; plain `errCh <-` in AggregationLoop (2), DAIncluderLoop (2), SyncLoop (2);
plain `headerInCh <-` / `dataInCh <-` in RetrieveLoop (handlePotentialHeader/Data) and in the two store loops -/
theorem C13_unguarded_exact :
    unguardedRaw Gen.C13.points =
      [(0, 1, 0, false), (0, 4, 0, false), (0, 4, 0, false),
       (4, 4, 0, false), (4, 4, 0, false),
       (5, 2, 1, false), (5, 2, 2, false),
       (6, 2, 1, false), (7, 2, 2, false),
       (8, 4, 0, false), (8, 4, 0, false)] := by decide

/-- two workers of each mode can send on `errCh`, which has room for `capErrCh` -/
theorem C13_err_senders :
    errSenders aggProgs = 2 ∧ errSenders fullProgs = 2 ∧ Gen.C13.capErrCh = 1 := by decide

/-- **PARTIAL.** The shutdown theorem for the generated tables minus exactly the points of `C13_unguarded_exact`. -/
theorem C13_termination_partial (budget : Nat) (progs : List (List BP))
    (hp : progs = strip aggProgs ∨ progs = strip fullProgs)
    (s : St) (hr : Reach (cfg budget) progs s) (hc : s.cancelled = true) :
    (∀ as s', exec (cfg budget) s as = some s' → as.length ≤ μ (cfg budget) s) ∧
    (∀ as s', exec (cfg budget) s as = some s' → Stuck (cfg budget) s' → finished s' = true) ∧
    (∃ as s', (∀ a ∈ as, a.isEnv = false) ∧ exec (cfg budget) s as = some s' ∧ finished s' = true) := by
  have hs : safeTable (cfg budget) progs = true := by
    rcases hp with h | h <;> subst h <;> exact strip_safe _ _
  refine ⟨?_, ?_, ?_⟩
  · intro as s' h
    have := exec_bounded (cfg budget) as s s' hc h
    omega
  · intro as s' h hstuck
    cases hf : finished s' with
    | true => rfl
    | false =>
      have hr' := reach_exec (cfg budget) progs as s s' hr h
      obtain ⟨a, s2, ha, hstep⟩ :=
        progress (cfg budget) progs hs s' (inv_reach (cfg budget) progs hs s' hr')
          (exec_cancelled (cfg budget) as s s' hc h) hf
      rw [hstuck a ha] at hstep
      simp at hstep
  · exact can_finish (cfg budget) progs hs (μ (cfg budget) s) s hr hc (Nat.le_refl _)

/-- what `strip` removes from the generated tables is the listed points and nothing else: the stripped tables have as
many points as the originals minus the 11 listed ones (5 in aggregator mode, 8 in full-node mode, the two of
DAIncluderLoop being shared) -/
theorem C13_strip_counts :
    (aggProgs.map List.length).sum = ((strip aggProgs).map List.length).sum + 5 ∧
    (fullProgs.map List.length).sum = ((strip fullProgs).map List.length).sum + 8 := by decide

/-! ## witnesses: one per kind of unguarded point -/

/-- the schedule "AggregationLoop is in its start-up sleep (genesis in the future), the node is asked to stop" on the
GENERATED aggregator table -/
def futureGenesisState : Option St :=
  exec (cfg 4) (initSt aggProgs) [.work 0 (.next (.sleep false)), .parentCancel, .runParent]

/-- **unbounded sleep (on the generated table).** The state is reachable, the context is cancelled, and no schedule of
the node's own actions ever reaches the finished state: `Run` returns only when the environment lets the start-up
delay elapse. -/
theorem C13_future_genesis_never_returns :
    ∃ s, futureGenesisState = some s ∧ Reach (cfg 4) aggProgs s ∧ s.cancelled = true ∧
      ∀ as s', (∀ a ∈ as, a.isEnv = false) → exec (cfg 4) s as = some s' → finished s' = false := by
  have hsome : futureGenesisState.isSome = true := by decide
  obtain ⟨s, hs⟩ := Option.isSome_iff_exists.mp hsome
  refine ⟨s, hs, reach_exec (cfg 4) aggProgs _ _ s Reach.init hs, ?_, ?_⟩
  · have : (futureGenesisState.map (·.cancelled)) = some true := by decide
    rw [hs] at this; simpa using this
  · have hw : (futureGenesisState.bind fun s => s.ws[0]?.map (·.st)) = some (.at (.sleep false) 3) := by decide
    rw [hs] at hw
    simp only [Option.bind_some, Option.map_eq_some_iff] at hw
    obtain ⟨w, hw0, hwst⟩ := hw
    intro as s' has hex
    exact sleep_never_returns (cfg 4) as s s' 0 w 3 hw0 hwst has hex

def errTable : List (List BP) := [[.ctxSelect, .errSend], [.ctxSelect, .errSend]]
def errCfg : Cfg := { cap := fun _ => 1, budget := 2 }

/-- the schedule: both workers hit an error, the stop request wins `Run`'s select, the first sender fills `errCh` -/
def errWitness : Option St :=
  exec errCfg (initSt errTable)
    [.work 0 (.next .errSend), .work 1 (.next .errSend), .parentCancel, .runParent, .work 0 .ret]

theorem dead_of (c : Cfg) (s : St)
    (hw : ∀ i mv, step c s (.work i mv) = none) (he : ∀ i mv, step c s (.elapse i mv) = none)
    (h1 : step c s .runErr = none) (h2 : step c s .runParent = none) (h3 : step c s .join = none)
    (h4 : step c s .parentCancel = none) : Dead c s := by
  intro a
  cases a with
  | work i mv => exact hw i mv
  | elapse i mv => exact he i mv
  | runErr => exact h1
  | runParent => exact h2
  | join => exact h3
  | parentCancel => exact h4

/-- **blocking `errCh <-` from two workers onto the capacity-1 channel that `Run` reads at most once:** reachable,
cancelled, not finished, and NO action at all is enabled any more — the second sender and `Run` hang for ever -/
theorem errSend_witness :
    ∃ s, errWitness = some s ∧ Reach errCfg errTable s ∧ s.cancelled = true ∧ finished s = false ∧ Dead errCfg s := by
  have hsome : errWitness.isSome = true := by decide
  obtain ⟨s, hs⟩ := Option.isSome_iff_exists.mp hsome
  have hc : (errWitness.map (·.cancelled)) = some true := by decide
  have hf : (errWitness.map finished) = some false := by decide
  have hws : (errWitness.map fun s => s.ws.map (·.st)) = some [.done, .at .errSend 1] := by decide
  have hpr : (errWitness.map fun s => s.ws.map (·.prog)) = some errTable := by decide
  have hl : (errWitness.map fun s => s.lvl .errCh) = some 1 := by decide
  have hp : (errWitness.map (·.phase)) = some .joining := by decide
  have hpc : (errWitness.map (·.parentCancelled)) = some true := by decide
  rw [hs] at hc hf hws hl hp hpc hpr
  simp only [Option.map_some, Option.some.injEq] at hc hf hws hl hp hpc hpr
  refine ⟨s, hs, reach_exec errCfg errTable _ _ s Reach.init hs, hc, hf, ?_⟩
  obtain ⟨ws, lvl, c, pc, ph⟩ := s
  simp only at hc hws hl hp hpc hpr
  subst hc hp hpc
  match ws, hws, hpr with
  | [w0, w1], hws, hpr =>
    simp only [List.map_cons, List.map_nil, List.cons.injEq, and_true] at hws hpr
    obtain ⟨h0, h1⟩ := hws
    apply dead_of
    · intro i mv
      match i with
      | 0 => simp [step, h0, stEnabled, after]
      | 1 => simp [step, h1, stEnabled, opEnabled, hl, errCfg]
      | n + 2 => simp [step]
    · intro i mv
      match i with
      | 0 => simp [step, h0]
      | 1 => simp [step, h1]
      | n + 2 => simp [step]
    · simp [step]
    · simp [step]
    · simp [step, allDone, h0, h1]
    · simp [step]

def chanTable : List (List BP) := [[.ctxSelect, .recv .headerInCh true], [.ctxSelect, .send .headerInCh false]]
def chanCfg : Cfg := { cap := fun _ => 1, budget := 2 }

/-- the schedule: the producer (RetrieveLoop / HeaderStoreRetrieveLoop) fills `headerInCh` and comes back with the next
event; the node is stopped; the consumer (SyncLoop) returns at its ctx select -/
def chanWitness : Option St :=
  exec chanCfg (initSt chanTable)
    [.work 0 (.next .ctxSelect), .work 1 (.next (.send .headerInCh false)), .work 1 (.next (.send .headerInCh false)),
     .parentCancel, .runParent, .work 0 .ret]

/-- **plain send on a full event channel whose consumer has returned:** reachable, cancelled, not finished, no action
enabled ever again -/
theorem fullChannel_witness :
    ∃ s, chanWitness = some s ∧ Reach chanCfg chanTable s ∧ s.cancelled = true ∧ finished s = false ∧ Dead chanCfg s := by
  have hsome : chanWitness.isSome = true := by decide
  obtain ⟨s, hs⟩ := Option.isSome_iff_exists.mp hsome
  have hc : (chanWitness.map (·.cancelled)) = some true := by decide
  have hf : (chanWitness.map finished) = some false := by decide
  have hws : (chanWitness.map fun s => s.ws.map (·.st)) = some [.done, .at (.send .headerInCh false) 0] := by decide
  have hl : (chanWitness.map fun s => s.lvl .headerInCh) = some 1 := by decide
  have hp : (chanWitness.map (·.phase)) = some .joining := by decide
  have hpc : (chanWitness.map (·.parentCancelled)) = some true := by decide
  rw [hs] at hc hf hws hl hp hpc
  simp only [Option.map_some, Option.some.injEq] at hc hf hws hl hp hpc
  refine ⟨s, hs, reach_exec chanCfg chanTable _ _ s Reach.init hs, hc, hf, ?_⟩
  obtain ⟨ws, lvl, c, pc, ph⟩ := s
  simp only at hc hws hl hp hpc
  subst hc hp hpc
  match ws, hws with
  | [w0, w1], hws =>
    simp only [List.map_cons, List.map_nil, List.cons.injEq, and_true] at hws
    obtain ⟨h0, h1⟩ := hws
    apply dead_of
    · intro i mv
      match i with
      | 0 => simp [step, h0, stEnabled, after]
      | 1 => simp [step, h1, stEnabled, opEnabled, hl, chanCfg]
      | n + 2 => simp [step]
    · intro i mv
      match i with
      | 0 => simp [step, h0]
      | 1 => simp [step, h1]
      | n + 2 => simp [step]
    · simp [step]
    · simp [step]
    · simp [step, allDone, h0, h1]
    · simp [step]

/-! ## the verdict function the driver prints, evaluated on the generated tables -/

/-- stop request with every worker at a ctx select: prompt; AggregationLoop in its start-up sleep: late; both error
senders of a mode at their plain `errCh <-`: hang; RetrieveLoop at its plain send with `headerInCh` full: hang -/
theorem C13_verdicts :
    stopsPromptly (cfg 4) aggProgs [] [] = true ∧ stopsPromptly (cfg 4) fullProgs [] [] = true ∧
    stopsPromptly (cfg 4) aggProgs [(0, .sleep false)] [] = false ∧
    stopsPromptly (cfg 4) aggProgs [(0, .errSend), (4, .errSend)] [] = false ∧
    stopsPromptly (cfg 4) fullProgs [(3, .errSend), (4, .errSend)] [] = false ∧
    stopsPromptly (cfg 4) fullProgs [(3, .errSend)] [] = true ∧
    stopsPromptly (cfg 4) fullProgs [(0, .send .headerInCh false)] [.headerInCh] = false ∧
    stopsPromptly (cfg 4) fullProgs [(0, .send .headerInCh false)] [] = true := by decide

end Spec.C13
