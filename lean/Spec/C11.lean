import Model.Flow
import Proofs.FlowOnce
import Proofs.FlowExec
import Proofs.FlowLive
import Proofs.FlowOrder

/-! # C11 — no transaction taken from the mempool is lost on its way into the chain


Vocabulary (`Model/Flow.lean`, executed by the driver against the real reaper / single sequencer / producer):
a history is a `List Flow.Op` (`mempool txs` = what `GetTxs` answers from now on, `reap`, `produce`, `restart`,
`crash k` = the process dies when only the first `k` durable writes of the last operation are on disk and is
restarted on that image; `produceFail` = a production step during which the execution layer answers `ExecuteTxs`
with an error — followed by `restart`: the node dies during `ExecuteTxs`) run by `Flow.opStep` from the first start on an empty disk (`Flow.history`).
Ghost (`Proofs/FlowInv.lean`): `handed` = the batches the queue accepted from the reaper, `released` = the batches
the queue released to the producer, `lost` = the batches taken by a production step that crashed in the loss window,
`ever` = every batch ever accepted.  `chainTxs` / `pendingTxs` = the transactions of the committed blocks in height
order / of the block stored at `height + 1`; `queued` = the transactions waiting in the queue.
`CfgOK`: initial height ≥ 1 and the node's signer is the genesis proposer (otherwise no block is ever produced). -/
namespace Spec.C11
open Wire Chain Flow

/-- **A failed hand-off is retried rather than forgotten**: when the sequencing layer refuses the batch (queue
full) nothing is marked as seen and nothing is written, so the same transactions are offered again. -/
theorem refused_handoff_changes_nothing (c : Cfg) (n : Node) (mempool : List Bytes)
    (h : (Queue.submit key c.qc n.q c.qc.id (mempool.filter fun t => !n.seen.contains t)).2 ≠ .ok) :
    reap c n mempool = (n, []) := by
  unfold reap
  simp only
  split
  · rfl
  · split
    · rename_i q' heq
      rw [heq] at h
      exact absurd rfl h
    · rfl

/-- transactions already marked as seen are never handed over again (no double inclusion through the reaper) -/
theorem seen_not_resubmitted (c : Cfg) (n : Node) (mempool : List Bytes) (h : ∀ t ∈ mempool, n.seen.contains t = true) :
    reap c n mempool = (n, []) := by
  have hf : (mempool.filter fun t => !n.seen.contains t) = [] := by
    apply List.filter_eq_nil_iff.mpr
    intro t ht
    rw [h t ht]; simp
  unfold reap
  simp only [hf, List.isEmpty_nil, ↓reduceIte]

/-- the hand-off is durable **before** any transaction is marked: the queue write is the first write -/
theorem handoff_written_before_marks (c : Cfg) (n : Node) (mempool : List Bytes) (w : FW) (ws : List FW)
    (h : (reap c n mempool).2 = w :: ws) :
    (∃ b, w = .qput b) ∧ ∀ x ∈ ws, ∃ t, x = .seen t := by
  unfold reap at h
  simp only at h
  split at h
  · simp at h
  · split at h
    · simp only [List.cons.injEq] at h
      refine ⟨⟨_, h.1.symm⟩, ?_⟩
      intro x hx
      rw [← h.2] at hx
      simp at hx
      obtain ⟨t, _, rfl⟩ := hx
      exact ⟨t, rfl⟩
    · simp at h

/-! ## every history: the node always comes up again -/

/-- **No crash point wedges the node**: after every history — crashes after any number of the writes of any
operation included — every restart succeeded. -/
theorem C11_always_restarts (c : Cfg) (hc : CfgOK c) (ops : List Op) : ∃ σ g, history c ops = some (σ, g) := by
  obtain ⟨σ, g, h, _⟩ := history_inv hc ops
  exact ⟨σ, g, h⟩

/-- the history executed by the driver is the first component of the history with its ghost -/
theorem C11_history_is_runOps (c : Cfg) (σ0 : RunSt) (ops : List Op) :
    (runG c σ0 {} ops).map (·.1) = runOps c σ0 ops := runG_fst c σ0 {} ops

/-! ## 1. conservation without crashes -/

/-- **Conservation, in order** (histories without restart and crash): the transactions handed over are exactly
the transactions of the chain, then of the block waiting at `height + 1`, then of the queue — as *sequences*; and the
chain holds the batches in the order the queue released them. -/
theorem C11_conservation (c : Cfg) (hc : CfgOK c) (ops : List Op) (hn : ∀ op ∈ ops, op.isRestart = false)
    (σ : RunSt) (g : Ghost) (h : history c ops = some (σ, g)) :
    g.handed.flatten = chainTxs σ.n.prod.store ++ pendingTxs σ.n.prod.store ++ queued σ.n ∧
    g.released.flatten = chainTxs σ.n.prod.store ++ pendingTxs σ.n.prod.store ∧
    g.handed = g.released ++ σ.n.q.mem := by
  obtain ⟨σ0, h0, hi0⟩ := init_inv hc
  obtain ⟨σ', g', hr, hf⟩ := run_inv hc hi0 ops
  have h' : history c ops = some (σ', g') := by unfold history; rw [h0]; exact hr
  rw [h] at h'
  simp only [Option.some.injEq, Prod.mk.injEq] at h'
  obtain ⟨rfl, rfl⟩ := h'
  have hcr : g.crashed = false := by rw [run_crashed hn hr]
  obtain ⟨e1, e2, _, _⟩ := hf.exact hcr
  refine ⟨?_, e2, e1⟩
  rw [e1, List.flatten_append, e2]; rfl

/-- **Quiescence**: once the queue is drained and no block is waiting, the chain holds exactly the transactions
handed over, in hand-over order, each as often as it was handed over. -/
theorem C11_quiescence (c : Cfg) (hc : CfgOK c) (ops : List Op) (hn : ∀ op ∈ ops, op.isRestart = false)
    (σ : RunSt) (g : Ghost) (h : history c ops = some (σ, g))
    (hq : queued σ.n = []) (hp : pendingTxs σ.n.prod.store = []) :
    chainTxs σ.n.prod.store = g.handed.flatten := by
  rw [(C11_conservation c hc ops hn σ g h).1, hq, hp]; simp

/-- everything handed over is marked as seen (so it is never handed over again: `seen_not_resubmitted`) -/
theorem C11_handed_is_seen (c : Cfg) (hc : CfgOK c) (ops : List Op) (hn : ∀ op ∈ ops, op.isRestart = false)
    (σ : RunSt) (g : Ghost) (h : history c ops = some (σ, g)) : ∀ b ∈ g.handed, ∀ t ∈ b, t ∈ σ.n.seen := by
  obtain ⟨σ0, h0, hi0⟩ := init_inv hc
  obtain ⟨σ', g', hr, hf⟩ := run_inv hc hi0 ops
  have h' : history c ops = some (σ', g') := by unfold history; rw [h0]; exact hr
  rw [h] at h'
  simp only [Option.some.injEq, Prod.mk.injEq] at h'
  obtain ⟨rfl, rfl⟩ := h'
  exact (hf.exact (by rw [run_crashed hn hr])).2.2.1

/-! ### witnesses -/

def wCfg : Cfg := { p := { chainId := "w", initialHeight := 1, genesisTime := 100, proposerAddr := [1], key := 1, signerAddr := [1] },
                    qc := { id := [7], max := 2 } }
theorem wCfg_ok : CfgOK wCfg := ⟨by decide, rfl⟩

def t1 : Bytes := [1]
def t2 : Bytes := [2]
def t3 : Bytes := [3]

/-- all handed-over transactions that are neither in the chain, nor waiting at `height + 1`, nor queued -/
def missing (c : Cfg) (ops : List Op) : Option (List Bytes) :=
  (history c ops).map fun r =>
    r.2.handed.flatten.filter fun t =>
      !(chainTxs r.1.n.prod.store ++ pendingTxs r.1.n.prod.store ++ queued r.1.n).contains t

/-- what the chain holds at the end of a history -/
def chainOf (c : Cfg) (ops : List Op) : Option (List Bytes) := (history c ops).map fun r => chainTxs r.1.n.prod.store

/-- non-vacuity of `C11_conservation` / `C11_quiescence`: two hand-overs, the second one while the first is in a
block; at the end the chain holds the four transactions in hand-over order -/
example : chainOf wCfg [.mempool [t1, t2], .reap, .produce, .produce, .mempool [t2, t3, t1, [4]], .reap, .produce] =
    some [t1, t2, t3, [4]] := by decide +kernel

/-! ### no transaction twice -/

/-- Full statement: without crashes no transaction is handed over (hence included) twice. -/
def C11_once_full : Prop :=
  ∀ (c : Cfg) (ops : List Op) (σ : RunSt) (g : Ghost), CfgOK c → (∀ op ∈ ops, op.isRestart = false) →
    history c ops = some (σ, g) → g.handed.flatten.Nodup

/-- FALSE of the current code (recorded finding `C11/twice/same-bytes-twice-in-one-mempool-response`): the reaper
filters a mempool response against the seen-set only, so bytes that occur twice in *one* response are handed over
twice and included twice. -/
theorem C11_once_fails : ¬ C11_once_full := by
  intro h
  have key : ∀ r, history wCfg [.mempool [t1, t1], .reap] = some r → ¬ r.2.handed.flatten.Nodup := by
    have : (history wCfg [.mempool [t1, t1], .reap]).map (fun r => r.2.handed) = some [[t1, t1]] := by decide +kernel
    intro r hr
    rw [hr] at this
    simp only [Option.map_some, Option.some.injEq] at this
    rw [this]; decide
  obtain ⟨σ, g, hh⟩ := C11_always_restarts wCfg wCfg_ok [.mempool [t1, t1], .reap]
  exact key (σ, g) hh (h wCfg _ σ g wCfg_ok (by decide) hh)

/-- PARTIAL (excludes the recorded witness): in histories without restart and crash in which no single mempool
response contains the same bytes twice, no transaction is handed over twice — whatever is repeated *across*
responses is filtered by the seen-set — hence (`C11_conservation`) none is included twice. -/
theorem C11_once_partial (c : Cfg) (hc : CfgOK c) (ops : List Op) (hn : ∀ op ∈ ops, op.isRestart = false)
    (hd : ∀ op ∈ ops, op.dupFree) (σ : RunSt) (g : Ghost) (h : history c ops = some (σ, g)) :
    g.handed.flatten.Nodup ∧ (chainTxs σ.n.prod.store ++ pendingTxs σ.n.prod.store ++ queued σ.n).Nodup := by
  obtain ⟨σ0, h0, hi0⟩ := init_inv hc
  have hr : runG c σ0 {} ops = some (σ, g) := by
    unfold history at h; rw [h0] at h; exact h
  have hm0 : σ0.mempool.Nodup := by
    unfold initSt at h0
    split at h0
    · cases h0
    · simp only [Option.some.injEq] at h0; subst h0; exact List.nodup_nil
  have h1 := run_once hc hi0 rfl hm0 List.nodup_nil ops hn hd hr
  exact ⟨h1, by rw [← (C11_conservation c hc ops hn σ g h).1]; exact h1⟩

/-- non-vacuity: the same bytes offered again in later responses are handed over once -/
example : (history wCfg [.mempool [t1, t2], .reap, .mempool [t2, t3, t1], .reap, .reap, .produce, .produce, .produce]).map
    (fun r => (r.2.handed, chainTxs r.1.n.prod.store)) = some ([[t1, t2], [t3]], [t1, t2, t3]) := by decide +kernel

/-- … and both copies reach the chain -/
example : chainOf wCfg [.mempool [t1, t1], .reap, .produce, .produce] = some [t1, t1] := by decide +kernel

/-! ## 2. crashes -/

/-- Full statement: after every history, crashes at every durable-write boundary included, every transaction handed
over is in the chain, in the block waiting at `height + 1`, or in the queue. -/
def C11_crash_full : Prop := ∀ (c : Cfg) (ops : List Op), CfgOK c → missing c ops = some []

/-- FALSE of the current code (recorded findings `C11/lost/crash-between-qdel-and-meta`,
`C11/lost/crash-between-meta-and-blk`): the batch is durably deleted from the queue before the block that contains
it is first saved; a crash after the delete (`k = 1`) or after the batch-cursor write (`k = 2`) loses the batch, and
since its transactions are marked as seen they are never offered again — here they are still missing after two more
reaps of the same mempool and three more blocks. -/
theorem C11_crash_fails : ¬ C11_crash_full := by
  intro h
  have h1 := h wCfg [.mempool [t1, t2], .reap, .produce, .produce, .crash 1, .reap, .produce, .reap, .produce, .produce] wCfg_ok
  revert h1
  decide +kernel

/-- the second crash point of the window -/
example : missing wCfg [.mempool [t1, t2], .reap, .produce, .produce, .crash 2, .reap, .produce, .produce] = some [t1, t2] := by
  decide +kernel

/-- one write later (the early block save is durable) nothing is missing -/
example : missing wCfg [.mempool [t1, t2], .reap, .produce, .produce, .crash 3, .reap, .produce, .produce] = some [] ∧
    chainOf wCfg [.mempool [t1, t2], .reap, .produce, .produce, .crash 3, .reap, .produce, .produce] = some [t1, t2] := by
  decide +kernel

/-- **The loss window, exactly** (every history: crashes after any number of writes of any operation, crashes
during recovery, restarts, refusals, repeated bytes; the SHA-256 key assumed collision-free on the batches ever
accepted): every batch handed over is in `lost` — taken by a production step that crashed after the queue delete
and before the early block save, `1 ≤ k ≤ 2` (`Ghost.cut`) — or all its transactions are in the chain, in the block
waiting at `height + 1`, or in the queue. -/
theorem C11_crash_characterised (c : Cfg) (hc : CfgOK c) (ops : List Op) (σ : RunSt) (g : Ghost)
    (h : history c ops = some (σ, g)) (hK : KeyInjOn g.ever) :
    ∀ b ∈ g.handed, b ∈ g.lost ∨
      ∀ t ∈ b, t ∈ chainTxs σ.n.prod.store ++ pendingTxs σ.n.prod.store ++ queued σ.n := by
  obtain ⟨σ', g', h', hf⟩ := history_inv hc ops
  rw [h] at h'
  simp only [Option.some.injEq, Prod.mk.injEq] at h'
  obtain ⟨rfl, rfl⟩ := h'
  intro b hb
  rcases hf.dsafe_node hK b hb with h1 | h1 | h1
  · exact Or.inl h1
  · right
    intro t ht
    have := h1 t ht
    have e : durAll c.p (diskOf σ.n).store = chainTxs σ.n.prod.store ++ pendingTxs σ.n.prod.store :=
      node_durAll hf.live.toInv hf.synced
    rw [e] at this
    exact List.mem_append_left _ this
  · right
    intro t ht
    refine List.mem_append_right _ ?_
    unfold queued
    exact List.mem_flatten.2 ⟨b, hf.sub _ h1, ht⟩

/-- PARTIAL (excludes the two recorded crash points): when no crash fell into the loss window — `lost = []` —
nothing handed over is lost, whatever else crashed (every crash point of `reap`, `k = 0` and `k ≥ 3` of a
production step, crashes during recovery). -/
theorem C11_crash_partial (c : Cfg) (hc : CfgOK c) (ops : List Op) (σ : RunSt) (g : Ghost)
    (h : history c ops = some (σ, g)) (hK : KeyInjOn g.ever) (hw : g.lost = []) :
    ∀ t ∈ g.handed.flatten, t ∈ chainTxs σ.n.prod.store ++ pendingTxs σ.n.prod.store ++ queued σ.n := by
  intro t ht
  obtain ⟨b, hb, htb⟩ := List.mem_flatten.1 ht
  rcases C11_crash_characterised c hc ops σ g h hK b hb with h1 | h1
  · rw [hw] at h1; cases h1
  · exact h1 t htb

/-- the window is entered by a crash only: histories with clean restarts (and no crash) lose nothing -/
theorem C11_restarts_lose_nothing (c : Cfg) (hc : CfgOK c) (ops : List Op) (hn : ∀ op ∈ ops, op.isCrash = false)
    (σ : RunSt) (g : Ghost) (h : history c ops = some (σ, g)) (hK : KeyInjOn g.ever) :
    ∀ t ∈ g.handed.flatten, t ∈ chainTxs σ.n.prod.store ++ pendingTxs σ.n.prod.store ++ queued σ.n := by
  obtain ⟨σ0, h0, hi0⟩ := init_inv hc
  have hr : runG c σ0 {} ops = some (σ, g) := by
    unfold history at h; rw [h0] at h; exact h
  exact C11_crash_partial c hc ops σ g h hK (run_lost hc hi0 hn hr)

/-- **Release order across clean restarts** (histories with restarts, execution failures, refusals — no crash): the
chain followed by the block waiting at `height + 1` is, as a SEQUENCE, exactly what the queue released, in release
order.  (The order in which the queue releases what was handed over is the queue's business: across a restart it is
key order, C10's recorded finding `C10/fifo/restart-delivers-in-key-order`; hand-over order = chain order is claimed
only without restarts, `C11_conservation`.  What is handed over is never lost: `C11_restarts_lose_nothing`, membership.) -/
theorem C11_release_order_across_restarts (c : Cfg) (hc : CfgOK c) (ops : List Op) (hn : ∀ op ∈ ops, op.isCrash = false)
    (σ : RunSt) (g : Ghost) (h : history c ops = some (σ, g)) :
    g.released.flatten = chainTxs σ.n.prod.store ++ pendingTxs σ.n.prod.store := by
  obtain ⟨σ0, h0, hi0⟩ := init_inv hc
  have hr : runG c σ0 {} ops = some (σ, g) := by
    unfold history at h; rw [h0] at h; exact h
  exact run_ord hc hi0 ((hi0.exact rfl).2.1) hn hr

/-- non-vacuity: two batches queued, a restart reloads them in key order (`[t2]` before `[t1]`), a failed execution and
another restart: the chain is exactly what was released, in release order — which is not the hand-over order -/
example :
    (history wCfg [.mempool [t1], .reap, .produce, .mempool [t1, t2], .reap, .restart, .produceFail, .restart, .produce,
        .produce, .produce]).map (fun r => (r.2.handed.flatten, r.2.released.flatten, chainTxs r.1.n.prod.store)) =
      some ([t1, t2], [t2, t1], [t2, t1]) := by decide +kernel

/-- non-vacuity: crashes at harmless points of `reap` and `produce`, a crash during recovery and a clean restart;
nothing is in `lost`, three transactions handed over, all in the chain at the end -/
example :
    (history wCfg [.mempool [t1, t2], .reap, .crash 3, .produce, .produce, .crash 4, .crash 0, .mempool [t3, t1], .reap,
        .restart, .produce, .crash 0, .produce, .produce]).map (fun r => (r.2.lost, r.2.handed, chainTxs r.1.n.prod.store)) =
      some ([], [[t1, t2], [t3]], [t1, t2, t3]) := by decide +kernel

/-- what a crash may cause (allowed by the property: "in the absence of crashes no transaction is included twice"):
a crash between the queue write and the seen-marks of `reap` (`k = 1`) leaves the batch in the queue and its
transactions unmarked, so `t1` is handed over again with the next response and is included twice — nothing is lost -/
example :
    (history wCfg [.mempool [t1, t2], .reap, .crash 1, .produce, .produce, .crash 4, .crash 0, .mempool [t3, t1], .reap,
        .restart, .produce, .crash 0, .produce, .produce]).map (fun r => (r.2.lost, r.2.handed, chainTxs r.1.n.prod.store)) =
      some ([], [[t1, t2], [t3, t1]], [t1, t2, t3, t1]) := by decide +kernel

/-- non-vacuity of the window: the ghost records the lost batch -/
example :
    (history wCfg [.mempool [t1, t2], .reap, .produce, .produce, .crash 1]).map (fun r => (r.2.lost, r.2.handed)) =
      some ([[t1, t2]], [[t1, t2]]) := by decide +kernel

/-! ## 3. failures of the execution layer

`Op.produceFail` is an operation like any other: `C11_always_restarts`, `C11_conservation`, `C11_quiescence`,
`C11_once_partial`, `C11_crash_characterised`, `C11_crash_partial`, `C11_restarts_lose_nothing` above quantify over
histories that contain it.  The theorem below names what makes them true. -/

/-- **A failing execution loses nothing**: in every reachable state (any history before it, crashes included), when
`ExecuteTxs` fails — or the node dies in it — during the step that took the batch `b` from the queue, the chain is
untouched and the block waiting at `height + 1` holds exactly `b` (it was saved *before* the execution was
asked); the next step, whatever the execution layer answers then, takes nothing further from the queue and either
leaves the node as it is or — only when the execution succeeds — commits exactly `b`. -/
theorem C11_exec_failure_loses_nothing (c : Cfg) (hc : CfgOK c) (ops : List Op) (σ : RunSt) (g : Ghost)
    (h : history c ops = some (σ, g)) (b : Queue.Batch) (rest : List FW)
    (htook : (produce c σ.n .fail).2.1 = FW.qdel b :: rest) :
    pendingTxs (produce c σ.n .fail).1.prod.store = b ∧
    chainTxs (produce c σ.n .fail).1.prod.store = chainTxs σ.n.prod.store ∧
    ∀ ex, (produce c (produce c σ.n .fail).1 ex).1.q = (produce c σ.n .fail).1.q ∧
      ((produce c (produce c σ.n .fail).1 ex).1.prod = (produce c σ.n .fail).1.prod ∨
       (ex = .ok ∧
        chainTxs (produce c (produce c σ.n .fail).1 ex).1.prod.store = chainTxs σ.n.prod.store ++ b ∧
        pendingTxs (produce c (produce c σ.n .fail).1 ex).1.prod.store = [])) := by
  obtain ⟨σ0, h0, hi0⟩ := init_inv hc
  have hr : runG c σ0 {} ops = some (σ, g) := by
    unfold history at h; rw [h0] at h; exact h
  obtain ⟨σ', g', hr', hf⟩ := run_inv hc hi0 ops
  rw [hr] at hr'
  simp only [Option.some.injEq, Prod.mk.injEq] at hr'
  obtain ⟨rfl, rfl⟩ := hr'
  have hne : EverNe g := run_everNe (fun b hb => by cases hb) hr
  obtain ⟨p1, p2, p3⟩ := execFail_pending hc hf htook
  have hf1 := step_produce hc hf .fail
  refine ⟨p1, p2, fun ex => ?_⟩
  have := execFail_retry (σ := produceSt c σ .fail) hc hf1 p1 (hne b (hf.everM b p3)) ex
  rw [← p2]
  exact this

/-- non-vacuity: the execution fails while the block with `[t1, t2]` is produced: the batch waits at `height + 1`,
nothing is missing; the retry commits it — directly, after a restart (= the node died during `ExecuteTxs`), and after a
crash right after the early save of the failed step -/
example :
    (history wCfg [.mempool [t1, t2], .reap, .produce, .produceFail]).map
      (fun r => (chainTxs r.1.n.prod.store, pendingTxs r.1.n.prod.store, r.2.released)) =
      some ([], [t1, t2], [[t1, t2]]) := by decide +kernel
example : chainOf wCfg [.mempool [t1, t2], .reap, .produce, .produceFail, .produce] = some [t1, t2] := by decide +kernel
example : chainOf wCfg [.mempool [t1, t2], .reap, .produce, .produceFail, .restart, .reap, .produce, .produce] = some [t1, t2] := by
  decide +kernel
example : missing wCfg [.mempool [t1, t2], .reap, .produce, .produceFail, .crash 3, .reap, .produce] = some [] := by
  decide +kernel

/-! ## 4. "a failed hand-off is retried rather than forgotten" — and what it rests on

`Reaper.SubmitTxs` keeps nothing of a refused batch (`block/reaper.go:99-106`: log and return): the transactions come
back only because the execution layer's `GetTxs` answers them again.  `Op.mempool` models such an idempotent `GetTxs`;
`Op.mempoolDrain` models the in-repo reference executor (`apps/testapp/kv` drains its channel). -/

/-- HYPOTHESIS `GetTxs is idempotent`: what the last `GetTxs` answered is answered again by the next one -/
def GetTxsIdempotent (σ : RunSt) : Prop := σ.drain = false

/-- the reaper had new transactions and the sequencing layer refused them (queue at its bound) -/
def refusedB (c : Cfg) (σ : RunSt) : Bool :=
  !(newTxs σ.n σ.mempool).isEmpty && (reap c σ.n σ.mempool).2.isEmpty

/-- after this `reap` the next `reap` tries every transaction this one tried -/
def stillOffered (c : Cfg) (σ : RunSt) : Bool :=
  match opStep c σ .reap with
  | some σ' => (newTxs σ.n σ.mempool).all fun t => (newTxs σ'.n σ'.mempool).contains t
  | none => true

/-- Full statement: in every reachable state a refused hand-off is retried: the next `reap` offers the same
transactions again. -/
def C11_refused_retried_full : Prop :=
  ∀ (c : Cfg) (ops : List Op) (σ : RunSt) (g : Ghost), CfgOK c → history c ops = some (σ, g) →
    refusedB c σ = true → stillOffered c σ = true

/-- FALSE of the current code with a draining mempool (recorded finding
`C11/lost/refused-handoff-with-draining-mempool`): queue bound 2, two batches accepted, the third is refused — and
its transaction, already taken out of the mempool, is offered by nobody any more. -/
theorem C11_refused_retried_fails : ¬ C11_refused_retried_full := by
  intro h
  have key : ∀ r, history wCfg [.mempoolDrain [t1], .reap, .mempoolDrain [t2], .reap, .mempoolDrain [t3]] = some r →
      refusedB wCfg r.1 = true ∧ stillOffered wCfg r.1 = false := by
    have : (history wCfg [.mempoolDrain [t1], .reap, .mempoolDrain [t2], .reap, .mempoolDrain [t3]]).map
        (fun r => (refusedB wCfg r.1, stillOffered wCfg r.1)) = some (true, false) := by decide +kernel
    intro r hr
    rw [hr] at this
    simp only [Option.map_some, Option.some.injEq, Prod.mk.injEq] at this
    exact this
  obtain ⟨σ, g, hh⟩ := C11_always_restarts wCfg wCfg_ok [.mempoolDrain [t1], .reap, .mempoolDrain [t2], .reap, .mempoolDrain [t3]]
  obtain ⟨k1, k2⟩ := key (σ, g) hh
  have := h wCfg _ σ g wCfg_ok hh k1
  rw [k2] at this
  cases this

/-- … and `t3` never reaches the chain although production continues and the reaper keeps running -/
example : chainOf wCfg [.mempoolDrain [t1], .reap, .mempoolDrain [t2], .reap, .mempoolDrain [t3], .reap, .produce, .produce,
    .reap, .produce, .reap, .produce, .produce] = some [t1, t2] := by decide +kernel

/-- PARTIAL, under the named hypothesis **`GetTxsIdempotent`** (every state, reachable or not): a refused hand-off
leaves the node and the mempool response as they are, so the next `reap` offers exactly the same transactions again. -/
theorem C11_refused_retried_partial (c : Cfg) (σ : RunSt) (hid : GetTxsIdempotent σ) (hr : refusedB c σ = true) :
    stillOffered c σ = true ∧
    ∃ σ', opStep c σ .reap = some σ' ∧ σ'.n = σ.n ∧ σ'.mempool = σ.mempool ∧ σ'.ws = [] := by
  have hreap : reap c σ.n σ.mempool = (σ.n, []) := by
    rcases reap_cases c σ.n σ.mempool with h0 | ⟨_, _, h1⟩
    · exact h0
    · exfalso
      unfold refusedB at hr
      rw [h1] at hr
      simp at hr
  have hid' : σ.drain = false := hid
  have hstep : opStep c σ .reap = some { σ with n := σ.n, before := diskOf σ.n, ws := [], mempool := σ.mempool } := by
    simp only [opStep, hreap, hid', Bool.false_eq_true, ↓reduceIte]
  refine ⟨?_, _, hstep, rfl, rfl, rfl⟩
  unfold stillOffered
  rw [hstep]
  simp only [List.all_eq_true, List.contains_iff_mem]
  intro t ht; exact ht

/-- non-vacuity: the same refusal with an idempotent `GetTxs`: refused, offered again, and in the chain once the
queue has room -/
example :
    (history wCfg [.mempool [t1], .reap, .mempool [t1, t2], .reap, .mempool [t1, t2, t3]]).map
      (fun r => (refusedB wCfg r.1, stillOffered wCfg r.1)) = some (true, true) ∧
    chainOf wCfg [.mempool [t1], .reap, .mempool [t1, t2], .reap, .mempool [t1, t2, t3], .reap, .produce, .produce,
      .reap, .produce, .produce] = some [t1, t2, t3] := by decide +kernel

/-! ## 5. progress: everything handed over is committed -/

/-- **Draining liveness** (every reachable state: any history before it, crashes, restarts and execution failures
included; `LiveCfg`: non-empty proposer address, no pending-DA limit): `k` successful production steps with
`k ≥ need` — one for a block waiting at `height + 1`, one per queued batch — never fail, leave the queue empty and
nothing waiting, change neither `handed` nor `lost`, and afterwards every batch handed over that is not in `lost`
(the recorded crash window) **is in the chain**. -/
theorem C11_drains (c : Cfg) (hc : LiveCfg c) (ops : List Op) (σ : RunSt) (g : Ghost)
    (h : history c ops = some (σ, g)) (k : Nat) (hk : need σ.n ≤ k) :
    ∃ σ' g', runG c σ g (List.replicate k .produce) = some (σ', g') ∧
      queued σ'.n = [] ∧ pendingTxs σ'.n.prod.store = [] ∧ g'.handed = g.handed ∧ g'.lost = g.lost ∧
      (KeyInjOn g.ever → ∀ b ∈ g.handed, b ∈ g.lost ∨ ∀ t ∈ b, t ∈ chainTxs σ'.n.prod.store) := by
  obtain ⟨σ0, g0, h0, hf⟩ := history_inv hc.toCfgOK ops
  rw [h] at h0
  simp only [Option.some.injEq, Prod.mk.injEq] at h0
  obtain ⟨rfl, rfl⟩ := h0
  obtain ⟨σ', g', r1, r2, r3, r4, r5, r6, _⟩ := run_produce hc hf k
  obtain ⟨q0, p0⟩ := need_zero (n := σ'.n) (by omega)
  refine ⟨σ', g', r1, q0, p0, r4, r5, fun hK b hb => ?_⟩
  rcases r2.dsafe_node (by rw [r6]; exact hK) b (by rw [r4]; exact hb) with h1 | h1 | h1
  · exact Or.inl (by rw [← r5]; exact h1)
  · right
    intro t ht
    have := h1 t ht
    have e : durAll c.p (diskOf σ'.n).store = chainTxs σ'.n.prod.store ++ pendingTxs σ'.n.prod.store :=
      node_durAll r2.live.toInv r2.synced
    rw [e, p0, List.append_nil] at this
    exact this
  · exfalso
    have hm := r2.sub _ h1
    have : σ'.n.q.mem = [] := by
      have hq : σ'.n.q.mem.flatten = [] := q0
      cases hmm : σ'.n.q.mem with
      | nil => rfl
      | cons x xs =>
        exfalso
        have hx := r2.everM x (by rw [hmm]; simp)
        -- the queue holds no empty batch …
        rw [hmm] at hq
        simp only [List.flatten_cons, List.append_eq_nil_iff] at hq
        have hne : EverNe g' := by
          obtain ⟨σ00, h00, _⟩ := init_inv hc.toCfgOK
          have hr0 : runG c σ00 {} ops = some (σ, g) := by
            unfold history at h; rw [h00] at h; exact h
          have e0 : EverNe g := run_everNe (fun b hb => by cases hb) hr0
          exact run_everNe e0 r1
        exact hne x hx hq.1
    rw [this] at hm; cases hm

/-- **Without crashes and restarts everything handed over gets committed, once, in order**: after `k ≥ need` successful
production steps the chain is exactly the sequence of transactions handed over. -/
theorem C11_everything_committed (c : Cfg) (hc : LiveCfg c) (ops : List Op) (hn : ∀ op ∈ ops, op.isRestart = false)
    (σ : RunSt) (g : Ghost) (h : history c ops = some (σ, g)) (k : Nat) (hk : need σ.n ≤ k) :
    ∃ σ' g', runG c σ g (List.replicate k .produce) = some (σ', g') ∧
      chainTxs σ'.n.prod.store = g.handed.flatten := by
  obtain ⟨σ0, h0, hi0⟩ := init_inv hc.toCfgOK
  have hr : runG c σ0 {} ops = some (σ, g) := by
    unfold history at h; rw [h0] at h; exact h
  obtain ⟨σ1, g1, hr1, hf⟩ := run_inv hc.toCfgOK hi0 ops
  rw [hr] at hr1
  simp only [Option.some.injEq, Prod.mk.injEq] at hr1
  obtain ⟨rfl, rfl⟩ := hr1
  have hcr : g.crashed = false := by rw [run_crashed hn hr]
  obtain ⟨σ', g', r1, r2, r3, r4, _, _, r7⟩ := run_produce hc hf k
  obtain ⟨q0, p0⟩ := need_zero (n := σ'.n) (by omega)
  obtain ⟨e1, e2, _, _⟩ := r2.exact (by rw [r7]; exact hcr)
  refine ⟨σ', g', r1, ?_⟩
  have hq : σ'.n.q.mem.flatten = [] := q0
  rw [← r4, e1, List.flatten_append, e2, p0, hq]; simp

theorem wCfg_live : LiveCfg wCfg := ⟨wCfg_ok, by decide, rfl⟩

/-- non-vacuity: three batches handed over, a failed execution and a restart in between; `need` is 3 there (one block
waiting, two batches queued), and three more steps put everything into the chain -/
example :
    (history wCfg [.mempool [t1], .reap, .produce, .mempool [t1, t2], .reap, .produceFail, .restart, .mempool [t1, t2, t3],
        .reap]).map (fun r => (need r.1.n, r.2.handed)) = some (3, [[t1], [t2], [t3]]) := by decide +kernel
example :
    chainOf wCfg ([.mempool [t1], .reap, .produce, .mempool [t1, t2], .reap, .produceFail, .restart, .mempool [t1, t2, t3],
        .reap] ++ List.replicate 3 .produce) = some [t1, t2, t3] := by decide +kernel

/-! ## 6. the sequencing layer's clock

`Op.produceSame` (a `GetNextBatch` answer stamped with the SAME time as the previous block: a coarse clock) is an
operation of the histories: every theorem above holds with such steps — the guard of `publishBlockInternal` is
`batchTime.Before(lastHeaderTime)`, equal is fine.  A clock that stepped BACKWARDS is not: -/

/-- all queued transactions are still somewhere after one production step with the clock answer `clk` -/
def keptB (c : Cfg) (σ : RunSt) (clk : Clock) : Bool :=
  (queued σ.n).all fun t =>
    (chainTxs (produce c σ.n .ok clk).1.prod.store ++ pendingTxs (produce c σ.n .ok clk).1.prod.store ++
      queued (produce c σ.n .ok clk).1).contains t

/-- Full statement: whatever the sequencing layer's clock shows, a production step loses no queued transaction. -/
def C11_clock_full : Prop :=
  ∀ (c : Cfg) (ops : List Op) (σ : RunSt) (g : Ghost) (clk : Clock), CfgOK c → history c ops = some (σ, g) →
    keptB c σ clk = true

/-- FALSE of the current code (recorded finding `C11/lost/batch-dropped-on-timestamp-regression`): the guard sits after
`retrieveBatch` — a batch stamped before the previous block has already left the queue (memory and WAL) when the step
returns "timestamp is not monotonically increasing"; nothing brings it back. -/
theorem C11_clock_fails : ¬ C11_clock_full := by
  intro h
  have key : ∀ r, history wCfg [.mempool [t1, t2], .reap, .produce] = some r → keptB wCfg r.1 .back = false := by
    have : (history wCfg [.mempool [t1, t2], .reap, .produce]).map (fun r => keptB wCfg r.1 .back) = some false := by
      decide +kernel
    intro r hr
    rw [hr] at this
    simpa using this
  obtain ⟨σ, g, hh⟩ := C11_always_restarts wCfg wCfg_ok [.mempool [t1, t2], .reap, .produce]
  have := h wCfg _ σ g .back wCfg_ok hh
  rw [key (σ, g) hh] at this
  cases this

/-- PARTIAL (excludes the recorded case; ASSUMPTION of the property's check: the sequencing layer's clock never steps
backwards): with a clock that shows a later time (`real`) or the same time as the previous block (`same`) a production
step keeps every queued transaction — in every reachable state, whatever the execution layer answers. -/
theorem C11_clock_partial (c : Cfg) (hc : CfgOK c) (ops : List Op) (σ : RunSt) (g : Ghost)
    (h : history c ops = some (σ, g)) (clk : Clock) (hclk : clk ≠ .back) : keptB c σ clk = true := by
  obtain ⟨σ', g', h', hf⟩ := history_inv hc ops
  rw [h] at h'
  simp only [Option.some.injEq, Prod.mk.injEq] at h'
  obtain ⟨rfl, rfl⟩ := h'
  unfold keptB
  simp only [List.all_eq_true, List.contains_iff_mem]
  intro t ht
  exact produce_keeps_queued hc hf .ok clk hclk ht

/-- non-vacuity: two batches committed by steps whose answers carry the timestamp of the previous block -/
example : chainOf wCfg [.mempool [t1], .reap, .produce, .produceSame, .mempool [t1, t2], .reap, .produceSame, .produceSame] =
    some [t1, t2] := by decide +kernel

/-! ## 7. a failing queue write

Datastore errors are outside the property's quantifier; what the node does when the write-ahead `Put` of a hand-off
fails is nevertheless pinned down, because the reaper's retry rests on it. -/

/-- **A hand-off whose queue write fails changes nothing** — nothing durable and nothing in memory (`AddBatch` writes
before it appends, and returns the error): no write, the node as it was, the ghost as it was; so with an idempotent
`GetTxs` the retry is the very same hand-off and cannot duplicate anything. -/
theorem C11_failed_queue_write_changes_nothing (c : Cfg) (σ : RunSt) (g : Ghost) :
    ∃ σ', opStep c σ .reapPutFails = some σ' ∧ σ'.n = σ.n ∧ σ'.ws = [] ∧ (∀ k, image σ' k = diskOf σ.n) ∧
      gstep c σ g .reapPutFails = g ∧
      (GetTxsIdempotent σ → reap c σ'.n σ'.mempool = reap c σ.n σ.mempool) := by
  refine ⟨_, rfl, rfl, rfl, fun k => image_nil rfl k, rfl, fun hid => ?_⟩
  have hid' : σ.drain = false := hid
  show reap c σ.n (if σ.drain = true then [] else σ.mempool) = _
  rw [hid']; rfl

/-- non-vacuity: the write fails twice, then succeeds: handed over once, included once -/
example :
    (history wCfg [.mempool [t1, t2], .reapPutFails, .reapPutFails, .reap, .reap, .produce, .produce]).map
      (fun r => (r.2.handed, chainTxs r.1.n.prod.store)) = some ([[t1, t2]], [t1, t2]) := by decide +kernel

/-! ## 8. a stop request during the sequencer call

`Op.produceCancelled aware` — the context of the production step is cancelled while `GetNextBatch` is running — is an
operation of the histories: every theorem above quantifies over histories that contain it. -/

/-- **A cancellation during a production step loses nothing**: in every reachable state, when the stop request arrives
while the sequencer call is in flight and the sequencer has already released (and durably deleted) the batch `b`, every
transaction of `b` is in the chain or in the block waiting at `height + 1` after the step — the step goes on to the early
save whether or not the execution layer honours the cancelled context — so the ordinary stop and start that follows finds it. -/
theorem C11_cancelled_step_loses_nothing (c : Cfg) (hc : CfgOK c) (ops : List Op) (σ : RunSt) (g : Ghost)
    (h : history c ops = some (σ, g)) (aware : Bool) (σ' : RunSt) (hs : opStep c σ (.produceCancelled aware) = some σ')
    (b : Queue.Batch) (rest : List FW) (htook : σ'.ws = FW.qdel b :: rest) :
    ∀ t ∈ b, t ∈ chainTxs σ'.n.prod.store ++ pendingTxs σ'.n.prod.store := by
  obtain ⟨σ0, g0, h0, hf⟩ := history_inv hc ops
  rw [h] at h0
  simp only [Option.some.injEq, Prod.mk.injEq] at h0
  obtain ⟨rfl, rfl⟩ := h0
  simp only [opStep, Option.some.injEq] at hs
  subst hs
  exact taken_batch_kept hc hf (cancelEx c σ.n aware) .real (by decide) htook

/-- non-vacuity: the step is cancelled after the sequencer released `[t1, t2]`; ctx-oblivious execution: the block is
committed; ctx-aware execution: the batch waits at `height + 1`; after the stop and start it is in the chain either way -/
example :
    (history wCfg [.mempool [t1, t2], .reap, .produce, .produceCancelled true]).map
      (fun r => (chainTxs r.1.n.prod.store, pendingTxs r.1.n.prod.store)) = some ([], [t1, t2]) := by decide +kernel
example :
    chainOf wCfg [.mempool [t1, t2], .reap, .produce, .produceCancelled true, .restart, .produce] = some [t1, t2] ∧
    chainOf wCfg [.mempool [t1, t2], .reap, .produce, .produceCancelled false, .restart, .produce] = some [t1, t2] := by
  decide +kernel

end Spec.C11
