import Model.Flow

/-! # C11 — no transaction taken from the mempool is lost on its way into the chain
(first theorems about the reaper hand-off; the conservation invariant over all histories is under construction) -/
namespace Spec.C11
open Wire Chain Flow

/-- **A failed hand-off is retried rather than forgotten**: when the sequencing layer refuses the batch (queue
full) nothing is marked as seen and nothing is written, so the same transactions are offered again. -/
theorem refused_handoff_changes_nothing (c : Cfg) (n : Node) (mempool : List Bytes)
    (h : (Queue.submit key c.qc n.q c.qc.id (mempool.filter fun t => !n.seen.contains t)).2 ≠ .ok) :
    reap c n mempool = (n, []) := by
  unfold reap
  simp only
  split
  · rfl
  · split
    · rename_i q' heq
      rw [heq] at h
      exact absurd rfl h
    · rfl

/-- transactions already marked as seen are never handed over again (no double inclusion through the reaper) -/
theorem seen_not_resubmitted (c : Cfg) (n : Node) (mempool : List Bytes) (h : ∀ t ∈ mempool, n.seen.contains t = true) :
    reap c n mempool = (n, []) := by
  have hf : (mempool.filter fun t => !n.seen.contains t) = [] := by
    apply List.filter_eq_nil_iff.mpr
    intro t ht
    rw [h t ht]; simp
  unfold reap
  simp only [hf, List.isEmpty_nil, ↓reduceIte]

/-- the hand-off is durable **before** any transaction is marked: the queue write is the first write -/
theorem handoff_written_before_marks (c : Cfg) (n : Node) (mempool : List Bytes) (w : FW) (ws : List FW)
    (h : (reap c n mempool).2 = w :: ws) :
    (∃ b, w = .qput b) ∧ ∀ x ∈ ws, ∃ t, x = .seen t := by
  unfold reap at h
  simp only at h
  split at h
  · simp at h
  · split at h
    · simp only [List.cons.injEq] at h
      refine ⟨⟨_, h.1.symm⟩, ?_⟩
      intro x hx
      rw [← h.2] at hx
      simp at hx
      obtain ⟨t, _, rfl⟩ := hx
      exact ⟨t, rfl⟩
    · simp at h

end Spec.C11
