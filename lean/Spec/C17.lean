import Model.Lazy
import Proofs.C17

/-! # C17 — lazy mode: blocks on demand and on the idle interval, never a lost wake-up

All theorems are about `Lazy.run`/`Lazy.step` (`Model/Lazy.lean`), the automaton the driver
`drv_C17` executes against the real `AggregationLoop`.  They quantify over **every** input list:
arbitrary arrival times of `NotifyNewTransactions` (also inside an in-flight production),
arbitrary production durations (shorter or longer than either interval), arbitrary resolution
`pick` of simultaneously ready `select` cases, and every pair of intervals `block, idle ≥ 1 ms`.
A reachable state is the state after an arbitrary prefix `pre`; `post` is an arbitrary
continuation.  Liveness is stated for runs in which time gets past the bound (the automaton has
urgency built in: time only passes when the loop goroutine is blocked). -/
namespace Spec.C17
open Lazy

/-- `n` quanta with the first ready case and productions of `d` ms -/
def ticks (n d : Nat) : List In := List.replicate n (In.tick 0 d)

/-- block 4 ms, idle 20 ms, lazy: the configuration of the refusal witness -/
def cfgR : Cfg := { block := 4, idle := 20, lazy := true }

/-! ## No lost wake-up -/

/-- **No lost wake-up.**  If in a reachable state a notification is pending — waiting in the
one-slot channel, or already consumed into `txsAvailable` and not being served by the production
in flight — then a production starts no later than `max now endOfInFlight + blockInterval`, and not
before the production in flight has ended (it is a *further* block).  No hypothesis on `c.lazy`: the statement holds for the
lazy loop (the mode the clause is about) and for the normal loop alike. -/
theorem no_lost_wakeup (c : Cfg) (hB : 1 ≤ c.block) (hI : 1 ≤ c.idle) (pre post : List In) :
    let s := (run c init pre).1
    Pending s → max s.now (flightEnd s) + c.block < (run c s post).1.now →
    ∃ q, q ∈ (run c s post).2 ∧ s.now ≤ q ∧ flightEnd s ≤ q ∧ q ≤ max s.now (flightEnd s) + c.block := by
  intro s hp hd
  have hi : Inv c s := inv_run hB hI pre init (inv_init c)
  obtain ⟨q, hq, h1, h2⟩ := run_due c (WakeDue c (max s.now (flightEnd s) + c.block)) _
    (fun _ h => wake_now h)
    (fun s i h ho => wake_tr hB hI h (step_tr c s i) ho)
    post s (wake_of_pending hi hp) hd
  exact ⟨q, hq, h1, run_out_ge_flightEnd c post s q hq, h2⟩

/-- **A notification is followed by a block within one block interval**, whenever it arrives:
calling `NotifyNewTransactions` in any reachable state `s` — also while the channel is already full
(the call is then a no-op, the earlier notification is still owed) and also during a production,
in which case the block is a further one, started after the one in flight has ended.  Proved for both
modes (`c.lazy` is not constrained); `notify_leads_to_production_lazy` is the instance the clause names. -/
theorem notify_leads_to_production (c : Cfg) (hB : 1 ≤ c.block) (hI : 1 ≤ c.idle) (pre post : List In) :
    let s := (run c init pre).1
    max s.now (flightEnd s) + c.block < (run c s (In.notify :: post)).1.now →
    ∃ q, q ∈ (run c s (In.notify :: post)).2 ∧ s.now ≤ q ∧ flightEnd s ≤ q ∧
      q ≤ max s.now (flightEnd s) + c.block := by
  intro s hd
  have h := no_lost_wakeup c hB hI (pre ++ [In.notify]) post
  simp only [run_append, run, step, List.append_nil] at h hd ⊢
  have h' := h (Or.inl rfl) (by simpa [flightEnd] using hd)
  simpa [flightEnd] using h'

/-- the lazy-mode instance, as the property words it. -/
theorem notify_leads_to_production_lazy (c : Cfg) (_hl : c.lazy = true) (hB : 1 ≤ c.block) (hI : 1 ≤ c.idle)
    (pre post : List In) :
    let s := (run c init pre).1
    max s.now (flightEnd s) + c.block < (run c s (In.notify :: post)).1.now →
    ∃ q, q ∈ (run c s (In.notify :: post)).2 ∧ s.now ≤ q ∧ flightEnd s ≤ q ∧
      q ≤ max s.now (flightEnd s) + c.block :=
  notify_leads_to_production c hB hI pre post

/-! ## Productions that `publishBlock` refuses (pending limit)

`publishBlockInternal` returns `nil` without producing anything when the number of headers or data
pending DA submission has reached `MaxPendingHeadersAndData` (block/manager.go, "refusing to create
block").  The loop cannot tell: it re-arms both timers and, on the block-timer path, clears
`txsAvailable` — its behaviour is exactly that of the automaton, only the production is not a block.
A refusal is therefore an attribute the environment gives to a production start (`refusedAt q`), and
the *blocks* of a run are the production starts that were not refused. -/

/-- the production starts of a run that produced a block. -/
def blocks (refusedAt : Nat → Bool) (starts : List Nat) : List Nat := starts.filter (fun q => !refusedAt q)

/-- "a notification is not lost: it leads to a further block" with refusals taken into account, as the
property states it (no exemption for the pending limit). -/
def C17_no_lost_wakeup_with_refusals_full : Prop :=
  ∀ (c : Cfg) (refusedAt : Nat → Bool) (pre post : List In), c.lazy = true → 1 ≤ c.block → 1 ≤ c.idle →
    let s := (run c init pre).1
    Pending s → max s.now (flightEnd s) + c.block < (run c s post).1.now →
    ∃ q, q ∈ blocks refusedAt (run c s post).2 ∧ s.now ≤ q ∧ q ≤ max s.now (flightEnd s) + c.block

/-- … which is false of the current code: block 4 ms, idle 20 ms; a notification at 1 is consumed, the
block tick at 4 starts a production which is refused, `txsAvailable` is cleared — the next production
is the idle timer's at 24.  Nothing re-arms the wake-up. -/
theorem no_lost_wakeup_with_refusals_fails : ¬ C17_no_lost_wakeup_with_refusals_full := by
  intro h
  have h' := h cfgR (fun q => q == 4) (ticks 2 1 ++ [In.notify]) (ticks 36 0) rfl (by decide) (by decide)
    (Or.inl (by decide)) (by decide)
  obtain ⟨q, hq, _, h2⟩ := h'
  have e : blocks (fun q => q == 4) (run cfgR (run cfgR init (ticks 2 1 ++ [In.notify])).1 (ticks 36 0)).2 = [24] := by
    decide
  rw [e] at hq
  have hq' : q = 24 := by simpa using hq
  have e2 : max (run cfgR init (ticks 2 1 ++ [In.notify])).1.now (flightEnd (run cfgR init (ticks 2 1 ++ [In.notify])).1)
      + cfgR.block = 5 := by decide
  rw [e2, hq'] at h2
  omega

/-- **No lost wake-up (partial, refusals)**: when no production that starts within the bound is refused
— in particular when the pending limit is not reached (C08) — the pending notification leads to a
*block* within the bound. -/
theorem no_lost_wakeup_with_refusals_partial (c : Cfg) (refusedAt : Nat → Bool) (hB : 1 ≤ c.block) (hI : 1 ≤ c.idle)
    (pre post : List In) :
    let s := (run c init pre).1
    Pending s → max s.now (flightEnd s) + c.block < (run c s post).1.now →
    (∀ q, q ∈ (run c s post).2 → q ≤ max s.now (flightEnd s) + c.block → refusedAt q = false) →
    ∃ q, q ∈ blocks refusedAt (run c s post).2 ∧ s.now ≤ q ∧ flightEnd s ≤ q ∧
      q ≤ max s.now (flightEnd s) + c.block := by
  intro s hp hd hr
  obtain ⟨q, hq, h1, h2, h3⟩ := no_lost_wakeup c hB hI pre post hp hd
  exact ⟨q, List.mem_filter.mpr ⟨hq, by simp [hr q hq h3]⟩, h1, h2, h3⟩

/-- the `_partial` hypothesis is satisfiable with a refusal elsewhere in the run: the production at 24
is refused, the one at 4 — the one the notification is owed — is a block. -/
example : blocks (fun q => q == 24) (run cfgR (run cfgR init (ticks 2 1 ++ [In.notify])).1 (ticks 36 0)).2 = [4] := by
  decide

/-! ## The clause by the letter: "within one block interval after it is notified" -/

/-- the clause as the property states it: in lazy mode a production starts no later than one block
interval after the call of `NotifyNewTransactions`, whatever the loop is doing at that moment and
however long productions take. -/
def C17_notify_within_block_interval_full : Prop :=
  ∀ (c : Cfg) (pre post : List In), c.lazy = true → 1 ≤ c.block → 1 ≤ c.idle →
    let s := (run c init pre).1
    s.now + c.block < (run c s (In.notify :: post)).1.now →
    ∃ q, q ∈ (run c s (In.notify :: post)).2 ∧ s.now ≤ q ∧ q ≤ s.now + c.block

/-- … which is false of the current code (of any sequential producer) when the production in flight
is longer than the block interval: block 2 ms, idle 20 ms, a production of 10 ms started at 0 and a
notification at 0, during it — the further block starts at 11 = end + 1 ms, not by 2. -/
theorem notify_within_block_interval_fails : ¬ C17_notify_within_block_interval_full := by
  intro h
  have h' := h { block := 2, idle := 20, lazy := true } [In.tick 0 10] (List.replicate 16 (In.tick 0 1))
    rfl (by decide) (by decide) (by decide)
  obtain ⟨q, hq, _, h2⟩ := h'
  have e : (run { block := 2, idle := 20, lazy := true }
      (run { block := 2, idle := 20, lazy := true } init [In.tick 0 10]).1
      (In.notify :: List.replicate 16 (In.tick 0 1))).2 = [11] := by decide
  rw [e] at hq
  have : q = 11 := by simpa using hq
  have e2 : (run { block := 2, idle := 20, lazy := true } init [In.tick 0 10]).1.now = 0 := by decide
  rw [e2] at h2
  simp only [this] at h2
  omega

/-- **No lost wake-up, by the letter (partial).**  With the hypothesis that excludes the witness — the
production in flight, if there is one, is shorter than the block interval — a pending notification is
followed by a production start within one block interval of `now`. -/
theorem no_lost_wakeup_within_block_interval (c : Cfg) (hB : 1 ≤ c.block) (hI : 1 ≤ c.idle)
    (pre post : List In) :
    let s := (run c init pre).1
    Pending s → (∀ f, s.flight = some f → f.fin < f.start + c.block) →
    s.now + c.block < (run c s post).1.now →
    ∃ q, q ∈ (run c s post).2 ∧ s.now ≤ q ∧ flightEnd s ≤ q ∧ q ≤ s.now + c.block := by
  intro s hp hs hd
  have hi : Inv c s := inv_run hB hI pre init (inv_init c)
  obtain ⟨q, hq, h1, h2⟩ := run_due c (WakeDue c (s.now + c.block)) _
    (fun _ h => wake_now h)
    (fun s i h ho => wake_tr hB hI h (step_tr c s i) ho)
    post s (wake_of_pending_short hi hp hs) hd
  exact ⟨q, hq, h1, run_out_ge_flightEnd c post s q hq, h2⟩

/-- **Within one block interval after it is notified (partial)**: a call of `NotifyNewTransactions`
in any reachable state in which no production longer than (or as long as) the block interval is in
flight — in particular whenever the loop is waiting — is followed by a production start within one
block interval of the call.  (Any duration: `notify_leads_to_production`, bound
`max now endOfInFlight + block`.) -/
theorem notify_within_block_interval_partial (c : Cfg) (hB : 1 ≤ c.block) (hI : 1 ≤ c.idle)
    (pre post : List In) :
    let s := (run c init pre).1
    (∀ f, s.flight = some f → f.fin < f.start + c.block) →
    s.now + c.block < (run c s (In.notify :: post)).1.now →
    ∃ q, q ∈ (run c s (In.notify :: post)).2 ∧ s.now ≤ q ∧ flightEnd s ≤ q ∧ q ≤ s.now + c.block := by
  intro s hs hd
  have h := no_lost_wakeup_within_block_interval c hB hI (pre ++ [In.notify]) post
  simp only [run_append, run, step, List.append_nil] at h hd ⊢
  have h' := h (Or.inl rfl) hs (by simpa using hd)
  simpa [flightEnd] using h'

/-! ## Rate -/

/-- production starts of every run are at least `min blockInterval idleInterval` apart … -/
theorem rate_min (c : Cfg) (ins : List In) :
    Spaced (min c.block c.idle) (run c init ins).2 :=
  spaced_of_from _ _ 0 (lower_run (Nat.min_le_left _ _) (fun _ => Nat.min_le_right _ _) ins init 0
    (by simp [LowerNext, init]))

/-- the rate clause in full: never faster than one block per block interval, for all ratios. -/
def C17_rate_full : Prop :=
  ∀ (c : Cfg) (ins : List In), 1 ≤ c.block → 1 ≤ c.idle → Spaced c.block (run c init ins).2

/-- … which is false of the current code when the idle interval is shorter than the block interval:
block 5 ms, idle 2 ms, an idle node — productions at 0 and 2. -/
theorem rate_full_fails : ¬ C17_rate_full := by
  intro h
  exact absurd (h { block := 5, idle := 2, lazy := true } (List.replicate 5 (In.tick 0 0)) (by decide) (by decide))
    (by decide)

/-- **Rate (partial).**  With `blockInterval ≤ idleInterval` — the hypothesis that excludes the
witness — production starts are at least one block interval apart, for every run. -/
theorem rate_partial (c : Cfg) (h : c.block ≤ c.idle) (ins : List In) :
    Spaced c.block (run c init ins).2 :=
  spaced_of_from _ _ 0 (lower_run (Nat.le_refl _) (fun _ => h) ins init 0 (by simp [LowerNext, init]))

/-! ## Idle chain -/

/-- **One block per idle interval, at least**: from any reachable state of the lazy loop a
production starts within one idle interval of `now` (of the end of the production in flight),
whatever else happens. -/
theorem idle_interval_progress (c : Cfg) (hl : c.lazy = true) (hB : 1 ≤ c.block) (hI : 1 ≤ c.idle)
    (pre post : List In) :
    let s := (run c init pre).1
    flightEnd s + c.idle < (run c s post).1.now →
    ∃ q, q ∈ (run c s post).2 ∧ flightEnd s ≤ q ∧ q ≤ flightEnd s + c.idle := by
  intro s hd
  have hi : Inv c s := inv_run hB hI pre init (inv_init c)
  have ht := timer_of_inv hi
  simp only [hl, if_true] at ht
  obtain ⟨q, hq, _, h2⟩ := run_due c (TimerDue c (flightEnd s + c.idle)) _
    (fun _ h => timer_now h)
    (fun s i h ho => timer_tr hB hI h (step_tr c s i) ho)
    post s ht hd
  exact ⟨q, hq, run_out_ge_flightEnd c post s q hq, h2⟩

/-- **One block per idle interval, exactly**: a lazy loop that is never notified and whose
productions are shorter than the idle interval starts them at 0, idle, 2·idle, … — for every ratio
of the two intervals. -/
theorem idle_chain (c : Cfg) (hl : c.lazy = true) (hB : 1 ≤ c.block) (hI : 1 ≤ c.idle) (ins : List In)
    (hn : NoNotify ins) (hd : ShortDurs c.idle ins) :
    ExactFrom c.idle 0 (run c init ins).2 :=
  idle_run hl hB hI ins init 0 (inv_init c) (by simp [IdleAt, init]) hn hd

/-! ## Normal mode -/

/-- **Normal mode: once per block interval regardless of notifications** — with productions
shorter than the block interval the starts are exactly 0, block, 2·block, …, whatever
notifications arrive. -/
theorem normal_cadence (c : Cfg) (hl : c.lazy = false) (hB : 1 ≤ c.block) (hI : 1 ≤ c.idle) (ins : List In)
    (hd : ShortDurs c.block ins) :
    ExactFrom c.block 0 (run c init ins).2 :=
  normal_run hl hB hI ins init 0 (inv_init c) (by simp [NormalAt, init]) hd

/-- normal mode, productions of any duration: never faster than one per block interval … -/
theorem normal_rate (c : Cfg) (hl : c.lazy = false) (ins : List In) :
    Spaced c.block (run c init ins).2 :=
  spaced_of_from _ _ 0 (lower_run (Nat.le_refl _) (fun h => by rw [hl] at h; cases h) ins init 0
    (by simp [LowerNext, init]))

/-- … and a production starts within one block interval of `now` (of the end of the one in flight). -/
theorem normal_progress (c : Cfg) (hl : c.lazy = false) (hB : 1 ≤ c.block) (hI : 1 ≤ c.idle)
    (pre post : List In) :
    let s := (run c init pre).1
    flightEnd s + c.block < (run c s post).1.now →
    ∃ q, q ∈ (run c s post).2 ∧ flightEnd s ≤ q ∧ q ≤ flightEnd s + c.block := by
  intro s hd
  have hi : Inv c s := inv_run hB hI pre init (inv_init c)
  have ht := timer_of_inv hi
  simp only [hl] at ht
  obtain ⟨q, hq, _, h2⟩ := run_due c (TimerDue c (flightEnd s + c.block)) _
    (fun _ h => timer_now h)
    (fun s i h ho => timer_tr hB hI h (step_tr c s i) ho)
    post s (by simpa using ht) hd
  exact ⟨q, hq, run_out_ge_flightEnd c post s q hq, by simpa using h2⟩

/-! ## Non-vacuity: the hypotheses are satisfiable and the conclusions are about real productions -/

def cfgA : Cfg := { block := 4, idle := 20, lazy := true }

/-- a notification arriving *during* the first production (which lasts 3 ms): the state is
`Pending` with a production in flight, time gets past the bound, and the further block starts at 4
= start + block interval (≥ the end 3 of the one in flight). -/
def sA : St := (run cfgA init (ticks 2 3 ++ [In.notify])).1

example :
    Pending sA ∧ (sA.flight.isSome = true ∧ flightEnd sA = 3 ∧
    max sA.now (flightEnd sA) + cfgA.block < (run cfgA sA (ticks 12 3)).1.now ∧
    (run cfgA sA (ticks 12 3)).2 = [4]) := ⟨Or.inl (by decide), by decide⟩

/-- `notify_within_block_interval_partial` is not vacuous: a notification during a production that
is shorter than the block interval (3 ms of 4) — the further block starts at 4 ≤ now + block = 5. -/
example :
    let s := (run cfgA init (ticks 2 3)).1
    (∃ f, s.flight = some f ∧ f.fin < f.start + cfgA.block) ∧ s.now = 1 ∧
    (run cfgA s (In.notify :: ticks 12 3)).2 = [4] := by decide

/-- a notification while waiting: consumed, then served by the next block tick (at 8), the idle
timer (20) is not needed. -/
example : (run cfgA init (ticks 7 1 ++ [In.notify] ++ ticks 9 1)).2 = [0, 8] := by decide

/-- the idle chain is not empty: productions at 0, 20, 40 (block ticks without txs in between). -/
example : (run cfgA init (ticks 60 1)).2 = [0, 20, 40] ∧ NoNotify (ticks 60 1) := by
  refine ⟨by decide, ?_⟩
  simp [NoNotify, ticks]

/-- `rate_partial`/`rate_min` speak about runs with several productions, the bound is attained. -/
example : (run cfgA init (ticks 2 1 ++ [In.notify] ++ ticks 8 1 ++ [In.notify] ++ ticks 8 1)).2 = [0, 4, 8] := by
  decide

/-- idle < block: the lazy timer alone produces every idle interval (the finding). -/
example : (run { block := 5, idle := 2, lazy := true } init (ticks 12 0)).2 = [0, 2, 4] := by decide

/-- normal mode ignores notifications: 0, 4, 8 with a notification in between. -/
example : (run { block := 4, idle := 20, lazy := false } init (ticks 3 1 ++ [In.notify] ++ ticks 12 1)).2 = [0, 4, 8] := by
  decide

/-- a production longer than both intervals (9 ms, block 4, idle 6): both timers are reset to 1 ms
after its end; the next production starts at 10. -/
example : (run { block := 4, idle := 6, lazy := true } init (ticks 13 9)).2 = [0, 10] := by decide

/-! ## The start of the loop: restart right after a block, first start before genesis time + block interval

`AggregationLoop` first waits until one block interval after the last block (`startRef`: after genesis
time when nothing has been produced), on a `select` that has no `txNotifyCh` case: a call of
`NotifyNewTransactions` during the wait fills the one-slot channel and is served when the loop proper
starts.  `boot c ref t0` is the loop called at `t0` with reference instant `ref`; the theorems hold for
every `ref`, every `t0` (inside the block interval that follows `ref` or later), every pattern of
notifications during the wait and every continuation. -/

/-- the configurations of the start-up examples -/
def cfgS : Cfg := { block := 10, idle := 30, lazy := true }
def cfgSN : Cfg := { block := 10, idle := 30, lazy := false }

/-- **The first block after a (re)start is produced no earlier than one block interval after the last
block** (after genesis time at the first start) — in both modes, whatever is notified during the wait or
afterwards, and every later production likewise. -/
theorem C17_startup_respects_block_interval (c : Cfg) (ref t0 : Nat) (ins : List In) :
    ∀ q ∈ (sysRun c (boot c ref t0) ins).2, ref + c.block ≤ q := by
  intro q hq
  obtain ⟨wake, e, _, hw⟩ := boot_wake c ref t0
  rw [e] at hq
  have h := sys_lower_run (c := c) (m := 0) (Nat.zero_le _) (fun _ => Nat.zero_le _) wake ins t0 false
  have := spacedFrom_ge 0 _ wake h q hq
  omega

/-- … with the reference instant spelled out as the code computes it (`height < initialHeight`: genesis
time, otherwise the time of the last block). -/
theorem C17_startup_respects_block_interval_ref (c : Cfg) (height initialHeight genesisT lastT t0 : Nat) (ins : List In) :
    ∀ q ∈ (sysRun c (boot c (startRef height initialHeight genesisT lastT) t0) ins).2,
      (height < initialHeight → genesisT + c.block ≤ q) ∧ (initialHeight ≤ height → lastT + c.block ≤ q) := by
  intro q hq
  have h := C17_startup_respects_block_interval c _ t0 ins q hq
  unfold startRef at h
  constructor
  · intro hh; simpa [hh] using h
  · intro hh; have : ¬ height < initialHeight := by omega
    simpa [this] using h

/-- non-vacuity: restarted 2 ms after a block at 0 (block interval 10), notified 1 ms later: productions at
10 and 20, lazy mode; at 10 and 20 in normal mode (which would produce them anyway). -/
example : (sysRun cfgS (boot cfgS 0 2) ([In.tick 0 1, In.notify] ++ ticks 22 1)).2 = [10, 20] := by decide
example : (sysRun cfgSN (boot cfgSN 0 2) ([In.tick 0 1, In.notify] ++ ticks 22 1)).2 = [10, 20] := by decide
/-- restarted later than one block interval after the last block: no wait, a block at once. -/
example : (sysRun cfgS (boot cfgS 0 17) (ticks 3 1)).2 = [17] := by decide

/-- **A notification that arrives during the start-up wait is not lost.**  If the loop is still in the
wait after an arbitrary prefix `pre` that contains a call of `NotifyNewTransactions`, then in every
continuation that gets past the bound a production starts — after the notification, no earlier than one
block interval after the last block, and no later than one block interval after the end of the wait.
(Both modes; the clause is about the lazy one, `C17_startup_notification_not_lost_lazy`.) -/
theorem C17_startup_notification_not_lost (c : Cfg) (hB : 1 ≤ c.block) (hI : 1 ≤ c.idle) (ref t0 : Nat)
    (pre post : List In) (now wake : Nat) (chan : Bool) :
    let w := (sysRun c (boot c ref t0) pre).1
    w = .waiting now wake chan → In.notify ∈ pre →
    wake + c.block < (sysRun c w post).1.now →
    wake = max t0 (ref + c.block) ∧
    ∃ q, q ∈ (sysRun c w post).2 ∧ now ≤ q ∧ ref + c.block ≤ q ∧ q ≤ wake + c.block := by
  intro w hw hn hd
  obtain ⟨wake0, e, h0, h1⟩ := boot_wake c ref t0
  have hw' : (sysRun c (.waiting t0 wake0 false) pre).1 = .waiting now wake chan := by rw [← e]; exact hw
  obtain ⟨a, _, _, d, f⟩ := sysRun_still_waiting c wake0 pre t0 false now wake chan hw'
  have hc : chan = true := f (Or.inr hn)
  subst a hc
  have hnw : now ≤ wake := d h0
  rw [hw] at hd ⊢
  obtain ⟨q, hq, q1, q2⟩ := sys_wake_due hB hI wake post now hnw hd
  refine ⟨?_, q, hq, by omega, by omega, q2⟩
  have : boot c ref t0 = .waiting t0 (t0 + startDelay c ref t0) false := rfl
  rw [this] at e
  simp only [Sys.waiting.injEq, true_and, and_true] at e
  rw [← e]; unfold startDelay; omega

theorem C17_startup_notification_not_lost_lazy (c : Cfg) (_hl : c.lazy = true) (hB : 1 ≤ c.block) (hI : 1 ≤ c.idle)
    (ref t0 : Nat) (pre post : List In) (now wake : Nat) (chan : Bool) :
    let w := (sysRun c (boot c ref t0) pre).1
    w = .waiting now wake chan → In.notify ∈ pre →
    wake + c.block < (sysRun c w post).1.now →
    wake = max t0 (ref + c.block) ∧
    ∃ q, q ∈ (sysRun c w post).2 ∧ now ≤ q ∧ ref + c.block ≤ q ∧ q ≤ wake + c.block :=
  C17_startup_notification_not_lost c hB hI ref t0 pre post now wake chan

/-- non-vacuity: the hypotheses hold (still waiting at 4 with a notification sent at 3, the continuation
gets to 21 > 10 + 10) and the block owed is the one at 10. -/
example :
    (sysRun cfgS (boot cfgS 0 2) [In.tick 0 1, In.notify, In.tick 0 1]).1 = .waiting 4 10 true ∧
    In.notify ∈ [In.tick 0 1, In.notify, In.tick 0 1] ∧
    10 + cfgS.block < (sysRun cfgS (Sys.waiting 4 10 true) (ticks 24 1)).1.now ∧
    (sysRun cfgS (Sys.waiting 4 10 true) (ticks 24 1)).2 = [10, 20] :=
  ⟨by decide, by simp, by decide, by decide⟩

/-- **No lost wake-up after a (re)start**: `no_lost_wakeup` for the states the loop proper reaches after a
start-up wait (instead of from `init`). -/
theorem no_lost_wakeup_after_start (c : Cfg) (hB : 1 ≤ c.block) (hI : 1 ≤ c.idle) (ref t0 : Nat)
    (pre post : List In) (s : St) :
    (sysRun c (boot c ref t0) pre).1 = .running s →
    Pending s → max s.now (flightEnd s) + c.block < (run c s post).1.now →
    ∃ q, q ∈ (run c s post).2 ∧ s.now ≤ q ∧ flightEnd s ≤ q ∧ q ≤ max s.now (flightEnd s) + c.block := by
  intro hs hp hd
  have hi : Inv c s := by
    have := sysInv_run hB hI pre (boot c ref t0) trivial
    rw [hs] at this; exact this
  obtain ⟨q, hq, h1, h2⟩ := run_due c (WakeDue c (max s.now (flightEnd s) + c.block)) _
    (fun _ h => wake_now h)
    (fun s i h ho => wake_tr hB hI h (step_tr c s i) ho)
    post s (wake_of_pending hi hp) hd
  exact ⟨q, hq, h1, run_out_ge_flightEnd c post s q hq, h2⟩

/-- **The rate clause across a restart.**  `pre`: any run of the loop before the node stopped, `last` the
start of its last production (the time of the last block); the loop is called again at any `t0` and runs
on any `ins`.  All productions, before and after, are at least `min blockInterval idleInterval` apart … -/
theorem C17_rate_min_across_restart (c : Cfg) (pre ins : List In) (last t0 : Nat) :
    (run c init pre).2.getLast? = some last →
    Spaced (min c.block c.idle) ((run c init pre).2 ++ (sysRun c (boot c last t0) ins).2) := by
  intro hl
  obtain ⟨wake, e, _, hw⟩ := boot_wake c last t0
  rw [e]
  refine spaced_append _ _ _ last hl (rate_min c pre) ?_
  refine spacedFrom_mono _ _ wake _ ?_ (sys_lower_run (Nat.min_le_left _ _) (fun _ => Nat.min_le_right _ _) wake ins t0 false)
  have := Nat.min_le_left c.block c.idle
  omega

/-- … and at least one block interval apart when `blockInterval ≤ idleInterval` (the hypothesis of
`rate_partial`). -/
theorem C17_rate_across_restart (c : Cfg) (h : c.block ≤ c.idle) (pre ins : List In) (last t0 : Nat) :
    (run c init pre).2.getLast? = some last →
    Spaced c.block ((run c init pre).2 ++ (sysRun c (boot c last t0) ins).2) := by
  intro hl
  obtain ⟨wake, e, _, hw⟩ := boot_wake c last t0
  rw [e]
  exact spaced_append _ _ _ last hl (rate_partial c h pre)
    (spacedFrom_mono _ _ wake _ hw (sys_lower_run (Nat.le_refl _) (fun _ => h) wake ins t0 false))

/-- the distance between the last block before and the first block after a restart is at least one block
interval for EVERY ratio of the intervals (no hypothesis). -/
theorem C17_restart_distance (c : Cfg) (pre ins : List In) (last t0 : Nat) :
    (run c init pre).2.getLast? = some last →
    ∀ q ∈ (sysRun c (boot c last t0) ins).2, last + c.block ≤ q :=
  fun _ => C17_startup_respects_block_interval c last t0 ins

/-- non-vacuity: blocks at 0 and 30 before the stop, restarted at 33 and notified at 34: next blocks at 40, 50. -/
example :
    (run cfgS init (ticks 35 1)).2 = [0, 30] ∧
    (sysRun cfgS (boot cfgS 30 33) ([In.tick 0 1, In.notify] ++ ticks 22 1)).2 = [40, 50] := by decide

/-- **Why the start-up `select` must not listen to `txNotifyCh`**: in the variant of the model whose wait
ends on a notification (`sysStepEager`; the `select` is not in a loop) the loop restarted 2 ms after a
block and notified 1 ms later produces a block at 3 — 7 ms early — in lazy and in normal mode, where the
model of the code produces it at 10. -/
theorem startup_wait_must_ignore_notifications :
    (3 ∈ (sysRunEager cfgS (boot cfgS 0 2) ([In.tick 0 1, In.notify] ++ ticks 4 1)).2 ∧ 3 < 0 + cfgS.block) ∧
    (3 ∈ (sysRunEager cfgSN (boot cfgSN 0 2) ([In.tick 0 1, In.notify] ++ ticks 4 1)).2 ∧ 3 < 0 + cfgSN.block) ∧
    (sysRun cfgS (boot cfgS 0 2) ([In.tick 0 1, In.notify] ++ ticks 12 1)).2 = [10] ∧
    (sysRun cfgSN (boot cfgSN 0 2) ([In.tick 0 1, In.notify] ++ ticks 12 1)).2 = [10] := by decide

end Spec.C17
