import Proofs.SubmitLive

/-!
# C07 — the DA-included (final) height is sound, monotone, durable and eventually reached

Model: `Submit.includerPass` / `Submit.includerIter` (`block/da_includer.go`, `IsDAIncluded` and
`SetDAIncludedHeight` of `block/manager.go`), the marks written by `Submit.submitLoop`, `Submit.restart`; executable
and compared with the real code on every run (stream C07).  `finals` is the log of `SetFinal` calls received by the
execution layer (latest first); `daBlobs` the content of the DA double.
-/
namespace Spec.C07
open Wire Chain Producer Submit

/-- a pass of the inclusion loop never lowers the DA-included height -/
theorem includerPass_monotone (fuel : Nat) (a : ANode) (ws : List SW) :
    a.daInc ≤ (includerPass fuel a ws).1.daInc := includerPass_mono fuel a ws

/-! ## the pass invariant (every fuel, every node) -/

/-- **Monotone, one height at a time, finalized in order before reported, durable, at most the chain height.**
The DA-included height never decreases; the `SetFinal` log gains exactly `old+1, …, new` in order (latest first), so its
head is the reported height whenever that advanced; the persisted value equals the one in memory after an advance; the
height stays at or below the chain height; the store is the old store with exactly the reported writes applied (three
per height); marks, DA double, watermarks, blocks, chain height and state are untouched. -/
theorem C07_pass_invariant (fuel : Nat) (a : ANode) :
    let r := includerPass fuel a []
    a.daInc ≤ r.1.daInc ∧
    r.1.finals = (List.range' (a.daInc + 1) (r.1.daInc - a.daInc)).reverse ++ a.finals ∧
    (a.daInc < r.1.daInc →
      r.1.finals.head? = some r.1.daInc ∧ r.1.n.store.getMeta daIncKey = some (le64 r.1.daInc)) ∧
    (a.daInc ≤ a.n.store.height → r.1.daInc ≤ r.1.n.store.height) ∧
    r.1.n.store = a.n.store.applyAll r.2 ∧ r.2.length = 3 * (r.1.daInc - a.daInc) ∧
    r.1.hMarks = a.hMarks ∧ r.1.dMarks = a.dMarks ∧ r.1.daBlobs = a.daBlobs ∧
    r.1.n.hdrWm = a.n.hdrWm ∧ r.1.n.dataWm = a.n.dataWm ∧
    r.1.n.store.blocks = a.n.store.blocks ∧ r.1.n.store.height = a.n.store.height := by
  have hi := includerPass_inv fuel a a [] (PassInv.init a)
  obtain ⟨rec, _, hws⟩ := hi.writes
  refine ⟨hi.mono, hi.finals, fun h => ⟨(hi.persisted h).2, (hi.persisted h).1⟩, hi.le, hi.store, ?_,
    hi.frame.hMarks, hi.frame.dMarks, hi.frame.daBlobs, hi.frame.hdrWm, hi.frame.dataWm, hi.frame.blocks, hi.frame.height⟩
  rw [hws]
  generalize (includerPass fuel a []).1.daInc - a.daInc = k
  generalize a.daInc + 1 = s
  induction k generalizing s with
  | zero => simp
  | succ k ih => rw [List.range'_succ, List.flatMap_cons, List.length_append, ih]; simp [incWrites]; omega

/-- **Soundness of a pass.**  For every height `h` in `(old, new]`: the block `h` is stored, its header hash is marked
DA-included (at DA height `hd`), its data commitment is the empty one (then `dd = hd`) or is marked (at `dd`); and the
writes of the pass are exactly, height by height in increasing order, `rhb/<h>/h ↦ hd`, `rhb/<h>/d ↦ dd`, `d ↦ h`. -/
theorem C07_pass_sound (fuel : Nat) (a : ANode) :
    let r := includerPass fuel a []
    ∃ rec : Nat → Nat × Nat,
      (∀ h, a.daInc < h → h ≤ r.1.daInc → ∃ b, a.n.store.getBlock h = some b ∧
        markOf a.hMarks b.sh.hdr.hash = some (rec h).1 ∧
        ((b.data.daCommitment = emptyDataHash ∧ (rec h).2 = (rec h).1) ∨
         (b.data.daCommitment ≠ emptyDataHash ∧ markOf a.dMarks b.data.daCommitment = some (rec h).2))) ∧
      r.2 = (List.range' (a.daInc + 1) (r.1.daInc - a.daInc)).flatMap fun h =>
        [SW.setMeta (rhbKey h "h") (le64 (rec h).1), SW.setMeta (rhbKey h "d") (le64 (rec h).2),
         SW.setMeta daIncKey (le64 h)] := by
  have hi := includerPass_inv fuel a a [] (PassInv.init a)
  obtain ⟨rec, hrec, hws⟩ := hi.writes
  exact ⟨rec, fun h h1 h2 => recHeights_some (hrec h h1 h2), hws⟩

/-- **Eventually.**  If every height in `(daInc, h]` is stored (within the chain height) with its header hash marked and
its data commitment empty or marked, one iteration of the inclusion loop ends with `daInc ≥ h`
(the loop's bound `store.height + 1` is adequate). -/
theorem C07_eventually (a : ANode) (h : Nat)
    (hr : ∀ k, a.daInc < k → k ≤ h → k ≤ a.n.store.height ∧ ∃ b, a.n.store.getBlock k = some b ∧
      (markOf a.hMarks b.sh.hdr.hash).isSome ∧
      (b.data.daCommitment = emptyDataHash ∨ (markOf a.dMarks b.data.daCommitment).isSome)) :
    h ≤ (includerIter a).1.daInc := by
  by_cases hle : h ≤ a.daInc
  · exact Nat.le_trans hle (includerPass_mono _ a [])
  · have hh : h ≤ a.n.store.height := (hr h (by omega) (Nat.le_refl _)).1
    apply includerPass_reaches
    · intro k k1 k2
      obtain ⟨r1, b, r2, r3, r4⟩ := hr k k1 k2
      exact ready_of_marked r1 r2 r3 r4
    · omega

/-! ## with C06: a reported height is on the DA layer; every interleaving -/

/-- **Every history**: any list of block production steps (any sequencer / execution response), header submission and
data submission ticks (any DA answer list each), inclusion passes, **clean restarts, crashes between two actions and
crashes after any number `k` of the durable writes of the last action** (`ActR.crash k`: inside a production step, between
two watermark writes, between `rhb/<h>/h`, `rhb/<h>/d` and `d` of an inclusion pass), from a fresh start with any initial
height ≥ 1, preserves: the DA-included height is at least `initialHeight − 1` and at most the chain height; every mark
`key ↦ dh` is the header hash (resp. data commitment) of a stored block whose header (resp. signed data) blob the DA
double holds **at exactly the DA height `dh`**; and **every reported height `initialHeight ≤ h ≤ daInc` is a stored block
for which the DA double holds the header blob of a stored block with that header hash, and — unless the data commitment
is the empty one — the signed-data blob of a stored non-empty block with that data commitment** (`HdrOnDA`, `DataOnDA`;
"with that hash / commitment" because marks are keyed by hash / commitment). -/
theorem C07_sound_every_interleaving (c : Cfg) (hpos : 1 ≤ c.initialHeight) (acts : List ActR) :
    let a := (runR c (freshC c) acts).a
    (c.initialHeight - 1 ≤ a.daInc ∧ a.daInc ≤ a.n.store.height) ∧
    (∀ e ∈ a.hMarks, ∃ k b, k ≤ a.n.store.height ∧ a.n.store.getBlock k = some b ∧ b.sh.hdr.hash = e.1 ∧
      (e.2, false, b.sh.hdr.height) ∈ a.daBlobs) ∧
    (∀ e ∈ a.dMarks, ∃ k b, k ≤ a.n.store.height ∧ a.n.store.getBlock k = some b ∧ b.data.daCommitment = e.1 ∧
      b.data.txs ≠ [] ∧ (e.2, true, dataHeight b) ∈ a.daBlobs) ∧
    (∀ h, c.initialHeight ≤ h → h ≤ a.daInc → ∃ b, a.n.store.getBlock h = some b ∧
      (∃ dh, HdrOnDA a b.sh.hdr.hash dh) ∧
      (b.data.daCommitment = emptyDataHash ∨ ∃ dh, DataOnDA a b.data.daCommitment dh)) := by
  have r := ((CI_fresh c hpos).run acts).r
  exact ⟨⟨r.pdw.1, r.g.incLe⟩, r.g.hM, r.g.dM, r.g.incSound⟩

/-- the bounds alone, every history (restarts and crashes at write granularity included) -/
theorem C07_bounds_every_interleaving (c : Cfg) (hpos : 1 ≤ c.initialHeight) (acts : List ActR) :
    c.initialHeight - 1 ≤ (runR c (freshC c) acts).a.daInc ∧
    (runR c (freshC c) acts).a.daInc ≤ (runR c (freshC c) acts).a.n.store.height :=
  (C07_sound_every_interleaving c hpos acts).1

/-- **no restart ever fails, and what a restart reports never exceeds what the node reported**: at the end of every history,
a clean restart, a crash between two actions, or a crash after any number `k` of the durable writes of the last action
yields a node whose DA-included height is at most the one the node reported (and all of the above holds of it again) -/
theorem C07_restart_never_reports_more (c : Cfg) (hpos : 1 ≤ c.initialHeight) (acts : List ActR) :
    let σ := runR c (freshC c) acts
    (∀ clean, ∃ a', restart c σ.a σ.a.n.store clean = some a' ∧ a'.daInc ≤ σ.a.daInc ∧ a'.finals = σ.a.finals) ∧
    (∀ k, ∃ a', restart c σ.a (σ.base.applyPrefix k σ.ws) false = some a' ∧ a'.daInc ≤ σ.a.daInc ∧
      a'.finals = σ.a.finals) := by
  intro σ
  have ci := (CI_fresh c hpos).run acts
  refine ⟨fun clean => ?_, fun k => ?_⟩
  · obtain ⟨a', h, _, f⟩ := ci.r.restart clean
    exact ⟨a', h, by rw [f.daInc]; exact ci.r.pdw.2, f.finals⟩
  · obtain ⟨a', h, _, f⟩ := ci.cuts k
    exact ⟨a', h, f.incLe, f.finals⟩

/-- the same invariant is preserved by every single action from any node that satisfies it -/
theorem C07_invariant_step {c : Cfg} {a : ANode} (g : G c a) (act : Act) : G c (stepA c a act) := stepA_G g act

/-- along every list of actions, from any node, the DA-included height never decreases, and it changes only in inclusion
passes -/
theorem C07_monotone_actions (c : Cfg) (a : ANode) (acts : List Act) :
    a.daInc ≤ (runA c a acts).daInc := runA_mono c a acts

/-- **Monotone and durable along every history** (restarts and crashes at write granularity included) whose DA-included
heights stay below 2^64 (`Bounded`: the value is a `uint64`, stored in eight bytes).  At the end of such a history:
the persisted `d` is the value in memory — or nothing is persisted and the value is `initialHeight − 1` —; and for the
next step: an action never lowers the DA-included height; **a restart (clean, or after a crash between two actions)
reports exactly the same height**; a crash after `k` durable writes of the last action reports exactly what the image
holds under `d` (raised to `initialHeight − 1`), which is at most what the node reported; and
(`C07_crash_inside_action`) at least what it reported before that action. -/
theorem C07_monotone_every_interleaving (c : Cfg) (hpos : 1 ≤ c.initialHeight) (acts : List ActR)
    (hb : Bounded c (freshC c) acts) (hlast : (runR c (freshC c) acts).a.daInc < 2 ^ 64) :
    let σ := runR c (freshC c) acts
    (σ.a.n.store.getMeta daIncKey = some (le64 σ.a.daInc) ∨
      (σ.a.n.store.getMeta daIncKey = none ∧ σ.a.daInc = c.initialHeight - 1)) ∧
    (∀ x, σ.a.daInc ≤ (stepR c σ (.act x)).a.daInc) ∧
    (∀ clean, (stepR c σ (.restart clean)).a.daInc = σ.a.daInc) ∧
    (∀ k, (stepR c σ (.crash k)).a.daInc = loadInc c (σ.base.applyPrefix k σ.ws) ∧
      (stepR c σ (.crash k)).a.daInc ≤ σ.a.daInc) := by
  intro σ
  have cs := (CS_fresh c hpos).run acts hb
  exact ⟨cs.pdi.2, cs.mono_step hlast⟩

/-- **a crash inside an action never lowers the DA-included height**: after any bounded history, an action `x` followed
by a crash after `k` of its durable writes yields a node that reports a height between the one reported before `x` and
the one `x` reported -/
theorem C07_crash_inside_action (c : Cfg) (hpos : 1 ≤ c.initialHeight) (acts : List ActR)
    (hb : Bounded c (freshC c) acts) (x : Act) (k : Nat)
    (hlast : (stepA c (runR c (freshC c) acts).a x).daInc < 2 ^ 64) :
    let σ := runR c (freshC c) acts
    σ.a.daInc ≤ (stepR c (stepR c σ (.act x)) (.crash k)).a.daInc ∧
    (stepR c (stepR c σ (.act x)) (.crash k)).a.daInc ≤ (stepA c σ.a x).daInc := by
  intro σ
  have cs := (CS_fresh c hpos).run acts hb
  obtain ⟨h1, h2, _⟩ := cs.crash_inside x k hlast
  exact ⟨h1, h2⟩

/-- **reported only after durable; finalized before reported — at write granularity.**  An inclusion pass issues, per
height it advances to, the durable writes `rhb/<h>/h`, `rhb/<h>/d`, `d ↦ h` — after `SetFinal(h)` on the execution layer
— and only then changes the height it reports (`includerPass` with fuel `j` is the pass stopped after `j` advances;
`C07_pass_invariant` holds for every fuel: whenever the pass holds a height in memory, it is the head of the `SetFinal` log
and `d` holds it durably).  **If the process dies after `k` durable writes of the pass, the restarted node reports exactly
the height the pass reported at that instant** (the pass stopped after `k / 3` advances): never a height whose `d` write
was not durable, never less than what had been reported, and always a height the execution layer was asked to finalize. -/
theorem C07_reported_after_durable (c : Cfg) (hpos : 1 ≤ c.initialHeight) (acts : List ActR)
    (hb : Bounded c (freshC c) acts) (k : Nat)
    (hlast : (includerIter (runR c (freshC c) acts).a).1.daInc < 2 ^ 64)
    (hk : k ≤ (includerIter (runR c (freshC c) acts).a).2.length) :
    let σ := runR c (freshC c) acts
    (stepR c (stepR c σ (.act .incl)) (.crash k)).a.daInc = (includerPass (k / 3) σ.a []).1.daInc ∧
    (σ.a.daInc < (includerPass (k / 3) σ.a []).1.daInc →
      (includerPass (k / 3) σ.a []).1.finals.head? = some (includerPass (k / 3) σ.a []).1.daInc) := by
  intro σ
  have cs := (CS_fresh c hpos).run acts hb
  have hx : (stepA c σ.a .incl).daInc < 2 ^ 64 := hlast
  obtain ⟨_, _, e⟩ := cs.crash_inside .incl k hx
  refine ⟨?_, fun hadv => ?_⟩
  · rw [e]; exact incl_cut_exact cs.pdi cs.r.g.incLe hlast k hk
  · exact ((includerPass_inv (k / 3) σ.a σ.a [] (PassInv.init σ.a)).persisted hadv).2

/-! ## restart -/

/-- **A clean restart keeps the marks** (`SaveCache`), the DA double and the blocks, so "eventually" survives it: if
after the restart every height in `(daInc, h]` is stored with both marks present *in the node before the stop*, one
iteration of the inclusion loop reports `≥ h`. -/
theorem C07_eventually_after_clean_restart {c : Cfg} {a a' : ANode} (h : Nat)
    (hr : restart c a a.n.store true = some a') (hst : a.n.store.state ≠ none)
    (hm : ∀ k, a'.daInc < k → k ≤ h → k ≤ a.n.store.height ∧ ∃ b, a.n.store.getBlock k = some b ∧
      (markOf a.hMarks b.sh.hdr.hash).isSome ∧
      (b.data.daCommitment = emptyDataHash ∨ (markOf a.dMarks b.data.daCommitment).isSome)) :
    h ≤ (includerIter a').1.daInc := by
  obtain ⟨hM, hD, hblk, hht⟩ := restart_clean_keeps hr hst
  apply C07_eventually
  intro k k1 k2
  obtain ⟨r1, b, r2, r3, r4⟩ := hm k k1 k2
  exact ⟨Nat.le_trans r1 hht, b, by rw [hblk]; exact r2, by rw [hM]; exact r3, by rw [hD]; exact r4⟩

/-- **Durable; never decreases across a restart** (corollary of `C07_monotone_every_interleaving`): at the end of every
bounded history a restart on the node's image, after a clean stop or a crash between two actions, succeeds and reports
exactly the height the node reported before it, which is still at most the chain height. -/
theorem C07_restart_keeps_da_included (c : Cfg) (hpos : 1 ≤ c.initialHeight) (acts : List ActR) (clean : Bool)
    (hb : Bounded c (freshC c) acts) (hlast : (runR c (freshC c) acts).a.daInc < 2 ^ 64) :
    ∃ a', restart c (runR c (freshC c) acts).a (runR c (freshC c) acts).a.n.store clean = some a' ∧
      a'.daInc = (runR c (freshC c) acts).a.daInc ∧ a'.daInc ≤ a'.n.store.height := by
  have cs := (CS_fresh c hpos).run acts hb
  obtain ⟨a', hr, r', _⟩ := cs.r.restart clean
  obtain ⟨e, _⟩ := cs.pdi.restart hr hlast
  exact ⟨a', hr, e, r'.g.incLe⟩

/-- the block at `h` is stored and the DA double holds its header blob and (unless empty) its data blob -/
def onDA (a : ANode) (h : Nat) : Bool :=
  match a.n.store.getBlock h with
  | none => false
  | some b =>
    a.daBlobs.any (fun e => !e.2.1 && e.2.2 == b.sh.hdr.height) &&
    (decide (b.data.daCommitment = emptyDataHash) || a.daBlobs.any (fun e => e.2.1 && e.2.2 == dataHeight b))

def yCfg : Cfg := { chainId := "w", initialHeight := 1, genesisTime := 100, proposerAddr := [1], key := 1, signerAddr := [1] }

/-- full soundness statement, height by height: every reported height is a stored block whose **own** header blob
and (unless empty) **own** signed-data blob the DA double holds -/
def C07_sound_by_height_full : Prop :=
  ∀ (c : Cfg) (acts : List Act), 1 ≤ c.initialHeight →
    ∀ h, c.initialHeight ≤ h → h ≤ (runA c (freshA c) acts).daInc → onDA (runA c (freshA c) acts) h = true

/-- blocks 2 and 3 carry the same transaction list, hence the same data commitment; all headers are accepted, of the
data only that of block 2 (then the submission is cancelled); the inclusion loop runs -/
def qActs : List Act :=
  [.produce (.batch [] 150 []) .ok, .produce (.batch [[1]] 200 []) .ok, .produce (.batch [[1]] 300 []) .ok,
   .subH [], .subD [.ok (some 1), .canceled], .incl]

/-- **Height by height the statement is false of the model** (kernel-checked): the marks are keyed by data commitment
(`dataCache.SetDAIncluded(DACommitment)`), so block 3 — whose signed data was never accepted (`dataWm = 2`) — is reported
and finalized because block 2 has the same commitment.  What does hold for every interleaving is
`C07_sound_every_interleaving` (a stored block *with that commitment* is on the DA layer).  Model-level witness: to be
replayed on the real node before it is recorded as a finding. -/
theorem C07_sound_by_height_fails : ¬ C07_sound_by_height_full := by
  intro h
  have h1 : (runA yCfg (freshA yCfg) qActs).daInc = 3 ∧
      (runA yCfg (freshA yCfg) qActs).n.dataWm = 2 ∧
      onDA (runA yCfg (freshA yCfg) qActs) 3 = false := by decide +kernel
  have := h yCfg qActs (by decide) 3 (by decide) (by rw [h1.1]; exact Nat.le_refl _)
  rw [h1.2.2] at this
  cases this

/-- full statement, crash restarts included: once both parts of every block up to `h` are on the DA layer, the node
eventually (here: after one more header iteration, data iteration and inclusion pass with an accepting DA layer)
reports `h` — also when it crashed and restarted in between -/
def C07_eventually_after_crash_full : Prop :=
  ∀ (c : Cfg) (a a' : ANode) (h : Nat), restart c a a.n.store false = some a' →
    (∀ k, 1 ≤ k → k ≤ h → onDA a' k = true) →
    h ≤ (runOps a' [.subH [], .subD [], .incl]).daInc

/-- three blocks: the genesis block (empty) and two blocks with a transaction -/
def yRun : List (SeqResp × ExecResp) :=
  [(.batch [] 150 [], .ok), (.batch [[1]] 200 [], .ok), (.batch [[2]] 300 [], .ok)]
/-- all headers and all data accepted by the DA layer — but the inclusion loop has not run yet -/
def ySubmitted : ANode := runOps { freshA yCfg with n := run yCfg (freshNode yCfg) yRun } [.subH [], .subD []]
/-- … and the node crashes and restarts (the marks live only in memory until a clean stop) -/
def yCrashed : Option ANode := restart yCfg ySubmitted ySubmitted.n.store false

/-- without the crash the inclusion loop reports 3 and finalizes 1, 2, 3 in order -/
example : (includerIter ySubmitted).1.daInc = 3 ∧ (includerIter ySubmitted).1.finals = [3, 2, 1] := by
  decide +kernel

/-- the crashed node: watermarks at the chain height, no marks, everything on the DA layer -/
theorem yCrashed_facts : ∃ a', yCrashed = some a' ∧ a'.n.store.height = 3 ∧ a'.n.hdrWm = 3 ∧ a'.n.dataWm = 3 ∧
    a'.hMarks = [] ∧ a'.daInc = 0 ∧ onDA a' 1 = true ∧ onDA a' 2 = true ∧ onDA a' 3 = true := by
  have h : (match yCrashed with
      | some a' => decide (a'.n.store.height = 3) && decide (a'.n.hdrWm = 3) && decide (a'.n.dataWm = 3) &&
          decide (a'.hMarks.length = 0) && decide (a'.daInc = 0) && onDA a' 1 && onDA a' 2 && onDA a' 3
      | none => false) = true := by decide +kernel
  cases hc : yCrashed with
  | none => rw [hc] at h; simp at h
  | some a' =>
    rw [hc] at h
    simp only [Bool.and_eq_true, decide_eq_true_eq] at h
    obtain ⟨⟨⟨⟨⟨⟨⟨h1, h2⟩, h3⟩, h4⟩, h5⟩, h6⟩, h7⟩, h8⟩ := h
    exact ⟨a', rfl, h1, h2, h3, List.eq_nil_of_length_eq_zero h4, h5, h6, h7, h8⟩

/-- **After a crash the node is idle for ever**: nothing is pending (the watermarks are past all heights), the marks
are gone, so for *every* further sequence of header iterations, data iterations and inclusion passes, whatever the DA
layer answers, the node stays exactly as it is — the DA-included height stays 0 although all three blocks are on the
DA layer (recorded finding `C07/eventually/marks-lost-on-crash`). -/
theorem C07_stalls_for_ever_after_crash : ∃ a', yCrashed = some a' ∧ (∀ k, 1 ≤ k → k ≤ 3 → onDA a' k = true) ∧
    ∀ ops : List Op, runOps a' ops = a' ∧ (runOps a' ops).daInc = 0 := by
  obtain ⟨a', hc, h1, h2, h3, h4, h5, h6, h7, h8⟩ := yCrashed_facts
  have hidle : Idle a' :=
    { hdr := by omega, data := by omega, incl := incNext_none_of_no_marks h4 }
  refine ⟨a', hc, ?_, fun ops => ⟨idle_forever hidle ops, by rw [idle_forever hidle ops]; exact h5⟩⟩
  intro k k1 k2
  have : k = 1 ∨ k = 2 ∨ k = 3 := by omega
  rcases this with rfl | rfl | rfl <;> assumption

/-- **The full statement is false of the current code.** -/
theorem C07_eventually_after_crash_fails : ¬ C07_eventually_after_crash_full := by
  intro hfull
  obtain ⟨a', hc, hon, hstay⟩ := C07_stalls_for_ever_after_crash
  have := hfull yCfg ySubmitted a' 3 hc hon
  rw [(hstay _).2] at this
  omega

/-! ## end to end: with a DA layer that accepts, the DA-included height reaches the chain height -/

/-- **Eventually, end to end — no hypothesis on marks or DA content.**  For every initial height ≥ 1 and every history
without a crash (`CrashFree`: production, submission ticks with any DA answers — outages, partial acceptance, lost
acknowledgements, cancellations —, inclusion passes, clean restarts), once the DA layer accepts (after fewer than 30
non-cancellation failures per tick): one header tick, one data tick, one more data tick (any answers) and one inclusion
pass end with **DA-included height = chain height**; the chain height is unchanged.  (The invariant behind it, `MK`: in
such a history every committed height at or below a watermark still has its mark — in memory, or reloaded from the cache
files by a clean restart.  After a crash the marks are gone while the watermarks are not: `C07_eventually_after_crash_fails`.) -/
theorem C07_eventually_end_to_end (c : Cfg) (hpos : 1 ≤ c.initialHeight) (acts : List ActR) (hcf : CrashFree acts)
    (fh th fd td s2 : List DAAns)
    (hth : th.headD (.ok none) = .ok none) (hnh : DAAns.canceled ∉ fh) (hfh : fh.length < maxSubmitAttempts)
    (htd : td.headD (.ok none) = .ok none) (hnd : DAAns.canceled ∉ fd) (hfd : fd.length < maxSubmitAttempts) :
    let a := (runR c (freshC c) acts).a
    (runOps a [.subH (fh ++ th), .subD (fd ++ td), .subD s2, .incl]).daInc = a.n.store.height ∧
    (runOps a [.subH (fh ++ th), .subD (fd ++ td), .subD s2, .incl]).n.store.height = a.n.store.height := by
  intro a
  have ci := (CI_fresh c hpos).run acts
  have m : MK c a := (MK_fresh c hpos).run (CI_fresh c hpos) acts hcf
  exact eventually_four_ticks ci.r m fh th fd td s2 hth hnh hfh htd hnd hfd

/-- the positive counterpart of the refuted `C07_eventually_after_crash_full`: the same statement with a **clean** restart
(and the tick list that the repaired data loop needs: two data ticks) -/
def C07_eventually_after_clean_restart_full : Prop :=
  ∀ (c : Cfg) (acts : List ActR) (a' : ANode), 1 ≤ c.initialHeight → CrashFree acts →
    restart c (runR c (freshC c) acts).a (runR c (freshC c) acts).a.n.store true = some a' →
    (runOps a' [.subH [], .subD [], .subD [], .incl]).daInc = a'.n.store.height

theorem C07_eventually_after_clean_restart_holds : C07_eventually_after_clean_restart_full := by
  intro c acts a' hpos hcf hr
  have hcf' : CrashFree (acts ++ [.restart true]) := by
    intro x hx
    rcases List.mem_append.mp hx with h | h
    · exact hcf x h
    · right; simpa using h
  have h := (C07_eventually_end_to_end c hpos (acts ++ [.restart true]) hcf' [] [] [] [] [] rfl (by simp) (by decide) rfl
    (by simp) (by decide)).1
  have e : (runR c (freshC c) (acts ++ [.restart true])).a = a' := by
    show (List.foldl (stepR c) (freshC c) (acts ++ [.restart true])).a = a'
    rw [List.foldl_append]
    show (match Submit.restart c (runR c (freshC c) acts).a (runR c (freshC c) acts).a.n.store true with
      | some a' => (⟨a', (runR c (freshC c) acts).a.n.store, []⟩ : CSt)
      | none => runR c (freshC c) acts).a = a'
    rw [hr]
  rw [e] at h
  exact h

/-- the general reason: a node with nothing pending and no mark for the next block never changes again -/
theorem C07_idle_for_ever {a : ANode} (h1 : a.n.store.height = a.n.hdrWm)
    (h2 : a.n.store.height = a.n.dataWm)
    (h3 : a.hMarks = []) (ops : List Op) : runOps a ops = a :=
  idle_forever ⟨h1, h2, incNext_none_of_no_marks h3⟩ ops

/-- **Partial statement** (everything except the refuted case: clean restarts): see
`C07_eventually_after_clean_restart` — stated once more in the form of the full statement, with the marks as the
hypothesis instead of the DA content. -/
theorem C07_eventually_partial {c : Cfg} {a a' : ANode} (h : Nat)
    (hr : restart c a a.n.store true = some a') (hst : a.n.store.state ≠ none)
    (hm : ∀ k, a'.daInc < k → k ≤ h → k ≤ a.n.store.height ∧ ∃ b, a.n.store.getBlock k = some b ∧
      (markOf a.hMarks b.sh.hdr.hash).isSome ∧
      (b.data.daCommitment = emptyDataHash ∨ (markOf a.dMarks b.data.daCommitment).isSome)) :
    h ≤ (runOps a' [.incl]).daInc :=
  C07_eventually_after_clean_restart h hr hst hm

/-! ## every initial height ≥ 1 -/

/-- "eventually" for every initial height ≥ 1: on a node reached from a fresh start by any history (restarts and crashes
at write granularity included), if every committed height `initialHeight ≤ k ≤ h` is stored with its header hash marked and
its data commitment empty or marked, one iteration of the inclusion loop reports `≥ h` -/
def C07_eventually_initial_height_full : Prop :=
  ∀ (c : Cfg) (acts : List ActR) (h : Nat), 1 ≤ c.initialHeight →
    (∀ k, c.initialHeight ≤ k → k ≤ h → k ≤ (runR c (freshC c) acts).a.n.store.height ∧
      ∃ b, (runR c (freshC c) acts).a.n.store.getBlock k = some b ∧
        (markOf (runR c (freshC c) acts).a.hMarks b.sh.hdr.hash).isSome ∧
        (b.data.daCommitment = emptyDataHash ∨
          (markOf (runR c (freshC c) acts).a.dMarks b.data.daCommitment).isSome)) →
    h ≤ (includerIter (runR c (freshC c) acts).a).1.daInc

/-- **it holds** (until /repo 81db44d `daIncludedHeight` started at 0, the inclusion loop asked for block 1, which does
not exist on a chain with initial height > 1, and the DA-included height never left 0: finding
`C07/eventually/initial-height-above-1`, fixed; it was refuted by the witness below) -/
theorem C07_eventually_initial_height : C07_eventually_initial_height_full := by
  intro c acts h hpos hm
  have hlow := (C07_bounds_every_interleaving c hpos acts).1
  exact C07_eventually _ h (fun k k1 k2 => hm k (by omega) k2)

def v3Cfg : Cfg := { chainId := "w", initialHeight := 3, genesisTime := 100, proposerAddr := [1], key := 1, signerAddr := [1] }
/-- initial height 3: two blocks (3: the genesis block, 4: one transaction), all headers and data accepted -/
def v3Acts : List Act :=
  [.produce (.batch [] 150 []) .ok, .produce (.batch [[1]] 200 []) .ok, .subH [], .subD []]

/-- **The witness that refuted the statement now reports**, evaluated by the kernel: the node starts with the
DA-included height 2 = `initialHeight − 1` (nothing persisted under `d`); with both blocks on the DA layer and marked one
inclusion pass finalizes 3 and 4 in order and reports 4 = chain height, persisted. -/
theorem C07_old_witness_now_reports :
    (freshA v3Cfg).daInc = 2 ∧ (freshA v3Cfg).n.store.getMeta daIncKey = none ∧
    (runA v3Cfg (freshA v3Cfg) v3Acts).n.store.height = 4 ∧ (runA v3Cfg (freshA v3Cfg) v3Acts).daInc = 2 ∧
    onDA (runA v3Cfg (freshA v3Cfg) v3Acts) 3 = true ∧ onDA (runA v3Cfg (freshA v3Cfg) v3Acts) 4 = true ∧
    (includerIter (runA v3Cfg (freshA v3Cfg) v3Acts)).1.daInc = 4 ∧
    (includerIter (runA v3Cfg (freshA v3Cfg) v3Acts)).1.finals = [4, 3] ∧
    (includerIter (runA v3Cfg (freshA v3Cfg) v3Acts)).1.n.store.getMeta daIncKey = some (le64 4) := by
  decide +kernel

/-- … and `freshA` is what start-up computes on an empty disk; a restart (clean or after a crash) before anything was
reported starts at `initialHeight − 1` again, after the report at the persisted height -/
example : restart v3Cfg {} {} true = some (freshA v3Cfg) := restart_empty v3Cfg true

example : ((restart v3Cfg (freshA v3Cfg) (freshA v3Cfg).n.store false).map (·.daInc)) = some 2 ∧
    ((restart v3Cfg (includerIter (runA v3Cfg (freshA v3Cfg) v3Acts)).1
      (includerIter (runA v3Cfg (freshA v3Cfg) v3Acts)).1.n.store false).map (·.daInc)) = some 4 := by
  decide +kernel

/-! ## non-vacuity -/

/-- the hypotheses of `C07_eventually` hold of the node with everything submitted (`h = 3`) -/
example : ∀ k, ySubmitted.daInc < k → k ≤ 3 → k ≤ ySubmitted.n.store.height ∧
    ∃ b, ySubmitted.n.store.getBlock k = some b ∧ (markOf ySubmitted.hMarks b.sh.hdr.hash).isSome ∧
      (b.data.daCommitment = emptyDataHash ∨ (markOf ySubmitted.dMarks b.data.daCommitment).isSome) := by
  have h : ∀ k ∈ [1, 2, 3], k ≤ ySubmitted.n.store.height ∧
      ((ySubmitted.n.store.getBlock k).map fun b => (markOf ySubmitted.hMarks b.sh.hdr.hash).isSome &&
        (decide (b.data.daCommitment = emptyDataHash) || (markOf ySubmitted.dMarks b.data.daCommitment).isSome)) = some true := by
    decide +kernel
  intro k k1 k2
  have hk : k ∈ [1, 2, 3] := by simp; omega
  obtain ⟨r1, r2⟩ := h k hk
  refine ⟨r1, ?_⟩
  cases hb : ySubmitted.n.store.getBlock k with
  | none => rw [hb] at r2; simp at r2
  | some b =>
    rw [hb] at r2
    simp only [Option.map_some, Option.some.injEq, Bool.and_eq_true, Bool.or_eq_true, decide_eq_true_eq] at r2
    exact ⟨b, rfl, r2.1, r2.2⟩

/-- a clean restart of the same node keeps the marks: the inclusion loop then reports 3 -/
example : ((restart yCfg ySubmitted ySubmitted.n.store true).map fun a' => (includerIter a').1.daInc) = some 3 := by
  decide +kernel

/-- an interleaving: produce, submit headers through a DA outage, include (block 1 is empty: reported), produce a
non-empty block, submit headers only, include (not reported: its data is missing) -/
def yMixed : ANode := runA yCfg (freshA yCfg)
  [.produce (.batch [] 150 []) .ok, .subH [.error, .ok none], .incl, .produce (.batch [[1]] 200 []) .ok, .subH [], .incl]

/-- … then submit data and include: reported, finalized in order -/
example : yMixed.daInc = 1 ∧ (runA yCfg yMixed [.subD [], .incl]).daInc = 2 ∧
    (runA yCfg yMixed [.subD [], .incl]).finals = [2, 1] := by
  decide +kernel

/-- a crash at every write boundary of an inclusion pass (three blocks, nine durable writes: `rhb/h`, `rhb/d`, `d` per
height): the restarted node reports 0, 0, 0, 1, 1, 1, 2, 2, 2, 3 — the `d` writes that became durable —, the execution
layer had been asked to finalize 1, 2, 3 before, the marks are gone -/
example : (List.range 10).map (fun k =>
      (stepR yCfg (stepR yCfg ⟨ySubmitted, ySubmitted.n.store, []⟩ (.act .incl)) (.crash k)).a.daInc) =
      [0, 0, 0, 1, 1, 1, 2, 2, 2, 3] ∧
    (stepR yCfg (stepR yCfg ⟨ySubmitted, ySubmitted.n.store, []⟩ (.act .incl)) (.crash 4)).a.finals = [3, 2, 1] ∧
    (stepR yCfg (stepR yCfg ⟨ySubmitted, ySubmitted.n.store, []⟩ (.act .incl)) (.crash 4)).a.hMarks = [] := by
  decide +kernel

end Spec.C07
