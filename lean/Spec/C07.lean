import Model.Submit

/-! # C07 — the DA-included height is sound, monotone, durable and eventually reached
(first theorems; the pass invariant is under construction) -/
namespace Spec.C07
open Wire Chain Producer Submit

/-- a pass of the inclusion loop never lowers the DA-included height -/
theorem includerPass_monotone (fuel : Nat) (a : ANode) (ws : List SW) :
    a.daInc ≤ (includerPass fuel a ws).1.daInc := by
  induction fuel generalizing a ws with
  | zero => simp [includerPass]
  | succ n ih =>
    unfold includerPass
    simp only
    split
    · split
      · exact Nat.le_refl _
      · split
        · exact Nat.le_refl _
        · split
          · exact Nat.le_refl _
          · rename_i dd _
            refine Nat.le_trans ?_ (ih _ _)
            simp
    · exact Nat.le_refl _

end Spec.C07
