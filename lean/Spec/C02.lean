import Proofs.SyncWitness
import Proofs.SyncProducer
import Spec.C01

/-!
# C02 — a full node converges to exactly the proposer's chain under any delivery order

Model: `Sync.onHeader`, `Sync.onData`, `Sync.trySync`, `Sync.start` (`block/sync.go` `SyncLoop`,
`trySyncNextBlock`, `handleEmptyDataHash`, `NewManager` without signer) — the definitions the driver
`drv_C02` executes and the correspondence check compares with the real `SyncLoop` on every run.

Setting (`Proofs/SyncBase`): `ch : Nat → Option Block` is the proposer's chain on heights
`[c.initialHeight, top]`; `GoodChain c ch top` says every block passes `execValidate` (the syncer's own
validation) against the state derived from its predecessor (`Spec.C01` proves that of every chain the
sequencer node commits).  Events `Ev.hdr k | Ev.dat k` deliver the genuine header / data of height `k`
(adversarial items are C03).  DA and P2P ingress, duplication, delay and interleaving are all just *some event
list*: every theorem quantifies over **all** event lists.  `run c ch evs` folds the events from
`Sync.boot c {}` (`NewManager`, then the start of `SyncLoop`); `runOps` additionally allows a clean stop/restart
(`Sync.boot` on the node's own store with the caches kept) at any position.

**Which events.**  `Ev.hdr k | Ev.dat k` index the *genuine* parts of the chain.  Headers are signed (C03: a header
that is not the proposer's is never admitted).  **Data received over P2P is not signed**: anybody can gossip a
`Data` item naming any height.  Such items are the `JOp.junk d` operations of `runJ`: `d` is *any* `Data` whose
claimed height lies outside the chain or which `types.Validate` rejects against the proposer's header of that
height (`JunkData`; data that does validate against that header carries the committed transactions up to a
collision of the data commitment — that is `Ev.dat`).  Safety, (b) and (c) are proved for runs **with** junk items
anywhere (`C02_junk_data_harmless`, after /repo 4bb2ed2; before it one junk item for the next height terminated
the loop).  Convergence (d) is proved for runs **without** junk items and is false with them
(`C02_converges_junk_fails`, recorded finding): this is an explicit hypothesis of `C02_converges_partial`,
`C02_reaches_top` and of everything in `Spec.C05` / `Spec.FNode` that concludes a height is reached.
-/
namespace Spec.C02
open Wire Chain Sync

variable {c : Cfg} {ch : PChain} {top : Nat}

/-- `run` starts from what `NewManager` (`Sync.start`) builds on an empty store; the start of `SyncLoop` finds
nothing to apply there (`Sync.boot` = `start`, then `loopStart`) -/
theorem run_starts_from_start (c : Cfg) : ∃ ws, Sync.start c {} = some (fresh c, ws) := start_fresh c

theorem run_starts_from_boot (g : GoodChain c ch top) : ∃ ws, Sync.boot c {} = some (fresh c, ws) := boot_fresh g

/-! ## (a) safety, (c) the loop never dies — for every event list with restarts anywhere -/

/-- **(a) Safety.**  Whatever was delivered, in whatever order and multiplicity, with clean restarts anywhere:
every block stored at a height up to the chain height is the proposer's — same signed header (hence the same
header hash), same transaction list, for a non-empty block the very same data (an empty block's data is built
locally and has no transactions); the stored chain height is the height of the state; the state is the one
obtained by executing the proposer's blocks up to that height. -/
theorem C02_safety (g : GoodChain c ch top) (ops : List Op) :
    (runOps c ch ops).store.height = (runOps c ch ops).lastState.lastHeight ∧
    (runOps c ch ops).lastState = stateAt c ch (runOps c ch ops).store.height ∧
    ∀ k, c.initialHeight ≤ k → k ≤ (runOps c ch ops).store.height →
      ∃ b sb, ch k = some b ∧ (runOps c ch ops).store.getBlock k = some sb ∧
        sb.sh = b.sh ∧ sb.sh.hdr.hash = b.sh.hdr.hash ∧ sb.data.txs = b.data.txs ∧
        (b.data.txs ≠ [] → sb.data = b.data) ∧ (IsEmpty b → sb.data.txs = []) := by
  have hs := runOps_safe g ops
  refine ⟨hs.hs g, hs.st, fun k h1 h2 => ?_⟩
  obtain ⟨b, sb, hb, hsb, e1, _, e3, e4⟩ := hs.chain k h1 h2
  exact ⟨b, sb, hb, hsb, e1, by rw [e1], e3, e4, fun he => by rw [e3]; exact g.emptyTxs k b hb he⟩

/-- **(a) State root.**  The node's application state root after height `h` is the root the proposer itself
recorded for that point: the `appHash` of the proposer's next header. -/
theorem C02_state_root (g : GoodChain c ch top) (ops : List Op) (b : Block)
    (hb : ch ((runOps c ch ops).store.height + 1) = some b) :
    (runOps c ch ops).lastState.appHash = b.sh.hdr.appHash := by
  rw [(runOps_safe g ops).st, (g.facts hb).appHash, Nat.add_sub_cancel]

/-- **(c) The loop never dies on genuine events.** -/
theorem C02_never_dies (g : GoodChain c ch top) (ops : List Op) : (runOps c ch ops).alive = true :=
  (runOps_safe g ops).alive

/-! ## (b) the height never decreases and no height is skipped -/

/-- **(b) Monotone along every prefix.** -/
theorem C02_height_monotone (g : GoodChain c ch top) (ops₁ ops₂ : List Op) :
    (runOps c ch ops₁).store.height ≤ (runOps c ch (ops₁ ++ ops₂)).store.height := by
  unfold runOps
  rw [runFrom_append]
  exact (runFrom_safe g ops₂ (runOps_safe g ops₁) (runOps_quiet g ops₁)).2.2

/-- **(b) No height is skipped, blocks are applied strictly in height order.**  The durable writes of every
single step are, for the consecutive heights `h+1, h+2, …, h'` (old and new chain height) and in this order:
**block `k`, state after `k`, chain height `k`** (the block is saved before the state that says it was
applied, /repo 99e45dc).  In particular the chain-height writes, the block saves (one `ExecuteTxs` call each)
and the state writes of the step go through `h+1 … h'` one by one, and the `i`-th applied block occupies the
positions `3i, 3i+1, 3i+2` of the step's writes with the proposer's block, its state, its height. -/
theorem C02_no_skip (g : GoodChain c ch top) (ops : List Op) (e : Ev) :
    let n := runOps c ch ops
    let r := deliver ch n e
    n.store.height ≤ r.1.store.height ∧
    heightWrites r.2 = List.range' (n.store.height + 1) (r.1.store.height - n.store.height) ∧
    savedHeights r.2 = List.range' (n.store.height + 1) (r.1.store.height - n.store.height) ∧
    stateWrites r.2 = (List.range' (n.store.height + 1) (r.1.store.height - n.store.height)).map (stateAt c ch) ∧
    r.2.length = 3 * (r.1.store.height - n.store.height) ∧
    ∀ i, i < r.1.store.height - n.store.height →
      ∃ b sb, ch (n.store.height + 1 + i) = some b ∧
        sb.sh = b.sh ∧ sb.savedSig = b.sh.sig ∧ sb.data.txs = b.data.txs ∧
        r.2[3 * i]? = some (.saveBlock (n.store.height + 1 + i) sb) ∧
        r.2[3 * i + 1]? = some (.updateState (stateAt c ch (n.store.height + 1 + i))) ∧
        r.2[3 * i + 2]? = some (.setHeight (n.store.height + 1 + i)) := by
  intro n r
  have a := (deliver_safe g (runOps_safe g ops) e).2
  obtain ⟨c1, c2, c3, c4⟩ := a.consecutive
  refine ⟨a.le, c1, c2, c3, c4, fun i hi => ?_⟩
  obtain ⟨b, sb, x1, ⟨y1, y2, y3, _⟩, x3, x4, x5⟩ := a.order i hi
  exact ⟨b, sb, x1, y1, y2, y3, x3, x4, x5⟩

/-- a step never touches a block at or below the chain height -/
theorem C02_committed_never_replaced (g : GoodChain c ch top) (ops : List Op) (e : Ev) (k : Nat)
    (hk : k ≤ (runOps c ch ops).store.height) :
    ((runOps c ch ops).store.applyAll (deliver ch (runOps c ch ops) e).2).getBlock k = (runOps c ch ops).store.getBlock k :=
  (deliver_safe g (runOps_safe g ops) e).2.keeps _ k hk

/-! ## (d) convergence -/

/-- the node never runs ahead of what was delivered (no assumption on commitments) -/
theorem C02_no_overshoot (g : GoodChain c ch top) (ops : List Op) :
    (runOps c ch ops).store.height ≤ ready c ch top (evsOf ops) := by
  have hs := runOps_safe g ops
  obtain ⟨r1, _, r3⟩ := ready_spec g (evsOf ops)
  by_cases h : (runOps c ch ops).store.height ≤ ready c ch top (evsOf ops)
  · exact h
  · exact absurd (hs.sound (ready c ch top (evsOf ops) + 1) (by omega) (by omega)) r3

/-- `ready` is the largest height up to which both parts of every block have been delivered -/
theorem ready_is_largest (g : GoodChain c ch top) (evs : List Ev) :
    (∀ k, c.initialHeight ≤ k → k ≤ ready c ch top evs → Delivered ch evs k) ∧
    ¬ Delivered ch evs (ready c ch top evs + 1) :=
  ⟨(ready_spec g evs).2.1, (ready_spec g evs).2.2⟩

/-- **(d) Convergence, strongest true form.**  If the non-empty blocks of the chain have pairwise different
data commitments (and different heights different header hashes), then for **every** event list — any order,
any multiplicity, clean restarts anywhere — the chain height is exactly `ready`: the node has applied every
block up to the largest height for which both parts of all blocks were delivered.  (`_partial`: the excluded
chains are refuted below.) -/
theorem C02_converges_partial (g : GoodChain c ch top) (dc : DistinctCommitments ch) (ops : List Op) :
    (runOps c ch ops).store.height = ready c ch top (evsOf ops) := by
  apply Nat.le_antisymm (C02_no_overshoot g ops)
  have hi := runOps_inv g dc ops
  exact hi.converges _ (fun k a b => (ready_spec g (evsOf ops)).2.1 k (by omega) b)

/-- the same for plain event lists -/
theorem C02_converges_partial_run (g : GoodChain c ch top) (dc : DistinctCommitments ch) (evs : List Ev) :
    (run c ch evs).store.height = ready c ch top evs := by
  have := C02_converges_partial g dc (evs.map .ev)
  rwa [← run_eq_runOps, evsOf_map] at this

/-- when everything has been delivered the node holds the whole chain -/
theorem C02_reaches_top (g : GoodChain c ch top) (dc : DistinctCommitments ch) (ops : List Op)
    (hall : ∀ k, c.initialHeight ≤ k → k ≤ top → Delivered ch (evsOf ops) k) :
    top ≤ (runOps c ch ops).store.height :=
  (runOps_inv g dc ops).converges top (fun k a b => hall k (by omega) b)

/-! ## (e) clean restart -/

/-- **(e) A clean restart changes nothing the loop reads.**  Model of a clean stop/restart: the caches are handed
over unchanged (the real node writes them to the cache files with `gob` and reads them back — that this round trip
is lossless is checked by the correspondence stream on every run, it is not a theorem), `NewManager` runs on the
node's own store and `SyncLoop` starts (`Sync.boot`).  Events still in the channel buffers at the stop are lost in
the real node; they count as *not delivered* here.  The statement: `boot` succeeds; the start of the loop finds
nothing applicable (the node was quiet when it stopped); chain height, state, both caches, both seen-sets and
every stored block up to the chain height are unchanged (only metadata — the DA submission watermarks — may be
written).  Theorems (a)–(d) above are stated for `runOps`, i.e. with restarts at any positions. -/
theorem C02_restart_transparent (g : GoodChain c ch top) (ops : List Op) :
    let n := runOps c ch ops
    (∃ ws, Sync.boot c n.store n = some (reboot c n, ws)) ∧
    (reboot c n).store.height = n.store.height ∧ (reboot c n).lastState = n.lastState ∧
    (reboot c n).hdrCache = n.hdrCache ∧ (reboot c n).datCache = n.datCache ∧
    (reboot c n).seenH = n.seenH ∧ (reboot c n).seenD = n.seenD ∧ (reboot c n).alive = true ∧
    (∀ k, k ≤ n.store.height → (reboot c n).store.getBlock k = n.store.getBlock k) := by
  intro n
  obtain ⟨b1, b2⟩ := reboot_spec g (runOps_safe g ops) (runOps_quiet g ops)
  obtain ⟨_, a2, a3, a4, a5, a6, a7, a8, a9, _⟩ := restart_spec g (runOps_safe g ops)
  rw [b2] at b1 ⊢
  exact ⟨b1, a2, a3, a4, a5, a6, a7, a8, a9⟩

/-- after every step of every run nothing is applicable: the next block's header or data is missing -/
theorem C02_quiet (g : GoodChain c ch top) (ops : List Op) :
    ¬ ((runOps c ch ops).store.height + 1 ∈ keysH (runOps c ch ops) ∧
       (runOps c ch ops).store.height + 1 ∈ keysD (runOps c ch ops)) :=
  runOps_quiet g ops

/-! ## junk data events (unauthenticated P2P data) -/

/-- **Junk data is harmless for safety.**  For every run of genuine events, clean restarts and — anywhere, any
number — data events carrying *any* `Data` that does not validate against the proposer's header of the height it
claims (`JunkOK`): the loop is alive ((c)), every stored block up to the chain height is the proposer's and the
state is the state after exactly that height ((a)), the height is monotone along the run ((b)), and it never
exceeds `ready` of the *genuine* events (junk completes nothing).  Before /repo 4bb2ed2 one junk item cached for
the next height terminated the loop when the genuine header arrived (`C02_junk_witness`). -/
theorem C02_junk_data_harmless (g : GoodChain c ch top) (js : List JOp) (hj : JunkOK ch js) :
    (runJ c ch js).alive = true ∧
    (runJ c ch js).store.height = (runJ c ch js).lastState.lastHeight ∧
    (runJ c ch js).lastState = stateAt c ch (runJ c ch js).store.height ∧
    (∀ k, c.initialHeight ≤ k → k ≤ (runJ c ch js).store.height →
      ∃ b sb, ch k = some b ∧ (runJ c ch js).store.getBlock k = some sb ∧
        sb.sh = b.sh ∧ sb.savedSig = b.sh.sig ∧ sb.data.txs = b.data.txs ∧ (b.data.txs ≠ [] → sb.data = b.data)) ∧
    (runJ c ch js).store.height ≤ ready c ch top (evsOf (opsOf js)) ∧
    (∀ j1 j2, js = j1 ++ j2 → (runJ c ch j1).store.height ≤ (runJ c ch js).store.height) := by
  have hs := runJ_safe g js hj
  refine ⟨hs.alive, hs.hs g, hs.st, hs.chain, ?_, ?_⟩
  · obtain ⟨r1, _, r3⟩ := ready_spec g (evsOf (opsOf js))
    by_cases h : (runJ c ch js).store.height ≤ ready c ch top (evsOf (opsOf js))
    · exact h
    · exact absurd (hs.sound (ready c ch top (evsOf (opsOf js)) + 1) (by omega) (by omega)) r3
  · intro j1 j2 e
    subst e
    have h1 : JunkOK ch j1 := fun d hd => hj d (List.mem_append_left _ hd)
    have h2 : JunkOK ch j2 := fun d hd => hj d (List.mem_append_right _ hd)
    have hs1 := runJFrom_safe g j1 h1 (fresh_safe g).weaken (fresh_quiet g)
    unfold runJ
    rw [runJFrom_append]
    exact (runJFrom_safe g j2 h2 hs1.1 hs1.2.1).2.2

/-- a run without junk items is a `runOps` run (so the theorem above contains (a)–(c)) -/
theorem runJ_without_junk (c : Cfg) (ch : PChain) (ops : List Op) : runJ c ch (ops.map .op) = runOps c ch ops :=
  runJ_ops c ch ops

/-! ## the full statement is false of the current code -/

/-- the property as stated (no assumption on the chain beyond validity) -/
def C02_converges_full : Prop :=
  ∀ (c : Cfg) (ch : PChain) (top : Nat) (evs : List Ev), GoodChain c ch top →
    (run c ch evs).store.height = ready c ch top evs

/-- the witness chain (built by the producer model: block 1 empty, blocks 2 and 4 hold the same transaction
list `[[7]]`) is a good chain -/
theorem witness_good : GoodChain wC wch 4 := goodChain_of_check wC _ 4 (by decide) wf_check4

/-- **The full statement fails** (kernel-checked): all eight events delivered *in order*; the data of block 4
has the same commitment as the data of block 2 (the commitment ignores the metadata), is dropped as "already
seen", and the node stalls at height 3 although everything up to 4 was delivered.  Replayed on the real
`SyncLoop` by stream C02 (`C02/stall/tx-list-repeats-an-earlier-block`). -/
theorem C02_converges_fails : ¬ C02_converges_full := by
  intro h
  have := h wC wch 4 wInOrder witness_good
  rw [wf_stall, wf_ready4] at this
  exact absurd this (by decide)

theorem witness3_good : GoodChain wC wch3 3 := goodChain_of_check wC _ 3 (by decide) wf_check3
theorem witness3_distinct : DistinctCommitments wch3 := distinct_of_check 1 3 _ wf_distinct3

/-- `wJunk2` (the genuine metadata of block 2 with another transaction) is a junk item for the witness chain -/
theorem witness_junk : JunkData wch3 wJunk2 := junkData_of_check wf_junk.1

/-- **The witness of the repaired defect** (kernel-checked): header 1, then a junk data item for height 2, then the
genuine header 2 — the loop is alive at height 1 (before /repo 4bb2ed2: `SyncLoop` returned; replayed on the real
loop by stream C02, signature `C02/loop-terminated/junk-p2p-data-for-next-height`); when the genuine data 2 and
block 3 arrive the node holds the whole chain. -/
theorem C02_junk_witness :
    (runJ wC wch3 wJunkOps).alive = true ∧ (runJ wC wch3 wJunkOps).store.height = 1 ∧
    (runJ wC wch3 (wJunkOps ++ wJunkRest)).store.height = 3 ∧
    holdsChain3 (runJ wC wch3 (wJunkOps ++ wJunkRest)).store = true := wf_junk.2

/-- convergence as stated, for runs in which third parties take part: with junk data items anywhere the height is
`ready` of the genuine events -/
def C02_converges_junk_full : Prop :=
  ∀ (c : Cfg) (ch : PChain) (top : Nat) (js : List JOp), GoodChain c ch top → DistinctCommitments ch → JunkOK ch js →
    (runJ c ch js).store.height = ready c ch top (evsOf (opsOf js))

/-- **… which fails** (kernel-checked; distinct commitments, so this is not the finding above): the genuine data
of block 2 arrives first (cached at height 2), a junk item for height 2 **replaces it in the cache** (one slot per
height), header 2 arrives and the junk is dropped; header 3 and data 3 arrive: the node stays at height 1 although both
parts of every block up to 3 were delivered.  Recorded finding `C02/stall/junk-p2p-data-replaced-cached-data`; since
/repo c3c43a6 the stall is **not permanent** any more (the genuine data is not marked as seen while it is merely
cached): one more delivery of the genuine data 2 and the node holds the whole chain (`C02_junk_stall_recovers`,
`C02_junk_never_blocks_genuine_data`).  A full repair needs a cache that keeps several candidates per height or
authenticated P2P data. -/
theorem C02_converges_junk_fails : ¬ C02_converges_junk_full := by
  intro h
  have hj : JunkOK wch3 wJunkStall := by
    intro d hd
    have : d = wJunk2 := by
      simp only [wJunkStall, List.mem_cons, JOp.junk.injEq, reduceCtorEq, false_or, List.not_mem_nil, or_false] at hd
      exact hd
    rw [this]; exact witness_junk
  have := h wC wch3 3 wJunkStall witness3_good witness3_distinct hj
  rw [wf_junkStall.1, wf_junkStall.2.2.1] at this
  exact absurd this (by decide)

/-- … and the same run recovers as soon as the genuine data 2 is delivered once more -/
theorem C02_junk_stall_recovers :
    (runJ wC wch3 (wJunkStall ++ [.op (.ev (.dat 2))])).store.height = 3 := wf_junkStall.2.2.2.1

/-- **Junk never makes genuine data unacceptable** (after /repo c3c43a6; needs `DistinctCommitments`, the hypothesis of
the other recorded finding).  After ANY run with junk data items anywhere — including items that copy the genuine
transactions of a block, i.e. carry the genuine data commitment, under wrong metadata — the data seen-set names
commitments of **applied** blocks only, and for every non-empty block `k` above the chain height the genuine data
event is accepted: afterwards block `k` is applied or its genuine data is what the cache returns for height `k`
(in front of whatever junk was there), and it stays there until the block is applied; if `k` is the next height and
its header is cached, the block is applied by that very event.  (Before c3c43a6 one copy of the transactions of block
`k` under a wrong time made the genuine data of `k` "already seen" for ever — for the sync loop and for the DA
retriever, which consults the same set: `C02_junk_same_commitment_witness`.) -/
theorem C02_junk_never_blocks_genuine_data (g : GoodChain c ch top) (dc : DistinctCommitments ch) (js : List JOp)
    (hj : JunkOK ch js) :
    let n := runJ c ch js
    (∀ x, x ∈ n.seenD → ∃ k b, ch k = some b ∧ ¬ IsEmpty b ∧ x = b.data.daCommitment ∧ k ≤ n.store.height) ∧
    ∀ k b, ch k = some b → ¬ IsEmpty b → n.store.height < k →
      (k ≤ (deliver ch n (.dat k)).1.store.height ∨ getD (deliver ch n (.dat k)).1 k = some b.data) ∧
      (k = n.store.height + 1 → k ∈ keysH n → k ≤ (deliver ch n (.dat k)).1.store.height) := by
  intro n
  have hs := runJ_safe g js hj
  have hsa := runJ_seen g js hj
  exact ⟨hsa, fun k b hb hne hk => junk_never_blocks g dc hs hsa hb hne hk⟩

/-- `wJunkSame2` — the genuine transactions of block 2 (the genuine commitment) under a wrong time — is a junk item -/
theorem witness_junk_same : JunkData wch3 wJunkSame2 := junkData_of_check wf_junkStall.2.2.2.2.1

/-- **The witness of the defect repaired by /repo c3c43a6** (kernel-checked): a junk item with the *genuine data
commitment* of block 2, delivered before header 2 (`wSameA`) or after it (`wSameB`), then the genuine data 2 and
block 3: the node holds the whole chain.  Before the repair the copy marked the commitment as seen and the node stayed
at height 1 for ever (replayed on the real loop by stream C02: `junkdat h=2 same=1`, signature
`C02/stall/junk-p2p-data-marked-genuine-commitment-seen`). -/
theorem C02_junk_same_commitment_witness :
    (wch3 2).map (·.data.daCommitment) = some wJunkSame2.daCommitment ∧
    (runJ wC wch3 wSameA).store.height = 3 ∧ holdsChain3 (runJ wC wch3 wSameA).store = true ∧
    (runJ wC wch3 wSameB).store.height = 3 ∧ holdsChain3 (runJ wC wch3 wSameB).store = true :=
  wf_junkStall.2.2.2.2.2

/-! ## non-vacuity -/

/-- the hypotheses of (a)–(c) are met by a chain the producer model builds, with repeated transaction lists -/
example : GoodChain wC wch 4 ∧ wProd.store.height = 4 ∧
    (wch 2).map (·.data.txs) = some [[7]] ∧ (wch 4).map (·.data.txs) = some [[7]] :=
  ⟨witness_good, wf_chain⟩

/-- the hypotheses of (d) are met, and the theorem yields a non-trivial height: the first three blocks,
delivered out of order and with duplicates, are all applied -/
example : (run wC wch3 wShuffled).store.height = 3 := by
  rw [C02_converges_partial_run witness3_good witness3_distinct]; exact wf_readyShuffled

/-- (a) is not vacuous: on that run three blocks are stored, each the proposer's -/
example : ∀ k, 1 ≤ k → k ≤ 3 → ∃ b sb, wch3 k = some b ∧ (run wC wch3 wShuffled).store.getBlock k = some sb ∧ sb.sh = b.sh := by
  intro k h1 h2
  have h3 : (run wC wch3 wShuffled).store.height = 3 := by
    rw [C02_converges_partial_run witness3_good witness3_distinct]; exact wf_readyShuffled
  have := (C02_safety witness3_good (wShuffled.map .ev)).2.2 k h1 (by rw [← run_eq_runOps, h3]; exact h2)
  rw [← run_eq_runOps] at this
  obtain ⟨b, sb, a, b', c', _⟩ := this
  exact ⟨b, sb, a, b', c'⟩

/-! ## the chains of C01 are good chains -/

/-- the full node's configuration for a given sequencer configuration (same genesis) -/
def syncCfg (pc : Producer.Cfg) : Cfg :=
  { chainId := pc.chainId, initialHeight := pc.initialHeight, genesisTime := pc.genesisTime,
    proposerAddr := pc.proposerAddr, genesisRoot := pc.genesisRoot }

/-- the committed chain of a sequencer node -/
def chainOf (pc : Producer.Cfg) (pn : Producer.Node) : PChain :=
  clip pc.initialHeight pn.store.height pn.store.getBlock

/-- **No block of the chain in hand is a second pre-image of the empty commitment**: a block of `ch` whose data
commitment is the commitment of the empty transaction list has no transactions.  This is a statement about the
finitely many blocks of one chain (it is decidable for a concrete chain and holds unless that chain contains an
explicit SHA-256 collision with the empty list) — **not** an assumption about all of SHA-256's domain.  The only
cryptographic assumption of the connection below; `goodChain_of_producer_or_collision` states the same with the
collision as an explicit alternative. -/
def EmptyCommitmentUnique (ch : PChain) : Prop :=
  ∀ k b, ch k = some b → b.data.daCommitment = emptyDataHash → b.data.txs = []

/-- an explicit second pre-image of the empty commitment inside the chain -/
def EmptyCommitmentCollision (ch : PChain) : Prop :=
  ∃ k b, ch k = some b ∧ b.data.txs ≠ [] ∧ b.data.daCommitment = Data.daCommitment {}

/-- **Every chain the sequencer node commits (C01) is a `GoodChain`**, i.e. the theorems of this file apply
to every chain of `Spec.C01`: for every list of sequencing-layer responses and execution outcomes. -/
theorem goodChain_of_producer {pc : Producer.Cfg} {pn : Producer.Node} (hi : Producer.Inv pc pn)
    (hm : Producer.MetaInv pc pn) (hcol : EmptyCommitmentUnique (chainOf pc pn)) :
    GoodChain (syncCfg pc) (chainOf pc pn) pn.store.height := by
  have hpos := hi.ihPos
  have dom : ∀ k b, chainOf pc pn k = some b → (pc.initialHeight ≤ k ∧ k ≤ pn.store.height) ∧ pn.store.getBlock k = some b := by
    intro k b hk
    unfold chainOf clip at hk
    split at hk
    · rename_i h; exact ⟨h, hk⟩
    · cases hk
  have at_ : ∀ k, pc.initialHeight ≤ k → k ≤ pn.store.height → chainOf pc pn k = pn.store.getBlock k := by
    intro k h1 h2; unfold chainOf clip; rw [if_pos ⟨h1, h2⟩]
  refine ⟨hpos, fun k b hk => (dom k b hk).1, ?_, ?_, ?_, ?_⟩
  · intro k h1 h2
    obtain ⟨b, hb, _⟩ := hi.chain k h1 h2
    exact ⟨b, by rw [at_ k h1 h2]; exact hb⟩
  · intro k b hk
    obtain ⟨⟨h1, h2⟩, hb⟩ := dom k b hk
    obtain ⟨b', hb', hv⟩ := Spec.C01.C01_full_node_validates hi k h1 h2
    rw [hb] at hb'; cases hb'
    have e : stateAt (syncCfg pc) (chainOf pc pn) (k - 1) = Spec.C01.stateBefore pc pn.store k := by
      unfold Spec.C01.stateBefore stateAt
      by_cases hk0 : k = pc.initialHeight
      · have : chainOf pc pn (k - 1) = none := by
          unfold chainOf clip; rw [if_neg (by omega)]
        rw [this, if_pos hk0]; subst hk0; rfl
      · rw [if_neg hk0, at_ (k - 1) (by omega) (by omega)]
        obtain ⟨p, hp, _⟩ := hi.chain (k - 1) (by omega) (by omega)
        rw [hp]; rfl
    rw [e]; exact hv
  · intro k b hk he
    obtain ⟨⟨h1, h2⟩, hb⟩ := dom k b hk
    obtain ⟨b', hb', hl⟩ := hi.chain k h1 h2
    rw [hb] at hb'; cases hb'
    exact hcol k b hk (by rw [hl.dataHash]; exact he)
  · intro k b hk _
    obtain ⟨⟨h1, h2⟩, hb⟩ := dom k b hk
    exact hm k b h1 h2 hb

/-- in particular from a fresh start, for every run of the producer -/
theorem goodChain_of_run (pc : Producer.Cfg) (hpos : 1 ≤ pc.initialHeight) (rs : List (Producer.SeqResp × Producer.ExecResp))
    (hcol : EmptyCommitmentUnique (chainOf pc (Producer.run pc (Producer.freshNode pc) rs))) :
    GoodChain (syncCfg pc) (chainOf pc (Producer.run pc (Producer.freshNode pc) rs))
      (Producer.run pc (Producer.freshNode pc) rs).store.height :=
  goodChain_of_producer (Producer.run_inv (Producer.freshNode_inv pc hpos) rs)
    (Producer.run_metaInv (Producer.freshNode_inv pc hpos) (Producer.freshNode_metaInv pc hpos) rs) hcol

/-- the same with the cryptographic assumption as an explicit alternative: every chain the sequencer node commits
is a `GoodChain`, **or it contains an explicit SHA-256 collision** (a block with transactions whose data
commitment equals the commitment of the empty list) -/
theorem goodChain_of_producer_or_collision {pc : Producer.Cfg} {pn : Producer.Node} (hi : Producer.Inv pc pn)
    (hm : Producer.MetaInv pc pn) :
    GoodChain (syncCfg pc) (chainOf pc pn) pn.store.height ∨ EmptyCommitmentCollision (chainOf pc pn) := by
  by_cases h : EmptyCommitmentUnique (chainOf pc pn)
  · exact Or.inl (goodChain_of_producer hi hm h)
  · right
    apply Classical.byContradiction
    intro hno
    apply h
    intro k b hb hc
    apply Classical.byContradiction
    intro ht
    exact hno ⟨k, b, hb, ht, hc⟩

/-- the hypothesis is met (by evaluation) on the witness chain the producer model builds -/
example : EmptyCommitmentUnique wch := fun k b hb hc =>
  witness_good.emptyTxs k b hb (by unfold IsEmpty; rw [← (witness_good.facts hb).dataHash]; exact hc)

/-! ## `DistinctCommitments` is a statement about the chain in hand

`DistinctCommitments ch` quantifies over the blocks **of `ch`** only (decidable for a concrete chain:
`CheckDistinct`).  Its `dcInj` half is the hypothesis the recorded finding violates.  Its `hashInj` half needs no
assumption beyond "no two *different* headers of the chain have the same SHA-256 hash": the headers of a good chain
at different heights are different (the header contains its height). -/

/-- no explicit SHA-256 collision among the headers of the chain: equal header hashes only for equal headers -/
def NoHeaderCollision (ch : PChain) : Prop :=
  ∀ j k bj bk, ch j = some bj → ch k = some bk → bj.sh.hdr.hash = bk.sh.hdr.hash → bj.sh.hdr = bk.sh.hdr

/-- … and no two non-empty blocks of the chain with different transaction lists and the same data commitment -/
def NoDataCollision (ch : PChain) : Prop :=
  ∀ j k bj bk, ch j = some bj → ch k = some bk → bj.data.daCommitment = bk.data.daCommitment →
    bj.data.txs = bk.data.txs

/-- the non-empty blocks of the chain carry pairwise different transaction lists (what the recorded finding
`C02/stall/tx-list-repeats-an-earlier-block` violates) -/
def DistinctTxLists (ch : PChain) : Prop :=
  ∀ j k bj bk, ch j = some bj → ch k = some bk → bj.data.txs ≠ [] → bj.data.txs = bk.data.txs → j = k

/-- **`DistinctCommitments` from what it is really about**: a good chain whose non-empty blocks have pairwise
different transaction lists satisfies `DistinctCommitments` unless it contains an explicit SHA-256 collision
(two different headers with the same hash, or two different transaction lists with the same commitment). -/
theorem distinctCommitments_of_txLists (g : GoodChain c ch top) (hH : NoHeaderCollision ch) (hD : NoDataCollision ch)
    (ht : DistinctTxLists ch) : DistinctCommitments ch := by
  constructor
  · intro j k bj bk hj hk e
    have := hH j k bj bk hj hk e
    rw [← (g.facts hj).height, ← (g.facts hk).height, this]
  · intro j k bj bk hj hk nj _ e
    have hne : bj.data.txs ≠ [] := fun h => nj ((g.empty_iff hj).mpr h)
    exact ht j k bj bk hj hk hne (hD j k bj bk hj hk e)


/-! ## small facts about single events (any node) -/

/-- a node whose sync loop has terminated ignores every further event -/
theorem dead_ignores_header (n : FNode) (sh : SHeader) (h : n.alive = false) : onHeader n sh = (n, []) := by
  simp [onHeader, h]

theorem dead_ignores_data (n : FNode) (d : Data) (h : n.alive = false) : onData n d = (n, []) := by
  simp [onData, h]

/-- an event at or below the current height changes nothing -/
theorem old_header_ignored (n : FNode) (sh : SHeader) (h : sh.hdr.height ≤ n.store.height) :
    onHeader n sh = (n, []) := by
  unfold onHeader; split <;> simp [h]

end Spec.C02
