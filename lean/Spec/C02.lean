import Model.Sync

/-! # C02 — a full node converges to exactly the proposer's chain under any delivery order
(placeholder: the full theorem set is under construction in Proofs/Sync*.lean) -/
namespace Spec.C02
open Wire Chain Sync

/-- a node whose sync loop has terminated ignores every further event -/
theorem dead_ignores_header (n : FNode) (sh : SHeader) (h : n.alive = false) : onHeader n sh = (n, []) := by
  simp [onHeader, h]

theorem dead_ignores_data (n : FNode) (d : Data) (h : n.alive = false) : onData n d = (n, []) := by
  simp [onData, h]

/-- an event at or below the current height changes nothing -/
theorem old_header_ignored (n : FNode) (sh : SHeader) (h : sh.hdr.height ≤ n.store.height) :
    onHeader n sh = (n, []) := by
  unfold onHeader; split <;> simp [h]

end Spec.C02
