import Proofs.SyncWitness
import Proofs.SyncProducer
import Spec.C01

/-!
# C02 — a full node converges to exactly the proposer's chain under any delivery order

Model: `Sync.onHeader`, `Sync.onData`, `Sync.trySync`, `Sync.start` (`block/sync.go` `SyncLoop`,
`trySyncNextBlock`, `handleEmptyDataHash`, `NewManager` without signer) — the definitions the driver
`drv_C02` executes and the correspondence check compares with the real `SyncLoop` on every run.

Setting (`Proofs/SyncBase`): `ch : Nat → Option Block` is the proposer's chain on heights
`[c.initialHeight, top]`; `GoodChain c ch top` says every block passes `execValidate` (the syncer's own
validation) against the state derived from its predecessor (`Spec.C01` proves that of every chain the
sequencer node commits).  Events `Ev.hdr k | Ev.dat k` deliver the genuine header / data of height `k`
(adversarial items are C03).  DA and P2P ingress, duplication, delay and interleaving are all just *some event
list*: every theorem quantifies over **all** event lists.  `run c ch evs` folds the events from
`Sync.start c {}`; `runOps` additionally allows a clean stop/restart (`Sync.start` on the node's own store
with the caches kept) at any position.
-/
namespace Spec.C02
open Wire Chain Sync

variable {c : Cfg} {ch : PChain} {top : Nat}

/-- `run` starts from what `Sync.start` builds on an empty store -/
theorem run_starts_from_start (c : Cfg) : ∃ ws, Sync.start c {} = some (fresh c, ws) := start_fresh c

/-! ## (a) safety, (c) the loop never dies — for every event list with restarts anywhere -/

/-- **(a) Safety.**  Whatever was delivered, in whatever order and multiplicity, with clean restarts anywhere:
every block stored at a height up to the chain height is the proposer's — same signed header (hence the same
header hash), same transaction list, for a non-empty block the very same data (an empty block's data is built
locally and has no transactions); the stored chain height is the height of the state; the state is the one
obtained by executing the proposer's blocks up to that height. -/
theorem C02_safety (g : GoodChain c ch top) (ops : List Op) :
    (runOps c ch ops).store.height = (runOps c ch ops).lastState.lastHeight ∧
    (runOps c ch ops).lastState = stateAt c ch (runOps c ch ops).store.height ∧
    ∀ k, c.initialHeight ≤ k → k ≤ (runOps c ch ops).store.height →
      ∃ b sb, ch k = some b ∧ (runOps c ch ops).store.getBlock k = some sb ∧
        sb.sh = b.sh ∧ sb.sh.hdr.hash = b.sh.hdr.hash ∧ sb.data.txs = b.data.txs ∧
        (b.data.txs ≠ [] → sb.data = b.data) ∧ (IsEmpty b → sb.data.txs = []) := by
  have hs := runOps_safe g ops
  refine ⟨hs.hs g, hs.st, fun k h1 h2 => ?_⟩
  obtain ⟨b, sb, hb, hsb, e1, _, e3, e4⟩ := hs.chain k h1 h2
  exact ⟨b, sb, hb, hsb, e1, by rw [e1], e3, e4, fun he => by rw [e3]; exact g.emptyTxs k b hb he⟩

/-- **(a) State root.**  The node's application state root after height `h` is the root the proposer itself
recorded for that point: the `appHash` of the proposer's next header. -/
theorem C02_state_root (g : GoodChain c ch top) (ops : List Op) (b : Block)
    (hb : ch ((runOps c ch ops).store.height + 1) = some b) :
    (runOps c ch ops).lastState.appHash = b.sh.hdr.appHash := by
  rw [(runOps_safe g ops).st, (g.facts hb).appHash, Nat.add_sub_cancel]

/-- **(c) The loop never dies on genuine events.** -/
theorem C02_never_dies (g : GoodChain c ch top) (ops : List Op) : (runOps c ch ops).alive = true :=
  (runOps_safe g ops).alive

/-! ## (b) the height never decreases and no height is skipped -/

/-- **(b) Monotone along every prefix.** -/
theorem C02_height_monotone (g : GoodChain c ch top) (ops₁ ops₂ : List Op) :
    (runOps c ch ops₁).store.height ≤ (runOps c ch (ops₁ ++ ops₂)).store.height := by
  unfold runOps
  rw [runFrom_append]
  exact (runFrom_safe g ops₂ (runOps_safe g ops₁)).2

/-- **(b) No height is skipped, blocks are applied strictly in height order.**  The durable writes of every
single step are, for the consecutive heights `h+1, h+2, …, h'` (old and new chain height) and in this order:
**block `k`, state after `k`, chain height `k`** (the block is saved before the state that says it was
applied, /repo 99e45dc).  In particular the chain-height writes, the block saves (one `ExecuteTxs` call each)
and the state writes of the step go through `h+1 … h'` one by one, and the `i`-th applied block occupies the
positions `3i, 3i+1, 3i+2` of the step's writes with the proposer's block, its state, its height. -/
theorem C02_no_skip (g : GoodChain c ch top) (ops : List Op) (e : Ev) :
    let n := runOps c ch ops
    let r := deliver ch n e
    n.store.height ≤ r.1.store.height ∧
    heightWrites r.2 = List.range' (n.store.height + 1) (r.1.store.height - n.store.height) ∧
    savedHeights r.2 = List.range' (n.store.height + 1) (r.1.store.height - n.store.height) ∧
    stateWrites r.2 = (List.range' (n.store.height + 1) (r.1.store.height - n.store.height)).map (stateAt c ch) ∧
    r.2.length = 3 * (r.1.store.height - n.store.height) ∧
    ∀ i, i < r.1.store.height - n.store.height →
      ∃ b sb, ch (n.store.height + 1 + i) = some b ∧
        sb.sh = b.sh ∧ sb.savedSig = b.sh.sig ∧ sb.data.txs = b.data.txs ∧
        r.2[3 * i]? = some (.saveBlock (n.store.height + 1 + i) sb) ∧
        r.2[3 * i + 1]? = some (.updateState (stateAt c ch (n.store.height + 1 + i))) ∧
        r.2[3 * i + 2]? = some (.setHeight (n.store.height + 1 + i)) := by
  intro n r
  have a := (deliver_safe g (runOps_safe g ops) e).2
  obtain ⟨c1, c2, c3, c4⟩ := a.consecutive
  refine ⟨a.le, c1, c2, c3, c4, fun i hi => ?_⟩
  obtain ⟨b, sb, x1, ⟨y1, y2, y3, _⟩, x3, x4, x5⟩ := a.order i hi
  exact ⟨b, sb, x1, y1, y2, y3, x3, x4, x5⟩

/-- a step never touches a block at or below the chain height -/
theorem C02_committed_never_replaced (g : GoodChain c ch top) (ops : List Op) (e : Ev) (k : Nat)
    (hk : k ≤ (runOps c ch ops).store.height) :
    ((runOps c ch ops).store.applyAll (deliver ch (runOps c ch ops) e).2).getBlock k = (runOps c ch ops).store.getBlock k :=
  (deliver_safe g (runOps_safe g ops) e).2.keeps _ k hk

/-! ## (d) convergence -/

/-- the node never runs ahead of what was delivered (no assumption on commitments) -/
theorem C02_no_overshoot (g : GoodChain c ch top) (ops : List Op) :
    (runOps c ch ops).store.height ≤ ready c ch top (evsOf ops) := by
  have hs := runOps_safe g ops
  obtain ⟨r1, _, r3⟩ := ready_spec g (evsOf ops)
  by_cases h : (runOps c ch ops).store.height ≤ ready c ch top (evsOf ops)
  · exact h
  · exact absurd (hs.sound (ready c ch top (evsOf ops) + 1) (by omega) (by omega)) r3

/-- `ready` is the largest height up to which both parts of every block have been delivered -/
theorem ready_is_largest (g : GoodChain c ch top) (evs : List Ev) :
    (∀ k, c.initialHeight ≤ k → k ≤ ready c ch top evs → Delivered ch evs k) ∧
    ¬ Delivered ch evs (ready c ch top evs + 1) :=
  ⟨(ready_spec g evs).2.1, (ready_spec g evs).2.2⟩

/-- **(d) Convergence, strongest true form.**  If the non-empty blocks of the chain have pairwise different
data commitments (and different heights different header hashes), then for **every** event list — any order,
any multiplicity, clean restarts anywhere — the chain height is exactly `ready`: the node has applied every
block up to the largest height for which both parts of all blocks were delivered.  (`_partial`: the excluded
chains are refuted below.) -/
theorem C02_converges_partial (g : GoodChain c ch top) (dc : DistinctCommitments ch) (ops : List Op) :
    (runOps c ch ops).store.height = ready c ch top (evsOf ops) := by
  apply Nat.le_antisymm (C02_no_overshoot g ops)
  have hi := runOps_inv g dc ops
  exact hi.converges _ (fun k a b => (ready_spec g (evsOf ops)).2.1 k (by omega) b)

/-- the same for plain event lists -/
theorem C02_converges_partial_run (g : GoodChain c ch top) (dc : DistinctCommitments ch) (evs : List Ev) :
    (run c ch evs).store.height = ready c ch top evs := by
  have := C02_converges_partial g dc (evs.map .ev)
  rwa [← run_eq_runOps, evsOf_map] at this

/-- when everything has been delivered the node holds the whole chain -/
theorem C02_reaches_top (g : GoodChain c ch top) (dc : DistinctCommitments ch) (ops : List Op)
    (hall : ∀ k, c.initialHeight ≤ k → k ≤ top → Delivered ch (evsOf ops) k) :
    top ≤ (runOps c ch ops).store.height :=
  (runOps_inv g dc ops).converges top (fun k a b => hall k (by omega) b)

/-! ## (e) clean restart -/

/-- **(e) A clean restart changes nothing the loop reads**: `Sync.start` on the node's own store with the
caches kept succeeds; chain height, state, both caches, both seen-sets and every stored block up to the chain
height are unchanged.  Theorems (a)–(d) above are stated for `runOps`, i.e. with restarts at any positions. -/
theorem C02_restart_transparent (g : GoodChain c ch top) (ops : List Op) :
    let n := runOps c ch ops
    (∃ ws, Sync.start c n.store n = some (restart c n, ws)) ∧
    (restart c n).store.height = n.store.height ∧ (restart c n).lastState = n.lastState ∧
    (restart c n).hdrCache = n.hdrCache ∧ (restart c n).datCache = n.datCache ∧
    (restart c n).seenH = n.seenH ∧ (restart c n).seenD = n.seenD ∧ (restart c n).alive = true ∧
    (∀ k, k ≤ n.store.height → (restart c n).store.getBlock k = n.store.getBlock k) := by
  intro n
  obtain ⟨a1, a2, a3, a4, a5, a6, a7, a8, a9, _⟩ := restart_spec g (runOps_safe g ops)
  exact ⟨a1, a2, a3, a4, a5, a6, a7, a8, a9⟩

/-! ## the full statement is false of the current code -/

/-- the property as stated (no assumption on the chain beyond validity) -/
def C02_converges_full : Prop :=
  ∀ (c : Cfg) (ch : PChain) (top : Nat) (evs : List Ev), GoodChain c ch top →
    (run c ch evs).store.height = ready c ch top evs

/-- the witness chain (built by the producer model: block 1 empty, blocks 2 and 4 hold the same transaction
list `[[7]]`) is a good chain -/
theorem witness_good : GoodChain wC wch 4 := goodChain_of_check wC _ 4 (by decide) wf_check4

/-- **The full statement fails** (kernel-checked): all eight events delivered *in order*; the data of block 4
has the same commitment as the data of block 2 (the commitment ignores the metadata), is dropped as "already
seen", and the node stalls at height 3 although everything up to 4 was delivered.  Replayed on the real
`SyncLoop` by stream C02 (`C02/stall/tx-list-repeats-an-earlier-block`). -/
theorem C02_converges_fails : ¬ C02_converges_full := by
  intro h
  have := h wC wch 4 wInOrder witness_good
  rw [wf_stall, wf_ready4] at this
  exact absurd this (by decide)

/-! ## non-vacuity -/

/-- the hypotheses of (a)–(c) are met by a chain the producer model builds, with repeated transaction lists -/
example : GoodChain wC wch 4 ∧ wProd.store.height = 4 ∧
    (wch 2).map (·.data.txs) = some [[7]] ∧ (wch 4).map (·.data.txs) = some [[7]] :=
  ⟨witness_good, wf_chain⟩

theorem witness3_good : GoodChain wC wch3 3 := goodChain_of_check wC _ 3 (by decide) wf_check3
theorem witness3_distinct : DistinctCommitments wch3 := distinct_of_check 1 3 _ wf_distinct3

/-- the hypotheses of (d) are met, and the theorem yields a non-trivial height: the first three blocks,
delivered out of order and with duplicates, are all applied -/
example : (run wC wch3 wShuffled).store.height = 3 := by
  rw [C02_converges_partial_run witness3_good witness3_distinct]; exact wf_readyShuffled

/-- (a) is not vacuous: on that run three blocks are stored, each the proposer's -/
example : ∀ k, 1 ≤ k → k ≤ 3 → ∃ b sb, wch3 k = some b ∧ (run wC wch3 wShuffled).store.getBlock k = some sb ∧ sb.sh = b.sh := by
  intro k h1 h2
  have h3 : (run wC wch3 wShuffled).store.height = 3 := by
    rw [C02_converges_partial_run witness3_good witness3_distinct]; exact wf_readyShuffled
  have := (C02_safety witness3_good (wShuffled.map .ev)).2.2 k h1 (by rw [← run_eq_runOps, h3]; exact h2)
  rw [← run_eq_runOps] at this
  obtain ⟨b, sb, a, b', c', _⟩ := this
  exact ⟨b, sb, a, b', c'⟩

/-! ## the chains of C01 are good chains -/

/-- the full node's configuration for a given sequencer configuration (same genesis) -/
def syncCfg (pc : Producer.Cfg) : Cfg :=
  { chainId := pc.chainId, initialHeight := pc.initialHeight, genesisTime := pc.genesisTime,
    proposerAddr := pc.proposerAddr, genesisRoot := pc.genesisRoot }

/-- the committed chain of a sequencer node -/
def chainOf (pc : Producer.Cfg) (pn : Producer.Node) : PChain :=
  clip pc.initialHeight pn.store.height pn.store.getBlock

/-- SHA-256 yields the commitment of the empty transaction list for no other list (a second pre-image would be
needed); the only cryptographic assumption of the connection below -/
def EmptyCommitmentUnique : Prop := ∀ d : Data, d.daCommitment = emptyDataHash → d.txs = []

/-- **Every chain the sequencer node commits (C01) is a `GoodChain`**, i.e. the theorems of this file apply
to every chain of `Spec.C01`: for every list of sequencing-layer responses and execution outcomes. -/
theorem goodChain_of_producer {pc : Producer.Cfg} {pn : Producer.Node} (hi : Producer.Inv pc pn)
    (hm : Producer.MetaInv pc pn) (hcol : EmptyCommitmentUnique) :
    GoodChain (syncCfg pc) (chainOf pc pn) pn.store.height := by
  have hpos := hi.ihPos
  have dom : ∀ k b, chainOf pc pn k = some b → (pc.initialHeight ≤ k ∧ k ≤ pn.store.height) ∧ pn.store.getBlock k = some b := by
    intro k b hk
    unfold chainOf clip at hk
    split at hk
    · rename_i h; exact ⟨h, hk⟩
    · cases hk
  have at_ : ∀ k, pc.initialHeight ≤ k → k ≤ pn.store.height → chainOf pc pn k = pn.store.getBlock k := by
    intro k h1 h2; unfold chainOf clip; rw [if_pos ⟨h1, h2⟩]
  refine ⟨hpos, fun k b hk => (dom k b hk).1, ?_, ?_, ?_, ?_⟩
  · intro k h1 h2
    obtain ⟨b, hb, _⟩ := hi.chain k h1 h2
    exact ⟨b, by rw [at_ k h1 h2]; exact hb⟩
  · intro k b hk
    obtain ⟨⟨h1, h2⟩, hb⟩ := dom k b hk
    obtain ⟨b', hb', hv⟩ := Spec.C01.C01_full_node_validates hi k h1 h2
    rw [hb] at hb'; cases hb'
    have e : stateAt (syncCfg pc) (chainOf pc pn) (k - 1) = Spec.C01.stateBefore pc pn.store k := by
      unfold Spec.C01.stateBefore stateAt
      by_cases hk0 : k = pc.initialHeight
      · have : chainOf pc pn (k - 1) = none := by
          unfold chainOf clip; rw [if_neg (by omega)]
        rw [this, if_pos hk0]; subst hk0; rfl
      · rw [if_neg hk0, at_ (k - 1) (by omega) (by omega)]
        obtain ⟨p, hp, _⟩ := hi.chain (k - 1) (by omega) (by omega)
        rw [hp]; rfl
    rw [e]; exact hv
  · intro k b hk he
    obtain ⟨⟨h1, h2⟩, hb⟩ := dom k b hk
    obtain ⟨b', hb', hl⟩ := hi.chain k h1 h2
    rw [hb] at hb'; cases hb'
    exact hcol b.data (by rw [hl.dataHash]; exact he)
  · intro k b hk _
    obtain ⟨⟨h1, h2⟩, hb⟩ := dom k b hk
    exact hm k b h1 h2 hb

/-- in particular from a fresh start, for every run of the producer -/
theorem goodChain_of_run (pc : Producer.Cfg) (hpos : 1 ≤ pc.initialHeight) (rs : List (Producer.SeqResp × Producer.ExecResp))
    (hcol : EmptyCommitmentUnique) :
    GoodChain (syncCfg pc) (chainOf pc (Producer.run pc (Producer.freshNode pc) rs))
      (Producer.run pc (Producer.freshNode pc) rs).store.height :=
  goodChain_of_producer (Producer.run_inv (Producer.freshNode_inv pc hpos) rs)
    (Producer.run_metaInv (Producer.freshNode_inv pc hpos) (Producer.freshNode_metaInv pc hpos) rs) hcol


/-! ## small facts about single events (any node) -/

/-- a node whose sync loop has terminated ignores every further event -/
theorem dead_ignores_header (n : FNode) (sh : SHeader) (h : n.alive = false) : onHeader n sh = (n, []) := by
  simp [onHeader, h]

theorem dead_ignores_data (n : FNode) (d : Data) (h : n.alive = false) : onData n d = (n, []) := by
  simp [onData, h]

/-- an event at or below the current height changes nothing -/
theorem old_header_ignored (n : FNode) (sh : SHeader) (h : sh.hdr.height ≤ n.store.height) :
    onHeader n sh = (n, []) := by
  unfold onHeader; split <;> simp [h]

end Spec.C02
