import Model.Config
import Model.ConfigGenesis
import Proofs.C18
import Gen.C18

/-! # C18 — every configuration option obeys flag > file > default and survives save/load;
a genesis file loads back equal and an invalid genesis is refused.

Part A: theorems for ALL tables and ALL values, under the table facts `TableOK`/`DefaultsStable`.
Part B: the table regenerated from the compiled /repo code on every run (`Gen.C18`) has these
facts — except for the known defects, for which the full statement is refuted on the generated
table and the strongest partial statement is proved.
Part C: the genesis file. -/
namespace Spec.C18
open Config

/-! ## Part A — all tables, all values -/

/-- **flag > file > default.**  Under `TableOK`, for every option and all command lines and file
contents, `Load` resolves the option to the value of the first given flag that names it, else to
what the file holds under the option's yaml path, else to the default — and reports that layer.
(`D`: what earlier loads left in memory shared with `DefaultConfig`; see `history_keeps_defaults`.) -/
theorem precedence {T : Table} {ncF ncf : List String} (h : TableOK T ncF ncf)
    {f : Field} (hf : f ∈ T.fields) (hc : f.go ∉ ncf) (D args file : Layer)
    (hD : D.lookup f.go = none) :
    resolve T D args file f = (specResolve T args file f, specSrc T args file f) := by
  obtain ⟨_, h2, _, _, _, h6, _, h8⟩ := h
  obtain ⟨hy, hm⟩ := h2 f hf hc
  unfold resolve specResolve specSrc givenFlag
  rw [if_neg hm, flagLayer_lookup T h6 f.ms, hy]
  cases (args.find? fun a => T.flags.any fun fl => fl.name = a.1 ∧ fl.key = f.ms) with
  | some a => rfl
  | none =>
    simp only [Option.map_none]
    cases file.lookup f.ms with
    | some v => rfl
    | none =>
      cases hd : flagDefault T f.ms with
      | some v =>
        obtain ⟨fl, hfl, hk, hv⟩ := flagDefault_some hd
        have : v = f.dflt := hv ▸ h8 fl hfl f hf hk.symm
        simp [this]
      | none => simp [startValue, hD]

/-- **Every registered flag reaches the option it names.**  Under `TableOK`, every flag that is
not in the explicit non-config list names exactly one option (its key is the option's path in the
file), and giving it on the command line sets that option, whatever the file and the defaults say. -/
theorem flag_reaches_its_option {T : Table} {ncF ncf : List String} (h : TableOK T ncF ncf)
    {fl : Flag} (hfl : fl ∈ T.flags) (hn : fl.key ∉ ncF) :
    ∃ f ∈ T.fields, fl.key = f.yaml ∧
      (∀ (D file : Layer) (v : String), resolve T D [(fl.name, v)] file f = (v, .flag)) ∧
      (∀ g ∈ T.fields, g.ms = fl.key → g = f) := by
  obtain ⟨h1, h2, h3, h4, _, h6, _, _⟩ := h
  rcases h1 fl hfl with hnc | ⟨f, hf, hk, hm⟩
  · exact absurd hnc hn
  · have hcfg : f.go ∉ ncf := fun hin => hm (h3 f hf hin).1
    refine ⟨f, hf, ?_, ?_, ?_⟩
    · rw [(h2 f hf hcfg).1, hk]
    · intro D file v
      unfold resolve
      rw [if_neg hm, flagLayer_lookup T h6 f.ms]
      have hany : (T.flags.any fun fl' => fl'.name = fl.name ∧ fl'.key = f.ms) = true := by
        rw [List.any_eq_true]; exact ⟨fl, hfl, by simp [hk]⟩
      have : ([(fl.name, v)] : Layer).find? (fun a => T.flags.any fun fl' => fl'.name = a.1 ∧ fl'.key = f.ms)
          = some (fl.name, v) := List.find?_cons_of_pos hany
      rw [this]; rfl
    · intro g hg hgk
      have hgm : g.ms ≠ "-" := by rw [hgk, ← hk]; exact hm
      have hg' : g ∈ T.fields.filter (fun f => f.ms ≠ "-") := List.mem_filter.mpr ⟨hg, by simpa using hgm⟩
      have hf' : f ∈ T.fields.filter (fun f => f.ms ≠ "-") := List.mem_filter.mpr ⟨hf, by simpa using hm⟩
      exact nodup_map_inj (·.ms) h4 hg' hf' (hgk.trans hk.symm)

/-- **Every option can be set from the configuration file** (when no flag naming it is given). -/
theorem file_sets_every_option {T : Table} {ncF ncf : List String} (h : TableOK T ncF ncf)
    {f : Field} (hf : f ∈ T.fields) (hc : f.go ∉ ncf) (D args file : Layer) (v : String)
    (hD : D.lookup f.go = none) (hnf : givenFlag T args f = none) :
    resolve T D args ((f.yaml, v) :: file) f = (v, .file) := by
  rw [precedence h hf hc D args _ hD]
  simp [specResolve, specSrc, hnf]

/-- neither flag nor file: the default -/
theorem default_when_absent {T : Table} {ncF ncf : List String} (h : TableOK T ncF ncf)
    {f : Field} (hf : f ∈ T.fields) (hc : f.go ∉ ncf) (D args file : Layer)
    (hD : D.lookup f.go = none) (hnf : givenFlag T args f = none) (hfile : file.lookup f.yaml = none) :
    resolve T D args file f = (f.dflt, .dflt) := by
  rw [precedence h hf hc D args _ hD]
  simp [specResolve, specSrc, hnf, hfile]

/-- a given flag beats the file -/
theorem flag_beats_file {T : Table} {ncF ncf : List String} (h : TableOK T ncF ncf)
    {f : Field} (hf : f ∈ T.fields) (hc : f.go ∉ ncf) (D args file : Layer) (v : String)
    (hD : D.lookup f.go = none) (hfl : givenFlag T args f = some v) :
    resolve T D args file f = (v, .flag) := by
  rw [precedence h hf hc D args _ hD]
  simp [specResolve, specSrc, hfl]

/-- **Save → load identity.**  Under `TableOK`, a configuration `c` written by `SaveAsYaml` and
read back by `Load` (no flags) gives every option the value that was written. -/
theorem save_load {T : Table} {ncF ncf : List String} (h : TableOK T ncF ncf)
    {f : Field} (hf : f ∈ T.fields) (hc : f.go ∉ ncf) (D : Layer) (c : String → String) :
    resolve T D [] (save T c) f = (c f.go, .file) := by
  obtain ⟨_, h2, h3, h4, _, _, _, _⟩ := h
  obtain ⟨hy, hm⟩ := h2 f hf hc
  have hall : ∀ g ∈ T.fields, g.yaml = g.ms := fun g hg => by
    by_cases hin : g.go ∈ ncf
    · rw [(h3 g hg hin).1, (h3 g hg hin).2]
    · exact (h2 g hg hin).1
  have hfilt : T.fields.filter (fun g => g.yaml ≠ "-") = T.fields.filter (fun g => g.ms ≠ "-") :=
    List.filter_congr fun g hg => by rw [hall g hg]
  have hnd : ((T.fields.filter (fun g => g.yaml ≠ "-")).map (·.yaml)).Nodup := by
    rw [hfilt]
    have : (T.fields.filter (fun g => g.ms ≠ "-")).map (·.yaml) = (T.fields.filter (fun g => g.ms ≠ "-")).map (·.ms) :=
      List.map_congr_left fun g hg => hall g (List.mem_filter.mp hg).1
    rw [this]; exact h4
  have hmem : f ∈ T.fields.filter (fun g => g.yaml ≠ "-") :=
    List.mem_filter.mpr ⟨hf, by simpa [hy] using hm⟩
  have hl : (save T c).lookup f.ms = some (c f.go) := by
    rw [← hy]; exact lookup_map_of_mem (·.yaml) (fun g => c g.go) hnd hmem
  unfold resolve
  rw [if_neg hm]
  simp [flagLayer, hl]

/-- the whole configuration survives save → load (fields outside the non-config list) -/
theorem save_load_all {T : Table} {ncF ncf : List String} (h : TableOK T ncF ncf)
    (D : Layer) (c : String → String) :
    (load T D [] (save T c)).filter (fun p => p.1 ∉ ncf) =
      ((T.fields.filter (fun f => f.go ∉ ncf)).map fun f => (f.go, c f.go)) := by
  unfold load
  rw [List.filter_map]
  rw [show (fun p : String × String => decide (p.1 ∉ ncf)) ∘ (fun f : Field => (f.go, (resolve T D [] (save T c) f).1))
        = fun f : Field => decide (f.go ∉ ncf) from rfl]
  apply List.map_congr_left
  intro f hf
  have := List.mem_filter.mp hf
  rw [save_load h this.1 (by simpa using this.2) D c]

/-- **Defaults are stable.**  If no option is decoded into memory shared with `DefaultConfig`,
no history of loads changes what the next load starts from. -/
theorem history_keeps_defaults {T : Table} (h : DefaultsStable T) (D : Layer) :
    ∀ ops : List (Layer × Layer), runLoads T D ops = D
  | [] => rfl
  | (a, fi) :: rest => by
    have hnil : T.fields.filter (·.shared) = [] :=
      List.filter_eq_nil_iff.mpr fun f hf => by simp [h f hf]
    have : nextDefaults T D a fi = D := by simp [nextDefaults, hnil]
    rw [runLoads, this]
    exact history_keeps_defaults h D rest

/-- Without `DefaultsStable`: an option that is *not* behind a shared pointer still starts from its
pristine default in every history of loads. -/
theorem history_keeps_unshared {T : Table} (hgo : (T.fields.map (·.go)).Nodup)
    {f : Field} (hf : f ∈ T.fields) (hs : f.shared = false) :
    ∀ (ops : List (Layer × Layer)) (D : Layer), D.lookup f.go = none → (runLoads T D ops).lookup f.go = none
  | [], _, hD => hD
  | (a, fi) :: rest, D, hD => by
    rw [runLoads]
    apply history_keeps_unshared hgo hf hs rest
    unfold nextDefaults
    rw [lookup_append_none _ _ _ ?_]
    · exact hD
    · apply lookup_map_none (fun g : Field => g.go) (fun g => (resolve T D a fi g).1) f.go
      intro g hg hgo'
      have hg' := List.mem_filter.mp hg
      have : g = f := nodup_map_inj (·.go) hgo hg'.1 hf hgo'
      rw [this, hs] at hg'
      exact absurd hg'.2 (by simp)

/-! ## Part B — the table of the compiled code (`Gen.C18`, regenerated on every run) -/

def table : Table := Table.ofRows Gen.C18.fields Gen.C18.flags

/-- flags that deliberately name no option: the home directory and the signer passphrase -/
def nonConfigFlags : List String := ["home", "signer.passphrase"]
/-- fields that deliberately are not options: the root directory (set from `--home`) -/
def nonConfigFields : List String := ["RootDir"]

/-- KNOWN DEFECT 1: `--rollkit.signer.type` / `--rollkit.signer.path` bind the viper keys
`signer.type` / `signer.path`; the struct fields decode from `signer.signer_type` /
`signer.signer_path`.  The flags are silently ignored. -/
def knownIgnoredFlags : List String := ["rollkit.signer.path", "rollkit.signer.type"]
/-- KNOWN DEFECT 2: `cfg := DefaultConfig` copies the `Instrumentation` pointer; `Load` decodes into
the shared struct, so the defaults of a later `Load` in the same process are what this one resolved. -/
def knownSharedPointers : List String := ["Instrumentation"]

/-- the full statement about the compiled code -/
def C18_table_full : Prop := TableOK table nonConfigFlags nonConfigFields
/-- … is false of the current code (witness: the generated table itself) -/
theorem C18_table_full_fails : ¬ C18_table_full := by unfold C18_table_full; decide

/-- the flags that reach no option are exactly the two known ones -/
theorem C18_ignored_flags_exact :
    (table.flags.filter fun fl => fl.key ∉ nonConfigFlags ∧ reached table fl = []).map (·.name)
      = knownIgnoredFlags := by decide

/-- the table minus exactly those two flags has every fact -/
theorem C18_table_partial : TableOK (table.dropFlags knownIgnoredFlags) nonConfigFlags nonConfigFields := by
  decide

/-- the two dropped flags bind keys no field decodes from, so dropping them changes `Load` for no field -/
theorem C18_dropped_flags_touch_no_field :
    ∀ f ∈ table.fields, ∀ fl ∈ table.flags, fl.name ∈ knownIgnoredFlags → fl.key ≠ f.ms := by decide

/-- the model's rule "a flag reaches the fields decoded from the key it binds" agrees with what the
compiled `Load` did for every registered flag when the facts were generated -/
theorem C18_reaches_agrees : ∀ fl ∈ table.flags, fl.reaches = reached table fl := by decide

/-- every option has a kind the correspondence stream generates values for -/
theorem C18_kinds_supported :
    ∀ f ∈ table.fields, f.kind ∈ ["string", "bool", "int", "uint", "float", "duration"] := by decide

/-- the full statement about default stability -/
def C18_defaults_full : Prop := DefaultsStable table
theorem C18_defaults_full_fails : ¬ C18_defaults_full := by unfold C18_defaults_full; decide
/-- everything shared is behind the one known pointer -/
theorem C18_defaults_partial : ∀ f ∈ table.fields, f.via = "" ∨ f.via ∈ knownSharedPointers := by decide

/-- **C18 for the compiled code, partial.**  In every history of loads in one process, for every
option that is not behind the known shared pointer, for all command lines and files: the real
table's `resolve` is flag > file > default, where only the two known-ignored flags do not count as
flags. -/
theorem C18_precedence_partial {f : Field} (hf : f ∈ table.fields) (hc : f.go ∉ nonConfigFields)
    (hv : f.via ∉ knownSharedPointers) (ops : List (Layer × Layer)) (args file : Layer) :
    resolve table (runLoads table [] ops) args file f =
      (specResolve (table.dropFlags knownIgnoredFlags) args file f,
       specSrc (table.dropFlags knownIgnoredFlags) args file f) := by
  have hs : f.shared = false := by
    rcases C18_defaults_partial f hf with h | h
    · simp [Field.shared, h]
    · exact absurd h hv
  have hD := history_keeps_unshared (T := table) C18_table_partial.2.2.2.2.1 hf hs ops [] rfl
  rw [← resolve_dropFlags table knownIgnoredFlags _ args file f (C18_dropped_flags_touch_no_field f hf)]
  exact precedence C18_table_partial hf hc _ args file hD

/-- the same for every option (shared or not) on the first load of a process -/
theorem C18_precedence_partial_first_load {f : Field} (hf : f ∈ table.fields) (hc : f.go ∉ nonConfigFields)
    (args file : Layer) :
    resolve table [] args file f =
      (specResolve (table.dropFlags knownIgnoredFlags) args file f,
       specSrc (table.dropFlags knownIgnoredFlags) args file f) := by
  rw [← resolve_dropFlags table knownIgnoredFlags _ args file f (C18_dropped_flags_touch_no_field f hf)]
  exact precedence C18_table_partial hf hc _ args file rfl

/-- every flag of the compiled code except the two known ones reaches exactly the option it names -/
theorem C18_flags_reach_partial {fl : Flag} (hfl : fl ∈ table.flags) (hk : fl.name ∉ knownIgnoredFlags)
    (hn : fl.key ∉ nonConfigFlags) :
    ∃ f ∈ table.fields, fl.key = f.yaml ∧
      (∀ (D file : Layer) (v : String), resolve table D [(fl.name, v)] file f = (v, .flag)) := by
  have hfl' : fl ∈ (table.dropFlags knownIgnoredFlags).flags :=
    List.mem_filter.mpr ⟨hfl, by simpa using hk⟩
  obtain ⟨f, hf, hy, hr, _⟩ := flag_reaches_its_option C18_table_partial hfl' hn
  refine ⟨f, hf, hy, fun D file v => ?_⟩
  rw [← resolve_dropFlags table knownIgnoredFlags _ _ file f (C18_dropped_flags_touch_no_field f hf)]
  exact hr D file v

/-- save → load identity holds for every option of the compiled code (the known defects do not touch it) -/
theorem C18_save_load {f : Field} (hf : f ∈ table.fields) (hc : f.go ∉ nonConfigFields)
    (D : Layer) (c : String → String) :
    resolve table D [] (save table c) f = (c f.go, .file) := by
  rw [← resolve_dropFlags table knownIgnoredFlags _ _ _ f (C18_dropped_flags_touch_no_field f hf)]
  exact save_load C18_table_partial hf hc D c

/-! ### non-vacuity -/

/-- the known-ignored flag on the generated table: the model's `Load` keeps the default -/
example : (table.fields.find? (·.go = "Signer.SignerType")).map
    (fun f => resolve table [] [("rollkit.signer.type", "grpc")] [] f) = some ("file", .dflt) := by decide
/-- a healthy flag on the generated table beats the file -/
example : (table.fields.find? (·.go = "Node.BlockTime")).map
    (fun f => resolve table [] [("rollkit.node.block_time", "7s")] [("node.block_time", "9s")] f)
      = some ("7s", .flag) := by decide
/-- the shared pointer: what one load read from the file is the next load's "default" -/
example : (table.fields.find? (·.go = "Instrumentation.Namespace")).map
    (fun f => resolve table (runLoads table [] [([], [("instrumentation.namespace", "x")])]) [] [] f)
      = some ("x", .stale) := by decide
example : TableOK (Table.ofRows [("A.B", "a.b", "a.b", "string", "d", "")] [("rollkit.a.b", "a.b", "string", "d", ["A.B"])]) [] [] := by
  decide

/-! ## Part C — the genesis file -/
open GenesisFile

/-- `Validate` accepts exactly when none of the four listed conditions holds -/
theorem validate_accepts_iff (g : Genesis) :
    validate g = none ↔ g.chainId ≠ [] ∧ 1 ≤ g.initialHeight ∧ g.time.isZero = false ∧ g.proposer ≠ none := by
  unfold validate
  cases hp : g.proposer <;> by_cases h1 : g.chainId = [] <;> by_cases h2 : g.initialHeight < 1 <;>
    cases h3 : g.time.isZero <;> simp [h1, h2] <;> omega

/-- … and names the first failing condition, in the order of the code -/
theorem validate_refuses (g : Genesis) (r : Refusal) :
    validate g = some r ↔
      (r = .chainId ∧ g.chainId = []) ∨
      (r = .initialHeight ∧ g.chainId ≠ [] ∧ g.initialHeight = 0) ∨
      (r = .daStartTime ∧ g.chainId ≠ [] ∧ 1 ≤ g.initialHeight ∧ g.time.isZero = true) ∨
      (r = .proposer ∧ g.chainId ≠ [] ∧ 1 ≤ g.initialHeight ∧ g.time.isZero = false ∧ g.proposer = none) := by
  unfold validate
  cases hp : g.proposer <;> by_cases h1 : g.chainId = [] <;> by_cases h2 : g.initialHeight < 1 <;>
    cases h3 : g.time.isZero <;> cases r <;> simp [h1, h2] <;> omega

/-- **A genesis written by the node loads back equal** (modulo the time location) … -/
theorem genesis_load_save (g : Genesis) (h : validate g = none) : GenesisFile.load (save g) = .ok (normLoc g) := by
  have hv : validate (parse (save g)) = validate g := rfl
  unfold GenesisFile.load; rw [hv, h]; rfl

/-- … **and an invalid genesis is refused**, for the reason `Validate` gives -/
theorem genesis_invalid_refused (g : Genesis) (r : Refusal) (h : validate g = some r) :
    GenesisFile.load (save g) = .error r := by
  have hv : validate (parse (save g)) = validate g := rfl
  unfold GenesisFile.load; rw [hv, h]

/-- loading never yields an invalid genesis -/
theorem genesis_loaded_is_valid (j : JFile) (g : Genesis) (h : GenesisFile.load j = .ok g) : validate g = none := by
  unfold GenesisFile.load at h
  cases hv : validate (parse j) with
  | some r => rw [hv] at h; cases h
  | none => rw [hv] at h; cases h; exact hv

example : validate { chainId := [1], time := ⟨0, 0, 0, "UTC"⟩, initialHeight := 1, proposer := some [] } = none := by decide
example : validate { chainId := [1], time := ⟨zeroUnix, 0, 60, "CET"⟩, initialHeight := 1, proposer := some [] } = some .daStartTime := by decide

end Spec.C18
