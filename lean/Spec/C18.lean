import Model.Config
import Model.ConfigGenesis
import Proofs.C18
import Gen.C18

/-! # C18 — every configuration option obeys flag > file > default and survives save/load;
a genesis file loads back equal and an invalid genesis is refused.

Part A: theorems for ALL tables and ALL values, under the table facts `TableOK`/`DefaultsStable`.
Part B: the table regenerated from the compiled /repo code on every run (`Gen.C18`) has these
facts, so the Part A theorems hold of the compiled code in full (the two defects for which they
used to be refuted on the generated table were repaired in /repo: b15f31a, 76d1c39).
Part C: the genesis file. -/
namespace Spec.C18
open Config

/-! ## Part A — all tables, all values -/

/-- **flag > file > default.**  Under `TableOK`, for every option and all command lines and file
contents, `Load` resolves the option to the value of the first given flag that names it, else to
what the file holds under the option's yaml path, else to the default — and reports that layer.
(`D`: what earlier loads left in memory shared with `DefaultConfig`; see `history_keeps_defaults`.) -/
theorem precedence {T : Table} {ncF ncf : List String} (h : TableOK T ncF ncf)
    {f : Field} (hf : f ∈ T.fields) (hc : f.go ∉ ncf) (D args file : Layer)
    (hD : D.lookup f.go = none) :
    resolve T D args file f = (specResolve T args file f, specSrc T args file f) := by
  obtain ⟨_, h2, _, _, _, h6, _, h8⟩ := h
  obtain ⟨hy, hm⟩ := h2 f hf hc
  unfold resolve specResolve specSrc givenFlag
  rw [if_neg hm, flagLayer_lookup T h6 f.ms, hy]
  cases (args.find? fun a => T.flags.any fun fl => fl.name = a.1 ∧ fl.key = f.ms) with
  | some a => rfl
  | none =>
    simp only [Option.map_none]
    cases file.lookup f.ms with
    | some v => rfl
    | none =>
      cases hd : flagDefault T f.ms with
      | some v =>
        obtain ⟨fl, hfl, hk, hv⟩ := flagDefault_some hd
        have : v = f.dflt := hv ▸ h8 fl hfl f hf hk.symm
        simp [this]
      | none => simp [startValue, hD]

/-- **Every registered flag reaches the option it names.**  Under `TableOK`, every flag that is
not in the explicit non-config list names exactly one option (its key is the option's path in the
file), and giving it on the command line sets that option, whatever the file and the defaults say. -/
theorem flag_reaches_its_option {T : Table} {ncF ncf : List String} (h : TableOK T ncF ncf)
    {fl : Flag} (hfl : fl ∈ T.flags) (hn : fl.key ∉ ncF) :
    ∃ f ∈ T.fields, fl.key = f.yaml ∧
      (∀ (D file : Layer) (v : String), resolve T D [(fl.name, v)] file f = (v, .flag)) ∧
      (∀ g ∈ T.fields, g.ms = fl.key → g = f) := by
  obtain ⟨h1, h2, h3, h4, _, h6, _, _⟩ := h
  rcases h1 fl hfl with hnc | ⟨f, hf, hk, hm⟩
  · exact absurd hnc hn
  · have hcfg : f.go ∉ ncf := fun hin => hm (h3 f hf hin).1
    refine ⟨f, hf, ?_, ?_, ?_⟩
    · rw [(h2 f hf hcfg).1, hk]
    · intro D file v
      unfold resolve
      rw [if_neg hm, flagLayer_lookup T h6 f.ms]
      have hany : (T.flags.any fun fl' => fl'.name = fl.name ∧ fl'.key = f.ms) = true := by
        rw [List.any_eq_true]; exact ⟨fl, hfl, by simp [hk]⟩
      have : ([(fl.name, v)] : Layer).find? (fun a => T.flags.any fun fl' => fl'.name = a.1 ∧ fl'.key = f.ms)
          = some (fl.name, v) := List.find?_cons_of_pos hany
      rw [this]; rfl
    · intro g hg hgk
      have hgm : g.ms ≠ "-" := by rw [hgk, ← hk]; exact hm
      have hg' : g ∈ T.fields.filter (fun f => f.ms ≠ "-") := List.mem_filter.mpr ⟨hg, by simpa using hgm⟩
      have hf' : f ∈ T.fields.filter (fun f => f.ms ≠ "-") := List.mem_filter.mpr ⟨hf, by simpa using hm⟩
      exact nodup_map_inj (·.ms) h4 hg' hf' (hgk.trans hk.symm)

/-- **Every option can be set from the configuration file** (when no flag naming it is given). -/
theorem file_sets_every_option {T : Table} {ncF ncf : List String} (h : TableOK T ncF ncf)
    {f : Field} (hf : f ∈ T.fields) (hc : f.go ∉ ncf) (D args file : Layer) (v : String)
    (hD : D.lookup f.go = none) (hnf : givenFlag T args f = none) :
    resolve T D args ((f.yaml, v) :: file) f = (v, .file) := by
  rw [precedence h hf hc D args _ hD]
  simp [specResolve, specSrc, hnf]

/-- neither flag nor file: the default -/
theorem default_when_absent {T : Table} {ncF ncf : List String} (h : TableOK T ncF ncf)
    {f : Field} (hf : f ∈ T.fields) (hc : f.go ∉ ncf) (D args file : Layer)
    (hD : D.lookup f.go = none) (hnf : givenFlag T args f = none) (hfile : file.lookup f.yaml = none) :
    resolve T D args file f = (f.dflt, .dflt) := by
  rw [precedence h hf hc D args _ hD]
  simp [specResolve, specSrc, hnf, hfile]

/-- a given flag beats the file -/
theorem flag_beats_file {T : Table} {ncF ncf : List String} (h : TableOK T ncF ncf)
    {f : Field} (hf : f ∈ T.fields) (hc : f.go ∉ ncf) (D args file : Layer) (v : String)
    (hD : D.lookup f.go = none) (hfl : givenFlag T args f = some v) :
    resolve T D args file f = (v, .flag) := by
  rw [precedence h hf hc D args _ hD]
  simp [specResolve, specSrc, hfl]

/-- **Save → load identity, at the level of key paths.**  Under `TableOK`, when every value comes
back from the file as it was written (`save` — which is what the YAML writer/reader pair does for
the values described by `Yaml.YamlSafe`, see `loadSaved_of_safe`, and NOT for all values), `Load`
(no flags) gives every option the value that was written. -/
theorem save_load {T : Table} {ncF ncf : List String} (h : TableOK T ncF ncf)
    {f : Field} (hf : f ∈ T.fields) (hc : f.go ∉ ncf) (D : Layer) (c : String → String) :
    resolve T D [] (save T c) f = (c f.go, .file) := by
  obtain ⟨_, h2, h3, h4, _, _, _, _⟩ := h
  obtain ⟨hy, hm⟩ := h2 f hf hc
  have hall : ∀ g ∈ T.fields, g.yaml = g.ms := fun g hg => by
    by_cases hin : g.go ∈ ncf
    · rw [(h3 g hg hin).1, (h3 g hg hin).2]
    · exact (h2 g hg hin).1
  have hfilt : T.fields.filter (fun g => g.yaml ≠ "-") = T.fields.filter (fun g => g.ms ≠ "-") :=
    List.filter_congr fun g hg => by rw [hall g hg]
  have hnd : ((T.fields.filter (fun g => g.yaml ≠ "-")).map (·.yaml)).Nodup := by
    rw [hfilt]
    have : (T.fields.filter (fun g => g.ms ≠ "-")).map (·.yaml) = (T.fields.filter (fun g => g.ms ≠ "-")).map (·.ms) :=
      List.map_congr_left fun g hg => hall g (List.mem_filter.mp hg).1
    rw [this]; exact h4
  have hmem : f ∈ T.fields.filter (fun g => g.yaml ≠ "-") :=
    List.mem_filter.mpr ⟨hf, by simpa [hy] using hm⟩
  have hl : (save T c).lookup f.ms = some (c f.go) := by
    rw [← hy]; exact lookup_map_of_mem (·.yaml) (fun g => c g.go) hnd hmem
  unfold resolve
  rw [if_neg hm]
  simp [flagLayer, hl]

/-- the whole configuration survives save → load (fields outside the non-config list) -/
theorem save_load_all {T : Table} {ncF ncf : List String} (h : TableOK T ncF ncf)
    (D : Layer) (c : String → String) :
    (load T D [] (save T c)).filter (fun p => p.1 ∉ ncf) =
      ((T.fields.filter (fun f => f.go ∉ ncf)).map fun f => (f.go, c f.go)) := by
  unfold load
  rw [List.filter_map]
  rw [show (fun p : String × String => decide (p.1 ∉ ncf)) ∘ (fun f : Field => (f.go, (resolve T D [] (save T c) f).1))
        = fun f : Field => decide (f.go ∉ ncf) from rfl]
  apply List.map_congr_left
  intro f hf
  have := List.mem_filter.mp hf
  rw [save_load h this.1 (by simpa using this.2) D c]

/-- When every string option holds a value the YAML writer/reader pair preserves, what the reader
presents after `SaveAsYaml c` is `save T c`: every key with the value that was written. -/
theorem saveYaml_of_safe {T : Table} {c : String → String} (h : AllYamlSafe T c) :
    saveYaml T c = .file (save T c) [] := by
  have hsame : ∀ f ∈ T.fields.filter (fun f => f.yaml ≠ "-"), fieldOutcome c f = .same := by
    intro f hf
    have hf' := (List.mem_filter.mp hf).1
    unfold fieldOutcome
    split
    · next hk => exact eq_of_beq (h f hf' hk)
    · rfl
  unfold saveYaml
  have h1 : (T.fields.filter (fun f => f.yaml ≠ "-")).any (fun f => fieldOutcome c f == .unmodelled) = false := by
    rw [List.any_eq_false]; intro f hf; rw [hsame f hf]; decide
  have h2 : (T.fields.filter (fun f => f.yaml ≠ "-")).any (fun f => fieldOutcome c f == .fileBroken) = false := by
    rw [List.any_eq_false]; intro f hf; rw [hsame f hf]; decide
  have h3 : (T.fields.filter (fun f => f.yaml ≠ "-")).filter (fun f => fieldOutcome c f == .loadError) = [] := by
    rw [List.filter_eq_nil_iff]; intro f hf; rw [hsame f hf]; decide
  have h4 : (T.fields.filter (fun f => f.yaml ≠ "-")).map (fun f => (f.yaml, yamlValue c f)) = save T c := by
    unfold save
    apply List.map_congr_left
    intro f hf
    unfold yamlValue
    rw [hsame f hf]
  simp only [h1, h2, h3, h4, Bool.false_eq_true, if_false, List.map_nil]

/-- … so `SaveAsYaml c` followed by `Load` is `Load` of that file: no error, nothing unmodelled -/
theorem loadSaved_of_safe {α : Type} {T : Table} {c : String → String} (h : AllYamlSafe T c)
    (args : Layer) (g : Layer → α) : loadSaved T args c g = .ok (g (save T c)) := by
  unfold loadSaved
  rw [saveYaml_of_safe h]
  rfl

theorem savedFile_of_safe {T : Table} {c : String → String} (h : AllYamlSafe T c) :
    savedFile T c = save T c := by
  unfold savedFile
  rw [saveYaml_of_safe h]

/-- **Defaults are stable.**  If no option is decoded into memory shared with `DefaultConfig`,
no history of loads changes what the next load starts from. -/
theorem history_keeps_defaults {T : Table} (h : DefaultsStable T) (D : Layer) :
    ∀ ops : List (Layer × Layer), runLoads T D ops = D
  | [] => rfl
  | (a, fi) :: rest => by
    have hnil : T.fields.filter (·.shared) = [] :=
      List.filter_eq_nil_iff.mpr fun f hf => by simp [h f hf]
    have : nextDefaults T D a fi = D := by simp [nextDefaults, hnil]
    rw [runLoads, this]
    exact history_keeps_defaults h D rest

/-- **A `Load` does not depend on earlier loads.**  Under `DefaultsStable`, after any history of
load and save→load steps through one command, a `Load` returns what the first `Load` of a process
returns for the same command line and the same file: the result is a function of (command line,
file as it is now, defaults) only. -/
theorem load_independent_of_history {T : Table} (h : DefaultsStable T) (D args : Layer)
    (ops : List HistOp) (file : Layer) :
    load T (runHistory T D args ops) args file = load T D args file := by
  unfold runHistory
  rw [history_keeps_defaults h D]

/-- Without `DefaultsStable`: an option that is *not* behind a shared pointer still starts from its
pristine default in every history of loads. -/
theorem history_keeps_unshared {T : Table} (hgo : (T.fields.map (·.go)).Nodup)
    {f : Field} (hf : f ∈ T.fields) (hs : f.shared = false) :
    ∀ (ops : List (Layer × Layer)) (D : Layer), D.lookup f.go = none → (runLoads T D ops).lookup f.go = none
  | [], _, hD => hD
  | (a, fi) :: rest, D, hD => by
    rw [runLoads]
    apply history_keeps_unshared hgo hf hs rest
    unfold nextDefaults
    rw [lookup_append_none _ _ _ ?_]
    · exact hD
    · apply lookup_map_none (fun g : Field => g.go) (fun g => (resolve T D a fi g).1) f.go
      intro g hg hgo'
      have hg' := List.mem_filter.mp hg
      have : g = f := nodup_map_inj (·.go) hgo hg'.1 hf hgo'
      rw [this, hs] at hg'
      exact absurd hg'.2 (by simp)

/-! ## Part B — the table of the compiled code (`Gen.C18`, regenerated on every run) -/

def table : Table := Table.ofRows Gen.C18.fields Gen.C18.flags

/-- flags that deliberately name no option: the home directory and the signer passphrase -/
def nonConfigFlags : List String := ["home", "signer.passphrase"]
/-- fields that deliberately are not options: the root directory (set from `--home`) -/
def nonConfigFields : List String := ["RootDir"]

/-- **The table of the compiled code has every table fact**: every registered flag (other than
`--home` and the signer passphrase) is bound to the key of exactly one option, every field (other
than `RootDir`) is written by `SaveAsYaml` under the key `Load` decodes it from, keys and names are
distinct, and every flag's registered default is the option's default.

(Until /repo commit b15f31a this was false — witness: `--rollkit.signer.type` / `--rollkit.signer.path`
were bound to `signer.type` / `signer.path`, keys no field decodes from — and only the statement
about the table without those two flags was proved.) -/
theorem C18_table_full : TableOK table nonConfigFlags nonConfigFields := by decide

/-- no registered flag of the compiled code is silently ignored: the flags that reach no option are
exactly the listed non-config ones -/
theorem C18_no_flag_ignored :
    (table.flags.filter fun fl => fl.key ∉ nonConfigFlags ∧ reached table fl = []) = [] := by decide

/-- the model's rule "a flag reaches the fields decoded from the key it binds" agrees with what the
compiled `Load` did for every registered flag when the facts were generated -/
theorem C18_reaches_agrees : ∀ fl ∈ table.flags, fl.reaches = reached table fl := by decide

/-- every option has a kind the correspondence stream generates values for -/
theorem C18_kinds_supported :
    ∀ f ∈ table.fields, f.kind ∈ ["string", "bool", "int", "uint", "float", "duration"] := by decide

/-- **No option of the compiled code is decoded into memory shared with `DefaultConfig`.**
(Until /repo commit 76d1c39 this was false — witness: every option behind the `Instrumentation`
pointer.) -/
theorem C18_defaults_full : DefaultsStable table := by decide

/-- **C18 for the compiled code.**  In every history of loads in one process, for every option, for
all command lines and files: the real table's `resolve` is flag > file > default, and reports the
layer that supplied the value. -/
theorem C18_precedence {f : Field} (hf : f ∈ table.fields) (hc : f.go ∉ nonConfigFields)
    (ops : List (Layer × Layer)) (args file : Layer) :
    resolve table (runLoads table [] ops) args file f =
      (specResolve table args file f, specSrc table args file f) := by
  rw [history_keeps_defaults C18_defaults_full [] ops]
  exact precedence C18_table_full hf hc _ args file rfl

/-- every flag of the compiled code that is not in the non-config list reaches exactly the option it
names, whatever the file and an earlier load say -/
theorem C18_flags_reach {fl : Flag} (hfl : fl ∈ table.flags) (hn : fl.key ∉ nonConfigFlags) :
    ∃ f ∈ table.fields, fl.key = f.yaml ∧
      (∀ (D file : Layer) (v : String), resolve table D [(fl.name, v)] file f = (v, .flag)) ∧
      (∀ g ∈ table.fields, g.ms = fl.key → g = f) :=
  flag_reaches_its_option C18_table_full hfl hn

/-! ### save → load at the value level

`SaveAsYaml` writes with goccy/go-yaml, `Load` reads with yaml.v3 + mapstructure; the pair does not
preserve every string (`Model/ConfigYaml.lean`).  The full statement "for every configuration" is
therefore FALSE of the code; it is refuted by one witness per known finding, and the statement for
configurations whose string options are `YamlSafe` is proved. -/

/-- `SaveAsYaml c`, then `Load` without flags as the first load of a process: every option comes
back with the value that was written, from the file -/
def SaveLoadIdentity (T : Table) (c : String → String) : Prop :=
  ∀ f ∈ T.fields, f.go ∉ nonConfigFields →
    loadSaved T [] c (fun file => resolve T [] [] file f) = .ok (c f.go, .file)

instance (T : Table) (c : String → String) : Decidable (SaveLoadIdentity T c) := by
  unfold SaveLoadIdentity; infer_instance

/-- the full statement: for EVERY configuration (every option holds a value of its kind) -/
def C18_save_load_full : Prop := ∀ c : String → String, WellTyped table c → SaveLoadIdentity table c

/-- the default configuration with one option changed -/
def cfgWith (k v : String) : String → String := fun go =>
  if go = k then v else ((table.fields.find? (fun f => f.go = go)).map (·.dflt)).getD ""

/-- what comes back for option `go` (first load of a process, no flags) -/
def loadedBack (go : String) (c : String → String) : Option (Loaded (String × Src)) :=
  (table.fields.find? (·.go = go)).map fun f => loadSaved table [] c (fun file => resolve table [] [] file f)

/-- KNOWN FINDING `saveload/numeric-looking-string-retyped`: `12e4` is written bare and read as a float -/
theorem C18_save_load_fails_numeric : ¬ SaveLoadIdentity table (cfgWith "DA.Namespace" "12e4") := by decide
example : loadedBack "DA.Namespace" (cfgWith "DA.Namespace" "12e4") = some (.ok ("120000", .file)) := by decide
example : loadedBack "DA.Namespace" (cfgWith "DA.Namespace" ".inf") = some (.ok ("+Inf", .file)) := by decide
/-- KNOWN FINDING `saveload/carriage-return-rewritten` -/
theorem C18_save_load_fails_carriage_return : ¬ SaveLoadIdentity table (cfgWith "DA.Namespace" "cr\rlf") := by decide
example : loadedBack "DA.Namespace" (cfgWith "DA.Namespace" "cr\rlf") = some (.ok ("cr\nlf", .file)) := by decide
example : loadedBack "DA.Namespace" (cfgWith "DA.Namespace" "\r") = some (.ok ("", .file)) := by decide
/-- KNOWN FINDING `saveload/file-unparsable-silently-ignored`: `?` written bare; the reader refuses
the file, `Load` discards the error: EVERY option silently gets its default (here: another option) -/
theorem C18_save_load_fails_unparsable : ¬ SaveLoadIdentity table (cfgWith "DA.Namespace" "?") := by decide
example : loadedBack "ChainID" (fun go => if go = "ChainID" then "mychain" else cfgWith "DA.Namespace" "?" go)
    = (table.fields.find? (·.go = "ChainID")).map (fun f => .ok (f.dflt, .dflt)) := by decide
/-- KNOWN FINDING `saveload/control-character-file-unparsable-silently-ignored` -/
theorem C18_save_load_fails_control : ¬ SaveLoadIdentity table (cfgWith "DA.Namespace" "a\x01b") := by decide
/-- KNOWN FINDING `saveload/radix-or-leading-zero-string-retyped` -/
theorem C18_save_load_fails_radix : ¬ SaveLoadIdentity table (cfgWith "DA.Namespace" "0X1F") := by decide
example : loadedBack "DA.Namespace" (cfgWith "DA.Namespace" "0X1F") = some (.ok ("31", .file)) := by decide
example : loadedBack "DA.Namespace" (cfgWith "DA.Namespace" "0009") = some (.ok ("9", .file)) := by decide
/-- KNOWN FINDING `saveload/date-like-string-refused`: the reader makes a `time.Time`, `Load` FAILS -/
theorem C18_save_load_fails_date : ¬ SaveLoadIdentity table (cfgWith "DA.Namespace" "2001-1-1") := by decide
example : loadedBack "DA.Namespace" (cfgWith "DA.Namespace" "2001-1-1") = some .error := by decide
/-- KNOWN FINDING `saveload/lone-newline-lost` -/
theorem C18_save_load_fails_lone_newline : ¬ SaveLoadIdentity table (cfgWith "DA.Namespace" "\n") := by decide

/-- the witnesses are configurations -/
theorem C18_witness_well_typed : WellTyped table (cfgWith "DA.Namespace" "12e4") := by decide

/-- **the full statement is false of the compiled code** -/
theorem C18_save_load_full_fails : ¬ C18_save_load_full :=
  fun h => C18_save_load_fails_numeric (h _ C18_witness_well_typed)

/-- the default configuration is well typed and all its strings are preserved by the YAML pair
(re-checked against the compiled defaults on every run) -/
theorem C18_defaults_yaml_safe :
    WellTyped table (cfgWith "" "") ∧ AllYamlSafe table (cfgWith "" "") := by decide

/-- **save → load identity, partial: for every configuration whose string options hold values the
YAML writer/reader pair preserves** (`AllYamlSafe`, i.e. `Yaml.YamlSafe` of each) — every option of
the compiled code comes back with the value that was written, in every history of loads; `Load`
does not fail and the file is not refused. -/
theorem C18_save_load_partial {f : Field} (hf : f ∈ table.fields) (hc : f.go ∉ nonConfigFields)
    (D : Layer) (c : String → String) (hs : AllYamlSafe table c) :
    loadSaved table [] c (fun file => resolve table D [] file f) = .ok (c f.go, .file) := by
  rw [loadSaved_of_safe hs, save_load C18_table_full hf hc D c]

/-- … in particular `SaveLoadIdentity` -/
theorem C18_save_load_identity_partial (c : String → String) (hs : AllYamlSafe table c) :
    SaveLoadIdentity table c :=
  fun _ hf hc => C18_save_load_partial hf hc [] c hs

/-- … and for the whole configuration -/
theorem C18_save_load_all_partial (D : Layer) (c : String → String) (hs : AllYamlSafe table c) :
    loadSaved table [] c (fun file => (load table D [] file).filter (fun p => p.1 ∉ nonConfigFields)) =
      .ok ((table.fields.filter (fun f => f.go ∉ nonConfigFields)).map fun f => (f.go, c f.go)) := by
  rw [loadSaved_of_safe hs, save_load_all C18_table_full D c]

/-- no history of loads changes what the next load of the compiled code starts from -/
theorem C18_history_keeps_defaults (ops : List (Layer × Layer)) : runLoads table [] ops = [] :=
  history_keeps_defaults C18_defaults_full [] ops

/-- **`Load` of the compiled code's table is independent of the history of the command.**  After
ANY sequence of loads and save→loads through one command (command line `args`), with the file
changing arbitrarily in between, the next step `o` (a load of some file, or `SaveAsYaml c` followed
by a load) returns exactly what a process's very first `Load` returns for that command line and
that file … -/
theorem C18_load_independent_of_history (args : Layer) (ops : List HistOp) (o : HistOp) :
    load table (runHistory table [] args ops) args (o.file table) = load table [] args (o.file table) :=
  load_independent_of_history C18_defaults_full [] args ops _

/-- … which for every option is flag > file-as-it-is-now > default (no value of an earlier file,
no value an earlier load resolved) … -/
theorem C18_history_precedence {f : Field} (hf : f ∈ table.fields) (hc : f.go ∉ nonConfigFields)
    (args : Layer) (ops : List HistOp) (o : HistOp) :
    resolve table (runHistory table [] args ops) args (o.file table) f =
      (specResolve table args (o.file table) f, specSrc table args (o.file table) f) :=
  C18_precedence hf hc (ops.map fun o' => (args, HistOp.file table o')) args (o.file table)

/-- … and after `SaveAsYaml c` (string options `YamlSafe`) the load returns `c` for every option no
flag of the command line names, however many loads and saves went through the command before. -/
theorem C18_history_save_load {f : Field} (hf : f ∈ table.fields) (hc : f.go ∉ nonConfigFields)
    (args : Layer) (ops : List HistOp) (c : String → String) (hnf : givenFlag table args f = none)
    (hsafe : AllYamlSafe table c) :
    loadSaved table args c (fun file => resolve table (runHistory table [] args ops) args file f)
      = .ok (c f.go, .file) := by
  rw [loadSaved_of_safe hsafe]
  have hs := save_load C18_table_full hf hc [] c
  have hp := precedence C18_table_full hf hc [] [] (save table c) rfl
  rw [hs] at hp
  -- the file holds `c f.go` under the option's path
  have hfile : (save table c).lookup f.yaml = some (c f.go) := by
    have h1 := congrArg Prod.fst hp
    have h2 := congrArg Prod.snd hp
    simp only [specResolve, specSrc, givenFlag, List.find?_nil, Option.map_none] at h1 h2
    cases hl : (save table c).lookup f.yaml with
    | none => rw [hl] at h2; cases h2
    | some v => rw [hl] at h1; simp at h1; rw [h1]
  have h' : resolve table (runHistory table [] args ops) args (save table c) f =
      (specResolve table args (save table c) f, specSrc table args (save table c) f) :=
    C18_precedence hf hc (ops.map fun o' => (args, HistOp.file table o')) args (save table c)
  rw [h']
  simp [specResolve, specSrc, hnf, hfile]

/-! ### non-vacuity -/

/-- the history theorem on a concrete history of the generated table: first file says 5s, the file
is rewritten to 7s, the second load through the same command says 7s, from the file -/
example : (table.fields.find? (·.go = "Node.BlockTime")).map
    (fun f => resolve table (runHistory table [] [] [.load [("node.block_time", "5s")]]) []
      (HistOp.file table (.load [("node.block_time", "7s")])) f) = some ("7s", .file) := by decide

/-- the signer flag (ignored before the repair) on the generated table beats the file -/
example : (table.fields.find? (·.go = "Signer.SignerType")).map
    (fun f => resolve table [] [("rollkit.signer.type", "grpc")] [("signer.signer_type", "x")] f)
      = some ("grpc", .flag) := by decide
/-- a flag on the generated table beats the file -/
example : (table.fields.find? (·.go = "Node.BlockTime")).map
    (fun f => resolve table [] [("rollkit.node.block_time", "7s")] [("node.block_time", "9s")] f)
      = some ("7s", .flag) := by decide
/-- after a load that read `instrumentation.namespace` from its file, a load without flag and file
resolves it to the default again (before the repair: to the earlier value, `.stale`) -/
example : (table.fields.find? (·.go = "Instrumentation.Namespace")).map
    (fun f => (resolve table (runLoads table [] [([], [("instrumentation.namespace", "x")])]) [] [] f).2)
      = some .dflt := by decide
/-- the table facts are not trivially true: a table whose flag binds a key no field decodes from
(the defect repaired by b15f31a), and one with a field behind a shared pointer (76d1c39), lack them -/
example : ¬ TableOK (Table.ofRows [("S.T", "s.s_t", "s.s_t", "string", "d", "")] [("rollkit.s.t", "s.t", "string", "d", [])]) [] [] := by
  decide
example : ¬ DefaultsStable (Table.ofRows [("I.N", "i.n", "i.n", "string", "d", "I")] []) := by decide
example : (resolve (Table.ofRows [("I.N", "i.n", "i.n", "string", "d", "I")] [])
    (runLoads (Table.ofRows [("I.N", "i.n", "i.n", "string", "d", "I")] []) [] [([], [("i.n", "x")])]) [] []
    (Field.ofRow ("I.N", "i.n", "i.n", "string", "d", "I"))) = ("x", .stale) := by decide
example : TableOK (Table.ofRows [("A.B", "a.b", "a.b", "string", "d", "")] [("rollkit.a.b", "a.b", "string", "d", ["A.B"])]) [] [] := by
  decide

/-! ## Part C — the genesis file -/
open GenesisFile

/-- `Validate` accepts exactly when none of the four listed conditions holds -/
theorem validate_accepts_iff (g : Genesis) :
    validate g = none ↔ g.chainId ≠ [] ∧ 1 ≤ g.initialHeight ∧ g.time.isZero = false ∧ g.proposer ≠ none := by
  unfold validate
  cases hp : g.proposer <;> by_cases h1 : g.chainId = [] <;> by_cases h2 : g.initialHeight < 1 <;>
    cases h3 : g.time.isZero <;> simp [h1, h2] <;> omega

/-- … and names the first failing condition, in the order of the code -/
theorem validate_refuses (g : Genesis) (r : Refusal) :
    validate g = some r ↔
      (r = .chainId ∧ g.chainId = []) ∨
      (r = .initialHeight ∧ g.chainId ≠ [] ∧ g.initialHeight = 0) ∨
      (r = .daStartTime ∧ g.chainId ≠ [] ∧ 1 ≤ g.initialHeight ∧ g.time.isZero = true) ∨
      (r = .proposer ∧ g.chainId ≠ [] ∧ 1 ≤ g.initialHeight ∧ g.time.isZero = false ∧ g.proposer = none) := by
  unfold validate
  cases hp : g.proposer <;> by_cases h1 : g.chainId = [] <;> by_cases h2 : g.initialHeight < 1 <;>
    cases h3 : g.time.isZero <;> cases r <;> simp [h1, h2] <;> omega

/-- **A genesis written by the node loads back equal** (modulo the time location) … -/
theorem genesis_load_save (g : Genesis) (h : validate g = none) : GenesisFile.load (save g) = .ok (normLoc g) := by
  have hv : validate (parse (save g)) = validate g := rfl
  unfold GenesisFile.load; rw [hv, h]; rfl

/-- … **and an invalid genesis is refused**, for the reason `Validate` gives -/
theorem genesis_invalid_refused (g : Genesis) (r : Refusal) (h : validate g = some r) :
    GenesisFile.load (save g) = .error r := by
  have hv : validate (parse (save g)) = validate g := rfl
  unfold GenesisFile.load; rw [hv, h]

/-- loading never yields an invalid genesis -/
theorem genesis_loaded_is_valid (j : JFile) (g : Genesis) (h : GenesisFile.load j = .ok g) : validate g = none := by
  unfold GenesisFile.load at h
  cases hv : validate (parse j) with
  | some r => rw [hv] at h; cases h
  | none => rw [hv] at h; cases h; exact hv

/-- **Saving replaces what the path held.**  Whatever files exist already (in particular a longer
or a shorter genesis at the same path), after `Save g` to path `p` loading `p` gives exactly what
loading a fresh file holding `g` gives: nothing of the earlier content survives. -/
theorem genesis_save_replaces (d : Disk) (p : Nat) (g : Genesis) :
    loadAt (saveAt d p g) p = loadAt (saveAt [] p g) p := by
  simp [loadAt, saveAt]

/-- a valid genesis saved over any existing file loads back equal (modulo the time location) -/
theorem genesis_load_save_at (d : Disk) (p : Nat) (g : Genesis) (h : validate g = none) :
    loadAt (saveAt d p g) p = .ok (normLoc g) := by
  have := genesis_load_save g h
  simp [loadAt, saveAt, this]

/-- an invalid genesis saved over any existing (possibly valid) file is refused for its own reason -/
theorem genesis_invalid_refused_at (d : Disk) (p : Nat) (g : Genesis) (r : Refusal) (h : validate g = some r) :
    loadAt (saveAt d p g) p = .error (.refused r) := by
  have := genesis_invalid_refused g r h
  simp [loadAt, saveAt, this]

/-- saving to one path leaves every other path as it was -/
theorem genesis_save_other_path (d : Disk) (p q : Nat) (g : Genesis) (hq : q ≠ p) :
    loadAt (saveAt d p g) q = loadAt d q := by
  have : (q == p) = false := by simpa using hq
  simp [loadAt, saveAt, List.lookup, this]

/-- saves to other paths, however many, leave a path as it was -/
theorem genesis_saves_elsewhere (p : Nat) :
    ∀ (later : List (Nat × Genesis)) (d : Disk), (∀ x ∈ later, x.1 ≠ p) →
      loadAt (later.foldl (fun d x => saveAt d x.1 x.2) d) p = loadAt d p
  | [], _, _ => rfl
  | x :: rest, d, h => by
    rw [List.foldl_cons, genesis_saves_elsewhere p rest _ fun y hy => h y (List.mem_cons_of_mem _ hy)]
    exact genesis_save_other_path d x.1 p x.2 (h x List.mem_cons_self).symm

/-- what a path holds is what the LAST save to it put there, in every history of saves -/
theorem genesis_last_save_wins (d : Disk) (p : Nat) (g : Genesis) (later : List (Nat × Genesis))
    (h : ∀ x ∈ later, x.1 ≠ p) :
    loadAt (later.foldl (fun d x => saveAt d x.1 x.2) (saveAt d p g)) p = loadAt (saveAt [] p g) p := by
  rw [genesis_saves_elsewhere p later _ h]
  exact genesis_save_replaces d p g

example : loadAt [] 1 = .error .noFile := rfl

example : validate { chainId := [1], time := ⟨0, 0, 0, "UTC"⟩, initialHeight := 1, proposer := some [] } = none := by decide
example : validate { chainId := [1], time := ⟨zeroUnix, 0, 60, "CET"⟩, initialHeight := 1, proposer := some [] } = some .daStartTime := by decide

end Spec.C18
