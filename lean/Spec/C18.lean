import Model.Config
import Model.ConfigGenesis
import Proofs.C18
import Proofs.C18Text
import Proofs.C18Civil
import Gen.C18

/-! # C18 — every configuration option obeys flag > file > default and survives save/load;
a genesis file loads back equal and an invalid genesis is refused.

Part A: theorems for ALL tables and ALL values, under the table facts `TableOK`/`DefaultsStable`.
Part B: the table regenerated from the compiled /repo code on every run (`Gen.C18`) has these
facts, so the Part A theorems hold of the compiled code in full (the two defects for which they
used to be refuted on the generated table were repaired in /repo: b15f31a, 76d1c39).
Part C: the genesis file.

Value level (review round): save → load of the configuration is NOT the identity for every value
(the YAML writer and reader disagree on some strings) and save → load of the genesis is not the
identity for every `time.Time`/chain id (`encoding/json`): the full statements are kept as `def …_full`
/ refuted by witnesses, the proved statements carry the explicit predicates `AllYamlSafe` (=
`Yaml.YamlSafe` of every string option) and `GenesisEncodable`. -/
namespace Spec.C18
open Config

/-! ## Part A — all tables, all values -/

/-- **flag > file > default.**  Under `TableOK`, for every option and all command lines and file
contents, `Load` resolves the option to the value of the first given flag that names it, else to
what the file holds under the option's yaml path, else to the default — and reports that layer.
(`D`: what earlier loads left in memory shared with `DefaultConfig`; see `history_keeps_defaults`.) -/
theorem precedence {T : Table} {ncF ncf : List String} (h : TableOK T ncF ncf)
    {f : Field} (hf : f ∈ T.fields) (hc : f.go ∉ ncf) (D args file : Layer)
    (hD : D.lookup f.go = none) :
    resolve T D args file f = (specResolve T args file f, specSrc T args file f) := by
  obtain ⟨_, h2, _, _, _, h6, _, h8⟩ := h
  obtain ⟨hy, hm⟩ := h2 f hf hc
  unfold resolve specResolve specSrc givenFlag
  rw [if_neg hm, flagLayer_lookup T h6 f.ms, hy]
  cases (args.find? fun a => T.flags.any fun fl => fl.name = a.1 ∧ fl.key = f.ms) with
  | some a => rfl
  | none =>
    simp only [Option.map_none]
    cases file.lookup f.ms with
    | some v => rfl
    | none =>
      cases hd : flagDefault T f.ms with
      | some v =>
        obtain ⟨fl, hfl, hk, hv⟩ := flagDefault_some hd
        have : v = f.dflt := hv ▸ h8 fl hfl f hf hk.symm
        simp [this]
      | none => simp [startValue, hD]

/-- **Every registered flag reaches the option it names.**  Under `TableOK`, every flag that is
not in the explicit non-config list names exactly one option (its key is the option's path in the
file), and giving it on the command line sets that option, whatever the file and the defaults say. -/
theorem flag_reaches_its_option {T : Table} {ncF ncf : List String} (h : TableOK T ncF ncf)
    {fl : Flag} (hfl : fl ∈ T.flags) (hn : fl.key ∉ ncF) :
    ∃ f ∈ T.fields, fl.key = f.yaml ∧
      (∀ (D file : Layer) (v : String), resolve T D [(fl.name, v)] file f = (v, .flag)) ∧
      (∀ g ∈ T.fields, g.ms = fl.key → g = f) := by
  obtain ⟨h1, h2, h3, h4, _, h6, _, _⟩ := h
  rcases h1 fl hfl with hnc | ⟨f, hf, hk, hm⟩
  · exact absurd hnc hn
  · have hcfg : f.go ∉ ncf := fun hin => hm (h3 f hf hin).1
    refine ⟨f, hf, ?_, ?_, ?_⟩
    · rw [(h2 f hf hcfg).1, hk]
    · intro D file v
      unfold resolve
      rw [if_neg hm, flagLayer_lookup T h6 f.ms]
      have hany : (T.flags.any fun fl' => fl'.name = fl.name ∧ fl'.key = f.ms) = true := by
        rw [List.any_eq_true]; exact ⟨fl, hfl, by simp [hk]⟩
      have : ([(fl.name, v)] : Layer).find? (fun a => T.flags.any fun fl' => fl'.name = a.1 ∧ fl'.key = f.ms)
          = some (fl.name, v) := List.find?_cons_of_pos hany
      rw [this]; rfl
    · intro g hg hgk
      have hgm : g.ms ≠ "-" := by rw [hgk, ← hk]; exact hm
      have hg' : g ∈ T.fields.filter (fun f => f.ms ≠ "-") := List.mem_filter.mpr ⟨hg, by simpa using hgm⟩
      have hf' : f ∈ T.fields.filter (fun f => f.ms ≠ "-") := List.mem_filter.mpr ⟨hf, by simpa using hm⟩
      exact nodup_map_inj (·.ms) h4 hg' hf' (hgk.trans hk.symm)

/-- **Every option can be set from the configuration file** (when no flag naming it is given). -/
theorem file_sets_every_option {T : Table} {ncF ncf : List String} (h : TableOK T ncF ncf)
    {f : Field} (hf : f ∈ T.fields) (hc : f.go ∉ ncf) (D args file : Layer) (v : String)
    (hD : D.lookup f.go = none) (hnf : givenFlag T args f = none) :
    resolve T D args ((f.yaml, v) :: file) f = (v, .file) := by
  rw [precedence h hf hc D args _ hD]
  simp [specResolve, specSrc, hnf]

/-- neither flag nor file: the default -/
theorem default_when_absent {T : Table} {ncF ncf : List String} (h : TableOK T ncF ncf)
    {f : Field} (hf : f ∈ T.fields) (hc : f.go ∉ ncf) (D args file : Layer)
    (hD : D.lookup f.go = none) (hnf : givenFlag T args f = none) (hfile : file.lookup f.yaml = none) :
    resolve T D args file f = (f.dflt, .dflt) := by
  rw [precedence h hf hc D args _ hD]
  simp [specResolve, specSrc, hnf, hfile]

/-- a given flag beats the file -/
theorem flag_beats_file {T : Table} {ncF ncf : List String} (h : TableOK T ncF ncf)
    {f : Field} (hf : f ∈ T.fields) (hc : f.go ∉ ncf) (D args file : Layer) (v : String)
    (hD : D.lookup f.go = none) (hfl : givenFlag T args f = some v) :
    resolve T D args file f = (v, .flag) := by
  rw [precedence h hf hc D args _ hD]
  simp [specResolve, specSrc, hfl]

/-- **Save → load identity, at the level of key paths.**  Under `TableOK`, when every value comes
back from the file as it was written (`save` — which is what the YAML writer/reader pair does for
the values described by `Yaml.YamlSafe`, see `loadSaved_of_safe`, and NOT for all values), `Load`
(no flags) gives every option the value that was written. -/
theorem save_load {T : Table} {ncF ncf : List String} (h : TableOK T ncF ncf)
    {f : Field} (hf : f ∈ T.fields) (hc : f.go ∉ ncf) (D : Layer) (c : String → String) :
    resolve T D [] (save T c) f = (c f.go, .file) := by
  obtain ⟨_, h2, h3, h4, _, _, _, _⟩ := h
  obtain ⟨hy, hm⟩ := h2 f hf hc
  have hall : ∀ g ∈ T.fields, g.yaml = g.ms := fun g hg => by
    by_cases hin : g.go ∈ ncf
    · rw [(h3 g hg hin).1, (h3 g hg hin).2]
    · exact (h2 g hg hin).1
  have hfilt : T.fields.filter (fun g => g.yaml ≠ "-") = T.fields.filter (fun g => g.ms ≠ "-") :=
    List.filter_congr fun g hg => by rw [hall g hg]
  have hnd : ((T.fields.filter (fun g => g.yaml ≠ "-")).map (·.yaml)).Nodup := by
    rw [hfilt]
    have : (T.fields.filter (fun g => g.ms ≠ "-")).map (·.yaml) = (T.fields.filter (fun g => g.ms ≠ "-")).map (·.ms) :=
      List.map_congr_left fun g hg => hall g (List.mem_filter.mp hg).1
    rw [this]; exact h4
  have hmem : f ∈ T.fields.filter (fun g => g.yaml ≠ "-") :=
    List.mem_filter.mpr ⟨hf, by simpa [hy] using hm⟩
  have hl : (save T c).lookup f.ms = some (c f.go) := by
    rw [← hy]; exact lookup_map_of_mem (·.yaml) (fun g => c g.go) hnd hmem
  unfold resolve
  rw [if_neg hm]
  simp [flagLayer, hl]

/-- the whole configuration survives save → load (fields outside the non-config list) -/
theorem save_load_all {T : Table} {ncF ncf : List String} (h : TableOK T ncF ncf)
    (D : Layer) (c : String → String) :
    (load T D [] (save T c)).filter (fun p => p.1 ∉ ncf) =
      ((T.fields.filter (fun f => f.go ∉ ncf)).map fun f => (f.go, c f.go)) := by
  unfold load
  rw [List.filter_map]
  rw [show (fun p : String × String => decide (p.1 ∉ ncf)) ∘ (fun f : Field => (f.go, (resolve T D [] (save T c) f).1))
        = fun f : Field => decide (f.go ∉ ncf) from rfl]
  apply List.map_congr_left
  intro f hf
  have := List.mem_filter.mp hf
  rw [save_load h this.1 (by simpa using this.2) D c]

/-- When every string option holds a value the YAML writer/reader pair preserves, what the reader
presents after `SaveAsYaml c` is `save T c`: every key with the value that was written. -/
theorem saveYaml_of_safe {T : Table} {c : String → String} (h : AllYamlSafe T c) :
    saveYaml T c = .file (save T c) [] := by
  have hsame : ∀ f ∈ T.fields.filter (fun f => f.yaml ≠ "-"), fieldOutcome c f = .same := by
    intro f hf
    have hf' := (List.mem_filter.mp hf).1
    unfold fieldOutcome
    split
    · next hk => exact eq_of_beq (h f hf' hk)
    · rfl
  unfold saveYaml
  have h1 : (T.fields.filter (fun f => f.yaml ≠ "-")).any (fun f => fieldOutcome c f == .unmodelled) = false := by
    rw [List.any_eq_false]; intro f hf; rw [hsame f hf]; decide
  have h2 : (T.fields.filter (fun f => f.yaml ≠ "-")).any (fun f => fieldOutcome c f == .fileBroken) = false := by
    rw [List.any_eq_false]; intro f hf; rw [hsame f hf]; decide
  have h3 : (T.fields.filter (fun f => f.yaml ≠ "-")).filter (fun f => fieldOutcome c f == .loadError) = [] := by
    rw [List.filter_eq_nil_iff]; intro f hf; rw [hsame f hf]; decide
  have h4 : (T.fields.filter (fun f => f.yaml ≠ "-")).map (fun f => (f.yaml, yamlValue c f)) = save T c := by
    unfold save
    apply List.map_congr_left
    intro f hf
    unfold yamlValue
    rw [hsame f hf]
  simp only [h1, h2, h3, h4, Bool.false_eq_true, if_false, List.map_nil]

/-- … so `SaveAsYaml c` followed by `Load` is `Load` of that file: no error, nothing unmodelled -/
theorem loadSaved_of_safe {α : Type} {T : Table} {c : String → String} (h : AllYamlSafe T c)
    (args : Layer) (g : Layer → α) : loadSaved T args c g = .ok (g (save T c)) := by
  unfold loadSaved
  rw [saveYaml_of_safe h]
  rfl

theorem savedFile_of_safe {T : Table} {c : String → String} (h : AllYamlSafe T c) :
    savedFile T c = save T c := by
  unfold savedFile
  rw [saveYaml_of_safe h]

/-- **Defaults are stable.**  If no option is decoded into memory shared with `DefaultConfig`,
no history of loads changes what the next load starts from. -/
theorem history_keeps_defaults {T : Table} (h : DefaultsStable T) (D : Layer) :
    ∀ ops : List (Layer × Layer), runLoads T D ops = D
  | [] => rfl
  | (a, fi) :: rest => by
    have hnil : T.fields.filter (·.shared) = [] :=
      List.filter_eq_nil_iff.mpr fun f hf => by simp [h f hf]
    have : nextDefaults T D a fi = D := by simp [nextDefaults, hnil]
    rw [runLoads, this]
    exact history_keeps_defaults h D rest

/-- **A `Load` does not depend on earlier loads.**  Under `DefaultsStable`, after any history of
load and save→load steps through one command, a `Load` returns what the first `Load` of a process
returns for the same command line and the same file: the result is a function of (command line,
file as it is now, defaults) only. -/
theorem load_independent_of_history {T : Table} (h : DefaultsStable T) (D args : Layer)
    (ops : List HistOp) (file : Layer) :
    load T (runHistory T D args ops) args file = load T D args file := by
  unfold runHistory
  rw [history_keeps_defaults h D]

/-- Without `DefaultsStable`: an option that is *not* behind a shared pointer still starts from its
pristine default in every history of loads. -/
theorem history_keeps_unshared {T : Table} (hgo : (T.fields.map (·.go)).Nodup)
    {f : Field} (hf : f ∈ T.fields) (hs : f.shared = false) :
    ∀ (ops : List (Layer × Layer)) (D : Layer), D.lookup f.go = none → (runLoads T D ops).lookup f.go = none
  | [], _, hD => hD
  | (a, fi) :: rest, D, hD => by
    rw [runLoads]
    apply history_keeps_unshared hgo hf hs rest
    unfold nextDefaults
    rw [lookup_append_none _ _ _ ?_]
    · exact hD
    · apply lookup_map_none (fun g : Field => g.go) (fun g => (resolve T D a fi g).1) f.go
      intro g hg hgo'
      have hg' := List.mem_filter.mp hg
      have : g = f := nodup_map_inj (·.go) hgo hg'.1 hf hgo'
      rw [this, hs] at hg'
      exact absurd hg'.2 (by simp)

/-! ## Part B — the table of the compiled code (`Gen.C18`, regenerated on every run) -/

def table : Table := Table.ofRows Gen.C18.fields Gen.C18.flags

/-- flags that deliberately name no option: the home directory and the signer passphrase -/
def nonConfigFlags : List String := ["home", "signer.passphrase"]
/-- fields that deliberately are not options: the root directory (set from `--home`) -/
def nonConfigFields : List String := ["RootDir"]

/-! ### the generated tables are populated

Every obligation below ranges over `table.fields` / `table.flags`; on empty (or truncated) lists
they would hold vacuously.  The lists are therefore tied to a pinned minimum and to the SOURCE: the
`Flag*` string constants of `pkg/config/config.go` (`Gen.C18.flagConstants`, read with go/parser,
not by asking the compiled code). -/

/-- options every configuration of this node has had since the property was written (pinned) -/
def pinnedOptions : List String :=
  ["DBPath", "ChainID", "Node.Aggregator", "Node.Light", "Node.BlockTime", "Node.LazyMode", "Node.LazyBlockInterval",
   "DA.Address", "DA.AuthToken", "DA.GasPrice", "DA.GasMultiplier", "DA.Namespace", "DA.BlockTime", "DA.StartHeight", "DA.MempoolTTL",
   "P2P.ListenAddress", "P2P.Peers", "Signer.SignerType", "Signer.SignerPath", "RPC.Address",
   "Instrumentation.Prometheus", "Instrumentation.Namespace", "Log.Level", "Log.Format"]

/-- the tables are not empty, not truncated: pinned minimum sizes, the pinned options are there, and
every `Flag*` constant the source declares is a registered flag of the table (and there are at
least 30 of them, so an empty constant list cannot pass either) -/
theorem C18_tables_populated :
    table.fields.length ≥ 35 ∧ table.flags.length ≥ 35 ∧
    (∀ o ∈ pinnedOptions, o ∈ table.fields.map (·.go)) ∧
    Gen.C18.flagConstants.length ≥ 30 ∧
    (∀ c ∈ Gen.C18.flagConstants, c.2 ∈ table.flags.map (·.name)) ∧
    Gen.C18.flagNames.length = table.flags.length := by decide

/-- every registered flag that carries the prefix `rollkit.` comes from a `Flag*` constant of the source -/
theorem C18_flags_are_declared :
    ∀ fl ∈ table.flags, "rollkit.".toList.isPrefixOf fl.name.toList = true →
      fl.name ∈ Gen.C18.flagConstants.map (·.2) := by decide

/-- **The table of the compiled code has every table fact**: every registered flag (other than
`--home` and the signer passphrase) is bound to the key of exactly one option, every field (other
than `RootDir`) is written by `SaveAsYaml` under the key `Load` decodes it from, keys and names are
distinct, and every flag's registered default is the option's default.

(Until /repo commit b15f31a this was false — witness: `--rollkit.signer.type` / `--rollkit.signer.path`
were bound to `signer.type` / `signer.path`, keys no field decodes from — and only the statement
about the table without those two flags was proved.) -/
theorem C18_table_full : TableOK table nonConfigFlags nonConfigFields := by decide

/-- no registered flag of the compiled code is silently ignored: the flags that reach no option are
exactly the listed non-config ones -/
theorem C18_no_flag_ignored :
    (table.flags.filter fun fl => fl.key ∉ nonConfigFlags ∧ reached table fl = []) = [] := by decide

/-- the model's rule "a flag reaches the fields decoded from the key it binds" agrees with what the
compiled `Load` did for every registered flag when the facts were generated -/
theorem C18_reaches_agrees : ∀ fl ∈ table.flags, fl.reaches = reached table fl := by decide

/-- the key the compiled `bindFlags` binds a flag to (asked of viper after the real `bindFlags` ran
with only this flag given) is the path of the option the flag NAMES by the property's naming rule
(`Gen.C18.flagNames`: the name without `rollkit.`; the two declared aliases) -/
theorem C18_bound_key_is_named_option :
    ∀ fl ∈ table.flags, Gen.C18.flagNames.lookup fl.name = some fl.key := by decide

/-- every option has a kind the correspondence stream generates values for -/
theorem C18_kinds_supported :
    ∀ f ∈ table.fields, f.kind ∈ ["string", "bool", "int", "uint", "float", "duration"] := by decide

/-- **No option of the compiled code is decoded into memory shared with `DefaultConfig`.**
(Until /repo commit 76d1c39 this was false — witness: every option behind the `Instrumentation`
pointer.) -/
theorem C18_defaults_full : DefaultsStable table := by decide

/-- **C18 for the compiled code.**  In every history of loads in one process, for every option, for
all command lines and files: the real table's `resolve` is flag > file > default, and reports the
layer that supplied the value. -/
theorem C18_precedence {f : Field} (hf : f ∈ table.fields) (hc : f.go ∉ nonConfigFields)
    (ops : List (Layer × Layer)) (args file : Layer) :
    resolve table (runLoads table [] ops) args file f =
      (specResolve table args file f, specSrc table args file f) := by
  rw [history_keeps_defaults C18_defaults_full [] ops]
  exact precedence C18_table_full hf hc _ args file rfl

/-- every flag of the compiled code that is not in the non-config list reaches exactly the option it
names, whatever the file and an earlier load say -/
theorem C18_flags_reach {fl : Flag} (hfl : fl ∈ table.flags) (hn : fl.key ∉ nonConfigFlags) :
    ∃ f ∈ table.fields, fl.key = f.yaml ∧
      (∀ (D file : Layer) (v : String), resolve table D [(fl.name, v)] file f = (v, .flag)) ∧
      (∀ g ∈ table.fields, g.ms = fl.key → g = f) :=
  flag_reaches_its_option C18_table_full hfl hn

/-! ### save → load at the value level

`SaveAsYaml` writes with goccy/go-yaml, `Load` reads with yaml.v3 + mapstructure; the pair does not
preserve every string (`Model/ConfigYaml.lean`).  The full statement "for every configuration" is
therefore FALSE of the code; it is refuted by one witness per known finding, and the statement for
configurations whose string options are `YamlSafe` is proved. -/

/-- `SaveAsYaml c`, then `Load` without flags as the first load of a process: every option comes
back with the value that was written, from the file -/
def SaveLoadIdentity (T : Table) (c : String → String) : Prop :=
  ∀ f ∈ T.fields, f.go ∉ nonConfigFields →
    loadSaved T [] c (fun file => resolve T [] [] file f) = .ok (c f.go, .file)

instance (T : Table) (c : String → String) : Decidable (SaveLoadIdentity T c) := by
  unfold SaveLoadIdentity; infer_instance

/-- the full statement: for EVERY configuration (every option holds a value of its kind) -/
def C18_save_load_full : Prop := ∀ c : String → String, WellTyped table c → SaveLoadIdentity table c

/-- the default configuration with one option changed -/
def cfgWith (k v : String) : String → String := fun go =>
  if go = k then v else ((table.fields.find? (fun f => f.go = go)).map (·.dflt)).getD ""

/-- what comes back for option `go` (first load of a process, no flags) -/
def loadedBack (go : String) (c : String → String) : Option (Loaded (String × Src)) :=
  (table.fields.find? (·.go = go)).map fun f => loadSaved table [] c (fun file => resolve table [] [] file f)

/-- one option that does not come back refutes the identity -/
theorem not_identity_of_loadedBack {c : String → String} {go : String} {r : Loaded (String × Src)}
    (h : loadedBack go c = some r) (hnc : go ∉ nonConfigFields) (hr : r ≠ .ok (c go, .file)) :
    ¬ SaveLoadIdentity table c := by
  intro hid
  unfold loadedBack at h
  cases hf : table.fields.find? (·.go = go) with
  | none => rw [hf] at h; cases h
  | some f =>
    rw [hf] at h
    have hgo : f.go = go := by simpa using List.find?_some hf
    have := hid f (List.mem_of_find?_eq_some hf) (hgo ▸ hnc)
    simp only [Option.map_some, Option.some.injEq] at h
    rw [this, hgo] at h
    exact hr h.symm

/-- KNOWN FINDING `saveload/numeric-looking-string-retyped`: `12e4` is written bare and read as a float -/
theorem C18_back_numeric : loadedBack "DA.Namespace" (cfgWith "DA.Namespace" "12e4") = some (.ok ("120000", .file)) := by decide +kernel
theorem C18_save_load_fails_numeric : ¬ SaveLoadIdentity table (cfgWith "DA.Namespace" "12e4") :=
  not_identity_of_loadedBack C18_back_numeric (by decide) (by decide)
/-- KNOWN FINDING `saveload/carriage-return-rewritten` -/
theorem C18_back_carriage_return : loadedBack "DA.Namespace" (cfgWith "DA.Namespace" "cr\rlf") = some (.ok ("cr\nlf", .file)) := by decide +kernel
theorem C18_save_load_fails_carriage_return : ¬ SaveLoadIdentity table (cfgWith "DA.Namespace" "cr\rlf") :=
  not_identity_of_loadedBack C18_back_carriage_return (by decide) (by decide)
/-- KNOWN FINDING `saveload/file-unparsable-silently-ignored`: `?` written bare; the reader refuses
the file, `Load` discards the error: EVERY option silently gets its default -/
theorem C18_back_unparsable' : loadedBack "DA.Namespace" (cfgWith "DA.Namespace" "?")
      = (table.fields.find? (·.go = "DA.Namespace")).map (fun f => .ok (f.dflt, .dflt)) := by decide +kernel
theorem C18_save_load_fails_unparsable : ¬ SaveLoadIdentity table (cfgWith "DA.Namespace" "?") := by
  cases hf : table.fields.find? (·.go = "DA.Namespace") with
  | none => exact absurd hf (by decide +kernel)
  | some f =>
    refine not_identity_of_loadedBack (C18_back_unparsable'.trans (by rw [hf]; rfl)) (by decide) ?_
    intro h
    injection h with h
    have : (cfgWith "DA.Namespace" "?" "DA.Namespace", Src.file).2 = Src.dflt := by rw [← h]
    cases this
/-- KNOWN FINDING `saveload/control-character-file-unparsable-silently-ignored` -/
theorem C18_back_control : loadedBack "DA.Namespace" (cfgWith "DA.Namespace" "a\x01b")
      = (table.fields.find? (·.go = "DA.Namespace")).map (fun f => .ok (f.dflt, .dflt)) := by decide +kernel
/-- KNOWN FINDING `saveload/radix-or-leading-zero-string-retyped` -/
theorem C18_back_radix : loadedBack "DA.Namespace" (cfgWith "DA.Namespace" "0X1F") = some (.ok ("31", .file)) := by decide +kernel
theorem C18_save_load_fails_radix : ¬ SaveLoadIdentity table (cfgWith "DA.Namespace" "0X1F") :=
  not_identity_of_loadedBack C18_back_radix (by decide) (by decide)
/-- KNOWN FINDING `saveload/date-like-string-refused`: the reader makes a `time.Time`, `Load` FAILS -/
theorem C18_back_date : loadedBack "DA.Namespace" (cfgWith "DA.Namespace" "2001-1-1") = some .error := by decide +kernel
theorem C18_save_load_fails_date : ¬ SaveLoadIdentity table (cfgWith "DA.Namespace" "2001-1-1") :=
  not_identity_of_loadedBack C18_back_date (by decide) (by decide)
/-- KNOWN FINDING `saveload/lone-newline-lost` -/
theorem C18_back_lone_newline : loadedBack "DA.Namespace" (cfgWith "DA.Namespace" "\n") = some (.ok ("", .file)) := by decide +kernel
theorem C18_save_load_fails_lone_newline : ¬ SaveLoadIdentity table (cfgWith "DA.Namespace" "\n") :=
  not_identity_of_loadedBack C18_back_lone_newline (by decide) (by decide)

/-- KNOWN FINDING `saveload/multiline-block-reread-differently`: an empty first line before an indented
one — goccy writes a literal block without indentation indicator, yaml.v3 takes the indentation of
the first non-empty line: the leading space is gone -/
theorem C18_back_multiline : loadedBack "DA.Namespace" (cfgWith "DA.Namespace" "\n a") = some (.ok ("\na", .file)) := by decide +kernel
theorem C18_save_load_fails_multiline : ¬ SaveLoadIdentity table (cfgWith "DA.Namespace" "\n a") :=
  not_identity_of_loadedBack C18_back_multiline (by decide) (by decide)
/-- KNOWN FINDING `saveload/multiline-block-file-unparsable-silently-ignored`: … and a later line
shallower than that one ends the block early: the file is no YAML, every option gets its default -/
theorem C18_back_multiline_broken : loadedBack "DA.Namespace" (cfgWith "DA.Namespace" "\n  a\n b")
      = (table.fields.find? (·.go = "DA.Namespace")).map (fun f => .ok (f.dflt, .dflt)) := by decide +kernel

/-- values with LF line breaks (`Yaml.lfBlock`): what survives, what does not, and what depends on
the nesting depth of the key (the `TrimSuffix` of goccy eats as many trailing spaces as the block is indented) -/
example : Yaml.roundTrip 1 "a\n  b\nc".toList = .same ∧ Yaml.roundTrip 1 "a  \nb\n\n".toList = .same ∧
    Yaml.roundTrip 1 "a    \n".toList = .retyped "a\n".toList ∧ Yaml.roundTrip 0 "a    \n".toList = .retyped "a  \n".toList ∧
    Yaml.roundTrip 1 "a \n \n".toList = .retyped "a \n".toList ∧ Yaml.roundTrip 1 "\n  a\n b".toList = .fileBroken := by decide
/-- written double-quoted today (first character `{` or a space): safe … -/
example : Yaml.roundTrip 1 "{\n  \"fee\": 1\n}".toList = .same ∧ Yaml.roundTrip 1 "  {\n    \"fee\": 1\n  }".toList = .same ∧
    Yaml.roundTrip 1 " {\n  \"fee\": 1\n}".toList = .same := by decide
/-- … and what a writer that puts EVERY multi-line value into a literal block would make of them
(`yaml.UseLiteralStyleIfMultiline`, seeded change C18-G): indentation lost / file refused -/
example : Yaml.lfBlock 1 "  {\n    \"fee\": 1\n  }".toList = .retyped "{\n  \"fee\": 1\n}".toList ∧
    Yaml.lfBlock 1 " {\n  \"fee\": 1\n}".toList = .fileBroken ∧ Yaml.lfBlock 1 "  \n fee=1".toList = .fileBroken := by decide

/-- the same classes at the value level (`Model/ConfigYaml.lean`), with their neighbours on the good side -/
example : Yaml.roundTripS ".inf" = .retyped "+Inf".toList ∧ Yaml.roundTripS "-.INF" = .retyped "-Inf".toList ∧
    Yaml.roundTripS ".NaN" = .retyped "NaN".toList ∧ Yaml.roundTripS ".Nan" = .same := by decide
example : Yaml.roundTripS "\r" = .retyped [] ∧ Yaml.roundTripS "end\r" = .retyped "end\n".toList ∧
    Yaml.roundTripS "a\r\r" = .retyped "a\n".toList ∧ Yaml.roundTripS "a\nb" = .same := by decide
example : Yaml.roundTripS "0009" = .retyped "9".toList ∧ Yaml.roundTripS "-08" = .retyped "-8".toList ∧
    Yaml.roundTripS "0o+17" = .retyped "15".toList ∧ Yaml.roundTripS "017" = .same ∧ Yaml.roundTripS "0x1F" = .same := by decide
example : Yaml.roundTripS "5E-2" = .retyped "0.05".toList ∧ Yaml.roundTripS "1_0e1" = .retyped "100".toList ∧
    Yaml.roundTripS "-0e1" = .retyped "-0".toList ∧ Yaml.roundTripS "1.5e3" = .same ∧ Yaml.roundTripS "_1e3" = .same := by decide
example : Yaml.roundTripS "? a" = .fileBroken ∧ Yaml.roundTripS "?a" = .same ∧ Yaml.roundTripS "? #" = .same := by decide
example : Yaml.roundTripS "2001-1-1" = .loadError ∧ Yaml.roundTripS "2001-13-1" = .same ∧ Yaml.roundTripS "2001-01-01" = .same := by decide
example : Yaml.roundTripS "a\tb" = .same ∧ Yaml.roundTripS "\tb" = .unmodelled ∧ Yaml.roundTripS "a\r\nb" = .unmodelled ∧
    Yaml.roundTripS "a\tb\nc" = .unmodelled := by decide
example : Yaml.YamlSafe "plain" = true ∧ Yaml.YamlSafe "/ip4/0.0.0.0/tcp/7676" = true ∧ Yaml.YamlSafe "12e4" = false := by decide

/-- the witnesses are configurations -/
theorem C18_witness_well_typed : WellTyped table (cfgWith "DA.Namespace" "12e4") := by decide +kernel

/-- **the full statement is false of the compiled code** -/
theorem C18_save_load_full_fails : ¬ C18_save_load_full :=
  fun h => C18_save_load_fails_numeric (h _ C18_witness_well_typed)

/-- the default configuration is well typed and all its strings are preserved by the YAML pair
(re-checked against the compiled defaults on every run) -/
theorem C18_defaults_yaml_safe :
    WellTyped table (cfgWith "" "") ∧ AllYamlSafe table (cfgWith "" "") := by decide +kernel

/-- **save → load identity, partial: for every configuration whose string options hold values the
YAML writer/reader pair preserves** (`AllYamlSafe`, i.e. `Yaml.YamlSafe` of each) — every option of
the compiled code comes back with the value that was written, in every history of loads; `Load`
does not fail and the file is not refused. -/
theorem C18_save_load_partial {f : Field} (hf : f ∈ table.fields) (hc : f.go ∉ nonConfigFields)
    (D : Layer) (c : String → String) (hs : AllYamlSafe table c) :
    loadSaved table [] c (fun file => resolve table D [] file f) = .ok (c f.go, .file) := by
  rw [loadSaved_of_safe hs, save_load C18_table_full hf hc D c]

/-- … in particular `SaveLoadIdentity` -/
theorem C18_save_load_identity_partial (c : String → String) (hs : AllYamlSafe table c) :
    SaveLoadIdentity table c :=
  fun _ hf hc => C18_save_load_partial hf hc [] c hs

/-- … and for the whole configuration -/
theorem C18_save_load_all_partial (D : Layer) (c : String → String) (hs : AllYamlSafe table c) :
    loadSaved table [] c (fun file => (load table D [] file).filter (fun p => p.1 ∉ nonConfigFields)) =
      .ok ((table.fields.filter (fun f => f.go ∉ nonConfigFields)).map fun f => (f.go, c f.go)) := by
  rw [loadSaved_of_safe hs, save_load_all C18_table_full D c]

/-- no history of loads changes what the next load of the compiled code starts from -/
theorem C18_history_keeps_defaults (ops : List (Layer × Layer)) : runLoads table [] ops = [] :=
  history_keeps_defaults C18_defaults_full [] ops

/-- **`Load` of the compiled code's table is independent of the history of the command.**  After
ANY sequence of loads and save→loads through one command (command line `args`), with the file
changing arbitrarily in between, the next step `o` (a load of some file, or `SaveAsYaml c` followed
by a load) returns exactly what a process's very first `Load` returns for that command line and
that file … -/
theorem C18_load_independent_of_history (args : Layer) (ops : List HistOp) (o : HistOp) :
    load table (runHistory table [] args ops) args (o.file table) = load table [] args (o.file table) :=
  load_independent_of_history C18_defaults_full [] args ops _

/-- … which for every option is flag > file-as-it-is-now > default (no value of an earlier file,
no value an earlier load resolved) … -/
theorem C18_history_precedence {f : Field} (hf : f ∈ table.fields) (hc : f.go ∉ nonConfigFields)
    (args : Layer) (ops : List HistOp) (o : HistOp) :
    resolve table (runHistory table [] args ops) args (o.file table) f =
      (specResolve table args (o.file table) f, specSrc table args (o.file table) f) :=
  C18_precedence hf hc (ops.map fun o' => (args, HistOp.file table o')) args (o.file table)

/-- … and after `SaveAsYaml c` (string options `YamlSafe`) the load returns `c` for every option no
flag of the command line names, however many loads and saves went through the command before. -/
theorem C18_history_save_load {f : Field} (hf : f ∈ table.fields) (hc : f.go ∉ nonConfigFields)
    (args : Layer) (ops : List HistOp) (c : String → String) (hnf : givenFlag table args f = none)
    (hsafe : AllYamlSafe table c) :
    loadSaved table args c (fun file => resolve table (runHistory table [] args ops) args file f)
      = .ok (c f.go, .file) := by
  rw [loadSaved_of_safe hsafe]
  have hs := save_load C18_table_full hf hc [] c
  have hp := precedence C18_table_full hf hc [] [] (save table c) rfl
  rw [hs] at hp
  -- the file holds `c f.go` under the option's path
  have hfile : (save table c).lookup f.yaml = some (c f.go) := by
    have h1 := congrArg Prod.fst hp
    have h2 := congrArg Prod.snd hp
    simp only [specResolve, specSrc, givenFlag, List.find?_nil, Option.map_none] at h1 h2
    cases hl : (save table c).lookup f.yaml with
    | none => rw [hl] at h2; cases h2
    | some v => rw [hl] at h1; simp at h1; rw [h1]
  have h' : resolve table (runHistory table [] args ops) args (save table c) f =
      (specResolve table args (save table c) f, specSrc table args (save table c) f) :=
    C18_precedence hf hc (ops.map fun o' => (args, HistOp.file table o')) args (save table c)
  rw [h']
  simp [specResolve, specSrc, hnf, hfile]

/-! ### non-vacuity -/

/-- the history theorem on a concrete history of the generated table: first file says 5s, the file
is rewritten to 7s, the second load through the same command says 7s, from the file -/
example : (table.fields.find? (·.go = "Node.BlockTime")).map
    (fun f => resolve table (runHistory table [] [] [.load [("node.block_time", "5s")]]) []
      (HistOp.file table (.load [("node.block_time", "7s")])) f) = some ("7s", .file) := by decide

/-- the signer flag (ignored before the repair) on the generated table beats the file -/
example : (table.fields.find? (·.go = "Signer.SignerType")).map
    (fun f => resolve table [] [("rollkit.signer.type", "grpc")] [("signer.signer_type", "x")] f)
      = some ("grpc", .flag) := by decide
/-- a flag on the generated table beats the file -/
example : (table.fields.find? (·.go = "Node.BlockTime")).map
    (fun f => resolve table [] [("rollkit.node.block_time", "7s")] [("node.block_time", "9s")] f)
      = some ("7s", .flag) := by decide
/-- after a load that read `instrumentation.namespace` from its file, a load without flag and file
resolves it to the default again (before the repair: to the earlier value, `.stale`) -/
example : (table.fields.find? (·.go = "Instrumentation.Namespace")).map
    (fun f => (resolve table (runLoads table [] [([], [("instrumentation.namespace", "x")])]) [] [] f).2)
      = some .dflt := by decide
/-- the table facts are not trivially true: a table whose flag binds a key no field decodes from
(the defect repaired by b15f31a), and one with a field behind a shared pointer (76d1c39), lack them -/
example : ¬ TableOK (Table.ofRows [("S.T", "s.s_t", "s.s_t", "string", "d", "")] [("rollkit.s.t", "s.t", "string", "d", [])]) [] [] := by
  decide
example : ¬ DefaultsStable (Table.ofRows [("I.N", "i.n", "i.n", "string", "d", "I")] []) := by decide
example : (resolve (Table.ofRows [("I.N", "i.n", "i.n", "string", "d", "I")] [])
    (runLoads (Table.ofRows [("I.N", "i.n", "i.n", "string", "d", "I")] []) [] [([], [("i.n", "x")])]) [] []
    (Field.ofRow ("I.N", "i.n", "i.n", "string", "d", "I"))) = ("x", .stale) := by decide
example : TableOK (Table.ofRows [("A.B", "a.b", "a.b", "string", "d", "")] [("rollkit.a.b", "a.b", "string", "d", ["A.B"])]) [] [] := by
  decide

/-! ## Part C — the genesis file -/
open GenesisFile

/-- `Validate` accepts exactly when none of the four listed conditions holds -/
theorem validate_accepts_iff (g : Genesis) :
    validate g = none ↔ g.chainId ≠ [] ∧ 1 ≤ g.initialHeight ∧ g.time.isZero = false ∧ g.proposer ≠ none := by
  unfold validate
  cases hp : g.proposer <;> by_cases h1 : g.chainId = [] <;> by_cases h2 : g.initialHeight < 1 <;>
    cases h3 : g.time.isZero <;> simp [h1, h2] <;> omega

/-- … and names the first failing condition, in the order of the code -/
theorem validate_refuses (g : Genesis) (r : Refusal) :
    validate g = some r ↔
      (r = .chainId ∧ g.chainId = []) ∨
      (r = .initialHeight ∧ g.chainId ≠ [] ∧ g.initialHeight = 0) ∨
      (r = .daStartTime ∧ g.chainId ≠ [] ∧ 1 ≤ g.initialHeight ∧ g.time.isZero = true) ∨
      (r = .proposer ∧ g.chainId ≠ [] ∧ 1 ≤ g.initialHeight ∧ g.time.isZero = false ∧ g.proposer = none) := by
  unfold validate
  cases hp : g.proposer <;> by_cases h1 : g.chainId = [] <;> by_cases h2 : g.initialHeight < 1 <;>
    cases h3 : g.time.isZero <;> cases r <;> simp [h1, h2] <;> omega

/-! ### fields: what `encoding/json` preserves -/

/-- `Save` succeeds exactly when RFC 3339 can print the time: year 0..9999 in the value's own zone,
zone offset below 24 h -/
theorem encode_ok_iff (g : Genesis) :
    (∃ j, encode g = .ok j) ↔ (0 ≤ g.time.year ∧ g.time.year ≤ 9999 ∧ g.time.offSec.natAbs < 86400) := by
  unfold encode encodeTime offMinutes
  by_cases hy : g.time.year < 0 ∨ g.time.year > 9999
  · have : (decide (g.time.year < 0) || decide (g.time.year > 9999)) = true := by
      rcases hy with h | h <;> simp [h]
    simp only [this, if_true]
    constructor
    · rintro ⟨j, hj⟩; cases hj
    · intro ⟨h0, h1, _⟩; omega
  · have hy' : (decide (g.time.year < 0) || decide (g.time.year > 9999)) = false := by
      have h1 : ¬ g.time.year < 0 := fun h => hy (Or.inl h)
      have h2 : ¬ g.time.year > 9999 := fun h => hy (Or.inr h)
      simp [h1, h2]
    simp only [hy', Bool.false_eq_true, if_false]
    by_cases hz : (if g.time.offSec ≥ 0 then g.time.offSec / 60 else -(-g.time.offSec / 60)).natAbs / 60 ≥ 24
    · simp only [hz, if_true]
      constructor
      · rintro ⟨j, hj⟩; cases hj
      · intro ⟨_, _, h⟩; exfalso; split at hz <;> omega
    · simp only [hz, if_false]
      constructor
      · intro _; refine ⟨by omega, by omega, ?_⟩; split at hz <;> omega
      · intro _; exact ⟨_, rfl⟩

/-- **the field-level codec is the identity (modulo the time location) on `GenesisEncodable`**:
year 0..9999, zone offset of whole minutes below 24 h, chain id valid UTF-8 -/
theorem genesis_fields_roundtrip (g : Genesis) (h : GenesisEncodable g = true) :
    (encode g).map decodeDoc = .ok (normLoc g) := by
  unfold GenesisEncodable at h
  simp only [Bool.and_eq_true, decide_eq_true_eq, beq_iff_eq] at h
  obtain ⟨⟨⟨⟨hy0, hy1⟩, hoff⟩, hmin⟩, hutf⟩ := h
  have hs : sanitize g.chainId = g.chainId := by
    unfold validUtf8 at hutf; exact eq_of_beq hutf
  have hm : offMinutes g.time.offSec * 60 = g.time.offSec := by
    unfold offMinutes; split <;> omega
  have hnz : ¬ ((offMinutes g.time.offSec).natAbs / 60 ≥ 24) := by
    unfold offMinutes; split <;> omega
  unfold encode encodeTime
  have hyr : (decide (g.time.year < 0) || decide (g.time.year > 9999)) = false := by
    have h1 : ¬ g.time.year < 0 := by omega
    have h2 : ¬ g.time.year > 9999 := by omega
    simp [h1, h2]
  simp only [hyr, Bool.false_eq_true, if_false, hnz, hs, hm]
  rfl

/-! ### text and disk -/

/-- what `Save` to `p` followed by `LoadGenesis` from `p` gives, on the disk `d`, with the file writer `w` -/
def saveThenLoad (w : Writer) (d : Disk) (p : Nat) (g : Genesis) : Except EncErr (Except LoadErr Genesis) :=
  (saveWith w d p g).map (fun d' => loadAt d' p)

/-- **Saving replaces what the path held.**  After a successful `Save g` (= `os.WriteFile`: create
or truncate) the path holds exactly the bytes of `g`'s document — nothing of whatever (longer or
shorter) file was there — so what loads back does not depend on the disk before. -/
theorem genesis_save_replaces (d : Disk) (p : Nat) (g : Genesis) (j : JFile) (h : encode g = .ok j) :
    saveAt d p g = .ok (writeTrunc d p (renderGenesis g)) ∧
    (writeTrunc d p (renderGenesis g)).read p = some (renderGenesis g) ∧
    saveThenLoad writeTrunc d p g = .ok (loadBytes (renderGenesis g)) := by
  simp [saveAt, saveWith, saveThenLoad, h, writeTrunc, Disk.read, loadAt, Except.map]

/-- … which is FALSE of a writer that does not truncate: a short genesis saved over a longer file
leaves the tail of the old file behind, and `LoadGenesis` refuses the result (seeded change C18-B) -/
def shortG : Genesis := { chainId := str "c", time := GoTime.ofUnix 1700000000 0 0 "", initialHeight := 1, proposer := some [] }
def longG : Genesis := { shortG with chainId := str "a-rather-long-chain-id", proposer := some [1, 2, 3, 4, 5, 6, 7, 8] }

theorem genesis_no_truncate_fails :
    (saveWith writeNoTrunc [] 1 longG).bind (fun d => saveThenLoad writeNoTrunc d 1 shortG)
      = .ok (.error .unparsable) := by decide +kernel
/-- the truncating writer on the same two saves -/
example : (saveAt [] 1 longG).bind (fun d => saveThenLoad writeTrunc d 1 shortG) = .ok (.ok (normLoc shortG)) := by decide +kernel
/-- (the non-truncating writer is indistinguishable when the old file is not longer — why a test
that re-saves equally long documents does not notice) -/
theorem no_truncate_same_when_not_longer (d : Disk) (p : Nat) (bs : Bytes)
    (h : ((d.lookup p).getD []).length ≤ bs.length) :
    (writeNoTrunc d p bs).read p = (writeTrunc d p bs).read p := by
  simp [writeNoTrunc, writeTrunc, Disk.read, List.drop_eq_nil_of_le h]

/-- **Parser ∘ printer gives the document the values denote, for EVERY genesis** (text layer; was an
evaluated side condition until `Proofs/C18Text.lean`).  Whatever the chain id (any bytes: escapes,
multi-byte sequences, invalid UTF-8 → U+FFFD as `encode` says), the initial height, the proposer
address (any bytes or nil) and the zone offset: if `Save` accepts `g` (`encode g = .ok j`) then the
bytes `Save` writes parse to exactly `j`.  The only hypothesis: the wall-clock fields of the time
are those of a real `time.Time` (`WallClockOK`: month 1..12, day 1..31, hour < 24, minute < 60,
second < 60, nanosecond < 10⁹).  `GoTime` is a record of free numbers; no `time.Time` Go can hold
is excluded (`ofUnix_wallClockOK`: every instant in every zone), and the hypothesis is NECESSARY:
`textRoundTrips_iff`. -/
theorem textRoundTrips_of_encodable (g : Genesis) (hw : WallClockOK g.time = true) : TextRoundTrips g = true :=
  textRoundTrips_of_wallClock g hw

/-- `WallClockOK` is exactly the condition: for a genesis `Save` accepts, the text round-trips IF
AND ONLY IF the wall-clock fields are those of a real `time.Time` -/
theorem textRoundTrips_iff (g : Genesis) (j : JFile) (h : encode g = .ok j) :
    TextRoundTrips g = true ↔ WallClockOK g.time = true :=
  textRoundTrips_iff_wallClock g j h

/-- a genesis whose time record holds these month / day / second / nanosecond numbers -/
def recordG (mo d s ns : Nat) : Genesis :=
  { chainId := str "c", initialHeight := 1, proposer := none,
    time := { year := 2024, month := mo, day := d, hour := 0, min := 0, sec := s, nsec := ns, offSec := 0, locName := "" } }

/-- … and without it the statement is false (records no `time.Time` can hold): month 13, day 0,
second 60 are refused by the parser; month 105 prints as `05`; 10⁹ ns prints as `.` -/
theorem textRoundTrips_fails_without_wallClock :
    TextRoundTrips (recordG 13 1 0 0) = false ∧ TextRoundTrips (recordG 1 0 0 0) = false ∧
    TextRoundTrips (recordG 1 1 60 0) = false ∧ TextRoundTrips (recordG 105 1 0 0) = false ∧
    TextRoundTrips (recordG 1 1 0 1000000000) = false ∧
    encode (recordG 13 1 0 0) ≠ .error .yearRange ∧ encode (recordG 13 1 0 0) ≠ .error .zoneHour ∧
    TextRoundTrips (recordG 12 31 59 999999999) = true := by
  decide +kernel

/-- every document the parser reads — so every genesis that LOADS — has a real wall clock -/
theorem genesis_loaded_has_wall_clock (bs : Bytes) (g : Genesis) (h : loadBytes bs = .ok g) :
    WallClockOK g.time = true := by
  unfold loadBytes at h
  cases hp : parse bs with
  | none => rw [hp] at h; cases h
  | some j =>
    rw [hp] at h
    simp only at h
    cases hv : validate (decodeDoc j) with
    | some r => rw [hv] at h; cases h
    | none => rw [hv] at h; cases h; exact Text.parse_wallClock bs j hp

/-- (lemma: the two statements below from the text-layer side condition, as they were stated
while `TextRoundTrips` was only evaluated) -/
theorem genesis_load_save_of_text (d : Disk) (p : Nat) (g : Genesis) (he : GenesisEncodable g = true)
    (ht : TextRoundTrips g = true) (hv : validate g = none) :
    saveThenLoad writeTrunc d p g = .ok (.ok (normLoc g)) := by
  have hf := genesis_fields_roundtrip g he
  cases hj : encode g with
  | error e => rw [hj] at hf; cases hf
  | ok j =>
    rw [hj] at hf
    have hdec : decodeDoc j = normLoc g := by simpa [Except.map] using hf
    have hparse : parse (renderGenesis g) = some j := by
      unfold TextRoundTrips at ht; rw [hj] at ht; exact eq_of_beq ht
    rw [(genesis_save_replaces d p g j hj).2.2]
    have hval : validate (normLoc g) = none := hv
    simp [loadBytes, hparse, hdec, hval]

theorem genesis_invalid_refused_of_text (d : Disk) (p : Nat) (g : Genesis) (r : Refusal) (he : GenesisEncodable g = true)
    (ht : TextRoundTrips g = true) (hv : validate g = some r) :
    saveThenLoad writeTrunc d p g = .ok (.error (.refused r)) := by
  have hf := genesis_fields_roundtrip g he
  cases hj : encode g with
  | error e => rw [hj] at hf; cases hf
  | ok j =>
    rw [hj] at hf
    have hdec : decodeDoc j = normLoc g := by simpa [Except.map] using hf
    have hparse : parse (renderGenesis g) = some j := by
      unfold TextRoundTrips at ht; rw [hj] at ht; exact eq_of_beq ht
    rw [(genesis_save_replaces d p g j hj).2.2]
    have hval : validate (normLoc g) = some r := hv
    simp [loadBytes, hparse, hdec, hval]

/-- **A genesis written by the node loads back equal** (modulo the time location), whatever file
the path held before — for every genesis `encoding/json` preserves (`GenesisEncodable`: year
0..9999, zone offset of whole minutes below 24 h, chain id valid UTF-8) that `Validate` accepts.
The text layer is PROVED (`textRoundTrips_of_encodable`), no evaluated side condition is left;
`WallClockOK g.time` only says that the record `GoTime` holds the fields of a real `time.Time`. -/
theorem genesis_load_save (d : Disk) (p : Nat) (g : Genesis) (he : GenesisEncodable g = true)
    (hw : WallClockOK g.time = true) (hv : validate g = none) :
    saveThenLoad writeTrunc d p g = .ok (.ok (normLoc g)) :=
  genesis_load_save_of_text d p g he (textRoundTrips_of_encodable g hw) hv

/-- … **and an invalid genesis is refused**, for the reason `Validate` gives -/
theorem genesis_invalid_refused (d : Disk) (p : Nat) (g : Genesis) (r : Refusal) (he : GenesisEncodable g = true)
    (hw : WallClockOK g.time = true) (hv : validate g = some r) :
    saveThenLoad writeTrunc d p g = .ok (.error (.refused r)) :=
  genesis_invalid_refused_of_text d p g r he (textRoundTrips_of_encodable g hw) hv

/-- **What `Save` writes always parses**, also outside `GenesisEncodable` (invalid UTF-8, zone
seconds): whenever `Save` succeeds, `LoadGenesis` of the file is `Validate` of the document
`encode` says the values denote — never `unparsable` -/
theorem genesis_saved_file_parses (d : Disk) (p : Nat) (g : Genesis) (j : JFile) (h : encode g = .ok j)
    (hw : WallClockOK g.time = true) :
    saveThenLoad writeTrunc d p g = .ok (match validate (decodeDoc j) with
      | some r => .error (.refused r) | none => .ok (decodeDoc j)) := by
  rw [(genesis_save_replaces d p g j h).2.2]
  unfold loadBytes
  rw [Text.parse_render g j h hw]
  simp only []
  cases validate (decodeDoc j) <;> rfl

/-- non-vacuity: a chain id with a two-byte character, `<`, `"`, LF, U+2028, `\`, a control
character and a four-byte character (all escape classes), a proposer address, nanoseconds, a
negative half-hour zone, 29 February, initial height 42 -/
def richG : Genesis :=
  { chainId := [0xC3, 0xA9, 0x3C, 0x22, 0x0A, 0xE2, 0x80, 0xA8, 0x5C, 0x01, 0xF0, 0x9F, 0x98, 0x80, 0x7F],
    time := { year := 2024, month := 2, day := 29, hour := 23, min := 59, sec := 59, nsec := 123456000,
              offSec := -12600, locName := "America/St_Johns" },
    initialHeight := 42, proposer := some [1, 2, 3, 4, 5] }

example : GenesisEncodable richG = true ∧ WallClockOK richG.time = true ∧ validate richG = none := by decide +kernel
example : saveThenLoad writeTrunc [(1, str "old")] 1 richG = .ok (.ok (normLoc richG)) :=
  genesis_load_save _ 1 richG (by decide +kernel) (by decide +kernel) (by decide +kernel)
/-- (the same by evaluation: the theorem and the executed model agree on this genesis) -/
example : saveThenLoad writeTrunc [(1, str "old")] 1 richG = .ok (.ok (normLoc richG)) := by decide +kernel
example : TextRoundTrips richG = true := textRoundTrips_of_encodable richG (by decide +kernel)

/-- **No `time.Time` is excluded by `WallClockOK`**: the record of EVERY instant in EVERY zone
(`GoTime.ofUnix` = what `time.Unix(s, ns).In(zone)` holds; it is how the driver makes the record
from the op's Unix seconds) has month 1..12, day 1..31 (`Proofs/C18Civil.lean`: the civil-from-days
algorithm, all day numbers), hour < 24, minute < 60, second < 60 -/
theorem ofUnix_wallClockOK (u : Int) (ns : Nat) (off : Int) (loc : String) (hns : ns < 1000000000) :
    WallClockOK (GoTime.ofUnix u ns off loc) = true :=
  Civil.ofUnix_wallClockOK u ns off loc hns

/-- … so, for a genesis whose time is an instant in a zone, save → load needs no hypothesis on the
record at all: `GenesisEncodable` (year, whole-minute zone, UTF-8 chain id) and `Validate` only -/
theorem genesis_load_save_ofUnix (d : Disk) (p : Nat) (cid : Bytes) (ih : Nat) (prop : Option Bytes)
    (u : Int) (ns : Nat) (off : Int) (loc : String) (hns : ns < 1000000000)
    (he : GenesisEncodable ⟨cid, GoTime.ofUnix u ns off loc, ih, prop⟩ = true)
    (hv : validate ⟨cid, GoTime.ofUnix u ns off loc, ih, prop⟩ = none) :
    saveThenLoad writeTrunc d p ⟨cid, GoTime.ofUnix u ns off loc, ih, prop⟩ =
      .ok (.ok (normLoc ⟨cid, GoTime.ofUnix u ns off loc, ih, prop⟩)) :=
  genesis_load_save d p _ he (ofUnix_wallClockOK u ns off loc hns) hv

example : WallClockOK (GoTime.ofUnix zeroUnix 0 0 "") = true ∧
    WallClockOK (GoTime.ofUnix 1709251199 999999999 (-12600) "x") = true ∧
    WallClockOK (GoTime.ofUnix 253402300799 1 0 "") = true := by decide +kernel

/-- loading never yields an invalid genesis, whatever bytes the path holds -/
theorem genesis_loaded_is_valid (bs : Bytes) (g : Genesis) (h : loadBytes bs = .ok g) : validate g = none := by
  unfold loadBytes at h
  cases hp : parse bs with
  | none => rw [hp] at h; cases h
  | some j =>
    rw [hp] at h
    simp only at h
    cases hv : validate (decodeDoc j) with
    | some r => rw [hv] at h; cases h
    | none => rw [hv] at h; cases h; exact hv

/-- the document parser reads `a ++ suffix` as it reads `a` and leaves `suffix` for the final test -/
theorem parse_append (a s : Bytes) (j : JFile) (h : parse a = some j) :
    parse (a ++ s) = if s.all isJsonSpace then some j else none := by
  unfold parse at h ⊢
  cases hd : pDocument a with
  | none => rw [hd] at h; cases h
  | some jr =>
    obtain ⟨j', r⟩ := jr
    rw [hd] at h
    rw [stable_pDocument a j' r s hd]
    simp only at h ⊢
    split at h
    · next hr =>
      simp only [Option.some.injEq] at h
      simp only [List.all_append, hr, Bool.true_and, h]
    · cases h

/-- **A file with trailing content is refused.**  For EVERY file `a` that `LoadGenesis` loads (in
particular every file `Save` wrote) and every suffix: if the suffix holds anything but JSON white
space — a stray `}`, a second genesis document, text, a NUL — the file `a ++ suffix` is refused as
unparsable (`json.Unmarshal`: "invalid character … after top-level value"); nothing of the first
document is loaded … -/
theorem genesis_trailing_content_refused (a s : Bytes) (g : Genesis) (h : loadBytes a = .ok g)
    (hs : s.all isJsonSpace = false) : loadBytes (a ++ s) = .error .unparsable := by
  unfold loadBytes at h ⊢
  cases hp : parse a with
  | none => rw [hp] at h; cases h
  | some j => rw [parse_append a s j hp, hs]; rfl

/-- … and a suffix of white space only changes nothing: the file loads as before. -/
theorem genesis_trailing_space_loads (a s : Bytes) (g : Genesis) (h : loadBytes a = .ok g)
    (hs : s.all isJsonSpace = true) : loadBytes (a ++ s) = .ok g := by
  unfold loadBytes at h ⊢
  cases hp : parse a with
  | none => rw [hp] at h; cases h
  | some j => rw [parse_append a s j hp, hs]; rw [hp] at h; exact h

/-- the same for a file whose document `Validate` refuses: with trailing content it is refused as
unparsable, with trailing white space for the reason `Validate` gives -/
theorem genesis_trailing_content_refused_invalid (a s : Bytes) (r : Refusal) (h : loadBytes a = .error (.refused r)) :
    loadBytes (a ++ s) = if s.all isJsonSpace then .error (.refused r) else .error .unparsable := by
  unfold loadBytes at h ⊢
  cases hp : parse a with
  | none => rw [hp] at h; cases h
  | some j =>
    rw [parse_append a s j hp]
    rw [hp] at h
    cases hs : s.all isJsonSpace with
    | true => simpa using h
    | false => simp

/-- on a path: whatever genesis `Save` wrote, appending non-white-space to the file makes `LoadGenesis` refuse it -/
theorem genesis_trailing_content_refused_at (d : Disk) (p : Nat) (g g' : Genesis) (s : Bytes)
    (h : loadAt (writeTrunc d p (renderGenesis g)) p = .ok g') (hs : s.all isJsonSpace = false) :
    loadAt (writeTrunc d p (renderGenesis g ++ s)) p = .error .unparsable := by
  simp only [loadAt, writeTrunc, Disk.read, List.lookup, beq_self_eq_true] at h ⊢
  exact genesis_trailing_content_refused _ s g' h hs

/-- … which is FALSE of a loader that decodes only the FIRST value of the stream
(`json.NewDecoder(f).Decode`, seeded change C18-F): it loads the first document and ignores the
second, contradicting one -/
theorem genesis_first_value_decoder_accepts_trailing :
    parse (renderGenesis longG ++ renderGenesis shortG) = none ∧
    (parseFirst (renderGenesis longG ++ renderGenesis shortG)).map (·.chainId) = some longG.chainId ∧
    parse (renderGenesis longG ++ str "}") = none ∧
    (parseFirst (renderGenesis longG ++ str "}")).isSome = true ∧
    (parse (renderGenesis longG ++ str " \n\t\r")).isSome = true := by decide +kernel

/-- saving to one path leaves every other path as it was -/
theorem genesis_save_other_path (d d' : Disk) (p q : Nat) (g : Genesis) (hq : q ≠ p)
    (h : saveAt d p g = .ok d') : loadAt d' q = loadAt d q := by
  have hb : (q == p) = false := by simpa using hq
  unfold saveAt saveWith at h
  cases hj : encode g with
  | error e => rw [hj] at h; cases h
  | ok j => rw [hj] at h; cases h; simp [loadAt, Disk.read, writeTrunc, List.lookup, hb]

/-- a `Save` that fails (year / zone hour) writes nothing: the disk is as it was -/
theorem genesis_failed_save_writes_nothing (w : Writer) (d : Disk) (p : Nat) (g : Genesis) (e : EncErr)
    (_h : encode g = .error e) : ∀ d', saveWith w d p g ≠ .ok d' := by
  intro d' hd; unfold saveWith at hd; rw [_h] at hd; cases hd

/-! ### the excluded classes (witnesses: `genesis_load_save` is false there) -/

def okG : Genesis := { chainId := str "c", time := GoTime.ofUnix 1700000000 5 0 "op", initialHeight := 1, proposer := some [7] }

example : GenesisEncodable okG = true ∧ TextRoundTrips okG = true ∧ validate okG = none := by decide +kernel
example : saveThenLoad writeTrunc [] 1 okG = .ok (.ok (normLoc okG)) := by decide +kernel

/-- year 10000: `Save` fails -/
theorem genesis_year_out_of_range_refused :
    saveThenLoad writeTrunc [] 1 { okG with time := GoTime.ofUnix 253402300800 0 0 "op" } = .error .yearRange := by decide +kernel
/-- year 9999 UTC, year 10000 in the value's zone (+01:00): `Save` fails -/
example : saveThenLoad writeTrunc [] 1 { okG with time := GoTime.ofUnix 253402300799 0 3600 "op" } = .error .yearRange := by decide +kernel
/-- zone offset of 24 h: `Save` fails -/
theorem genesis_zone_hour_refused :
    saveThenLoad writeTrunc [] 1 { okG with time := GoTime.ofUnix 1700000000 0 86400 "op" } = .error .zoneHour := by decide +kernel
/-- zone offset with seconds: the file keeps the wall clock and cuts the offset to minutes — the
instant that loads back is 30 s LATER than the one saved -/
theorem genesis_zone_seconds_shift :
    (saveThenLoad writeTrunc [] 1 { okG with time := GoTime.ofUnix 1700000000 0 30 "op" }).map
      (fun r => r.map (fun g => (g.time.unix, g.time.offSec))) = .ok (.ok (1700000030, 0)) := by decide +kernel
/-- … so the zero time in such a zone, which `Validate` refuses, is ACCEPTED after save → load -/
theorem genesis_zero_time_in_seconds_zone_accepted :
    validate { okG with time := GoTime.ofUnix zeroUnix 0 30 "op" } = some .daStartTime ∧
    (saveThenLoad writeTrunc [] 1 { okG with time := GoTime.ofUnix zeroUnix 0 30 "op" }).map
      (fun r => r.map (fun g => g.time.unix)) = .ok (.ok (zeroUnix + 30)) := by decide +kernel
/-- chain id that is not valid UTF-8: the offending byte comes back as U+FFFD -/
theorem genesis_invalid_utf8_replaced :
    (saveThenLoad writeTrunc [] 1 { okG with chainId := [0x61, 0xFF, 0x62] }).map
      (fun r => r.map (·.chainId)) = .ok (.ok [0x61, 0xEF, 0xBF, 0xBD, 0x62]) := by decide +kernel

example : loadAt [] 1 = .error .noFile := rfl
example : validate okG = none := by decide +kernel
example : validate { okG with time := GoTime.ofUnix zeroUnix 0 3600 "CET" } = some .daStartTime := by decide +kernel

end Spec.C18
