import Proofs.SyncWitness

/-!
# C05 — a full node recovers from a crash at any point of block application

Model: the same `Sync` definitions as C02.  Every step (`Sync.onHeader` / `Sync.onData`, i.e. `deliver`)
returns the atomic durable writes it issues, in order — per applied block `[updateState, saveBlock,
setHeight]` (`block/sync.go:162,166,171`).  **Crash** = only a prefix of those writes reaches the disk
(`Store.applyPrefix k ws`), the in-memory state and the caches are lost; **restart** = `Sync.start c image`
with empty caches (`NewManager` raises the chain height to the state's height).  Compared with the real
`SyncLoop` + `NewManager` at every write boundary by stream C05.
-/
namespace Spec.C05
open Wire Chain Sync

variable {c : Cfg} {ch : PChain} {top : Nat}

/-- a crash after the last write of a step is the same as no crash -/
theorem crash_after_all (s : Store) (ws : List SW) : s.applyPrefix ws.length ws = s.applyAll ws := by
  simp [Store.applyPrefix]

/-- a crash before the first write leaves the durable image unchanged -/
theorem crash_before_all (s : Store) (ws : List SW) : s.applyPrefix 0 ws = s := by
  simp [Store.applyPrefix, Store.applyAll]

/-- `DiskOK c ch d` in the words of the property: with `H = recHeight c d` the chain height the node reports
after restart, the stored height is not above `H`, every height `≤ H` has a retrievable block identical to the
proposer's, and the recorded state is the state after exactly `H`. -/
theorem diskOK_iff (d : Store) : DiskOK c ch d ↔
    (d.height ≤ recHeight c d ∧
     (∀ s, d.state = some s → s = stateAt c ch (recHeight c d) ∧ c.initialHeight ≤ recHeight c d) ∧
     (∀ k, c.initialHeight ≤ k → k ≤ recHeight c d →
        ∃ b sb, ch k = some b ∧ d.getBlock k = some sb ∧ sb.sh = b.sh ∧ sb.savedSig = b.sh.sig ∧
          sb.data.txs = b.data.txs ∧ (b.data.txs ≠ [] → sb.data = b.data))) :=
  ⟨fun h => ⟨h.hle, h.state, h.blocks⟩, fun ⟨a, b, c⟩ => ⟨a, b, c⟩⟩

/-! ## every crash point except one leaves a recoverable image -/

/-- **Crash safety, strongest true form.**  After any events and clean restarts, for every next event and
**every** number `k` of its writes that reached the disk — except when the last write that reached it is a
state write (the boundary between `UpdateState` and `SaveBlockData`) — the image satisfies `DiskOK`, `start`
succeeds on it, the restarted node reports exactly the recorded height, its state is the state after exactly
that height, and it satisfies the invariant of C02 again (with empty caches and no events delivered yet), so
that all theorems of C02 apply from it. -/
theorem C05_crash_partial (g : GoodChain c ch top) (ops : List Op) (e : Ev) (k : Nat)
    (hk : afterStateWrite (deliver ch (runOps c ch ops) e).2 k = false) :
    let image := (runOps c ch ops).store.applyPrefix k (deliver ch (runOps c ch ops) e).2
    DiskOK c ch image ∧
    ∃ n ws, Sync.start c image = some (n, ws) ∧ n.store.height = recHeight c image ∧
      n.lastState.lastHeight = n.store.height ∧ n.lastState = stateAt c ch n.store.height ∧
      (∀ j, c.initialHeight ≤ j → j ≤ n.store.height →
        ∃ b sb, ch j = some b ∧ n.store.getBlock j = some sb ∧ sb.sh = b.sh ∧ sb.data.txs = b.data.txs) ∧
      Inv c ch n.store.height [] n := by
  intro image
  obtain ⟨n, ws, a1, a2, a3, a4, a5⟩ := crash_restarts g (runOps_safe g ops) e k hk
  refine ⟨a2, n, ws, a1, a3, a4, a5.safe.st, ?_, a5⟩
  intro j h1 h2
  obtain ⟨b, sb, x1, x2, x3, _, x4, _⟩ := a5.safe.chain j h1 h2
  exact ⟨b, sb, x1, x2, x3, x4⟩

/-- the excluded crash point is exactly "one block's state is written, its block is not yet": among the first
three writes of a step that applies a block only `k = 1` is excluded -/
example (rest : List SW) (s : State) :
    afterStateWrite (.updateState s :: .saveBlock 1 {} :: .setHeight 1 :: rest) 0 = false ∧
    afterStateWrite (.updateState s :: .saveBlock 1 {} :: .setHeight 1 :: rest) 1 = true ∧
    afterStateWrite (.updateState s :: .saveBlock 1 {} :: .setHeight 1 :: rest) 2 = false ∧
    afterStateWrite (.updateState s :: .saveBlock 1 {} :: .setHeight 1 :: rest) 3 = false := by
  simp [afterStateWrite]

/-! ## recurring crashes, and convergence after them -/

/-- **Nesting.**  Every node reachable by genuine events, clean restarts and any number of crashes (each at a
non-excluded write boundary of any step, including steps of the re-application after an earlier crash, each
followed by a restart on the image with empty caches) satisfies the safety invariant of C02: the loop is
alive, every height up to the chain height holds the proposer's block, the state is the state after exactly
the chain height. -/
theorem C05_recurring_crashes (g : GoodChain c ch top) {n : FNode} (r : Reach c ch n) :
    n.alive = true ∧ n.store.height = n.lastState.lastHeight ∧ n.lastState = stateAt c ch n.store.height ∧
    DiskOK c ch n.store ∧
    ∀ k, c.initialHeight ≤ k → k ≤ n.store.height →
      ∃ b sb, ch k = some b ∧ n.store.getBlock k = some sb ∧ sb.sh = b.sh ∧ sb.data.txs = b.data.txs := by
  obtain ⟨evs, hs⟩ := reach_safe g r
  refine ⟨hs.alive, hs.hs g, hs.st, (hs.diskOK g).1, fun k h1 h2 => ?_⟩
  obtain ⟨b, sb, x1, x2, x3, _, x4, _⟩ := hs.chain k h1 h2
  exact ⟨b, sb, x1, x2, x3, x4⟩

/-- and the next crash of such a node is again covered: `start` succeeds on the image and yields a reachable
node (so the argument repeats for ever) -/
theorem C05_next_crash_restarts (g : GoodChain c ch top) {n : FNode} (r : Reach c ch n) (e : Ev) (k : Nat)
    (hk : afterStateWrite (deliver ch n e).2 k = false) :
    ∃ n' ws, Sync.start c (n.store.applyPrefix k (deliver ch n e).2) = some (n', ws) ∧ Reach c ch n' := by
  obtain ⟨evs, hs⟩ := reach_safe g r
  obtain ⟨n', ws, a1, _⟩ := crash_restarts g hs e k hk
  exact ⟨n', ws, a1, .crash e k r hk a1⟩

/-- **A crash during the restart itself** (between `Sync.start`'s own writes) leaves a consistent image again,
so it is covered too: starting on it gives a reachable node (`Reach.image`). -/
theorem C05_crash_during_restart (g : GoodChain c ch top) {d : Store} (hd : DiskOK c ch d) :
    ∃ n ws, Sync.start c d = some (n, ws) ∧ Reach c ch n ∧
      ∀ j, DiskOK c ch (d.applyPrefix j ws) ∧
        ∃ n' ws', Sync.start c (d.applyPrefix j ws) = some (n', ws') ∧ Reach c ch n' := by
  obtain ⟨n, ws, a1, a2⟩ := start_crash_ok g hd {}
  refine ⟨n, ws, a1, .image hd a1, fun j => ⟨a2 j, ?_⟩⟩
  obtain ⟨n', ws', b1, _⟩ := diskOK_start g (a2 j)
  exact ⟨n', ws', b1, .image (a2 j) b1⟩

/-- **Recovery: "after restart it continues syncing and reaches the proposer's chain".**  From any such node,
for any delivery order of the remaining (or all) headers and data, with duplicates and clean restarts: the
node applies every block up to any height `h` for which both parts of all blocks above its current height
were delivered after the restart.  (Convergence needs `DistinctCommitments`, see `Spec.C02`.) -/
theorem C05_converges_after_crashes (g : GoodChain c ch top) (dc : DistinctCommitments ch) {n : FNode}
    (r : Reach c ch n) (ops : List Op) (h : Nat)
    (hready : ∀ k, n.store.height < k → k ≤ h → Delivered ch (evsOf ops) k) :
    h ≤ (runFrom c ch n ops).store.height := by
  obtain ⟨evs, hi⟩ := reach_inv g dc r
  exact converges_from g dc hi ops h hready

/-! ## the full statement is false of the current code -/

/-- the property as stated: every boundary between two durable writes -/
def C05_crash_full : Prop :=
  ∀ (c : Cfg) (ch : PChain) (top : Nat) (evs : List Ev) (e : Ev) (k : Nat), GoodChain c ch top →
    DiskOK c ch ((run c ch evs).store.applyPrefix k (deliver ch (run c ch evs) e).2)

theorem witness3_good : GoodChain wC wch3 3 := goodChain_of_check wC _ 3 (by decide) wf_check3

/-- **The full statement fails** (kernel-checked).  Chain of three blocks built by the producer model; header 1
and data 2 are delivered, then header 2 arrives and the process dies after the first write of applying
block 2.  The image holds the state of height 2 (so the node will report height 2) but no block 2.  Replayed on
the real node by stream C05 (`C05/after-crash/crash-between-state-and-blk/block-missing-below-chain-height`). -/
theorem C05_crash_fails : ¬ C05_crash_full := by
  intro h
  have hd : DiskOK wC wch3 wImage := h wC wch3 3 [.hdr 1, .dat 2] (.hdr 2) 1 witness3_good
  obtain ⟨a, ra, rb, rc⟩ := wf_crash
  obtain ⟨b, sb, _, hsb, _⟩ := hd.blocks 2 (by decide) (by rw [ra]; exact Nat.le_refl _)
  rw [rb] at hsb
  cases hsb

/-- the witness is at the excluded boundary, and **the damage is permanent**: the restarted node reports
height 2; after *everything* has been delivered again (all headers and all data of the chain) it has moved on
to height 3 with a live loop, and block 2 is still missing — events at heights `≤` the chain height are
dropped, so it is never fetched again. -/
theorem C05_crash_witness_permanent :
    afterStateWrite (deliver wch3 wBefore (.hdr 2)).2 1 = true ∧ recHeight wC wImage = 2 ∧
    wImage.getBlock 2 = none ∧
    wAfter.map (fun n => (n.store.height, n.lastState.lastHeight, n.store.getBlock 2, n.alive)) = some (3, 3, none, true) :=
  wf_crash

/-- the same window at the initial height (header 1 arrives at the fresh node, crash after the state write):
the node reports height 1, and what it holds at height 1 is the **unsigned genesis block it wrote locally at
start-up**, not the proposer's signed block — also after everything has been delivered again (finding
`C05/after-crash/crash-between-state-and-blk/store/signature`). -/
theorem C05_crash_witness_initial_height :
    recHeight wC wImage1 = 1 ∧ (wImage1.getBlock 1).map (·.sh.sig) = some .none ∧
    (wch3 1).map (·.sh.sig.isEmpty) = some false ∧
    wAfter1.map (fun n => (n.store.height, (n.store.getBlock 1).map (·.sh.sig), n.alive)) = some (3, some .none, true) :=
  wf_crash1

/-! ## non-vacuity -/

/-- the excluded crash points of a step are exactly `k ≡ 1 (mod 3)` within the step's writes (three writes per
applied block: after the state write, before the block save) -/
theorem C05_excluded_points (g : GoodChain c ch top) (ops : List Op) (e : Ev) (k : Nat) :
    afterStateWrite (deliver ch (runOps c ch ops) e).2 k = true ↔
      k % 3 = 1 ∧ k ≤ (deliver ch (runOps c ch ops) e).2.length :=
  (deliver_safe g (runOps_safe g ops) e).2.afterStateWrite_iff k

/-- the hypotheses of `C05_crash_partial` are met on the witness chain at the other boundary inside the same
step (state and block written, height not yet raised), and the conclusion is not trivial: the image records
chain height 1, the restarted node reports height 2 = the height of its state -/
example : ∃ n ws, Sync.start wC ((runOps wC wch3 [.ev (.hdr 1), .ev (.dat 2)]).store.applyPrefix 2
      (deliver wch3 (runOps wC wch3 [.ev (.hdr 1), .ev (.dat 2)]) (.hdr 2)).2) = some (n, ws) ∧
    n.lastState.lastHeight = n.store.height := by
  have hk : afterStateWrite (deliver wch3 (runOps wC wch3 [.ev (.hdr 1), .ev (.dat 2)]) (.hdr 2)).2 2 = false := by
    cases h : afterStateWrite (deliver wch3 (runOps wC wch3 [.ev (.hdr 1), .ev (.dat 2)]) (.hdr 2)).2 2 with
    | false => rfl
    | true => have := ((C05_excluded_points witness3_good _ _ 2).mp h).1; omega
  obtain ⟨_, n, ws, a1, _, a3, _⟩ := C05_crash_partial witness3_good [.ev (.hdr 1), .ev (.dat 2)] (.hdr 2) 2 hk
  exact ⟨n, ws, a1, a3⟩

end Spec.C05
