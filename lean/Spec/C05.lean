import Proofs.SyncWitness

/-!
# C05 — a full node recovers from a crash at any point of block application

Model: the same `Sync` definitions as C02.  Every step (`Sync.onHeader` / `Sync.onData`, i.e. `deliver`)
returns the atomic durable writes it issues, in order — per applied block `[saveBlock, updateState,
setHeight]` (`block/sync.go` `trySyncNextBlock`: the block is saved **before** the state that says it was
applied, /repo 99e45dc).  **Crash** = only a prefix of those writes reaches the disk
(`Store.applyPrefix k ws`), the in-memory state and caches are lost; **restart** = `Sync.boot c image caches`:
`NewManager` (`Sync.start`: raises the chain height to the state's height, loads the cache files) and then the
start of `SyncLoop` (`Sync.loopStart`: applies what the loaded caches already allow, /repo 1fa5e4f).  Compared with
the real `SyncLoop` + `NewManager` at every write boundary by stream C05.

**Which caches after a crash.**  The in-memory caches are lost, but the cache *files* are whatever the last clean
stop wrote — nothing (`C05_crash`: `caches = {}`) or **an older generation of the caches**
(`C05_crash_stale_caches`: the caches of the node at any earlier point of the same run; `Reach.crashStale`: of any
reachable node whose height is not above the recorded height).  Before /repo 1fa5e4f a node restarted on stale
cache files could hold header and data of the next height in its caches and drop every re-delivery of them as
already seen (`C05_stale_cache_witness`).

**Which events.**  As in `Spec.C02`: `Ev` indexes the genuine parts of the chain; the theorems that conclude a
height is reached (`C05_converges_after_crashes`, `C05_recovers_after_any_crash`) are for runs without junk P2P data
items (see `Spec.C02.C02_converges_junk_fails`, recorded finding) and under `DistinctCommitments`.

Why every boundary is harmless: after `saveBlock` alone the new block sits *above* the recorded height —
the node restarts below it and applies that height again (the save is repeated); after `saveBlock,
updateState` the state is one ahead of the stored chain height, `Sync.start` raises the height to the state's
height, and the block of that height is there.
-/
namespace Spec.C05
open Wire Chain Sync

variable {c : Cfg} {ch : PChain} {top : Nat}

/-- a crash after the last write of a step is the same as no crash -/
theorem crash_after_all (s : Store) (ws : List SW) : s.applyPrefix ws.length ws = s.applyAll ws := by
  simp [Store.applyPrefix]

/-- a crash before the first write leaves the durable image unchanged -/
theorem crash_before_all (s : Store) (ws : List SW) : s.applyPrefix 0 ws = s := by
  simp [Store.applyPrefix, Store.applyAll]

/-- `DiskOK c ch d` in the words of the property: with `H = recHeight c d` the chain height the node reports
after restart, the stored height is not above `H`, every height `≤ H` has a retrievable block identical to the
proposer's, and the recorded state is the state after exactly `H`.  (Blocks above `H` are not constrained: the
image may hold the block of height `H + 1`, saved before its state.)  Last clause: the two DA-submission
watermarks that `Sync.start` reads from the metadata parse — absent or 8 bytes, which is all a node ever
writes (`Sync.start` fails otherwise; the sync loop writes no metadata). -/
theorem diskOK_iff (d : Store) : DiskOK c ch d ↔
    (d.height ≤ recHeight c d ∧
     (∀ s, d.state = some s → s = stateAt c ch (recHeight c d) ∧ c.initialHeight ≤ recHeight c d) ∧
     (∀ k, c.initialHeight ≤ k → k ≤ recHeight c d →
        ∃ b sb, ch k = some b ∧ d.getBlock k = some sb ∧ sb.sh = b.sh ∧ sb.savedSig = b.sh.sig ∧
          sb.data.txs = b.data.txs ∧ (b.data.txs ≠ [] → sb.data = b.data)) ∧
     ((∃ w, Producer.wmOf d Producer.hdrWmKey = some w) ∧ (∃ w, Producer.wmOf d Producer.dataWmKey = some w))) :=
  ⟨fun h => ⟨h.hle, h.state, h.blocks, h.wm⟩, fun ⟨a, b, c, d⟩ => ⟨a, b, c, d⟩⟩

/-! ## every crash point leaves a recoverable image -/

/-- **The property as stated: every boundary between two durable writes** (caches lost).  For every good chain,
after any events and clean restarts, for every next event and **every** number `k` of its writes that reached the
disk: the image satisfies `DiskOK`; the height it records lies between the chain height before the step and the one
the step was about to reach (nothing acknowledged is lost, nothing is invented); `Sync.boot` succeeds on it
(`NewManager` and the start of the loop, which has nothing to do: `boot` = `start`);
the restarted node reports exactly the recorded height, its state is the state after exactly that height,
every height up to it holds the proposer's block (signed header, signature, transaction list, for a non-empty
block the very same data), and the node satisfies the invariant of C02 again (with empty caches and no events
delivered yet), so that all theorems of C02 apply from it. -/
def C05_crash_full : Prop :=
  ∀ (c : Cfg) (ch : PChain) (top : Nat) (ops : List Op) (e : Ev) (k : Nat), GoodChain c ch top →
    let image := (runOps c ch ops).store.applyPrefix k (deliver ch (runOps c ch ops) e).2
    DiskOK c ch image ∧
    (runOps c ch ops).store.height ≤ recHeight c image ∧
    recHeight c image ≤ (deliver ch (runOps c ch ops) e).1.store.height ∧
    ∃ n ws, Sync.boot c image = some (n, ws) ∧ Sync.start c image = some (n, ws) ∧
      n.store.height = recHeight c image ∧
      n.lastState.lastHeight = n.store.height ∧ n.lastState = stateAt c ch n.store.height ∧
      (∀ j, c.initialHeight ≤ j → j ≤ n.store.height →
        ∃ b sb, ch j = some b ∧ n.store.getBlock j = some sb ∧ sb.sh = b.sh ∧ sb.savedSig = b.sh.sig ∧
          sb.data.txs = b.data.txs ∧ (b.data.txs ≠ [] → sb.data = b.data)) ∧
      Inv c ch n.store.height [] n

/-- **Crash safety at full strength: the statement holds at every crash point.**  (Before /repo 99e45dc the
boundary after the state write was a counterexample; the proof is by the shape of the writes of a step,
`AppliedWrites`, and the three images inside one block application, `settled_step`.) -/
theorem C05_crash : C05_crash_full := by
  intro c ch top ops e k g image
  obtain ⟨hd, b1, b2⟩ := crash_image_ok g (runOps_safe g ops) e k
  obtain ⟨n, ws, a1, a2, a3, a4, a5⟩ := diskOK_boot_empty g hd
  exact ⟨hd, b1, b2, n, ws, a1, a2, a3, a4, a5.safe.st, a5.safe.chain, a5⟩

/-- **… and with the cache files of ANY earlier generation.**  For every run `ops₁ ++ ops₂` (the caches were last
written by a clean stop after `ops₁` — any split), every next event and every crash point `k`: `Sync.boot` on the
image **with the caches of the node after `ops₁`** succeeds; the node is alive at a height between the recorded
height and … whatever those caches allowed; state, blocks and the safety invariant are as in `C05_crash`; nothing
is applicable any more (the start of the loop applied it); a crash between the writes of *this* restart (its own
and those of the blocks it applies) leaves a consistent image again; and under `DistinctCommitments` the full
invariant of C02 holds (relative to the events delivered before the caches were written), so the node converges. -/
theorem C05_crash_stale_caches (g : GoodChain c ch top) (ops₁ ops₂ : List Op) (e : Ev) (k : Nat) :
    let gen := runOps c ch ops₁
    let n₀ := runOps c ch (ops₁ ++ ops₂)
    let image := n₀.store.applyPrefix k (deliver ch n₀ e).2
    DiskOK c ch image ∧ gen.store.height ≤ recHeight c image ∧
    ∃ n ws, Sync.boot c image gen = some (n, ws) ∧ n.alive = true ∧ recHeight c image ≤ n.store.height ∧
      n.lastState.lastHeight = n.store.height ∧ n.lastState = stateAt c ch n.store.height ∧
      (∀ j, c.initialHeight ≤ j → j ≤ n.store.height →
        ∃ b sb, ch j = some b ∧ n.store.getBlock j = some sb ∧ sb.sh = b.sh ∧ sb.savedSig = b.sh.sig ∧
          sb.data.txs = b.data.txs ∧ (b.data.txs ≠ [] → sb.data = b.data)) ∧
      (∀ j, recHeight c image < j → j ≤ n.store.height → Delivered ch (evsOf ops₁) j) ∧
      ¬ (n.store.height + 1 ∈ keysH n ∧ n.store.height + 1 ∈ keysD n) ∧
      (∀ j, DiskOK c ch (image.applyPrefix j ws)) ∧
      (DistinctCommitments ch → Inv c ch (recHeight c image) (evsOf ops₁) n) := by
  intro gen n₀ image
  obtain ⟨hd, b1, _⟩ := crash_image_ok g (runOps_safe g (ops₁ ++ ops₂)) e k
  have hmono : gen.store.height ≤ n₀.store.height := by
    show (runOps c ch ops₁).store.height ≤ (runOps c ch (ops₁ ++ ops₂)).store.height
    unfold runOps; rw [runFrom_append]
    exact (runFrom_safe g ops₂ (runOps_safe g ops₁) (runOps_quiet g ops₁)).2.2
  have hle : gen.store.height ≤ recHeight c image := Nat.le_trans hmono b1
  obtain ⟨n, ws, a1, a2, a3, a4, a5, a6⟩ := diskOK_boot g hd (runOps_safe g ops₁).caches
  refine ⟨hd, hle, n, ws, a1, a4.alive, a2, a3, a4.st, a4.chain, a4.sound, a5, a6, fun dc => ?_⟩
  obtain ⟨n', ws', c1, _, _, c4, _⟩ := diskOK_boot_inv g hd (runOps_inv g dc ops₁) hle
  rw [a1] at c1; cases c1
  exact c4

/-! ## recurring crashes, and convergence after them -/

/-- **Nesting.**  Every node reachable by genuine events, clean restarts and any number of crashes (each at
**any** write boundary of any step, including steps of the re-application after an earlier crash, each followed by
a restart on the image with the caches lost **or with the cache files of an earlier generation**) satisfies the
safety invariant of C02: the loop is alive, every height up to the chain height holds the proposer's block, the
state is the state after exactly the chain height, and nothing is applicable. -/
theorem C05_recurring_crashes (g : GoodChain c ch top) {n : FNode} (r : Reach c ch n) :
    n.alive = true ∧ n.store.height = n.lastState.lastHeight ∧ n.lastState = stateAt c ch n.store.height ∧
    DiskOK c ch n.store ∧
    (∀ k, c.initialHeight ≤ k → k ≤ n.store.height →
      ∃ b sb, ch k = some b ∧ n.store.getBlock k = some sb ∧ sb.sh = b.sh ∧ sb.data.txs = b.data.txs) ∧
    ¬ (n.store.height + 1 ∈ keysH n ∧ n.store.height + 1 ∈ keysD n) := by
  obtain ⟨evs, hs, hq⟩ := reach_safe g r
  refine ⟨hs.alive, hs.hs g, hs.st, (hs.diskOK g).1, fun k h1 h2 => ?_, hq⟩
  obtain ⟨b, sb, x1, x2, x3, _, x4, _⟩ := hs.chain k h1 h2
  exact ⟨b, sb, x1, x2, x3, x4⟩

/-- and the next crash of such a node is again covered: `boot` succeeds on the image — with the caches lost, and with
the caches of any reachable node not above the recorded height — and yields a reachable node (so the argument
repeats for ever) -/
theorem C05_next_crash_restarts (g : GoodChain c ch top) {n : FNode} (r : Reach c ch n) (e : Ev) (k : Nat) :
    (∃ n' ws, Sync.boot c (n.store.applyPrefix k (deliver ch n e).2) = some (n', ws) ∧ Reach c ch n') ∧
    ∀ n₀, Reach c ch n₀ → n₀.store.height ≤ recHeight c (n.store.applyPrefix k (deliver ch n e).2) →
      ∃ n' ws, Sync.boot c (n.store.applyPrefix k (deliver ch n e).2) n₀ = some (n', ws) ∧ Reach c ch n' := by
  obtain ⟨evs, hs, _⟩ := reach_safe g r
  refine ⟨?_, fun n₀ r₀ hle => ?_⟩
  · obtain ⟨n', ws, a1, _⟩ := crash_restarts g hs e k
    exact ⟨n', ws, a1, .crash e k r a1⟩
  · obtain ⟨evs₀, hs₀, _⟩ := reach_safe g r₀
    obtain ⟨n', ws, a1, _⟩ := diskOK_boot g (crash_image_ok g hs e k).1 hs₀.caches
    exact ⟨n', ws, a1, .crashStale e k r r₀ hle a1⟩

/-- **A crash during the restart itself** (between the writes of `Sync.boot`: the local genesis block, the height
raise, the two watermark raises of `NewManager`, and the writes of the blocks the start of the loop applies from
stale caches) leaves a consistent image again, so it is covered too: starting on it gives a reachable node. -/
theorem C05_crash_during_restart (g : GoodChain c ch top) {d : Store} (hd : DiskOK c ch d) :
    ∃ n ws, Sync.boot c d = some (n, ws) ∧ Reach c ch n ∧
      ∀ j, DiskOK c ch (d.applyPrefix j ws) ∧
        ∃ n' ws', Sync.boot c (d.applyPrefix j ws) = some (n', ws') ∧ Reach c ch n' := by
  obtain ⟨n, ws, a1, _, _, _, _, a6⟩ := diskOK_boot g hd (cachesOK_empty false ch)
  refine ⟨n, ws, a1, .image hd a1, fun j => ⟨a6 j, ?_⟩⟩
  obtain ⟨n', ws', b1, _⟩ := diskOK_boot_empty g (a6 j)
  exact ⟨n', ws', b1, .image (a6 j) b1⟩

/-- **Recovery: "after restart it continues syncing and reaches the proposer's chain".**  From any such node,
for any delivery order of the remaining (or all) headers and data, with duplicates and clean restarts: the
node applies every block up to any height `h` for which both parts of all blocks above its current height
were delivered after the restart.  (Convergence needs `DistinctCommitments` and genuine events, see `Spec.C02`.) -/
theorem C05_converges_after_crashes (g : GoodChain c ch top) (dc : DistinctCommitments ch) {n : FNode}
    (r : Reach c ch n) (ops : List Op) (h : Nat)
    (hready : ∀ k, n.store.height < k → k ≤ h → Delivered ch (evsOf ops) k) :
    h ≤ (runFrom c ch n ops).store.height := by
  obtain ⟨evs, hi⟩ := reach_inv g dc r
  exact converges_from g dc hi ops h hready

/-- **Any crash, then everything delivered again: the node holds the whole chain** — whatever generation of the
cache files it restarted on (`gen = runOps c ch ops₁` for any split `ops₁ ++ ops₂` of the run; `ops₁ = []` is "caches
lost" up to the empty seen-sets).  For every run, next event and crash point: the node restarted on the image, after
any further delivery (any order, duplicates, clean restarts) that contains both parts of every block above its
height, is alive, has reached `top`, and every height from the initial height up to its chain height — in
particular the initial height itself — holds the proposer's signed block. -/
theorem C05_recovers_after_any_crash (g : GoodChain c ch top) (dc : DistinctCommitments ch) (ops₁ ops₂ : List Op)
    (e : Ev) (k : Nat) (ops' : List Op) :
    let n₀ := runOps c ch (ops₁ ++ ops₂)
    let image := n₀.store.applyPrefix k (deliver ch n₀ e).2
    ∃ n ws, Sync.boot c image (runOps c ch ops₁) = some (n, ws) ∧
      ((∀ j, n.store.height < j → j ≤ top → Delivered ch (evsOf ops') j) →
        (runFrom c ch n ops').alive = true ∧ top ≤ (runFrom c ch n ops').store.height ∧
        ∀ j, c.initialHeight ≤ j → j ≤ (runFrom c ch n ops').store.height →
          ∃ b sb, ch j = some b ∧ (runFrom c ch n ops').store.getBlock j = some sb ∧ sb.sh = b.sh ∧
            sb.savedSig = b.sh.sig ∧ sb.data.txs = b.data.txs) := by
  intro n₀ image
  obtain ⟨_, _, n, ws, a1, _, _, _, _, _, _, _, _, a10⟩ := C05_crash_stale_caches g ops₁ ops₂ e k
  have hi := a10 dc
  refine ⟨n, ws, a1, fun hall => ?_⟩
  have hi' := runFrom_inv g dc ops' hi
  refine ⟨hi'.safe.alive, converges_from g dc hi ops' top hall, ?_⟩
  intro j h1 h2
  obtain ⟨b, sb, x1, x2, x3, x4, x5, _⟩ := hi'.safe.chain j h1 h2
  exact ⟨b, sb, x1, x2, x3, x4, x5⟩

/-! ## the witnesses of the repaired defects now recover (kernel-checked) -/

theorem witness3_good : GoodChain wC wch3 3 := goodChain_of_check wC _ 3 (by decide) wf_check3
theorem witness3_distinct : DistinctCommitments wch3 := distinct_of_check 1 3 _ wf_distinct3

/-- **The former counterexample** (chain of three blocks built by the producer model; header 1 and data 2 are
delivered, then header 2 arrives and the process dies after the first of the three writes of applying block 2
— before /repo 99e45dc: state of height 2 without block 2, for ever).  Now the first write is the block: the
image still records height 1 (stored height 1), holds the proposer's block 2 above it, the restarted node
reports height 1 = the height of its state; and after everything has been delivered again it is alive at
height 3 = the height of its state and holds the whole chain (signed header, signature, transactions at
heights 1, 2, 3). -/
theorem C05_crash_witness_recovers :
    (deliver wch3 wBefore (.hdr 2)).2.length = 3 ∧ wBefore.store.height = 1 ∧
    recHeight wC wImage = 1 ∧ wImage.height = 1 ∧ holdsBlock wch3 wImage 2 = true ∧
    (Sync.boot wC wImage).map (fun p => (p.1.store.height, p.1.lastState.lastHeight)) = some (1, 1) ∧
    wAfter.map (fun n => (n.store.height, n.lastState.lastHeight, holdsChain3 n.store, n.alive)) = some (3, 3, true, true) :=
  wf_crash

/-- the only remaining window in which the state is ahead of the stored chain height (same step, crash after the
second write: block and state written, height not yet): the image records height 2 with stored height 1 and
holds block 2; the restarted node reports height 2; after re-delivery it holds the whole chain -/
theorem C05_crash_witness_state_ahead :
    recHeight wC wImageS = 2 ∧ wImageS.height = 1 ∧ holdsBlock wch3 wImageS 2 = true ∧
    (Sync.boot wC wImageS).map (fun p => (p.1.store.height, p.1.lastState.lastHeight)) = some (2, 2) ∧
    wAfterS.map (fun n => (n.store.height, n.lastState.lastHeight, holdsChain3 n.store, n.alive)) = some (3, 3, true, true) :=
  wf_crashS

/-- **The former counterexample at the initial height** (header 1 arrives at the fresh node, crash after the
first write of applying block 1 — before the repair the node reported height 1 and kept the *unsigned genesis
block it wrote locally at start-up* for ever).  Now the image records height 0 (nothing applied) with the
proposer's signed block 1 already saved; the restarted node reports height 0; after everything has been
delivered again it is at height 3 and what it holds at height 1 is **the proposer's signed block** (the
proposer's block 1 is signed, the stored signature is not empty). -/
theorem C05_crash_witness_initial_height_recovers :
    recHeight wC wImage1 = 0 ∧ holdsBlock wch3 wImage1 1 = true ∧
    (wch3 1).map (·.sh.sig.isEmpty) = some false ∧
    (Sync.boot wC wImage1).map (fun p => (p.1.store.height, p.1.lastState.lastHeight)) = some (0, 0) ∧
    wAfter1.map (fun n => (n.store.height, n.lastState.lastHeight, holdsChain3 n.store,
      (n.store.getBlock 1).map (·.sh.sig.isEmpty), n.alive)) = some (3, 3, true, some false, true) :=
  wf_crash1

/-- **The witness of the stale-cache defect** (repaired by /repo 1fa5e4f; kernel-checked).  Header 1, header 3 and
data 3 are delivered; the node is stopped cleanly (cache files: header 3 and data 3 cached and seen) and restarted;
data 2 and header 2 arrive, blocks 2 and 3 are being applied (6 writes) and the process dies after 4 of them
(block 3 saved, its state not: recorded height 2).  `NewManager` on that image with the stale cache files gives a
node at height 2 holding header 3 and data 3 in its caches (the next block is applicable, nothing applies it);
**without the start of the loop** every header of the chain delivered again is dropped (heights ≤ 2: below the chain
height; header 3: already seen) and the node stays at height 2 — at the end of a chain of empty blocks for ever; the
former behaviour, replayed on the real node by stream C05
(`C05/after-crash/…/stall/stale-cache-files`); `Sync.boot` applies block 3 at once: height 3 = state height, the
whole chain held. -/
theorem C05_stale_cache_witness :
    (deliver wch3 wStaleBefore (.hdr 2)).2.length = 6 ∧ wGen.store.height = 1 ∧ recHeight wC wStaleImage = 2 ∧
    (Sync.start wC wStaleImage wGen).map (fun p => (p.1.store.height, decide (3 ∈ keysH p.1 ∧ 3 ∈ keysD p.1),
       (runFrom wC wch3 p.1 [.ev (.hdr 1), .ev (.hdr 2), .ev (.hdr 3)]).store.height)) = some (2, true, 2) ∧
    (Sync.boot wC wStaleImage wGen).map (fun p => (p.1.store.height, p.1.lastState.lastHeight, holdsChain3 p.1.store, p.1.alive))
      = some (3, 3, true, true) :=
  wf_stale

/-! ## non-vacuity -/

/-- the crash points of a step are the `3·(h' - h) + 1` prefixes of its writes (three writes per applied block);
larger `k` are the same as no crash -/
theorem C05_crash_points (g : GoodChain c ch top) (ops : List Op) (e : Ev) :
    (deliver ch (runOps c ch ops) e).2.length =
      3 * ((deliver ch (runOps c ch ops) e).1.store.height - (runOps c ch ops).store.height) :=
  (deliver_safe g (runOps_safe g ops) e).2.consecutive.2.2.2

/-- the order of the three writes of one applied block, as the model (and the code) issues them -/
example (n : FNode) (sh : SHeader) (d : Data) : blockWrites n sh d =
    [.saveBlock (n.store.height + 1) (blockOf sh d), .updateState (stateAfter n sh d), .setHeight (n.store.height + 1)] := rfl

/-- `C05_crash` is not vacuous and its conclusion not trivial: on the witness chain, at the former bad point
`k = 1` of a step with three writes, the restarted node exists and reports height 1 although block 2 is already
on disk; at `k = 2` it reports height 2 while the image's stored height is still 1 -/
example : (∃ n ws, Sync.boot wC ((runOps wC wch3 [.ev (.hdr 1), .ev (.dat 2)]).store.applyPrefix 1
      (deliver wch3 (runOps wC wch3 [.ev (.hdr 1), .ev (.dat 2)]) (.hdr 2)).2) = some (n, ws) ∧
      n.lastState.lastHeight = n.store.height ∧ Inv wC wch3 n.store.height [] n) ∧
    recHeight wC wImage = 1 ∧ recHeight wC wImageS = 2 ∧ wImageS.height = 1 := by
  obtain ⟨_, _, _, n, ws, a1, _, _, a3, _, _, a6⟩ := C05_crash wC wch3 3 [.ev (.hdr 1), .ev (.dat 2)] (.hdr 2) 1 witness3_good
  exact ⟨⟨n, ws, a1, a3, a6⟩, wf_crash.2.2.1, wf_crashS.1, wf_crashS.2.1⟩

/-- `C05_crash_stale_caches` is not vacuous: `wGen` is the node after a prefix of a run (`ops₁` ends with the clean
restart), the crashing node is the node after the whole run -/
example : wGen = runOps wC wch3 [.ev (.hdr 1), .ev (.hdr 3), .ev (.dat 3), .restart] ∧
    wStaleBefore = runOps wC wch3 ([.ev (.hdr 1), .ev (.hdr 3), .ev (.dat 3), .restart] ++ [.ev (.dat 2)]) := by
  refine ⟨rfl, ?_⟩
  unfold wStaleBefore wGen runOps
  rw [runFrom_append]

/-- `C05_recovers_after_any_crash` applies to the witness chain (good, distinct commitments) -/
example : GoodChain wC wch3 3 ∧ DistinctCommitments wch3 := ⟨witness3_good, witness3_distinct⟩

end Spec.C05
