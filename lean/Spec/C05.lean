import Model.Sync

/-! # C05 — a full node recovers from a crash at any point of block application
(placeholder: the full theorem set is under construction) -/
namespace Spec.C05
open Wire Chain Sync

/-- a crash after the last write of a step is the same as no crash -/
theorem crash_after_all (s : Store) (ws : List SW) : s.applyPrefix ws.length ws = s.applyAll ws := by
  simp [Store.applyPrefix]

/-- a crash before the first write leaves the durable image unchanged -/
theorem crash_before_all (s : Store) (ws : List SW) : s.applyPrefix 0 ws = s := by
  simp [Store.applyPrefix, Store.applyAll]

end Spec.C05
