import Proofs.Producer
import Proofs.CrashBatch
import Proofs.CrashSigner
import Proofs.CrashData

/-!
# C01 — the sequencer node only ever commits a valid, hash-linked, signed chain

Model: `Producer.publish` (`block/manager.go` `publishBlockInternal`), `Producer.start`
(`NewManager`), executable and compared with the real code on every run (streams C01/C04).
All theorems quantify over **every** list of sequencing-layer responses (error, no batch, empty /
non-empty batch, any transactions, any timestamps) and execution outcomes, every initial height ≥ 1.
Assumptions: the execution layer is the stateless double `execRoot` / `ExecResp = ok | fail` (asked again for the
same block it answers the same root); liveness (`C01_recovers`) has the hypotheses `signerAddr = proposerAddr`,
`proposerAddr ≠ []`, `maxPending = 0`; safety holds for any signer (`C01_valid_chain_any_signer`).
-/
namespace Spec.C01
open Wire Chain Producer

/-- the property's chain predicate, in the vocabulary of the statement -/
def ValidChain (c : Cfg) (s : Store) : Prop :=
  ∀ h, c.initialHeight ≤ h → h ≤ s.height → ∃ b, s.getBlock h = some b ∧
    b.sh.hdr.height = h ∧                                             -- extends the chain by exactly one height
    verify c.key (payload b.sh.hdr) b.sh.sig = true ∧                 -- signed by the genesis proposer's key …
    b.sh.signer = mySigner c ∧ b.sh.hdr.proposerAddress = c.proposerAddr ∧ b.savedSig = b.sh.sig ∧
    b.data.daCommitment = b.sh.hdr.dataHash ∧                         -- commits to exactly its transactions (in order)
    (h = c.initialHeight → b.sh.hdr.appHash = c.genesisRoot) ∧        -- state root obtained by executing all earlier blocks
    (h > c.initialHeight → ∃ p, s.getBlock (h - 1) = some p ∧
      b.sh.hdr.lastHeaderHash = p.sh.hdr.hash ∧                        -- names the hash of the previous header
      p.sh.hdr.time ≤ b.sh.hdr.time ∧                                  -- not timestamped earlier than its predecessor
      b.sh.hdr.appHash = execRoot p.sh.hdr.appHash p.data.txs)

theorem validChain_of_inv {c : Cfg} {n : Node} (hi : Inv c n) : ValidChain c n.store := by
  intro h h1 h2
  obtain ⟨b, hb, hl⟩ := hi.chain h h1 h2
  refine ⟨b, hb, hl.height, ?_, hl.signer, hl.proposer, hl.saved, hl.dataHash, fun e => (hl.first e).1, hl.link⟩
  rw [hl.sig]; exact verify_by _ _

/-- **Safety.** From a fresh start, no sequence of responses of the sequencing or execution layer makes the
node commit a chain that is not valid. -/
theorem C01_valid_chain (c : Cfg) (hpos : 1 ≤ c.initialHeight) (rs : List (SeqResp × ExecResp)) :
    ∃ n0 ws, start c {} = .ok (n0, ws) ∧ ValidChain c (run c n0 rs).store :=
  ⟨freshNode c, freshWrites c, start_empty c, validChain_of_inv (run_inv (freshNode_inv c hpos) rs)⟩

/-! ### any signer

The theorems of this file are about `publish`/`run`: the production step of a node that holds **the genesis proposer's
key** (`c.key`; `signerAddr = proposerAddr`).  The compiled driver executes `publishB`/`runB`, which is `publish`
exactly then (`C01_own_key`), and which models what the real node does with a foreign key. -/

/-- with the genesis proposer's own key the driver's step is `publish`, its runs are `run` -/
theorem C01_own_key {c : Cfg} (h : c.signerAddr = c.proposerAddr) (n : Node) (rs : List (SeqResp × ExecResp)) :
    runB c n rs = run c n rs ∧ ∀ r e, publishB c n r e = publish c n r e :=
  ⟨runB_eq h n rs, publishB_eq h n⟩

/-- **Safety for any signer**: whatever key the node signs with, no response sequence makes it commit an invalid
chain … -/
theorem C01_valid_chain_any_signer (c : Cfg) (hpos : 1 ≤ c.initialHeight) (rs : List (SeqResp × ExecResp)) :
    ∃ n0 ws, start c {} = .ok (n0, ws) ∧ ValidChain c (runB c n0 rs).store :=
  ⟨freshNode c, freshWrites c, start_empty c, validChain_of_inv (runB_live (freshNode_live c hpos) rs).toInv⟩

/-- … and **a node whose signer is not the genesis proposer never commits anything**: no step answers `ok`, the chain
height stays below the initial height.  (Real code: `NewManager` accepts any signer; the genesis block it saves
carries the foreign key under the proposer's address and fails `ValidateBasic` for ever; on an existing chain
`execCreateBlock` refuses — stream C01, scenarios `sk=2`.) -/
theorem C01_foreign_signer_commits_nothing (c : Cfg) (hpos : 1 ≤ c.initialHeight) (hf : c.signerAddr ≠ c.proposerAddr)
    (rs : List (SeqResp × ExecResp)) (r : SeqResp) (e : ExecResp) :
    (runB c (freshNode c) rs).store.height = c.initialHeight - 1 ∧
    (publishB c (runB c (freshNode c) rs) r e).2.2 ≠ .ok := by
  have hl := freshNode_live c hpos
  refine ⟨?_, (publishB_foreign (runB_live hl rs) hf r e).1⟩
  rw [(runB_foreign hl hf rs).1]
  exact (freshDisk_facts c).1

/-- the state a full node holds before it applies block `h` of a chain -/
def stateBefore (c : Cfg) (s : Store) (h : Nat) : State :=
  if h = c.initialHeight then
    { chainId := c.chainId, initialHeight := c.initialHeight, lastHeight := h - 1, lastTime := c.genesisTime, appHash := c.genesisRoot }
  else match s.getBlock (h - 1) with
    | some p => { chainId := c.chainId, initialHeight := c.initialHeight, lastHeight := h - 1, lastTime := p.sh.hdr.time,
                  appHash := execRoot p.sh.hdr.appHash p.data.txs }
    | none => {}

/-- **Every committed block passes the validation a full node applies** (`execValidate`, the very function of
the syncer model) against the state obtained from its predecessors. -/
theorem C01_full_node_validates {c : Cfg} {n : Node} (hi : Inv c n) (h : Nat)
    (h1 : c.initialHeight ≤ h) (h2 : h ≤ n.store.height) :
    ∃ b, n.store.getBlock h = some b ∧ execValidate (stateBefore c n.store h) b.sh b.data = none := by
  obtain ⟨b, hb, hl⟩ := hi.chain h h1 h2
  refine ⟨b, hb, ?_⟩
  have hvb : validateBasic b.sh = none := by
    have hne := hl.proposerNonEmpty
    unfold validateBasic
    rw [if_neg hne]
    simp only [hl.sig, Sig.isEmpty, hl.signer, hl.proposer, mySigner]
    simp [verify_by]
  have hvd : validateData b.sh b.data = none := by
    unfold validateData
    split
    · rename_i m hm
      obtain ⟨a1, a2, a3⟩ := hl.metaOK m hm
      simp [a1, a2, a3, hl.dataHash]
    · simp [hl.dataHash]
  unfold execValidate
  simp only [hvb, hvd]
  by_cases hfirst : h = c.initialHeight
  · obtain ⟨fa, ft⟩ := hl.first hfirst
    have hpos := hi.ihPos
    simp only [stateBefore, hfirst, ↓reduceIte, hl.chainId, hl.height]
    simp only [hfirst] at ft
    simp [fa]
    rw [if_pos (by omega)]
    rw [if_neg]
    intro ⟨hgt, hlt⟩
    have := ft hgt; omega
  · obtain ⟨p, hp, _, ht, ha⟩ := hl.link (by omega)
    have hpos := hi.ihPos
    simp only [stateBefore, hfirst, ↓reduceIte, hp, hl.chainId, hl.height]
    simp [ha]
    rw [if_pos (by omega)]
    rw [if_neg]
    intro ⟨_, hlt⟩
    omega

/-- **The chain height changes by 0 or +1 in every step** and **a committed block is never replaced**. -/
theorem C01_height_step {c : Cfg} {n : Node} (hi : Inv c n) (r : SeqResp) (e : ExecResp) :
    (publish c n r e).1.store.height = n.store.height ∨ (publish c n r e).1.store.height = n.store.height + 1 :=
  (publish_store hi r e).1

theorem C01_committed_never_replaced {c : Cfg} {n : Node} (hi : Inv c n) (r : SeqResp) (e : ExecResp)
    (k : Nat) (hk : k ≤ n.store.height) : (publish c n r e).1.store.getBlock k = n.store.getBlock k :=
  (publish_store hi r e).2 k hk

/-- along any run, blocks at or below the current height stay what they are and the height never decreases -/
theorem C01_run_stable {c : Cfg} {n : Node} (hi : Inv c n) (rs : List (SeqResp × ExecResp)) :
    n.store.height ≤ (run c n rs).store.height ∧
    ∀ k, k ≤ n.store.height → (run c n rs).store.getBlock k = n.store.getBlock k := by
  induction rs generalizing n with
  | nil => exact ⟨Nat.le_refl _, fun _ _ => rfl⟩
  | cons r rs ih =>
    have hs := publish_store hi r.1 r.2
    have hi' := publish_inv hi r.1 r.2
    obtain ⟨a, b⟩ := ih hi'
    have hle : n.store.height ≤ (publish c n r.1 r.2).1.store.height := by
      rcases hs.1 with h | h <;> omega
    refine ⟨Nat.le_trans hle a, fun k hk => ?_⟩
    show (run c (publish c n r.1 r.2).1 rs).store.getBlock k = _
    rw [b k (Nat.le_trans hk hle), hs.2 k hk]

/-- **A block built from a batch holds exactly the batch's transactions, in order.** -/
theorem C01_txs_from_batch (c : Cfg) (st : State) (h : Nat) (ls : Sig) (lhh : Bytes) (txs : List Bytes) (ts : Nat) :
    (createBlock c st h ls lhh txs ts).2.txs = txs ∧
    (createBlock c st h ls lhh txs ts).1.hdr.dataHash =
      (if txs.isEmpty then emptyDataHash else ({ txs := txs } : Data).daCommitment) := by
  simp [createBlock]

/-- **Every committed block is the block of one batch of the run — its transactions, in order, and its timestamp.**
For every run from a fresh start over any response list `rs` there is an index function `f` such that every height
`h` above the initial height and at most the chain height holds a block whose transactions are exactly the
transactions of the batch answered at position `f h` of `rs` (same list, same order) and whose header time is that
batch's timestamp; `f` is strictly increasing in `h` (batches are consumed in order, none twice).  This includes
blocks committed through "using pending block" after execution failures: the batch of such a block is the one taken
when it was first built (`Proofs/CrashBatch.lean`: a ghost history kept in the proof, the model is unchanged; the
version over histories with crashes and restarts is `Spec.C04.C04_blocks_are_their_batches`).  The block at the
initial height is the genesis block `NewManager` saved: no transactions, genesis time — it consumes no batch. -/
theorem C01_blocks_are_their_batches (c : Cfg) (hpos : 1 ≤ c.initialHeight) (rs : List (SeqResp × ExecResp)) :
    ∃ f : Nat → Nat,
      (∀ h, c.initialHeight < h → h ≤ (run c (freshNode c) rs).store.height →
        ∃ b txs ts bd e, (run c (freshNode c) rs).store.getBlock h = some b ∧
          rs[f h]? = some (.batch txs ts bd, e) ∧ b.data.txs = txs ∧ b.sh.hdr.time = ts) ∧
      (∀ h h', c.initialHeight < h → h < h' → h' ≤ (run c (freshNode c) rs).store.height → f h < f h') ∧
      (c.initialHeight ≤ (run c (freshNode c) rs).store.height →
        ∃ b, (run c (freshNode c) rs).store.getBlock c.initialHeight = some b ∧ b.data.txs = [] ∧
          b.sh.hdr.time = c.genesisTime) := by
  obtain ⟨σ, f, hr, hg, hs⟩ := runOps_src (good_init c hpos) (src_init c (fun _ => 0)) (rs.map fun r => Op.step r.1 r.2)
  obtain ⟨σ', hr', hnode⟩ := runOps_steps c (initSt c) rs
  rw [hr] at hr'
  cases hr'
  have hnode' : σ.node = run c (freshNode c) rs := hnode
  rw [← hnode']
  obtain ⟨hn, hn0⟩ := hs.node hg
  have hi := hg.inv
  refine ⟨f, fun h h1 h2 => ?_, fun h h' h1 h2 h3 => ?_, fun h1 => ?_⟩
  · obtain ⟨b, hb, _⟩ := hi.chain h (by omega) h2
    obtain ⟨txs, bd, e, hop, htx⟩ := hn h b h1 hb
    simp only [List.nil_append, List.getElem?_map, Option.map_eq_some_iff] at hop
    obtain ⟨r, hr1, hr2⟩ := hop
    simp only [Op.step.injEq] at hr2
    refine ⟨b, txs, b.sh.hdr.time, bd, e, hb, ?_, htx, rfl⟩
    rw [hr1, ← hr2.1, ← hr2.2]
  · obtain ⟨b, hb, _⟩ := hi.chain h' (by omega) h3
    exact hs.mono h h' h1 h2 (by rw [hb]; simp)
  · obtain ⟨b, hb, _⟩ := hi.chain c.initialHeight (Nat.le_refl _) h1
    obtain ⟨g1, g2⟩ := hn0 b hb
    exact ⟨b, hb, g1, g2⟩

/-- the **data chain** of a store up to `top`: every block from the initial height up to `top` carries metadata; the
metadata repeats chain id, height and time of the block's header; and its `lastDataHash` is the hash of the data
stored one height below (`types.Data.Verify`, the adjacency rule go-header applies to the data P2P store) — empty at
the initial height.  `execValidate` skips this field, so it is not part of `ValidChain`'s validation clause. -/
def DataChain (c : Cfg) (s : Store) (top : Nat) : Prop :=
  ∀ h, c.initialHeight ≤ h → h ≤ top → ∃ b m, s.getBlock h = some b ∧ b.data.metadata = some m ∧
    m.chainId = b.sh.hdr.chainId ∧ m.height = b.sh.hdr.height ∧ m.time = b.sh.hdr.time ∧
    (h = c.initialHeight → m.lastDataHash = []) ∧
    (h > c.initialHeight → ∃ p, s.getBlock (h - 1) = some p ∧ m.lastDataHash = p.data.hash)

theorem dataChain_iff (c : Cfg) (s : Store) (top : Nat) : DataChain c s top ↔ DataLinkedUpTo c s top := Iff.rfl

/-- **Every committed block's data names the hash of the previous block's data**, for every run — whether the block
was committed in the step that built it or later through "using pending block" (the `lastDataHash` attached is the
one read from the store in the committing step; helpers `Proofs/CrashData.lean`; with crashes:
`Spec.C04.C04_data_links`). -/
theorem C01_data_links (c : Cfg) (hpos : 1 ≤ c.initialHeight) (rs : List (SeqResp × ExecResp)) :
    DataChain c (run c (freshNode c) rs).store (run c (freshNode c) rs).store.height :=
  run_dataLinked (freshNode_inv c hpos) (freshNode_dataLinked c hpos) rs

/-! ## Liveness: "nor does any such sequence leave it permanently unable to produce blocks" -/

/-- a well-formed answer: a batch that is not timestamped before the last block, executed successfully -/
def WellFormed (n : Node) (r : SeqResp × ExecResp) : Prop :=
  match r with
  | (.batch _ ts _, .ok) => n.lastState.lastTime ≤ ts
  | _ => False

instance (n : Node) (r : SeqResp × ExecResp) : Decidable (WellFormed n r) := by
  unfold WellFormed; split <;> infer_instance

/-- full statement: from every reachable node, two consecutive well-formed answers raise the height -/
def C01_recovers_full : Prop :=
  ∀ (c : Cfg) (rs : List (SeqResp × ExecResp)) (r1 r2 : SeqResp × ExecResp),
    1 ≤ c.initialHeight → c.signerAddr = c.proposerAddr → c.proposerAddr ≠ [] → c.maxPending = 0 →
    WellFormed (run c (freshNode c) rs) r1 → WellFormed (run c (freshNode c) rs) r2 →
    (run c (freshNode c) rs).store.height < (run c (freshNode c) (rs ++ [r1, r2])).store.height

def wCfg : Cfg := { chainId := "w", initialHeight := 1, genesisTime := 100, proposerAddr := [1], key := 1, signerAddr := [1] }
/-- two ordinary blocks, then an *empty* batch timestamped before the last block -/
def wRun : List (SeqResp × ExecResp) :=
  [(.batch [[1]] 200 [], .ok), (.batch [[2]] 300 [], .ok), (.batch [] 250 [], .ok)]
def wProbe : SeqResp × ExecResp := (.batch [[3]] 400 [], .ok)

/-- The witness that refuted the full statement before the repair `fix: apply the timestamp monotonicity guard
to empty batches too` (/repo 44100eb): it now ends in `errTime` at the third response and nothing is saved. -/
theorem C01_old_witness_recovers : (run wCfg (freshNode wCfg) wRun).store.height <
    (run wCfg (freshNode wCfg) (wRun ++ [wProbe, wProbe])).store.height := by
  decide +kernel

/-- every node reachable from a fresh start satisfies `Live`: the production invariant, and a block waiting at
`height + 1` (early-saved before a failed execution, or the genesis block) is one that `execValidate` will accept:
right chain id, app hash of the current state, the genesis proposer, data commitment = data hash and — what repair
44100eb guarantees — a timestamp not before the last block's -/
theorem reachable_live (c : Cfg) (hpos : 1 ≤ c.initialHeight) (rs : List (SeqResp × ExecResp)) :
    Live c (run c (freshNode c) rs) := run_live (freshNode_live c hpos) rs

/-- **One well-formed answer suffices.**  From every `Live` node — in particular every reachable one — a batch that
is not timestamped before the last block, executed successfully, commits a block: the step returns `ok` and the
height rises by exactly one, whether a block was waiting at `height + 1` ("using pending block") or not. -/
theorem C01_one_answer_commits {c : Cfg} {n : Node} (hl : Live c n)
    (hmax : c.maxPending = 0) (hsg : c.signerAddr = c.proposerAddr) (hne : c.proposerAddr ≠ [])
    (r : SeqResp × ExecResp) (hw : WellFormed n r) :
    (publish c n r.1 r.2).2.2 = .ok ∧ (publish c n r.1 r.2).1.store.height = n.store.height + 1 := by
  obtain ⟨resp, e⟩ := r
  cases resp with
  | err => exact absurd hw (by simp [WellFormed])
  | absent => exact absurd hw (by simp [WellFormed])
  | batch txs ts bd =>
    cases e with
    | fail => exact absurd hw (by simp [WellFormed])
    | ok => exact live_commits hl hmax hsg hne txs ts bd hw

/-- **Liveness, full statement**: no sequence of responses leaves the node permanently unable to produce blocks —
from every node reachable from a fresh start by any response sequence, two consecutive well-formed answers raise
the height (the first one already does; the second cannot lower it). -/
theorem C01_recovers : C01_recovers_full := by
  intro c rs r1 r2 hpos hsg hne hmax hw1 _
  have hl := reachable_live c hpos rs
  have hrun : run c (freshNode c) (rs ++ [r1, r2]) =
      (publish c (publish c (run c (freshNode c) rs) r1.1 r1.2).1 r2.1 r2.2).1 := by
    simp [run, List.foldl_append]
  rw [hrun]
  generalize run c (freshNode c) rs = n at hl hw1 ⊢
  obtain ⟨_, h1⟩ := C01_one_answer_commits hl hmax hsg hne r1 hw1
  have h2 := (publish_store (publish_inv hl.toInv r1.1 r1.2) r2.1 r2.2).1
  omega

/-- the case "nothing stored at `height + 1`" (all that could be proved before the repair) only needs `Inv` -/
theorem C01_recovers_partial {c : Cfg} {n : Node} (hi : Inv c n)
    (hnone : n.store.getBlock (n.store.height + 1) = none)
    (hmax : c.maxPending = 0) (hsg : c.signerAddr = c.proposerAddr) (hne : c.proposerAddr ≠ [])
    (txs : List Bytes) (ts : Nat) (bd : List Bytes) (hts : n.lastState.lastTime ≤ ts) :
    (publish c n (.batch txs ts bd) .ok).2.2 = .ok ∧
    (publish c n (.batch txs ts bd) .ok).1.store.height = n.store.height + 1 :=
  fresh_commits hi hnone hmax hsg hne txs ts bd hts

/-- non-vacuity of `C01_one_answer_commits` in the interesting case: a reachable node with a block **waiting** at
`height + 1` (two blocks committed, then a batch whose execution fails after the early save) -/
def pRun : List (SeqResp × ExecResp) := wRun.take 2 ++ [(.batch [[9]] 350 [], .fail)]

example : (run wCfg (freshNode wCfg) pRun).store.height = 2 ∧
    ((run wCfg (freshNode wCfg) pRun).store.getBlock 3).isSome = true ∧
    WellFormed (run wCfg (freshNode wCfg) pRun) wProbe ∧
    (run wCfg (freshNode wCfg) (pRun ++ [wProbe])).store.height = 3 := by decide +kernel

/-- `C01_blocks_are_their_batches` at work: after `pRun` (third answer `[[9]]`@350, execution fails after the early
save) and a probe (`[[3]]`@400, "using pending block"), block 3 holds the transactions and the time of the batch it
was first built from — position 2 of the run — not those of the answer that was pending when it was committed -/
example : ((run wCfg (freshNode wCfg) (pRun ++ [wProbe])).store.getBlock 3).map (fun b => (b.data.txs, b.sh.hdr.time))
    = some ([[9]], 350) ∧ (pRun ++ [wProbe])[2]? = some (.batch [[9]] 350 [], .fail) := by
  constructor
  · decide +kernel
  · rfl

/-- `C01_data_links` at work on the pending path: block 3 of `pRun ++ [wProbe]` (built at position 2, execution failed, committed by the
probe) names the hash of block 2's data -/
example : ((run wCfg (freshNode wCfg) (pRun ++ [wProbe])).store.getBlock 3).bind (fun b => b.data.metadata.map (·.lastDataHash))
    = ((run wCfg (freshNode wCfg) (pRun ++ [wProbe])).store.getBlock 2).map (fun p => p.data.hash) ∧
    ((run wCfg (freshNode wCfg) (pRun ++ [wProbe])).store.getBlock 2).isSome = true := by decide +kernel

/-- non-vacuity: the hypotheses of the theorems above are met by a concrete reachable node that has
committed two blocks -/
example : Inv wCfg (run wCfg (freshNode wCfg) (wRun.take 2)) ∧
    (run wCfg (freshNode wCfg) (wRun.take 2)).store.height = 2 :=
  ⟨run_inv (freshNode_inv wCfg (by decide)) _, by decide +kernel⟩

end Spec.C01
