import Model.Retrieve

/-! # C03 — only material signed by the genesis proposer's key is ever accepted
(first theorems on the DA admission path) -/
namespace Spec.C03
open Wire Chain Retrieve

/-- **What admission of a DA header guarantees today** (`_partial`): an accepted header names the genesis
proposer's address, carries a signer with that same address, and its signature verifies **under the key the blob
itself carries**.  Nothing relates that key to the address. -/
theorem classifyData_not_header (o : Oracle) (proposer bs : Bytes) (sh : SignedHeader) :
    classifyData o proposer bs ≠ .hdrAccepted sh := by
  unfold classifyData
  split
  · simp
  · split
    · simp
    · split
      · simp
      · split <;> simp

theorem admit_selfconsistent_partial (o : Oracle) (proposer bs : Bytes) (sh : SignedHeader)
    (h : classify o proposer bs = .hdrAccepted sh) :
    sh.header.proposerAddress = proposer ∧ sh.header.proposerAddress = sh.signer.address ∧
    sh.signer.pubKey ≠ [] ∧ o.hdrSigOk = true := by
  unfold classify at h
  split at h
  · simp at h
  · split at h
    · exact absurd h (classifyData_not_header _ _ _ _)
    · simp at h
    · rename_i x hst
      split at h
      · exact absurd h (classifyData_not_header _ _ _ _)
      · rename_i hvb
        split at h
        · simp at h
        · rename_i hp
          have hx : x = sh := by simpa using h
          subst hx
          simp [validateBasicWire] at hvb
          simp at hp
          exact ⟨hp, hvb.1.1.2, hvb.1.2, hvb.2⟩

/-- the same for signed data: accepted data names the proposer's address and verifies under the carried key -/
theorem admit_data_selfconsistent_partial (o : Oracle) (proposer bs : Bytes) (sd : SignedData)
    (h : classifyData o proposer bs = .dataAccepted sd) :
    sd.signer.address = proposer ∧ sd.signer.pubKey ≠ [] ∧ o.dataSigOk = true ∧ sd.data.txs ≠ [] := by
  unfold classifyData at h
  split at h
  · simp at h
  · rename_i x hx
    split at h
    · simp at h
    · rename_i hne
      split at h
      · simp at h
      · split at h
        · rename_i hv
          have : x = sd := by simpa using h
          subst this
          simp [validSignedData] at hv
          refine ⟨hv.1.1, hv.1.2, hv.2, ?_⟩
          intro he; simp [he] at hne
        · simp at h

end Spec.C03
