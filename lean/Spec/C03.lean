import Model.Retrieve
import Proofs.RetrieveAdmit
import Proofs.RetrieveEnd

/-! # C03 — only material signed by the genesis proposer's key is ever accepted

Admission of DA blobs (`Retrieve.classify` = `handlePotentialHeader` / `handlePotentialData` with
`isUsingExpectedSingleSequencer`, `SignedHeader.ValidateBasic`, `isValidSignedData`) and of P2P headers
(`Retrieve.p2pAdmit` = the test `HeaderStoreRetrieveLoop` applies), on BYTES decoded with the wire model, the
third-party crypto being per-item oracle answers (`Oracle`: does the key THE ITEM CARRIES parse / verify the
signature).  These are the definitions the driver executes and the differential check compares with the real
handlers.

The full statements ("accepted ⇒ signed with the key of the proposer named in genesis") are **false** of the
current code: the node knows the proposer's ADDRESS only, compares it with the address the item CLAIMS, and
verifies the signature under the key the item CARRIES; nothing relates the carried key to the address
(`types.KeyAddress` is never consulted on the verifying side).  They are kept as `def … : Prop`, refuted on
kernel-checked witnesses built with the wire encoders, and proved under the explicit binding hypothesis a
repair has to establish.  What does hold at full strength — (a) bad signatures, (b) foreign proposer address,
(c) malformed signed data, (d) unaccepted material changes nothing — is proved without hypotheses. -/
namespace Spec.C03
open Wire Chain Retrieve

/-! ## first theorems (kept): what admission guarantees today -/

theorem classifyData_not_header (o : Oracle) (proposer bs : Bytes) (sh : SignedHeader) :
    classifyData o proposer bs ≠ .hdrAccepted sh := classifyData_not_hdrAccepted o proposer bs sh

/-- **What admission of a DA header guarantees today** (`_partial`): an accepted header names the genesis
proposer's address, carries a signer with that same address, and its signature verifies **under the key the blob
itself carries**.  Nothing relates that key to the address. -/
theorem admit_selfconsistent_partial (o : Oracle) (proposer bs : Bytes) (sh : SignedHeader)
    (h : classify o proposer bs = .hdrAccepted sh) :
    sh.header.proposerAddress = proposer ∧ sh.header.proposerAddress = sh.signer.address ∧
    sh.signer.pubKey ≠ [] ∧ o.hdrSigOk = true := by
  obtain ⟨_, hvb, hp⟩ := (classify_hdrAccepted_iff o proposer bs sh).1 h
  simp [validateBasicWire] at hvb
  exact ⟨hp, hvb.1.1.2, hvb.1.2, hvb.2⟩

/-- the same for signed data: accepted data names the proposer's address and verifies under the carried key -/
theorem admit_data_selfconsistent_partial (o : Oracle) (proposer bs : Bytes) (sd : SignedData)
    (h : classifyData o proposer bs = .dataAccepted sd) :
    sd.signer.address = proposer ∧ sd.signer.pubKey ≠ [] ∧ o.dataSigOk = true ∧ sd.data.txs ≠ [] := by
  obtain ⟨_, ht, _, hv⟩ := (classifyData_accepted_iff o proposer bs sd).1 h
  simp [validSignedData] at hv
  exact ⟨hv.1.1, hv.1.2, hv.2, ht⟩

/-- the same for the P2P path: an admitted header names the proposer's address, its signer claims that address,
it carries a signature and a key, and the signature verifies under the carried key -/
theorem admit_p2p_selfconsistent_partial (o : Oracle) (proposer : Bytes) (sh : SignedHeader)
    (h : p2pAdmit o proposer sh = true) :
    sh.header.proposerAddress = proposer ∧ sh.header.proposerAddress = sh.signer.address ∧
    sh.signature ≠ [] ∧ sh.signer.pubKey ≠ [] ∧ o.hdrSigOk = true := by
  simp [p2pAdmit, validateBasicWire] at h
  exact ⟨h.1, h.2.1.1.2, h.2.1.1.1.2, h.2.1.2, h.2.2⟩

/-- signed data reaching sync through the full DA classification went through the data test -/
theorem admit_data_via_classify (o : Oracle) (proposer bs : Bytes) (sd : SignedData)
    (h : classify o proposer bs = .dataAccepted sd) : classifyData o proposer bs = .dataAccepted sd :=
  ((classify_dataAccepted_iff o proposer bs sd).1 h).2.2.2

/-! ## the full statements, in the property's vocabulary -/

/-- "signed with the private key of the proposer named in genesis": the item carries the proposer's public key
and its signature verifies under the key it carries (`o.hdrSigOk` is the real ed25519 verification, run by the
harness on the carried key; unforgeability is the explicit cryptographic assumption) -/
def SignedByProposer (o : Oracle) (proposerKey : Bytes) (sh : SignedHeader) : Prop :=
  sh.signer.pubKey = proposerKey ∧ o.hdrSigOk = true

def DataSignedByProposer (o : Oracle) (proposerKey : Bytes) (sd : SignedData) : Prop :=
  sd.signer.pubKey = proposerKey ∧ o.dataSigOk = true

/-- the full statements are relative to the address derivation `addrOf` (genesis names
`addrOf proposerKey`); `keyAddress` models `types.KeyAddress` (SHA-256 over the key bytes) -/
def keyAddress (k : Bytes) : Bytes := sha256 k

/-- every header accepted from the DA layer is signed by the genesis proposer -/
def C03_header_full (addrOf : Bytes → Bytes) : Prop :=
  ∀ (o : Oracle) (proposerKey bs : Bytes) (sh : SignedHeader),
    classify o (addrOf proposerKey) bs = .hdrAccepted sh → SignedByProposer o proposerKey sh

/-- every signed-data blob accepted from the DA layer is signed by the genesis proposer -/
def C03_data_full (addrOf : Bytes → Bytes) : Prop :=
  ∀ (o : Oracle) (proposerKey bs : Bytes) (sd : SignedData),
    classify o (addrOf proposerKey) bs = .dataAccepted sd → DataSignedByProposer o proposerKey sd

/-- every header admitted from the P2P header store is signed by the genesis proposer -/
def C03_p2p_full (addrOf : Bytes → Bytes) : Prop :=
  ∀ (o : Oracle) (proposerKey : Bytes) (sh : SignedHeader),
    p2pAdmit o (addrOf proposerKey) sh = true → SignedByProposer o proposerKey sh

/-! ### witnesses: a self-consistent forgery under the proposer's address with a foreign key -/

/-- the genesis proposer's (marshalled ed25519) public key, and a third party's -/
def proposerKey : Bytes := [8, 1, 18, 32] ++ List.replicate 32 1
def foreignKey : Bytes := [8, 1, 18, 32] ++ List.replicate 32 2
/-- the address genesis names -/
def proposer : Bytes := keyAddress proposerKey
/-- the third party's key parses and verifies the third party's own signatures -/
def forgeO : Oracle := { keyOk := true, hdrSigOk := true, dataSigOk := true }
/-- a header naming the proposer's address, signed by the third party with ITS key, the signer claiming the
proposer's address -/
def forgedHeader : SignedHeader :=
  { header := { height := 1, time := 5, proposerAddress := proposer, chainId := "c" }, signature := [5, 5],
    signer := { address := proposer, pubKey := foreignKey } }
def forgedData : SignedData :=
  { data := { metadata := some { chainId := "c", height := 1, time := 5 }, txs := [[0xde, 0xad]] },
    signature := [6, 6], signer := { address := proposer, pubKey := foreignKey } }

/-- kernel-evaluated: the forged header blob is accepted by the DA path -/
theorem forged_header_accepted : classify forgeO proposer forgedHeader.encode = .hdrAccepted forgedHeader := by
  decide +kernel
/-- kernel-evaluated: the forged signed-data blob is accepted by the DA path -/
theorem forged_data_accepted : classify forgeO proposer forgedData.encode = .dataAccepted forgedData := by
  decide +kernel
/-- kernel-evaluated: the forged header is admitted by the P2P path -/
theorem forged_header_p2p_admitted : p2pAdmit forgeO proposer forgedHeader = true := by decide +kernel
/-- and it ends up marked DA-included and queued for sync -/
theorem forged_header_marked_and_queued :
    (handleBlobs proposer {} 7 [(forgedHeader.encode, forgeO)] []).1.hMarks = [(forgedHeader.header.hash, 7)] ∧
    (handleBlobs proposer {} 7 [(forgedHeader.encode, forgeO)] []).2.length = 1 := by decide +kernel

theorem C03_header_full_fails : ¬ C03_header_full keyAddress := by
  intro h
  have := (h forgeO proposerKey forgedHeader.encode forgedHeader forged_header_accepted).1
  revert this; decide

theorem C03_data_full_fails : ¬ C03_data_full keyAddress := by
  intro h
  have := (h forgeO proposerKey forgedData.encode forgedData forged_data_accepted).1
  revert this; decide

theorem C03_p2p_full_fails : ¬ C03_p2p_full keyAddress := by
  intro h
  have := (h forgeO proposerKey forgedHeader forged_header_p2p_admitted).1
  revert this; decide

/-- **The forgery is generic**: for EVERY address derivation and every proposer key whose address is non-empty
(and of a size a Go slice can have), and every other non-empty key `k'`, the header naming the proposer's
address with signer `{address := proposer's, pubKey := k'}` is accepted — on the DA path from its encoded
bytes, and on the P2P path.  So the full statements fail whatever `addrOf` is: nothing in the admission test
depends on it. -/
theorem forgery_accepted_for_any_derivation (addrOf : Bytes → Bytes) (k k' sig : Bytes) (hd : Header)
    (ha : addrOf k ≠ []) (hk' : k' ≠ []) (hsig : sig ≠ []) (hp : hd.proposerAddress = addrOf k)
    (hw : ({ header := hd, signature := sig, signer := { address := addrOf k, pubKey := k' } } : SignedHeader).WF) :
    classify { keyOk := true, hdrSigOk := true, dataSigOk := false } (addrOf k)
        ({ header := hd, signature := sig, signer := { address := addrOf k, pubKey := k' } } : SignedHeader).encode =
      .hdrAccepted { header := hd, signature := sig, signer := { address := addrOf k, pubKey := k' } } ∧
    p2pAdmit { keyOk := true, hdrSigOk := true, dataSigOk := false } (addrOf k)
      { header := hd, signature := sig, signer := { address := addrOf k, pubKey := k' } } = true := by
  have hv : validateBasicWire { keyOk := true, hdrSigOk := true, dataSigOk := false }
      { header := hd, signature := sig, signer := { address := addrOf k, pubKey := k' } } = true := by
    simp [validateBasicWire, hp, ha, hk', hsig]
  exact ⟨classify_encode_header _ _ _ hw rfl hv hp, by simp [p2pAdmit, hv, hp]⟩

theorem C03_header_full_fails_any (addrOf : Bytes → Bytes) (k : Bytes) (ha : addrOf k ≠ [])
    (hl : (addrOf k).length < 2 ^ 32) : ¬ C03_header_full addrOf := by
  intro h
  -- a short non-empty key different from `k`
  obtain ⟨k', hk'ne, hk'k, hk'len⟩ : ∃ k' : Bytes, k' ≠ [] ∧ k' ≠ k ∧ k'.length = 1 := by
    by_cases hk : k = [1]
    · exact ⟨[2], by simp, by rw [hk]; decide, rfl⟩
    · exact ⟨[1], by simp, fun he => hk he.symm, rfl⟩
  have hw : ({ header := { proposerAddress := addrOf k }, signature := [1],
               signer := { address := addrOf k, pubKey := k' } } : SignedHeader).WF := by
    apply SignedHeader.wf_of_sizes <;> simp [Version.WF, Header.payload, utf8] <;> omega
  exact hk'k (h _ k _ _ (forgery_accepted_for_any_derivation addrOf k k' [1] { proposerAddress := addrOf k }
    ha hk'ne (by simp) rfl hw).1).1

theorem C03_p2p_full_fails_any (addrOf : Bytes → Bytes) (k : Bytes) (ha : addrOf k ≠ []) : ¬ C03_p2p_full addrOf := by
  intro h
  obtain ⟨k', hk'ne, hk'k⟩ : ∃ k' : Bytes, k' ≠ [] ∧ k' ≠ k := by
    by_cases hk : k = [1]
    · exact ⟨[2], by simp, by rw [hk]; decide⟩
    · exact ⟨[1], by simp, fun he => hk he.symm⟩
  have hadm : p2pAdmit { keyOk := true, hdrSigOk := true, dataSigOk := false } (addrOf k)
      { header := { proposerAddress := addrOf k }, signature := [1], signer := { address := addrOf k, pubKey := k' } } = true := by
    simp [p2pAdmit, validateBasicWire, ha, hk'ne]
  exact hk'k (h _ k _ hadm).1

theorem C03_data_full_fails_any (addrOf : Bytes → Bytes) (k : Bytes)
    (hl : (addrOf k).length < 2 ^ 32) : ¬ C03_data_full addrOf := by
  intro h
  obtain ⟨k', hk'ne, hk'k, hk'len⟩ : ∃ k' : Bytes, k' ≠ [] ∧ k' ≠ k ∧ k'.length = 1 := by
    by_cases hk : k = [1]
    · exact ⟨[2], by simp, by rw [hk]; decide, rfl⟩
    · exact ⟨[1], by simp, fun he => hk he.symm, rfl⟩
  have hw : ({ data := { metadata := some {}, txs := [[1]] }, signature := [1],
               signer := { address := addrOf k, pubKey := k' } } : SignedData).WF := by
    have hs := Signer.encode_length_le { address := addrOf k, pubKey := k' }
    have h1 : ({ metadata := some {}, txs := [[1]] } : Data).WF := by decide +kernel
    have h2 : ({ metadata := some {}, txs := [[1]] } : Data).encode.length < 2 ^ 64 := by decide +kernel
    refine ⟨h1, h2, by simp, ⟨?_, ?_⟩, ?_⟩ <;> simp only at hs ⊢ <;> omega
  have hacc := classify_encode_data { keyOk := true, hdrSigOk := false, dataSigOk := true } (addrOf k)
    { data := { metadata := some {}, txs := [[1]] }, signature := [1], signer := { address := addrOf k, pubKey := k' } }
    hw rfl (by simp) rfl (by simp [validSignedData, hk'ne])
  exact hk'k (h _ k _ _ hacc).1

example : ¬ C03_header_full keyAddress :=
  C03_header_full_fails_any keyAddress proposerKey (by decide +kernel) (by decide +kernel)
example : ¬ C03_p2p_full id := C03_p2p_full_fails_any id [3] (by decide)
example : ¬ C03_data_full id := C03_data_full_fails_any id [3] (by decide)

/-! ## what does hold at full strength -/

/-! ### (a) an item whose signature does not verify under the key it carries is never accepted

This covers unsigned and garbage-signed copies of genuine items and mutated copies carrying the old signature:
for all of them the real verification — the oracle — answers `false`. -/

theorem bad_header_signature_never_accepted (o : Oracle) (p bs : Bytes) (sh : SignedHeader)
    (h : o.hdrSigOk = false) : classify o p bs ≠ .hdrAccepted sh := by
  intro hc
  have := (admit_selfconsistent_partial o p bs sh hc).2.2.2
  rw [h] at this; exact Bool.false_ne_true this
example : classify { forgeO with hdrSigOk := false, dataSigOk := false } proposer forgedHeader.encode = .ignored := by
  decide +kernel

theorem bad_data_signature_never_accepted (o : Oracle) (p bs : Bytes) (sd : SignedData)
    (h : o.dataSigOk = false) : classify o p bs ≠ .dataAccepted sd := by
  intro hc
  have := (admit_data_selfconsistent_partial o p bs sd (admit_data_via_classify o p bs sd hc)).2.2.1
  rw [h] at this; exact Bool.false_ne_true this
example : classify { forgeO with dataSigOk := false } proposer forgedData.encode = .ignored := by decide +kernel

/-- a header without a signature is never accepted, whatever the oracle says -/
theorem unsigned_header_never_accepted (o : Oracle) (p bs : Bytes) (sh : SignedHeader)
    (h : classify o p bs = .hdrAccepted sh) : sh.signature ≠ [] := by
  obtain ⟨_, hvb, _⟩ := (classify_hdrAccepted_iff o p bs sh).1 h
  simp [validateBasicWire] at hvb
  exact hvb.1.1.1.2
example : classify forgeO proposer ({ forgedHeader with signature := [] } : SignedHeader).encode = .ignored := by
  decide +kernel

/-- the same on the P2P path -/
theorem bad_signature_never_admitted_p2p (o : Oracle) (p : Bytes) (sh : SignedHeader)
    (h : o.hdrSigOk = false ∨ sh.signature = []) : p2pAdmit o p sh = false := by
  cases hadm : p2pAdmit o p sh with
  | false => rfl
  | true =>
    have := admit_p2p_selfconsistent_partial o p sh hadm
    rcases h with h | h
    · rw [h] at this; exact absurd this.2.2.2.2 Bool.false_ne_true
    · exact absurd h this.2.2.1
example : p2pAdmit { forgeO with hdrSigOk := false } proposer forgedHeader = false :=
  bad_signature_never_admitted_p2p _ _ _ (Or.inl rfl)

/-- hence such a blob is neither handed to sync nor marked -/
theorem unverifiable_blob_not_accepting (o : Oracle) (p b : Bytes) (h1 : o.hdrSigOk = false)
    (h2 : o.dataSigOk = false) : accepting (classify o p b) = false :=
  (accepting_eq_false_iff _).2 ⟨fun sh => bad_header_signature_never_accepted o p b sh h1,
    fun sd => bad_data_signature_never_accepted o p b sd h2⟩

/-! ### (b) a header naming another proposer address is never accepted -/

theorem foreign_proposer_header_never_accepted (o : Oracle) (p bs : Bytes) (sh : SignedHeader)
    (h : sh.header.proposerAddress ≠ p) : classify o p bs ≠ .hdrAccepted sh :=
  fun hc => h (admit_selfconsistent_partial o p bs sh hc).1

theorem foreign_proposer_header_never_admitted_p2p (o : Oracle) (p : Bytes) (sh : SignedHeader)
    (h : sh.header.proposerAddress ≠ p) : p2pAdmit o p sh = false := by
  cases hadm : p2pAdmit o p sh with
  | false => rfl
  | true => exact absurd (admit_p2p_selfconsistent_partial o p sh hadm).1 h
example : p2pAdmit forgeO [1, 2, 3] forgedHeader = false :=
  foreign_proposer_header_never_admitted_p2p _ _ _ (by decide +kernel)

/-- a self-consistent, correctly signed header of ANOTHER proposer is consumed as "unexpected sequencer": it is
not re-tried as data, not handed on, not marked -/
theorem foreign_proposer_header_consumed (o : Oracle) (p bs : Bytes) (sh : SignedHeader)
    (hs : headerStage o bs = .ok sh) (hv : validateBasicWire o sh = true) (h : sh.header.proposerAddress ≠ p) :
    classify o p bs = .hdrUnexpectedSequencer := by
  have hne : bs.isEmpty = false := by
    cases bs with
    | nil => exact absurd hs (headerStage_nil o sh)
    | cons a l => rfl
  simp [classify, hne, hs, hv, h]
example : classify forgeO [1, 2, 3] forgedHeader.encode = .hdrUnexpectedSequencer := by decide +kernel

/-! ### (c) signed data with a foreign signer address, no transactions or no metadata is never accepted -/

theorem malformed_data_never_accepted (o : Oracle) (p bs : Bytes) (sd : SignedData)
    (h : sd.signer.address ≠ p ∨ sd.data.txs = [] ∨ sd.data.metadata = none) :
    classify o p bs ≠ .dataAccepted sd := by
  intro hc
  have hcd := admit_data_via_classify o p bs sd hc
  have h1 := admit_data_selfconsistent_partial o p bs sd hcd
  have h2 := ((classifyData_accepted_iff o p bs sd).1 hcd).2.2.1
  rcases h with h | h | h
  · exact h h1.1
  · exact h1.2.2.2 h
  · rw [h] at h2; simp at h2
example : classify forgeO [1, 2, 3] forgedData.encode = .ignored ∧
    classify forgeO proposer ({ forgedData with data := { forgedData.data with txs := [] } } : SignedData).encode = .ignored ∧
    classify forgeO proposer ({ forgedData with data := { forgedData.data with metadata := none } } : SignedData).encode = .ignored := by
  decide +kernel

/-! ### (d) non-interference at the hand-off: material that is not accepted changes nothing -/

/-- **A blob that is not accepted changes nothing**, wherever it sits among the blobs of a DA height: the node
(marks, caches, cursor, crash flag) and the events handed to sync are those of the list without it. -/
theorem unaccepted_blob_changes_nothing (p : Bytes) (n : RNode) (da : Nat) (bs₁ bs₂ : List (Bytes × Oracle))
    (b : Bytes) (o : Oracle) (evs : List Event) (h : accepting (classify o p b) = false) :
    handleBlobs p n da (bs₁ ++ [(b, o)] ++ bs₂) evs = handleBlobs p n da (bs₁ ++ bs₂) evs :=
  handleBlobs_drop_unaccepted p n da bs₁ bs₂ (b, o) evs h
example : handleBlobs proposer {} 3 ([] ++ [([0xff, 0x01], forgeO)] ++ []) [] = handleBlobs proposer {} 3 ([] ++ []) [] :=
  unaccepted_blob_changes_nothing _ _ _ _ _ _ _ _ (by decide +kernel)

/-- any amount of it, interleaved in any way: the hand-off is that of the accepted blobs alone -/
theorem only_accepted_blobs_matter (p : Bytes) (n : RNode) (da : Nat) (bs : List (Bytes × Oracle)) (evs : List Event) :
    handleBlobs p n da bs evs = handleBlobs p n da (bs.filter fun b => accepting (classify b.2 p b.1)) evs :=
  handleBlobs_filter_accepted p n da bs evs

/-- in particular everything that fails signature verification under the key it carries — whatever its bytes —
can be deleted from the DA height without changing the node or what sync receives -/
theorem unverifiable_blob_changes_nothing (p : Bytes) (n : RNode) (da : Nat) (bs₁ bs₂ : List (Bytes × Oracle))
    (b : Bytes) (o : Oracle) (evs : List Event) (h1 : o.hdrSigOk = false) (h2 : o.dataSigOk = false) :
    handleBlobs p n da (bs₁ ++ [(b, o)] ++ bs₂) evs = handleBlobs p n da (bs₁ ++ bs₂) evs :=
  unaccepted_blob_changes_nothing p n da bs₁ bs₂ b o evs (unverifiable_blob_not_accepting o p b h1 h2)

/-- **Junk cannot halt the scan**: whether a DA height is passed, and after how many attempts, depends on the
fetch outcomes and on the NUMBER of blobs only — not on their bytes, the oracle answers, or the node. (Together
with `Spec.C09.no_blob_crashes_the_scan` and the totality of the classifier.) -/
theorem blob_contents_cannot_stall_the_scan (p p' : Bytes) (n n' : RNode) (blobs blobs' : List (Bytes × Oracle))
    (hl : blobs.length = blobs'.length) (fuel : Nat) (outs : List Fetch) (used : Nat) :
    (processNext p n blobs fuel outs used).2.2 = (processNext p' n' blobs' fuel outs used).2.2 :=
  processNext_verdict_length p p' n n' blobs blobs' hl fuel outs used
example : (processNext proposer {} [([0xff], forgeO)] 10 [.errIds] 0).2.2 = (true, 2) := by decide +kernel

/-! ### (e) the full statements under the binding a repair has to establish -/

/-- the carried key derives the address the signer claims — the comparison `KeyAddress(pubKey) = address` the
admission test does not make today -/
def KeyBoundToAddress (addrOf : Bytes → Bytes) (s : Signer) : Prop := addrOf s.pubKey = s.address

/-- the address derivation has no collisions (for `types.KeyAddress`: SHA-256 collision resistance) -/
def AddrNoCollision (addrOf : Bytes → Bytes) : Prop := ∀ k k', addrOf k = addrOf k' → k = k'

/-- **With the binding, all three full statements hold**: if the admission test additionally established that
the carried key derives the claimed address, every accepted header (DA and P2P) and every accepted signed-data
blob would carry the genesis proposer's key and verify under it. -/
theorem C03_full_under_binding (addrOf : Bytes → Bytes) (hinj : AddrNoCollision addrOf) (o : Oracle)
    (proposerKey : Bytes) :
    (∀ bs sh, classify o (addrOf proposerKey) bs = .hdrAccepted sh → KeyBoundToAddress addrOf sh.signer →
      SignedByProposer o proposerKey sh) ∧
    (∀ bs sd, classify o (addrOf proposerKey) bs = .dataAccepted sd → KeyBoundToAddress addrOf sd.signer →
      DataSignedByProposer o proposerKey sd) ∧
    (∀ sh, p2pAdmit o (addrOf proposerKey) sh = true → KeyBoundToAddress addrOf sh.signer →
      SignedByProposer o proposerKey sh) := by
  refine ⟨?_, ?_, ?_⟩
  · intro bs sh hc hb
    obtain ⟨h1, h2, _, h4⟩ := admit_selfconsistent_partial o _ bs sh hc
    exact ⟨hinj _ _ (by rw [hb, ← h2, h1]), h4⟩
  · intro bs sd hc hb
    obtain ⟨h1, _, h3, _⟩ := admit_data_selfconsistent_partial o _ bs sd (admit_data_via_classify o _ bs sd hc)
    exact ⟨hinj _ _ (by rw [hb, h1]), h3⟩
  · intro sh hc hb
    obtain ⟨h1, h2, _, _, h5⟩ := admit_p2p_selfconsistent_partial o _ sh hc
    exact ⟨hinj _ _ (by rw [hb, ← h2, h1]), h5⟩
/- non-vacuity: with the identity as (collision-free) derivation, a header whose carried key IS bound to the
claimed address is admitted and is the proposer's; the forged one violates the binding -/
def boundHeader : SignedHeader :=
  { header := { proposerAddress := [9] }, signature := [1], signer := { address := [9], pubKey := [9] } }
example : p2pAdmit forgeO (id [9]) boundHeader = true ∧
    KeyBoundToAddress id ({ address := [9], pubKey := [9] } : Signer) ∧ AddrNoCollision id ∧
    ¬ KeyBoundToAddress keyAddress forgedHeader.signer :=
  ⟨by decide, rfl, fun _ _ h => h, by unfold KeyBoundToAddress; decide +kernel⟩

end Spec.C03
